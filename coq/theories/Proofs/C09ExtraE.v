(* C09, fourth adequacy pass (seed C09-7).

   C09-7  ClientState::update_brokers drops (Vec::retain) the brokers a metadata response no longer lists.
          BrokerRefs are POSITIONS in the broker vector and only the topics contained in the response are
          re-resolved, so after a PARTIAL reload the partitions of every other topic point one broker further
          (or past the end).
          Props/C09.v before this file: C09_route_after_load / C09_*_requests_led speak about the topics the
          LAST response lists only (led_by is vacuous for any other topic), so the characteristic failure of the
          seed - a topic that was NOT reloaded is routed elsewhere - is not excluded by any of them.
          (C09_route_after_load is falsified by the mirrored change, but only through a corner: a response that
          names as leader a node it does not list as a broker while the client still knows that node; see the
          report / the scratch file mut7/Mut7.v.)
   Section A: what a metadata load leaves behind for the topics it does NOT mention: the same leader NODE, at
          the address the response gives for that node if it lists it, else at the address known before
          (C09_route_unlisted_topic); hence unchanged routing whenever the response does not move the leader
          (C09_route_unlisted_topic_same); the two-step history load / partial reload
          (C09_route_after_reload) and the request maps of fetch / offsets / produce after it
          (C09_*_requests_led_after_reload).
   Section B: the ADDRESSEE on the wire.  `wire` (C09ExtraB.v) says which frames a call writes but not to whom:
          its predicate does not see the host of the write events.  `awire` does: every write event of
          fetch_messages / produce_messages / fetch_offsets / list_offsets belongs to a send, TO HOST h, of the
          complete frame of the request the call built FOR h (C09_fetch_messages_addressed,
          C09_internal_produce_addressed, C09_produce_messages_addressed, C09_fetch_offsets_addressed,
          C09_list_offsets_addressed - the last two also close the "not done" item of C09ExtraC.v), and every
          partition named in a frame written to h is one find_broker maps to h
          (C09_fetch_messages_wire_led).  Histories: a partial reload followed by fetch_messages
          (C09_reload_then_fetch_wire).
   Everything is about the unchanged model; no axioms. *)
From Coq Require Import ZifyBool Sorted Permutation.
From KV Require Import Base.Prelude Gen.Consts Model.Codecs Model.Requests Model.Responses
                       Model.ClientState Model.Net Model.Client.
From KV Require Import Proofs.BytesFacts Proofs.NetFacts Proofs.C06Facts Proofs.C06Extra Proofs.C09Facts Proofs.C09Extra
                       Proofs.C09Extra2 Proofs.C09ExtraB Proofs.C09ExtraC.

(* ================================================================================================ *)
(* A. topics a metadata response does not mention (seed C09-7)                                       *)
(* ================================================================================================ *)

(* the NODE ID of the broker the state routes (t, p) to, read off the concrete state: the partition's
   BrokerRef, looked up in the broker vector *)
Definition leader_node (s : cstate) (t : bytes) (p : Z) : option Z :=
  match partitions_for s t with
  | Some ps => match partition_ref ps p with
               | Some r => option_map b_node (broker_of s r)
               | None => None
               end
  | None => None
  end.

Lemma leader_node_abs s t p : leader_node s t p = leader_of (abs s) t p.
Proof.
  unfold leader_node, leader_of, abs, partitions_for, partition_ref, broker_of. cbn [a_topics]. unfold abs_tps.
  rewrite (assoc_bytes_map (map (ref_node (brokers s)))).
  destruct (assoc_bytes t (topic_partitions s)) as [ps|]; cbn [option_map]; [|reflexivity].
  rewrite nth_z_map. destruct (nth_z ps p) as [r|]; cbn [option_map]; [|reflexivity].
  unfold ref_node. destruct (nth_z (brokers s) r) as [b|]; reflexivity.
Qed.

(* find_broker is: the address of the leader node *)
Lemma find_broker_leader_node s t p : C06Facts.inv s ->
  find_broker s t p = match leader_node s t p with Some l => assoc_z l (map bpair (brokers s)) | None => None end.
Proof. intros Hinv. rewrite (C06_routing' s t p Hinv), route_leader, leader_node_abs. reflexivity. Qed.

Lemma last_topic_none : forall tms t, last_topic tms t = None -> ~ In t (map tm_topic tms).
Proof.
  induction tms as [|tm tms IH]; intros t H; cbn [last_topic map In] in *; [tauto|].
  destruct (last_topic tms t) eqn:E; [discriminate|].
  destruct (bytes_eqb (tm_topic tm) t) eqn:E1; [discriminate|]. beq. intros [H1|H1]; [exact (E1 H1)|].
  exact (IH t E H1).
Qed.

(* After a metadata response was folded into the state, a topic the response does NOT list keeps, for every
   partition id, its leader NODE; the request goes to the address the response lists for that node or, if it
   does not list the node, to the address known before.  No well-formedness of the response is needed.
   [seed C09-7: the node changes - the reference is a position and the vector was compacted] *)
Theorem C09_route_unlisted_topic : forall s md s' t p,
  C06Facts.inv s -> small s' -> update_metadata s md = Ok s' -> last_topic (md_topics md) t = None ->
  leader_node s' t p = leader_node s t p /\
  find_broker s' t p = match leader_node s t p with Some l => host_of_node s md l | None => None end.
Proof.
  intros s md s' t p Hinv Hsm Hupd Hlast.
  pose proof (C06_inv_step s md s' Hinv Hupd) as Hinv'.
  pose proof (C06_stable_indices s md s' t p Hinv Hsm Hupd (last_topic_none _ _ Hlast)) as Hst.
  rewrite <- !leader_node_abs in Hst. split; [exact Hst|].
  rewrite (find_broker_leader_node s' t p Hinv'), Hst.
  destruct (leader_node s t p) as [l|]; [|reflexivity].
  change (map bpair (brokers s')) with (a_host (abs s')).
  rewrite (C06_refines_code s md s' Hinv Hsm Hupd).
  change (a_host (merge_code (abs s) md)) with (a_host (merge (abs s) md)).
  rewrite C06_merge_host_lookup. reflexivity.
Qed.

(* ... in particular: unless the response re-advertises the leader of (t, p) at ANOTHER address, the routing of
   a topic it does not list is exactly what it was - whichever brokers the response lists or no longer lists *)
Theorem C09_route_unlisted_topic_same : forall s md s' t p,
  C06Facts.inv s -> small s' -> update_metadata s md = Ok s' -> last_topic (md_topics md) t = None ->
  (forall l m, leader_node s t p = Some l -> last_broker (md_brokers md) l = Some m ->
               find_broker s t p = Some (host_port (bm_host m) (bm_port m))) ->
  find_broker s' t p = find_broker s t p.
Proof.
  intros s md s' t p Hinv Hsm Hupd Hlast Hsame.
  rewrite (proj2 (C09_route_unlisted_topic s md s' t p Hinv Hsm Hupd Hlast)).
  rewrite (find_broker_leader_node s t p Hinv) in *.
  destruct (leader_node s t p) as [l|]; [|reflexivity]. unfold host_of_node.
  destruct (last_broker (md_brokers md) l) as [m|] eqn:E; [|reflexivity].
  symmetry. exact (Hsame l m eq_refl E).
Qed.

(* converse: a topic the response does not list is routed somewhere after the load ONLY IF it was routed before
   (a load never gives a leader to a partition of a topic it does not mention) *)
Theorem C09_route_unlisted_topic_only_if : forall s md s' t p host,
  C06Facts.inv s -> small s' -> update_metadata s md = Ok s' -> last_topic (md_topics md) t = None ->
  find_broker s' t p = Some host -> exists host0, find_broker s t p = Some host0.
Proof.
  intros s md s' t p host Hinv Hsm Hupd Hlast H.
  rewrite (proj2 (C09_route_unlisted_topic s md s' t p Hinv Hsm Hupd Hlast)) in H.
  rewrite (find_broker_leader_node s t p Hinv).
  destruct (leader_node s t p) as [l|] eqn:El; [|discriminate].
  (* a leader node read off the state is a broker of the state *)
  unfold leader_node in El. destruct (partitions_for s t) as [ps|]; [|discriminate].
  destruct (partition_ref ps p) as [r|]; [|discriminate]. unfold broker_of in El.
  destruct (nth_z (brokers s) r) as [b|] eqn:Eb; [|discriminate]. injection El as <-.
  apply nth_z_some in Eb. destruct Eb as [_ Eb]. destruct Hinv as (Hnd & _).
  exists (b_host b). eapply assoc_bpair; eauto.
Qed.

(* ---- the two-step history: load, then a reload that does not mention the topic ---------------------- *)
Lemma nth_z_leader_vec_gen {X} (g : Z -> option X) h pms p :
  wf_topic {| tm_error := 0; tm_topic := []; tm_partitions := pms |} ->
  match nth_z (leader_vec h pms) p with Some (Some l) => g l | _ => None end
  = match listed_leader pms p with
    | Some l => match assoc_z l h with Some _ => g l | None => None end
    | None => None
    end.
Proof.
  unfold wf_topic. cbn [tm_partitions]. intros Hwf. unfold leader_vec. rewrite nth_z_map.
  destruct (nth_z (iota_z (length pms) 0) p) as [i|] eqn:E; cbn [option_map].
  - apply nth_z_some in E. destruct E as [H0 E].
    assert (Hlt : (Z.to_nat p < length (iota_z (length pms) 0))%nat) by (apply nth_error_Some; congruence).
    rewrite iota_length in Hlt. rewrite iota_nth in E by exact Hlt. injection E as <-.
    rewrite ?Z.add_0_l. replace (Z.of_nat (Z.to_nat p)) with p by lia.
    destruct (listed_leader pms p) as [l|]; [|reflexivity].
    unfold known_leader, known. destruct (assoc_z l h); reflexivity.
  - destruct (listed_leader pms p) as [l|] eqn:EL; [|reflexivity]. exfalso.
    apply listed_leader_in in EL. destruct EL as (pm & Hin & Hid & _).
    assert (Hp : In p (iota_z (length pms) 0)).
    { eapply Permutation_in; [exact Hwf|]. rewrite <- Hid. apply in_map. exact Hin. }
    apply iota_in in Hp. unfold nth_z, ulen in E. rewrite iota_length in E.
    destruct ((p <? 0) || (Z.of_nat (length pms) <=? p)) eqn:E2; [lia|].
    apply nth_error_None in E. rewrite iota_length in E. lia.
Qed.

(* the leader node a load records for a topic it lists: the one listed under that partition id, provided the
   client has an address for it at that moment *)
Theorem C09_leader_node_after_load : forall s md s' t tm p,
  C06Facts.inv s -> wf_md md -> small s' -> update_metadata s md = Ok s' ->
  last_topic (md_topics md) t = Some tm ->
  leader_node s' t p = match listed_leader (tm_partitions tm) p with
                       | Some l => match host_of_node s md l with Some _ => Some l | None => None end
                       | None => None
                       end.
Proof.
  intros s md s' t tm p Hinv Hwf Hsm Hupd Hlast.
  rewrite leader_node_abs, (C06_refines s md s' Hinv Hwf Hsm Hupd). unfold leader_of.
  rewrite C06_merge_topic_lookup, Hlast.
  rewrite (nth_z_leader_vec_gen (fun l => Some l)) by exact (wf_md_last_topic _ _ _ Hwf Hlast).
  destruct (listed_leader (tm_partitions tm) p) as [l|]; [|reflexivity].
  rewrite C06_merge_host_lookup. reflexivity.
Qed.

(* load_metadata_all / load_metadata(..) answered by md1, then a (partial) reload answered by md2 that does not
   mention topic t: requests for (t, p) go to the node md1 listed as leader under partition id p - wherever the
   SECOND response says that node lives, if it lists it at all, else where it lived after the first.
   [seed C09-7: with brokers 1,2,3 loaded and md2 listing 2,3 only, the node changes from 3 to nobody, 2 to 3] *)
Theorem C09_route_after_reload : forall s0 md1 s1 md2 s2 t tm p,
  C06Facts.inv s0 -> wf_md md1 -> small s1 -> small s2 ->
  update_metadata s0 md1 = Ok s1 -> update_metadata s1 md2 = Ok s2 ->
  last_topic (md_topics md1) t = Some tm -> last_topic (md_topics md2) t = None ->
  find_broker s2 t p = match listed_leader (tm_partitions tm) p with
                       | Some l => match host_of_node s0 md1 l with
                                   | Some _ => host_of_node s1 md2 l
                                   | None => None
                                   end
                       | None => None
                       end.
Proof.
  intros s0 md1 s1 md2 s2 t tm p Hinv Hwf Hsm1 Hsm2 Hu1 Hu2 Hl1 Hl2.
  pose proof (C06_inv_step s0 md1 s1 Hinv Hu1) as Hinv1.
  rewrite (proj2 (C09_route_unlisted_topic s1 md2 s2 t p Hinv1 Hsm2 Hu2 Hl2)).
  rewrite (C09_leader_node_after_load s0 md1 s1 t tm p Hinv Hwf Hsm1 Hu1 Hl1).
  destruct (listed_leader (tm_partitions tm) p) as [l|]; [|reflexivity].
  destruct (host_of_node s0 md1 l); reflexivity.
Qed.

(* a (topic, partition) entry of a request for `host`, built after load md1 + reload md2 (t not in md2), is there
   because md1 lists, under that partition id, a leader node whose address (per md2, else as known after md1)
   is `host` *)
Definition led_by_history (s1 : cstate) (md1 md2 : metadata_resp) (t : bytes) (p : Z) (host : bytes) : Prop :=
  forall tm, last_topic (md_topics md1) t = Some tm -> last_topic (md_topics md2) t = None ->
    exists pm, In pm (tm_partitions tm) /\ pm_id pm = p /\ host_of_node s1 md2 (pm_leader pm) = Some host.

Lemma find_broker_led_by_history s0 md1 s1 md2 s2 t p host :
  C06Facts.inv s0 -> wf_md md1 -> small s1 -> small s2 ->
  update_metadata s0 md1 = Ok s1 -> update_metadata s1 md2 = Ok s2 ->
  find_broker s2 t p = Some host -> led_by_history s1 md1 md2 t p host.
Proof.
  intros Hinv Hwf Hsm1 Hsm2 Hu1 Hu2 Hf tm Hl1 Hl2.
  rewrite (C09_route_after_reload s0 md1 s1 md2 s2 t tm p Hinv Hwf Hsm1 Hsm2 Hu1 Hu2 Hl1 Hl2) in Hf.
  destruct (listed_leader (tm_partitions tm) p) as [l|] eqn:E; [|discriminate].
  destruct (listed_leader_in _ _ _ E) as (pm & Hin & Hid & Hl). exists pm. rewrite Hl.
  destruct (host_of_node s0 md1 l); [auto|discriminate].
Qed.

Theorem C09_fetch_requests_led_after_reload : forall s0 md1 s1 md2 (c : client) input host tps t ps p x,
  C06Facts.inv s0 -> wf_md md1 -> small s1 -> small (cs c) ->
  update_metadata s0 md1 = Ok s1 -> update_metadata s1 md2 = Ok (cs c) ->
  In (host, tps) (fetch_reqs c input) -> In (t, ps) tps -> In (p, x) ps -> led_by_history s1 md1 md2 t p host.
Proof.
  intros s0 md1 s1 md2 c input host tps t ps p x Hinv Hwf Hsm1 Hsm2 Hu1 Hu2 H1 H2 H3.
  eapply find_broker_led_by_history; eauto. eapply C06_fetch_addressed; eauto.
Qed.

Theorem C09_offset_requests_led_after_reload : forall s0 md1 s1 md2 s2 topics time host tps t ps p x,
  C06Facts.inv s0 -> wf_md md1 -> small s1 -> small s2 ->
  update_metadata s0 md1 = Ok s1 -> update_metadata s1 md2 = Ok s2 ->
  In (host, tps) (offset_reqs s2 topics time) -> In (t, ps) tps -> In (p, x) ps -> led_by_history s1 md1 md2 t p host.
Proof.
  intros s0 md1 s1 md2 s2 topics time host tps t ps p x Hinv Hwf Hsm1 Hsm2 Hu1 Hu2 H1 H2 H3.
  eapply find_broker_led_by_history; eauto. eapply C06_leaderless_never_addressed; eauto.
Qed.

Theorem C09_produce_requests_led_after_reload : forall s0 md1 s1 md2 s2 msgs reqs host tps t ps p x,
  C06Facts.inv s0 -> wf_md md1 -> small s1 -> small s2 ->
  update_metadata s0 md1 = Ok s1 -> update_metadata s1 md2 = Ok s2 ->
  produce_reqs s2 msgs [] = Some reqs ->
  In (host, tps) reqs -> In (t, ps) tps -> In (p, x) ps -> led_by_history s1 md1 md2 t p host.
Proof.
  intros s0 md1 s1 md2 s2 msgs reqs host tps t ps p x Hinv Hwf Hsm1 Hsm2 Hu1 Hu2 H0 H1 H2 H3.
  eapply find_broker_led_by_history; eauto. eapply C06_produce_addressed; eauto.
Qed.

(* ---- the seeded demonstration ------------------------------------------------------------------------ *)
(* full load: brokers 1, 2, 3; "orders" p0,p1,p2 led by 1,2,3; "audit" p0,p1 led by 3,2.
   Then broker 1 leaves and "orders" alone is reloaded: brokers 2, 3; orders p0,p1,p2 led by 2,2,3. *)
Definition exE_md1 : metadata_resp :=
  {| md_corr := 1;
     md_brokers := [ex_bm 1 (tag "b1") 9092; ex_bm 2 (tag "b2") 9092; ex_bm 3 (tag "b3") 9092];
     md_topics := [ex_tm (tag "orders") [ex_pm 0 1; ex_pm 1 2; ex_pm 2 3];
                   ex_tm (tag "audit") [ex_pm 0 3; ex_pm 1 2]] |}.
Definition exE_md2 : metadata_resp :=
  {| md_corr := 2;
     md_brokers := [ex_bm 2 (tag "b2") 9092; ex_bm 3 (tag "b3") 9092];
     md_topics := [ex_tm (tag "orders") [ex_pm 0 2; ex_pm 1 2; ex_pm 2 3]] |}.
Definition exE_s1 : cstate := ex_load cstate_new exE_md1.
Definition exE_s2 : cstate := ex_load exE_s1 exE_md2.

Example exE_wf_md1 : wf_md exE_md1.
Proof. constructor; [|constructor; [|constructor]]; unfold wf_topic; cbn; apply Permutation_refl. Qed.

Example C09_route_unlisted_topic_ex :
  C06Facts.inv exE_s1 /\ small exE_s2 /\ update_metadata exE_s1 exE_md2 = Ok exE_s2 /\
  last_topic (md_topics exE_md2) (tag "audit") = None /\
  leader_node exE_s1 (tag "audit") 0 = Some 3 /\ leader_node exE_s1 (tag "audit") 1 = Some 2 /\
  leader_node exE_s2 (tag "audit") 0 = Some 3 /\ leader_node exE_s2 (tag "audit") 1 = Some 2 /\
  find_broker exE_s2 (tag "audit") 0 = Some (tag "b3:9092") /\
  find_broker exE_s2 (tag "audit") 1 = Some (tag "b2:9092") /\
  find_broker exE_s2 (tag "orders") 0 = Some (tag "b2:9092") /\          (* the reloaded topic follows md2 *)
  map b_node (brokers exE_s2) = [1; 2; 3].                                (* nothing is forgotten *)
Proof.
  split; [apply (C06_inv_step cstate_new exE_md1); [apply C06_inv_init|vm_compute; reflexivity]|].
  vm_compute. repeat split; try reflexivity. discriminate.
Qed.

(* the hypothesis of C09_route_unlisted_topic_same on the demonstration: md2 lists nodes 2 and 3 where they were *)
Example C09_route_unlisted_topic_same_ex : forall p l m,
  leader_node exE_s1 (tag "audit") p = Some l -> last_broker (md_brokers exE_md2) l = Some m ->
  find_broker exE_s1 (tag "audit") p = Some (host_port (bm_host m) (bm_port m)).
Proof.
  intros p l m Hl Hm.
  assert (Hp : p = 0 \/ p = 1 \/ leader_node exE_s1 (tag "audit") p = None).
  { destruct (Z.eq_dec p 0) as [->|N0]; [auto|]. destruct (Z.eq_dec p 1) as [->|N1]; [auto|]. right; right.
    unfold leader_node. change (partitions_for exE_s1 (tag "audit")) with (Some [2; 1]).
    unfold partition_ref, nth_z. change (ulen [2; 1]) with 2.
    destruct ((p <? 0) || (2 <=? p)) eqn:E; [reflexivity|].
    assert (p = 0 \/ p = 1) by lia. tauto. }
  destruct Hp as [->|[->|Hn]]; [| |congruence].
  - vm_compute in Hl. injection Hl as <-. vm_compute in Hm. injection Hm as <-. vm_compute. reflexivity.
  - vm_compute in Hl. injection Hl as <-. vm_compute in Hm. injection Hm as <-. vm_compute. reflexivity.
Qed.

Example C09_route_after_reload_ex :
  update_metadata cstate_new exE_md1 = Ok exE_s1 /\ small exE_s1 /\
  last_topic (md_topics exE_md1) (tag "audit") = Some (ex_tm (tag "audit") [ex_pm 0 3; ex_pm 1 2]) /\
  fetch_reqs {| cfg := default_config []; cs := exE_s2; conns := [] |}
             [ {| fq_topic := tag "audit"; fq_partition := 0; fq_offset := 80; fq_max_bytes := 0 |};
               {| fq_topic := tag "audit"; fq_partition := 1; fq_offset := 81; fq_max_bytes := 0 |};
               {| fq_topic := tag "orders"; fq_partition := 0; fq_offset := 60; fq_max_bytes := 0 |} ]
  = [ (tag "b3:9092", [(tag "audit", [(0, (80, 32768))])]);
      (tag "b2:9092", [(tag "audit", [(1, (81, 32768))]); (tag "orders", [(0, (60, 32768))])]) ] /\
  offset_reqs exE_s2 [tag "audit"] (-2)
  = [ (tag "b3:9092", [(tag "audit", [(0, -2)])]); (tag "b2:9092", [(tag "audit", [(1, -2)])]) ] /\
  produce_reqs exE_s2 [ {| pq_topic := tag "audit"; pq_partition := 0; pq_key := None; pq_value := Some (tag "v") |} ] []
  = Some [ (tag "b3:9092", [(tag "audit", [(0, [(None, Some (tag "v"))])])]) ].
Proof. vm_compute. repeat split; try reflexivity. discriminate. Qed.


(* ================================================================================================ *)
(* B. the addressee on the wire                                                                      *)
(* ================================================================================================ *)

(* `awire_ok F ops`: like wire_ok (C09ExtraB.v), but the predicate sees the HOST: the events consist of events
   that are not writes and of sends - chains of writes TO h whose first offer is a complete frame f with F h f *)
Inductive awire_ok (F : bytes -> bytes -> Prop) : list ev_op -> Prop :=
| AO_nil : awire_ok F []
| AO_other e ops : not_write e -> awire_ok F ops -> awire_ok F (e :: ops)
| AO_send h f l ops : F h f -> chain h f l -> awire_ok F ops -> awire_ok F (l ++ ops).

Lemma awire_ok_app F a b : awire_ok F a -> awire_ok F b -> awire_ok F (a ++ b).
Proof.
  induction 1 as [|e ops Hn Ha IH|h f l ops Hf Hc Ha IH]; intros Hb.
  - exact Hb.
  - cbn [app]. apply AO_other; [exact Hn|apply IH; exact Hb].
  - rewrite <- app_assoc. eapply AO_send; [exact Hf|exact Hc|apply IH; exact Hb].
Qed.
Lemma awire_ok_quiet F ops : Forall not_write ops -> awire_ok F ops.
Proof. induction 1 as [|e ops He Ho IH]; [constructor|apply AO_other; assumption]. Qed.
Lemma awire_ok_mono (F G : bytes -> bytes -> Prop) ops : (forall h f, F h f -> G h f) -> awire_ok F ops -> awire_ok G ops.
Proof.
  intros HFG. induction 1 as [|e ops Hn Ha IH|h f l ops Hf Hc Ha IH];
    [constructor|apply AO_other; assumption|eapply AO_send; [apply HFG; exact Hf|exact Hc|exact IH]].
Qed.
Lemma awire_ok_plain F ops : awire_ok F ops -> wire_ok (fun f => exists h, F h f) ops.
Proof.
  induction 1 as [|e ops Hn Ha IH|h f l ops Hf Hc Ha IH];
    [constructor|apply WO_other; assumption|eapply WO_send; [exists h; exact Hf|exact Hc|exact IH]].
Qed.

(* how to read awire_ok: the first write after any number of non-writes offers, to host h, a complete frame
   of F h ... *)
Theorem C09_awire_ok_first : forall F ops, awire_ok F ops ->
  forall pre h b post, ops = pre ++ EWrite h b :: post -> Forall not_write pre -> F h b.
Proof.
  intros F ops H. induction H as [|e ops Hn Ha IH|h0 f l ops Hf Hc Ha IH]; intros pre h b post E Hp.
  - destruct pre; discriminate E.
  - destruct pre as [|p pre]; cbn [app] in E.
    + injection E as E1 E2. subst e. contradiction.
    + injection E as E1 E2. inversion Hp; subst. eapply IH; [reflexivity|assumption].
  - destruct (chain_head _ _ _ Hc) as [l' ->]. destruct pre as [|p pre]; cbn [app] in E.
    + injection E as E1 E2 E3. subst. exact Hf.
    + injection E as E1 E2. inversion Hp; subst. contradiction.
Qed.

(* ... and every write to host h offers a non-empty suffix of a frame of F h *)
Theorem C09_awire_ok_writes : forall F ops, awire_ok F ops -> (forall h f, F h f -> f <> []) ->
  Forall (fun e => forall h b, e = EWrite h b -> b <> [] /\ exists f pre, F h f /\ f = pre ++ b) ops.
Proof.
  intros F ops H HF. induction H as [|e ops Hn Ha IH|h0 f l ops Hf Hc Ha IH].
  - constructor.
  - constructor; [|exact IH]. intros h b ->. contradiction.
  - apply Forall_app. split; [|exact IH].
    eapply Forall_impl; [|apply (chain_suffix _ _ _ Hc (HF h0 f Hf))].
    intros e (b0 & pre & -> & E & N) h b Eb. injection Eb as <- <-. split; [exact N|]. exists f, pre. split; assumption.
Qed.

Definition awire (F : bytes -> bytes -> Prop) (s s' : st) : Prop :=
  ext s s' /\ cfg (cl s') = cfg (cl s) /\ env s' = env s /\ awire_ok F (performed s s').

(* the host-blind statement follows *)
Lemma awire_plain F s s' : awire F s s' -> wire (fun f => exists h, F h f) s s'.
Proof. intros (E & C & V & W). repeat split; try assumption. apply awire_ok_plain. exact W. Qed.

Lemma preorder_awire (F : bytes -> bytes -> Prop) : preorder (awire F).
Proof.
  split.
  - intros s. split; [apply ext_refl|]. split; [reflexivity|]. split; [reflexivity|]. rewrite performed_refl. constructor.
  - intros s s1 s2 (E1 & C1 & V1 & W1) (E2 & C2 & V2 & W2). split; [eapply ext_trans; eassumption|].
    split; [congruence|]. split; [congruence|]. rewrite (performed_app _ _ _ E1 E2). apply awire_ok_app; assumption.
Qed.
Lemma awire_mono (F G : bytes -> bytes -> Prop) s s' : (forall h f, F h f -> G h f) -> awire F s s' -> awire G s s'.
Proof. intros HFG (E & C & V & W). repeat split; try assumption. eapply awire_ok_mono; eassumption. Qed.
Lemma awire_of_quiet (F : bytes -> bytes -> Prop) s s' : quiet s s' -> awire F s s'.
Proof. intros [[C V] [E O]]. split; [exact E|]. split; [exact C|]. split; [exact V|]. apply awire_ok_quiet, O. Qed.

Lemma aw_send_request (F : bytes -> bytes -> Prop) h payload :
  (forall p, payload = Ok p -> F h (frame p)) -> keeps (awire F) (send_request h payload).
Proof.
  intros HF s r s' H. destruct payload as [p|e|w].
  - destruct (C09_send_request_wire _ _ _ _ _ H) as ((_ & _ & _ & _ & C & V) & Hc & _).
    split; [eapply tracks_ext; [apply tracks_send_request|exact H]|]. rewrite C. split; [reflexivity|]. split; [exact V|].
    rewrite <- (app_nil_r (performed s s')). eapply AO_send; [apply HF; reflexivity|exact Hc|constructor].
  - destruct (C09_send_request_unencodable h s) as [Hu _]. rewrite Hu in H. inversion H; subst. apply preorder_awire.
  - destruct (C09_send_request_unencodable h s) as [_ Hu]. rewrite Hu in H. inversion H; subst. apply preorder_awire.
Qed.
Lemma aw_quiet (F : bytes -> bytes -> Prop) {A} (m : M A) : keeps quiet m -> keeps (awire F) m.
Proof. intros K s r s' H. apply awire_of_quiet. eapply K; exact H. Qed.
Lemma aw_send_receive (F : bytes -> bytes -> Prop) {A} (d : dec A) h payload :
  (forall p, payload = Ok p -> F h (frame p)) -> keeps (awire F) (send_receive d h payload).
Proof.
  intros HF. apply keeps_bind; [apply preorder_awire|apply aw_quiet, q_get_conn|]. intros _.
  apply keeps_bind; [apply preorder_awire|apply aw_send_request, HF|]. intros _. apply aw_quiet, q_get_response.
Qed.

(* threading the settings, as C09ExtraB.inv *)
Definition ainv (c0 : config) (e0 : codecs) (F : bytes -> bytes -> Prop) (s s' : st) : Prop :=
  cfg (cl s) = c0 -> env s = e0 -> awire F s s'.
Lemma preorder_ainv c0 e0 (F : bytes -> bytes -> Prop) : preorder (ainv c0 e0 F).
Proof.
  split.
  - intros s _ _. apply preorder_awire.
  - intros s s1 s2 H1 H2 C V. pose proof (H1 C V) as W1. destruct W1 as (E1 & C1 & V1 & _).
    eapply (proj2 (preorder_awire F)); [apply H1; assumption|apply H2; congruence].
Qed.
Lemma ainv_of_wire c0 e0 (F : bytes -> bytes -> Prop) {A} (m : M A) : keeps (awire F) m -> keeps (ainv c0 e0 F) m.
Proof. intros K s r s' H _ _. eapply K; exact H. Qed.
Lemma ainv_get_client c0 e0 (F : bytes -> bytes -> Prop) {A} (k : client -> M A) :
  (forall c, cfg c = c0 -> keeps (ainv c0 e0 F) (k c)) -> keeps (ainv c0 e0 F) (mbind get_client k).
Proof. intros Hk s r s' H C V. exact (Hk (cl s) C s r s' H C V). Qed.
Lemma ainv_get_env c0 e0 (F : bytes -> bytes -> Prop) {A} (k : codecs -> M A) :
  keeps (ainv c0 e0 F) (k e0) -> keeps (ainv c0 e0 F) (mbind get_env k).
Proof. intros Hk s r s' H C V. unfold mbind, get_env in H. rewrite V in H. exact (Hk s r s' H C V). Qed.
Lemma ainv_mono c0 e0 (F G : bytes -> bytes -> Prop) {A} (m : M A) :
  (forall h f, F h f -> G h f) -> keeps (ainv c0 e0 F) m -> keeps (ainv c0 e0 G) m.
Proof. intros HFG K s r s' H C V. eapply awire_mono; [exact HFG|]. exact (K s r s' H C V). Qed.

Lemma ainv_ordered_then c0 e0 (F : bytes -> bytes -> Prop) {V B} (reqs : list (bytes * V)) (k : list (bytes * V) -> M B) :
  (forall reqs', (forall y, In y reqs' -> In y reqs) -> keeps (ainv c0 e0 F) (k reqs')) ->
  keeps (ainv c0 e0 F) (mbind (ordered reqs) k).
Proof.
  intros Hk. unfold ordered. destruct reqs as [|x l].
  - intros s r s' H. rewrite (mbind_ok (ret []) k s [] s eq_refl) in H.
    eapply Hk; [|exact H]. intros y Hy; exact Hy.
  - intros s r s' H C V0.
    destruct (pop_hosts s) as [ro s1] eqn:E.
    assert (Q : quiet s s1) by (eapply q_pop_hosts; exact E).
    assert (Ho : exists o, ro = Ok o)
      by (unfold pop_hosts in E; destruct (hostq s); inversion E; eexists; reflexivity).
    destruct Ho as [o ->].
    assert (E2 : mbind pop_hosts (fun o => ret (reorder o (x :: l))) s = (Ok (reorder o (x :: l)), s1))
      by (unfold mbind at 1; rewrite E; reflexivity).
    rewrite (mbind_ok _ _ _ _ _ E2) in H.
    eapply (proj2 (preorder_awire F)); [apply awire_of_quiet; exact Q|].
    destruct Q as [[C1 V1] _].
    eapply (Hk (reorder o (x :: l))); [intros y Hy; eapply reorder_in; exact Hy|exact H|congruence|congruence].
Qed.

Lemma awire_bump (F : bytes -> bytes -> Prop) x : awire F x (bump x).
Proof. apply awire_of_quiet, q_bump. Qed.

(* ---- the frames a call may write TO HOST h --------------------------------------------------------- *)
(* fetch: the Fetch request of the entry OF h in the request map (its entries possibly in the observed HashMap
   order), with the call's id, the configured client id, max wait time and min bytes *)
Definition AFF (c0 : config) (corr : Z) (reqs : list (bytes * fetch_tps)) (h f : bytes) : Prop :=
  exists tps tps', In (h, tps) reqs /\ (tps' = tps \/ exists o, tps' = order_fetch o tps) /\
    FR (enc_fetch_req corr (Net.client_id c0) (fetch_max_wait_time c0) (fetch_min_bytes c0) tps') f.
(* produce: the Produce request of the entry of h *)
Definition AFP (e0 : codecs) (c0 : config) (corr acks timeout : Z) (reqs : list (bytes * produce_tps)) (h f : bytes) : Prop :=
  exists tps, In (h, tps) reqs /\
    FR (enc_produce_req e0 corr (Net.client_id c0) acks timeout (compression c0) tps) f.
(* offsets by time / list offsets: the request of the entry of h, encoded by `enc` *)
Definition AFO (enc : list (bytes * list (Z * Z)) -> res bytes) (reqs : list (bytes * list (bytes * list (Z * Z))))
           (h f : bytes) : Prop :=
  exists tps, In (h, tps) reqs /\ FR (enc tps) f.

Lemma AFF_incl c0 corr reqs' reqs h f : (forall y, In y reqs' -> In y reqs) -> AFF c0 corr reqs' h f -> AFF c0 corr reqs h f.
Proof. intros Hi (tps & tps' & Hin & Ho & HF). exists tps, tps'. split; [apply Hi; exact Hin|split; assumption]. Qed.
Lemma AFP_incl e0 c0 corr acks timeout reqs' reqs h f :
  (forall y, In y reqs' -> In y reqs) -> AFP e0 c0 corr acks timeout reqs' h f -> AFP e0 c0 corr acks timeout reqs h f.
Proof. intros Hi (tps & Hin & HF). exists tps. split; [apply Hi; exact Hin|exact HF]. Qed.
Lemma AFO_incl enc reqs' reqs h f : (forall y, In y reqs' -> In y reqs) -> AFO enc reqs' h f -> AFO enc reqs h f.
Proof. intros Hi (tps & Hin & HF). exists tps. split; [apply Hi; exact Hin|exact HF]. Qed.

Lemma ainv_fetch_exchange c0 e0 corr : forall reqs acc,
  keeps (ainv c0 e0 (AFF c0 corr reqs)) (fetch_exchange corr reqs acc).
Proof.
  induction reqs as [|[h tps] reqs IH]; intros acc; cbn [fetch_exchange]; [apply keeps_ret, preorder_ainv|].
  apply ainv_get_client; intros c Hc. apply ainv_get_env.
  apply keeps_bind; [apply preorder_ainv|apply keeps_get_fetch_order; apply preorder_ainv|intros fo]. cbv zeta.
  apply keeps_bind; [apply preorder_ainv|apply ainv_of_wire, aw_quiet, q_get_conn|intros _].
  apply keeps_bind; [apply preorder_ainv| |intros _].
  - apply ainv_of_wire, aw_send_request. intros p Hp.
    exists tps, (match fo with Some o => order_fetch o tps | None => tps end).
    split; [left; reflexivity|]. split; [destruct fo as [o|]; [right; exists o; reflexivity|left; reflexivity]|].
    exists p. split; [rewrite <- Hc; exact Hp|reflexivity].
  - apply keeps_bind; [apply preorder_ainv|apply ainv_of_wire, aw_quiet, q_get_response_bytes|intros b].
    apply keeps_bind; [apply preorder_ainv|apply keeps_lift; apply preorder_ainv|intros resp].
    eapply ainv_mono; [|apply IH]. intros h' f. apply AFF_incl. intros y Hy. right. exact Hy.
Qed.

Lemma ainv_produce_exchange c0 e0 corr acks timeout : forall reqs acc,
  keeps (ainv c0 e0 (AFP e0 c0 corr acks timeout reqs)) (produce_exchange corr acks timeout reqs acc).
Proof.
  induction reqs as [|[h tps] reqs IH]; intros acc; cbn [produce_exchange]; [apply keeps_ret, preorder_ainv|].
  apply ainv_get_client; intros c Hc. apply ainv_get_env. cbv zeta.
  assert (Hown : forall p, enc_produce_req e0 corr (Net.client_id (cfg c)) acks timeout (compression (cfg c)) tps = Ok p ->
                           AFP e0 c0 corr acks timeout ((h, tps) :: reqs) h (frame p)).
  { intros p Hp. exists tps. split; [left; reflexivity|]. exists p. split; [rewrite <- Hc; exact Hp|reflexivity]. }
  assert (Hrec : forall acc', keeps (ainv c0 e0 (AFP e0 c0 corr acks timeout ((h, tps) :: reqs)))
                                    (produce_exchange corr acks timeout reqs acc')).
  { intros acc'. eapply ainv_mono; [|apply IH]. intros h' f. apply AFP_incl. intros y Hy. right. exact Hy. }
  destruct (acks =? 0).
  - apply keeps_bind; [apply preorder_ainv|apply ainv_of_wire, aw_quiet, q_get_conn|intros _].
    apply keeps_bind; [apply preorder_ainv|apply ainv_of_wire, aw_send_request, Hown|intros _]. apply Hrec.
  - apply keeps_bind; [apply preorder_ainv|apply ainv_of_wire, aw_send_receive, Hown|intros [z rtps]]. apply Hrec.
Qed.

Lemma ainv_offsets_exchange c0 e0 {P V} enc (d : dec (Z * list (bytes * list P))) (conv : P -> V + Z) pid : forall reqs m,
  keeps (ainv c0 e0 (AFO enc reqs)) (offsets_exchange enc d conv pid reqs m).
Proof.
  induction reqs as [|[h tps] reqs IH]; intros m; cbn [offsets_exchange]; [apply keeps_ret, preorder_ainv|].
  apply keeps_bind; [apply preorder_ainv| |intros [z rtps]].
  - apply ainv_of_wire, aw_send_receive. intros p Hp. exists tps. split; [left; reflexivity|].
    exists p. split; [exact Hp|reflexivity].
  - apply keeps_bind; [apply preorder_ainv|apply keeps_lift; apply preorder_ainv|intros m'].
    eapply ainv_mono; [|apply IH]. intros h' f. apply AFO_incl. intros y Hy. right. exact Hy.
Qed.

(* ---- whole calls ----------------------------------------------------------------------------------- *)
(* fetch_messages: every write event of the call belongs to a send, to some host h, of the complete frame of the
   Fetch request the call built FOR h *)
Theorem C09_fetch_messages_addressed : forall input x r x',
  fetch_messages input x = (r, x') ->
  awire (AFF (cfg (cl x)) (stepc (corr_of x)) (fetch_reqs (cl (bump x)) input)) x x'.
Proof.
  intros input x r x' H. rewrite C09_call_fetch_messages in H.
  eapply (proj2 (preorder_awire _)); [apply awire_bump|].
  eapply (ainv_ordered_then (cfg (cl (bump x))) (env (bump x))); [|exact H|reflexivity|reflexivity].
  intros reqs' Hin. eapply ainv_mono; [|apply ainv_fetch_exchange]. intros h f. apply AFF_incl. exact Hin.
Qed.

Theorem C09_internal_produce_addressed : forall acks timeout msgs x r x',
  internal_produce_messages acks timeout msgs x = (r, x') ->
  awire (match produce_reqs (cs (cl (bump x))) msgs [] with
         | Some reqs => AFP (env x) (cfg (cl x)) (stepc (corr_of x)) acks timeout reqs
         | None => fun _ _ => False
         end) x x'.
Proof.
  intros acks timeout msgs x r x' H. rewrite C09_call_produce in H.
  destruct (produce_reqs (cs (cl (bump x))) msgs []) as [reqs|].
  - eapply (proj2 (preorder_awire _)); [apply awire_bump|].
    eapply (ainv_ordered_then (cfg (cl (bump x))) (env (bump x))); [|exact H|reflexivity|reflexivity].
    intros reqs' Hin. eapply ainv_mono; [|apply ainv_produce_exchange]. intros h f. apply AFP_incl. exact Hin.
  - inversion H; subst. apply awire_bump.
Qed.

Theorem C09_produce_messages_addressed : forall acks d msgs x r x', 0 <= snd d ->
  produce_messages acks d msgs x = (r, x') ->
  if i32_max <? millis d then r = Err EInvalidDuration /\ x' = x
  else awire (match produce_reqs (cs (cl (bump x))) msgs [] with
              | Some reqs => AFP (env x) (cfg (cl x)) (stepc (corr_of x)) acks (millis d) reqs
              | None => fun _ _ => False
              end) x x'.
Proof.
  intros acks d msgs x r x' Hb H. rewrite (C09_call_produce_messages _ _ _ _ Hb) in H.
  destruct (i32_max <? millis d).
  - inversion H; subst. split; reflexivity.
  - apply C09_internal_produce_addressed in H. exact H.
Qed.

(* fetch_offsets / list_offsets (the `wire` statement for these two was on the "not done" list of C09ExtraC.v;
   awire_plain turns the statements below into it) *)
Theorem C09_fetch_offsets_addressed : forall topics time x r x',
  fetch_offsets topics time x = (r, x') ->
  awire (AFO (enc_offset_req (stepc (corr_of x)) (Net.client_id (cfg (cl x))))
             (offset_reqs (cs (cl (bump x))) topics time)) x x'.
Proof.
  intros topics time x r x' H. rewrite C09_call_fetch_offsets in H.
  eapply (proj2 (preorder_awire _)); [apply awire_bump|].
  eapply (ainv_ordered_then (cfg (cl (bump x))) (env (bump x))); [|exact H|reflexivity|reflexivity].
  intros reqs' Hin. eapply ainv_mono; [|apply ainv_offsets_exchange]. intros h f. apply AFO_incl. exact Hin.
Qed.

Theorem C09_list_offsets_addressed : forall topics time x r x',
  list_offsets topics time x = (r, x') ->
  awire (AFO (enc_list_offsets_req (stepc (corr_of x)) (Net.client_id (cfg (cl x))))
             (offset_reqs (cs (cl (bump x))) topics time)) x x'.
Proof.
  intros topics time x r x' H. rewrite C09_call_list_offsets in H.
  eapply (proj2 (preorder_awire _)); [apply awire_bump|].
  eapply (ainv_ordered_then (cfg (cl (bump x))) (env (bump x))); [|exact H|reflexivity|reflexivity].
  intros reqs' Hin. eapply ainv_mono; [|apply ainv_offsets_exchange]. intros h f. apply AFO_incl. exact Hin.
Qed.

(* ---- "restricted to partitions led by the addressed broker", on the wire ------------------------------ *)
Lemma order_fetch_K o tps t p : Kin (order_fetch o tps) t p -> Kin tps t p.
Proof.
  unfold order_fetch. intros (ps & y & Hin & Hy). apply in_map_iff in Hin.
  destruct Hin as ([t0 ps0] & E & Hin0). apply reorder_in in Hin0.
  destruct (assoc_bytes t0 o) as [po|]; injection E as <- <-.
  - exists ps0. assert (Hy' : In (p, y) ps0).
    { clear - Hy. revert ps0 Hy. induction po as [|k ks IH]; intros l Hy; cbn [reorder_z] in Hy; [exact Hy|].
      destruct (take_zkey k l) as [[x r]|] eqn:E; [|apply IH; exact Hy].
      assert (Hsub : forall z, In z (x :: r) -> In z l).
      { clear - E. revert x r E. induction l as [|[k' v] l IHl]; intros x r E; cbn [take_zkey] in E; [discriminate|].
        destruct (k' =? k).
        - injection E as <- <-. intros z Hz. exact Hz.
        - destruct (take_zkey k l) as [[x' r']|] eqn:E'; [|discriminate]. injection E as <- <-.
          intros z [Hz|[Hz|Hz]]; [right; eapply IHl; [reflexivity|left; exact Hz]|left; exact Hz
                                  |right; eapply IHl; [reflexivity|right; exact Hz]]. }
      apply Hsub. destruct Hy as [Hy|Hy]; [left; exact Hy|right; apply IH; exact Hy]. }
    exists y. split; assumption.
  - exists ps0, y. split; assumption.
Qed.

(* every partition named in a Fetch frame the call writes to host h is one the client state routes to h: the
   frame is the encoding of a request list all of whose (topic, partition) entries find_broker maps to h *)
Definition led_frame_fetch (s : cstate) (c0 : config) (corr : Z) (h f : bytes) : Prop :=
  exists tps', FR (enc_fetch_req corr (Net.client_id c0) (fetch_max_wait_time c0) (fetch_min_bytes c0) tps') f /\
               forall t p, Kin tps' t p -> find_broker s t p = Some h.

Theorem C09_fetch_messages_wire_led : forall input x r x',
  fetch_messages input x = (r, x') ->
  awire (led_frame_fetch (cs (cl x)) (cfg (cl x)) (stepc (corr_of x))) x x'.
Proof.
  intros input x r x' H. eapply awire_mono; [|eapply C09_fetch_messages_addressed; exact H].
  intros h f (tps & tps' & Hin & Ho & HF). exists tps'. split; [exact HF|]. intros t p HK.
  assert (HK' : Kin tps t p) by (destruct Ho as [->|[o ->]]; [exact HK|eapply order_fetch_K; exact HK]).
  destruct HK' as (ps & y & H1 & H2).
  exact (C06_fetch_addressed (cl (bump x)) input h tps Hin t ps H1 p y H2).
Qed.

(* the same for Offsets / ListOffsets requests and for Produce requests *)
Definition led_frame {P} (s : cstate) (enc : list (bytes * list (Z * P)) -> res bytes) (h f : bytes) : Prop :=
  exists tps, FR (enc tps) f /\ forall t p, Kin tps t p -> find_broker s t p = Some h.

Theorem C09_fetch_offsets_wire_led : forall topics time x r x',
  fetch_offsets topics time x = (r, x') ->
  awire (led_frame (cs (cl x)) (enc_offset_req (stepc (corr_of x)) (Net.client_id (cfg (cl x))))) x x'.
Proof.
  intros topics time x r x' H. eapply awire_mono; [|eapply C09_fetch_offsets_addressed; exact H].
  intros h f (tps & Hin & HF). exists tps. split; [exact HF|]. intros t p (ps & y & H1 & H2).
  exact (C06_leaderless_never_addressed (cs (cl (bump x))) topics time h tps Hin t ps H1 p y H2).
Qed.

Theorem C09_list_offsets_wire_led : forall topics time x r x',
  list_offsets topics time x = (r, x') ->
  awire (led_frame (cs (cl x)) (enc_list_offsets_req (stepc (corr_of x)) (Net.client_id (cfg (cl x))))) x x'.
Proof.
  intros topics time x r x' H. eapply awire_mono; [|eapply C09_list_offsets_addressed; exact H].
  intros h f (tps & Hin & HF). exists tps. split; [exact HF|]. intros t p (ps & y & H1 & H2).
  exact (C06_leaderless_never_addressed (cs (cl (bump x))) topics time h tps Hin t ps H1 p y H2).
Qed.

Theorem C09_internal_produce_wire_led : forall acks timeout msgs x r x',
  internal_produce_messages acks timeout msgs x = (r, x') ->
  awire (led_frame (cs (cl x)) (enc_produce_req (env x) (stepc (corr_of x)) (Net.client_id (cfg (cl x))) acks timeout
                                                (compression (cfg (cl x))))) x x'.
Proof.
  intros acks timeout msgs x r x' H. eapply awire_mono; [|eapply C09_internal_produce_addressed; exact H].
  destruct (produce_reqs (cs (cl (bump x))) msgs []) as [reqs|] eqn:E; [|intros h f []].
  intros h f (tps & Hin & HF). exists tps. split; [exact HF|]. intros t p (ps & y & H1 & H2).
  exact (C06_produce_addressed (cs (cl (bump x))) msgs reqs E h tps Hin t ps H1 p y H2).
Qed.

(* ---- history: a (partial) reload, then fetch_messages -------------------------------------------------- *)
(* what a successful load_metadata(topics) leaves behind for the NEXT call, for every topic the response it
   received does not list: the leader node of before, at the address the response gives for it, else the old one *)
Theorem C09_load_metadata_keeps_unlisted : forall topics x x1,
  C06Facts.inv (cs (cl x)) -> load_metadata topics x = (Ok tt, x1) -> small (cs (cl x1)) ->
  exists md s1, fetch_metadata topics x = (Ok md, s1) /\
    forall t p, last_topic (md_topics md) t = None ->
      find_broker (cs (cl x1)) t p
      = match leader_node (cs (cl x)) t p with Some l => host_of_node (cs (cl x)) md l | None => None end.
Proof.
  intros topics x x1 Hinv H Hsm. rewrite load_metadata_split in H.
  bind_inv H md s1 H1 H2; [|discriminate|discriminate].
  destruct (apply_md_run _ _ _ _ H2) as (_ & _ & _ & _ & Hu). specialize (Hu eq_refl).
  destruct (fetch_metadata_cs _ _ _ _ H1) as [Hcs _]. rewrite Hcs in Hu.
  exists md, s1. split; [exact H1|]. intros t p Hl.
  exact (proj2 (C09_route_unlisted_topic _ md _ t p (inv_bump _ Hinv) Hsm Hu Hl)).
Qed.

(* load_metadata(topics) succeeds, then fetch_messages: every partition of a topic that was NOT reloaded and that
   is named in a Fetch frame written to host h had, BEFORE the reload, a leader node whose address - per the
   response received, else as known before - is h.  [seed C09-7: the frame for b3 names audit/1, led by node 2] *)
Theorem C09_reload_then_fetch_wire : forall topics input x x1 r x2,
  C06Facts.inv (cs (cl x)) -> load_metadata topics x = (Ok tt, x1) -> small (cs (cl x1)) ->
  fetch_messages input x1 = (r, x2) ->
  exists md s1, fetch_metadata topics x = (Ok md, s1) /\
    awire (fun h f => exists tps',
             FR (enc_fetch_req (stepc (corr_of x1)) (Net.client_id (cfg (cl x1))) (fetch_max_wait_time (cfg (cl x1)))
                               (fetch_min_bytes (cfg (cl x1))) tps') f /\
             forall t p, Kin tps' t p -> last_topic (md_topics md) t = None ->
               exists l, leader_node (cs (cl x)) t p = Some l /\ host_of_node (cs (cl x)) md l = Some h) x1 x2.
Proof.
  intros topics input x x1 r x2 Hinv H1 Hsm H2.
  destruct (C09_load_metadata_keeps_unlisted topics x x1 Hinv H1 Hsm) as (md & s1 & Hf & Hk).
  exists md, s1. split; [exact Hf|].
  eapply awire_mono; [|eapply C09_fetch_messages_wire_led; exact H2].
  intros h f (tps' & HF & Hled). exists tps'. split; [exact HF|]. intros t p HK Hl.
  specialize (Hled t p HK). rewrite (Hk t p Hl) in Hled.
  destruct (leader_node (cs (cl x)) t p) as [l|]; [|discriminate]. exists l. split; [reflexivity|exact Hled].
Qed.

(* ---- non-vacuity of section B: the seeded session on the wire ----------------------------------------- *)
(* the client has loaded exE_md1 (state exE_s1, all three brokers pooled); load_metadata(["orders"]) is answered,
   by b2, with the bytes of exE_md2 (brokers 2 and 3 only); then fetch_messages(audit/0@80, audit/1@81,
   orders/0@60), each Fetch request answered with an empty response *)
Definition e_str (s : bytes) : bytes := enc_i16 (ulen s) ++ s.
Definition e_broker (n : Z) (h : bytes) (p : Z) : bytes := enc_i32 n ++ e_str h ++ enc_i32 p.
Definition e_part (id l : Z) : bytes :=
  enc_i16 0 ++ enc_i32 id ++ enc_i32 l ++ enc_i32 1 ++ enc_i32 l ++ enc_i32 1 ++ enc_i32 l.
Definition exE_resp2 : bytes :=
  enc_i32 2 ++ enc_i32 2 ++ e_broker 2 (tag "b2") 9092 ++ e_broker 3 (tag "b3") 9092 ++
  enc_i32 1 ++ enc_i16 0 ++ e_str (tag "orders") ++ enc_i32 3 ++ e_part 0 2 ++ e_part 1 2 ++ e_part 2 3.
Definition exE_cfg : config :=
  {| Net.client_id := tag "me"; hosts := [tag "b2:9092"]; compression := 0; fetch_max_wait_time := 100;
     fetch_min_bytes := 1; fetch_max_bytes_per_partition := 1000; fetch_crc_validation := true;
     offset_storage := 1; retry_backoff_time := (0, 0); retry_max_attempts := 3; idle_timeout := (1, 0) |}.
Definition exE_x : st :=
  {| script := [OWrote 1000; OData (enc_i32 (ulen exE_resp2)); OData exE_resp2;
                OWrote 1000; OData (enc_i32 8); OData (enc_i32 2 ++ enc_i32 0);
                OWrote 1000; OData (enc_i32 8); OData (enc_i32 2 ++ enc_i32 0)];
     trace := []; anyq := []; hostq := []; fetchq := []; entryq := [];
     cl := {| cfg := exE_cfg; cs := exE_s1; conns := [tag "b1:9092"; tag "b2:9092"; tag "b3:9092"] |};
     env := ex_env0 |}.
Definition exE_input : list fetch_partition :=
  [ {| fq_topic := tag "audit"; fq_partition := 0; fq_offset := 80; fq_max_bytes := 0 |};
    {| fq_topic := tag "audit"; fq_partition := 1; fq_offset := 81; fq_max_bytes := 0 |};
    {| fq_topic := tag "orders"; fq_partition := 0; fq_offset := 60; fq_max_bytes := 0 |} ].

Example C09_reload_then_fetch_wire_ex :
  let x1 := snd (load_metadata [tag "orders"] exE_x) in
  let x2 := snd (fetch_messages exE_input x1) in
  dec_metadata_resp exE_resp2 = Ok (exE_md2, []) /\
  fst (load_metadata [tag "orders"] exE_x) = Ok tt /\ small (cs (cl x1)) /\
  match enc_fetch_req 2 (tag "me") 100 1 [(tag "audit", [(0, (80, 1000))])],
        enc_fetch_req 2 (tag "me") 100 1 [(tag "audit", [(1, (81, 1000))]); (tag "orders", [(0, (60, 1000))])] with
  | Ok p3, Ok p2 =>
      performed x1 x2 = [EWrite (tag "b3:9092") (frame p3); ERead (tag "b3:9092") 4; ERead (tag "b3:9092") 8;
                         EWrite (tag "b2:9092") (frame p2); ERead (tag "b2:9092") 4; ERead (tag "b2:9092") 8]
  | _, _ => False
  end.
Proof. vm_compute. repeat split; try reflexivity. discriminate. Qed.
Example C09_reload_then_fetch_wire_ex_inv : C06Facts.inv (cs (cl exE_x)).
Proof. exact (proj1 C09_route_unlisted_topic_ex). Qed.

(* fetch_offsets(["audit"], Earliest) after the same reload: one Offsets request per leader *)
Example C09_fetch_offsets_addressed_ex :
  let x1 := snd (load_metadata [tag "orders"] exE_x) in
  offset_reqs (cs (cl (bump x1))) [tag "audit"] (-2)
  = [ (tag "b3:9092", [(tag "audit", [(0, -2)])]); (tag "b2:9092", [(tag "audit", [(1, -2)])]) ] /\
  match enc_offset_req 2 (tag "me") [(tag "audit", [(0, -2)])] with
  | Ok p3 => firstn 2 (performed x1 (snd (fetch_offsets [tag "audit"] (-2) x1)))
             = [EWrite (tag "b3:9092") (frame p3); ERead (tag "b3:9092") 4]
  | _ => False
  end.
Proof. vm_compute. split; reflexivity. Qed.

(* produce_messages(acks 1, 1 s, audit/0 <- "v") after the same reload: the Produce request goes to b3 *)
Example C09_produce_messages_addressed_ex :
  let x1 := snd (load_metadata [tag "orders"] exE_x) in
  let msg := {| pq_topic := tag "audit"; pq_partition := 0; pq_key := None; pq_value := Some (tag "v") |} in
  0 <= snd (1, 0) /\ (i32_max <? millis (1, 0)) = false /\
  produce_reqs (cs (cl (bump x1))) [msg] [] = Some [(tag "b3:9092", [(tag "audit", [(0, [(None, Some (tag "v"))])])])] /\
  match enc_produce_req (env x1) 2 (tag "me") 1 1000 0 [(tag "audit", [(0, [(None, Some (tag "v"))])])] with
  | Ok p => firstn 1 (performed x1 (snd (produce_messages 1 (1, 0) [msg] x1))) = [EWrite (tag "b3:9092") (frame p)]
  | _ => False
  end.
Proof. vm_compute. repeat split; try reflexivity. discriminate. Qed.

(* the premises of C09_route_unlisted_topic_only_if / C09_leader_node_after_load on the demonstration *)
Example C09_route_unlisted_topic_only_if_ex :
  find_broker exE_s2 (tag "audit") 0 = Some (tag "b3:9092") /\ find_broker exE_s1 (tag "audit") 0 = Some (tag "b3:9092") /\
  find_broker exE_s2 (tag "audit") 2 = None /\ find_broker exE_s1 (tag "audit") 2 = None /\
  last_topic (md_topics exE_md1) (tag "audit") = Some (ex_tm (tag "audit") [ex_pm 0 3; ex_pm 1 2]) /\
  leader_node exE_s1 (tag "audit") 0 = Some 3 /\ host_of_node cstate_new exE_md1 3 = Some (tag "b3:9092").
Proof. vm_compute. repeat split; reflexivity. Qed.

(* not done / not proved:
   - the produce / offsets variants of C09_reload_then_fetch_wire (same two-line composition with
     C09_internal_produce_wire_led / C09_fetch_offsets_wire_led);
   - histories longer than two loads at the wire level (at the state level Proofs/C06Facts.v C06_history gives the
     merged view of any sequence of loads; what is missing is its restatement per partition id as in
     C09_route_after_reload);
   - the coordinator cache: group_coordinators are BrokerRefs too and the seed moves them as well, but C09 does not
     constrain the addressee of group requests;
   - "on success the stream of EVERY host received a whole number of complete frames" for a whole call. *)

Check C09_route_unlisted_topic.
Check C09_route_unlisted_topic_same.
Check C09_route_unlisted_topic_only_if.
Check C09_leader_node_after_load.
Check C09_route_after_reload.
Check C09_fetch_requests_led_after_reload.
Check C09_offset_requests_led_after_reload.
Check C09_produce_requests_led_after_reload.
Check C09_awire_ok_first.
Check C09_awire_ok_writes.
Check C09_fetch_messages_addressed.
Check C09_internal_produce_addressed.
Check C09_produce_messages_addressed.
Check C09_fetch_offsets_addressed.
Check C09_list_offsets_addressed.
Check C09_fetch_messages_wire_led.
Check C09_fetch_offsets_wire_led.
Check C09_list_offsets_wire_led.
Check C09_internal_produce_wire_led.
Check C09_load_metadata_keeps_unlisted.
Check C09_reload_then_fetch_wire.

Print Assumptions C09_route_unlisted_topic.
Print Assumptions C09_route_unlisted_topic_same.
Print Assumptions C09_route_unlisted_topic_only_if.
Print Assumptions C09_leader_node_after_load.
Print Assumptions C09_route_after_reload.
Print Assumptions C09_fetch_requests_led_after_reload.
Print Assumptions C09_offset_requests_led_after_reload.
Print Assumptions C09_produce_requests_led_after_reload.
Print Assumptions C09_awire_ok_first.
Print Assumptions C09_awire_ok_writes.
Print Assumptions C09_fetch_messages_addressed.
Print Assumptions C09_internal_produce_addressed.
Print Assumptions C09_produce_messages_addressed.
Print Assumptions C09_fetch_offsets_addressed.
Print Assumptions C09_list_offsets_addressed.
Print Assumptions C09_fetch_messages_wire_led.
Print Assumptions C09_fetch_offsets_wire_led.
Print Assumptions C09_list_offsets_wire_led.
Print Assumptions C09_internal_produce_wire_led.
Print Assumptions C09_load_metadata_keeps_unlisted.
Print Assumptions C09_reload_then_fetch_wire.
