(* C07, additional theorems, third pass (mutation adequacy, round-five and round-six seeds).

   seeded/C07-5 (load_fetch_states chooses the "use the fallback position directly" strategy by
   `config.group.is_empty()` instead of `consumed_offsets.is_empty()`) and seeded/C07-6 (the latest /
   earliest look-ups of the validation branch only ask about the topics that have restored offsets)
   both sit in Model/Consumer.v load_fetch_states.  Mirrored in the model, each of them falsifies
   C07_load_fetch_states_spec (and with it C07_nothing_committed_start_offsets, C07_group_start_offsets,
   C07_create_group_start): these statements pin down WHICH Offset conversations take place through
   the states they thread (the trace records every request).  Both negations were proved on mutated
   scratch copies with concrete witnesses.  So both seeds are covered - but only sideways:

     - for C07-5 the existing theorems notice the extra Offset round trip of a fresh group with a
       Latest / Earliest fallback.  What actually goes wrong - Builder::create FAILS for a fresh group
       with a ByTime fallback although the broker would have answered - is invisible to every theorem
       of Props/C07.v, because all of them have the shape "creation succeeded -> ...".  Part A adds
       the missing direction: when the group has nothing committed (or there is no group) and the
       brokers answer the ONE Offset request for the fallback time - Earliest, Latest or ByTime -
       creation SUCCEEDS and every partition starts at the reported offset.
     - for C07-6 the existing theorems say "load_partition_offsets (map fst subs) ..." and leave it
       to C07_load_partition_offsets_spec (whose client `c` is existentially quantified and not tied
       to the state) to say what that means on the wire.  Part B states it on the wire: every
       subscribed topic partition that has a leader is listed in an Offset request that is really
       sent to that leader - for the latest and for the earliest look-up of the validation branch,
       whether or not the topic has any commit.

   Not done: discharging `topic_ref asg t <> None` for the builder's assignment (needs "from_map is
   sorted and bsearch is complete on sorted tables"; no such lemma exists in the development yet);
   the time field `x` of the request entry in part B is left existential (C06_offsets_complete does
   not determine it; the time asked for is already fixed by C07_load_fetch_states_spec). *)
From KV Require Import Base.Prelude Gen.ErrorCodes Gen.Consts Model.Codecs Model.Requests Model.Responses
                       Model.ClientState Model.Net Model.Client Model.Consumer.
From KV Require Import Proofs.BytesFacts Proofs.C07Facts Proofs.C10Facts Proofs.C07Extra Proofs.C07ExtraB.
From KV Require Proofs.C06Extra Proofs.C20Facts Proofs.C20Extra.
From Coq Require Import Sorting.Permutation.
From Coq Require Import ZifyBool.

Lemma mbind_fwd {A B} (m : M A) (f : A -> M B) s a s1 : m s = (Ok a, s1) -> mbind m f s = f a s1.
Proof. intros H. unfold mbind. rewrite H. reflexivity. Qed.

(* ================================================================================== *)
(* A. nothing committed: creation succeeds at the offsets reported for the fallback   *)
(*    position - Earliest, Latest or a time (seeded/C07-5)                            *)
(* ================================================================================== *)

Lemma consumed_topics_no_commit dbg asg : forall tpos m,
  (forall t pos p c, In (t, pos) tpos -> In (p, c) pos -> c = -1) ->
  consumed_topics dbg asg tpos m = Ok m.
Proof.
  induction tpos as [|[t0 pos] rest IH]; intros m Hall; [reflexivity|].
  assert (Hrest : forall t pos p c, In (t, pos) rest -> In (p, c) pos -> c = -1).
  { intros t pos0 p c H1 H2. apply (Hall t pos0 p c); [right; exact H1|exact H2]. }
  destruct pos as [|x pos']; cbn [consumed_topics]; [apply IH; exact Hrest|].
  assert (Hf : forallb (fun '(_, off) => off =? -1) (x :: pos') = true).
  { apply forallb_forall. intros [p c] Hin. rewrite (Hall t0 (x :: pos') p c (or_introl eq_refl) Hin). reflexivity. }
  rewrite Hf. apply IH. exact Hrest.
Qed.

(* a group whose OffsetFetch answer holds no commit: load_consumed_offsets SUCCEEDS with the empty table
   (forward direction of C07_no_commit_empty_table) *)
Theorem C07_fresh_group_loads_empty_table : forall group asg subs s tpos s1,
  group <> [] ->
  fetch_group_offsets group (sub_pairs subs) s = (Ok tpos, s1) ->
  (forall t pos p c, In (t, pos) tpos -> In (p, c) pos -> c = -1) ->
  load_consumed_offsets group asg subs s = (Ok [], s1).
Proof.
  intros group asg subs s tpos s1 Hg Hf Hall. unfold load_consumed_offsets.
  destruct group as [|g0 g]; [exfalso; apply Hg; reflexivity|].
  change (flat_map (fun '(t, ps) => map (fun p => (t, p)) ps) subs) with (sub_pairs subs).
  rewrite (mbind_fwd _ _ _ _ _ Hf). cbv beta.
  rewrite (mbind_fwd get_env _ s1 (env s1) s1 eq_refl). cbv beta.
  unfold lift. rewrite consumed_topics_no_commit by exact Hall. reflexivity.
Qed.

Lemma fallback_states_total asg offsets maxb : forall subs acc,
  (forall t ps, In (t, ps) subs -> topic_ref asg t <> None /\ assoc_bytes t offsets <> None) ->
  exists res, fallback_states asg offsets maxb subs acc = Ok res.
Proof.
  induction subs as [|[t ps] rest IH]; intros acc H; cbn [fallback_states]; [eauto|].
  destruct (H t ps (or_introl eq_refl)) as [H1 H2].
  destruct (topic_ref asg t) as [r|]; [|exfalso; apply H1; reflexivity].
  destruct (assoc_bytes t offsets) as [offs|]; [|exfalso; apply H2; reflexivity].
  apply IH. intros t' ps' Hin. apply (H t' ps'). right. exact Hin.
Qed.

(* THE FALLBACK BRANCH SUCCEEDS.  With an empty consumed table - group-less consumer, or a group with
   nothing committed - and for EVERY fallback position, ByTime included: if the ONE Offset conversation
   for the fallback time succeeds and its table lists every subscribed topic, load_fetch_states succeeds,
   ends in the state that conversation ended in (so nothing else is asked), and every subscribed
   partition starts at the table's offset.  (The two side conditions are the two ways the Rust loop
   can leave early: `expect("unassigned subscription")` and the `None =>` arm.) *)
Theorem C07_nothing_committed_created : forall fb asg subs s offsets s',
  load_partition_offsets (map fst subs) (fallback_time fb) s = (Ok offsets, s') ->
  (forall t ps, In (t, ps) subs -> topic_ref asg t <> None /\ assoc_bytes t offsets <> None) ->
  exists fetch,
    load_fetch_states fb asg subs [] s = (Ok fetch, s')
    /\ forall t ps p, In (t, ps) subs -> In p ps ->
       exists r, topic_ref asg t = Some r
         /\ tk_get (r, p) fetch = Some (lookup_off offsets t p, fetch_max_bytes_per_partition (cfg (cl s))).
Proof.
  intros fb asg subs s offsets s' Hl Hall.
  destruct (fallback_states_total asg offsets (fetch_max_bytes_per_partition (cfg (cl s))) subs [] Hall)
    as [fetch Hf].
  assert (Hrun : load_fetch_states fb asg subs [] s = (Ok fetch, s')).
  { unfold load_fetch_states.
    rewrite (mbind_fwd get_client _ s (cl s) s eq_refl). cbv beta.
    rewrite (mbind_fwd get_env _ s (env s) s eq_refl). cbv beta zeta iota.
    rewrite (mbind_fwd _ _ _ _ _ Hl). cbv beta. unfold lift. rewrite Hf. reflexivity. }
  exists fetch. split; [exact Hrun|].
  destruct (C07_nothing_committed_start_offsets _ _ _ _ _ _ Hrun) as (offsets' & Hl' & Hall').
  rewrite Hl in Hl'. inversion Hl'. subst offsets'. exact Hall'.
Qed.

(* ... and the other way round ("where no such offset can be determined creation fails"): a subscribed
   topic that the table does not list at all fails the call with UnknownTopicOrPartition *)
Theorem C07_unreported_topic_fails : forall fb asg subs s offsets s' pre t ps post,
  load_partition_offsets (map fst subs) (fallback_time fb) s = (Ok offsets, s') ->
  subs = pre ++ (t, ps) :: post ->
  (forall t' ps', In (t', ps') pre -> topic_ref asg t' <> None /\ assoc_bytes t' offsets <> None) ->
  topic_ref asg t <> None -> assoc_bytes t offsets = None ->
  load_fetch_states fb asg subs [] s = (Err (EKafka KC_UnknownTopicOrPartition), s').
Proof.
  intros fb asg subs s offsets s' pre t ps post Hl -> Hpre Ht Hnone.
  unfold load_fetch_states.
  rewrite (mbind_fwd get_client _ s (cl s) s eq_refl). cbv beta.
  rewrite (mbind_fwd get_env _ s (env s) s eq_refl). cbv beta zeta iota.
  rewrite (mbind_fwd _ _ _ _ _ Hl). cbv beta. unfold lift. f_equal.
  clear Hl. generalize (@nil (tpkey * (Z * Z))) as acc.
  induction pre as [|[t0 ps0] pre IH]; intros acc.
  - cbn [app fallback_states]. destruct (topic_ref asg t); [|exfalso; apply Ht; reflexivity].
    rewrite Hnone. reflexivity.
  - cbn [app fallback_states]. destruct (Hpre t0 ps0 (or_introl eq_refl)) as [H1 H2].
    destruct (topic_ref asg t0); [|exfalso; apply H1; reflexivity].
    destruct (assoc_bytes t0 offsets); [|exfalso; apply H2; reflexivity].
    apply IH. intros t' ps' Hin. apply (Hpre t' ps'). right. exact Hin.
Qed.

(* what Builder::create does before it looks at subscriptions and offsets: the consumer's settings go
   into the client's configuration and, for a client created from hosts, the metadata is loaded *)
Definition create_setup (src : list bytes + client) (b : cbuilder) : M unit :=
  let+ c := get_client in
  let+ wait := lift (to_millis_i32 (cb_max_wait b)) in
  let+ _ := set_client {| cfg := cfg_set_consumer (cfg c) b wait; cs := cs c; conns := conns c |} in
  match src with inl _ => load_metadata_all | inr _ => ret tt end.

(* Builder::create SUCCEEDS whenever its four stages do (converse of C07_create_spec), and the consumer it
   returns holds exactly the tables the stages produced *)
Theorem C07_create_complete : forall src calls s s1 subs consumed s2 fetch s3,
  let b := fold_left cbuilder_apply calls (cbuilder_new src) in
  let asg := from_map (cb_assign b) in
  cb_assign b <> [] ->
  create_setup src b s = (Ok tt, s1) ->
  subscriptions_of (cs (cl s1)) asg = Ok subs ->
  load_consumed_offsets (cb_group b) asg subs s1 = (Ok consumed, s2) ->
  load_fetch_states (cb_fallback b) asg subs consumed s2 = (Ok fetch, s3) ->
  consumer_create src calls s =
  (Ok {| k_client := cl s3; k_group := cb_group b; k_fallback := cb_fallback b;
         k_retry_limit := cb_retry_limit b; k_assign := asg; k_fetch := fetch; k_retry := [];
         k_consumed := consumed |}, s3).
Proof.
  intros src calls s s1 subs consumed s2 fetch s3 b asg Hne Hsetup Hsubs Hco Hfe. subst asg.
  unfold consumer_create. fold b.
  destruct (cb_assign b) as [|a0 al] eqn:Ea; [exfalso; apply Hne; reflexivity|].
  rewrite <- Ea in *. clear Hne.
  unfold create_setup in Hsetup.
  apply mbind_ok in Hsetup. destruct Hsetup as (c & sa & Hc & Hsetup).
  apply mbind_ok in Hsetup. destruct Hsetup as (wait & sb & Hw & Hsetup).
  apply mbind_ok in Hsetup. destruct Hsetup as (u & sc & Hset & Hmeta).
  rewrite (mbind_fwd _ _ _ _ _ Hc). cbv beta.
  rewrite (mbind_fwd _ _ _ _ _ Hw). cbv beta.
  rewrite (mbind_fwd _ _ _ _ _ Hset). cbv beta.
  rewrite (mbind_fwd _ _ _ _ _ Hmeta). cbv beta zeta.
  rewrite (mbind_fwd get_client _ s1 (cl s1) s1 eq_refl). cbv beta.
  assert (Hls : lift (subscriptions_of (cs (cl s1)) (from_map (cb_assign b))) s1 = (Ok subs, s1)).
  { unfold lift. rewrite Hsubs. reflexivity. }
  rewrite (mbind_fwd _ _ _ _ _ Hls). cbv beta.
  rewrite (mbind_fwd _ _ _ _ _ Hco). cbv beta.
  rewrite (mbind_fwd _ _ _ _ _ Hfe). cbv beta.
  rewrite (mbind_fwd get_client _ s3 (cl s3) s3 eq_refl). cbv beta.
  reflexivity.
Qed.

(* NOTHING COMMITTED, END TO END, FORWARD (the clause "for a group-less consumer or a group with nothing
   committed, it is the offset the broker reports for the configured fallback position (earliest, latest,
   or a time)").  A consumer without a group, or with a group whose OffsetFetch answer holds no commit
   for any partition: if the brokers answer the Offset request for the fallback time - whatever the
   fallback position is - Builder::create SUCCEEDS, ends in the state that conversation ended in (no further
   request is made), holds an empty consumed table, and the first fetch offset of every subscribed
   partition is the offset that answer reports for it. *)
Theorem C07_fresh_start_created : forall src calls s s1 subs s2 offsets s3,
  let b := fold_left cbuilder_apply calls (cbuilder_new src) in
  let asg := from_map (cb_assign b) in
  let fb := cb_fallback b in
  cb_assign b <> [] ->
  create_setup src b s = (Ok tt, s1) ->
  subscriptions_of (cs (cl s1)) asg = Ok subs ->
  (cb_group b = [] /\ s2 = s1
   \/ cb_group b <> [] /\ exists tpos,
        fetch_group_offsets (cb_group b) (sub_pairs subs) s1 = (Ok tpos, s2)
        /\ forall t pos p c, In (t, pos) tpos -> In (p, c) pos -> c = -1) ->
  load_partition_offsets (map fst subs) (fallback_time fb) s2 = (Ok offsets, s3) ->
  (forall t ps, In (t, ps) subs -> topic_ref asg t <> None /\ assoc_bytes t offsets <> None) ->
  exists k,
    consumer_create src calls s = (Ok k, s3)
    /\ k_consumed k = [] /\ k_retry k = []
    /\ forall t ps p, In (t, ps) subs -> In p ps ->
       exists r, topic_ref asg t = Some r
         /\ tk_get (r, p) (k_fetch k) = Some (lookup_off offsets t p, fetch_max_bytes_per_partition (cfg (cl s2))).
Proof.
  intros src calls s s1 subs s2 offsets s3 b asg fb Hne Hsetup Hsubs Hgroup Hl Hall.
  assert (Hco : load_consumed_offsets (cb_group b) asg subs s1 = (Ok [], s2)).
  { destruct Hgroup as [(Hg & ->)|(Hg & tpos & Hfg & Hnone)].
    - rewrite Hg. reflexivity.
    - eapply C07_fresh_group_loads_empty_table; eassumption. }
  destruct (C07_nothing_committed_created fb asg subs s2 offsets s3 Hl Hall) as (fetch & Hrun & Hvals).
  pose proof (C07_create_complete src calls s s1 subs [] s2 fetch s3 Hne Hsetup Hsubs Hco Hrun) as Hcreate.
  eexists. split; [exact Hcreate|]. cbn [k_consumed k_retry k_fetch].
  split; [reflexivity|]. split; [reflexivity|exact Hvals].
Qed.

(* Non-vacuity, on the two-broker cluster of C07Extra.D (topic "t": partitions 0, 1 led by "a", 2 led by
   "b"; group "g", coordinator "a"): the demonstration of seeded/C07-5.  The group has nothing committed,
   the fallback is ByTime 1234, the brokers report 17, 3 and 5 for that time. *)
From KV Require Import Spec.RespGrammar.
Definition ex_fresh_answer : bytes :=
  print_offset_fetch {| wr_corr := 1; wr_topics := Some [ {| wt_name := Some xt;
      wt_partitions := Some [ex_fetch_part 0 (-1); ex_fetch_part 1 (-1); ex_fetch_part 2 (-1)] |} ] |}.
Definition ex_time_calls : list cbuilder_call := [CWithGroup xg; CWithTopic xt; CWithFallback (FbByTime 1234)].
Definition ex_time_st : st :=
  ex_st_of (OConn true :: ex_talk ex_fresh_answer
            ++ ex_talk (ex_off_answer [ex_off_part 0 17; ex_off_part 1 3])
            ++ OConn true :: ex_talk (ex_off_answer [ex_off_part 2 5])).

Example C07_fresh_group_by_time_ex : exists k s',
  consumer_create (inr ex_client) ex_time_calls ex_time_st = (Ok k, s')
  /\ k_consumed k = []
  /\ k_fetch k = [((0, 0), (17, 4096)); ((0, 1), (3, 4096)); ((0, 2), (5, 4096))]
  /\ script s' = [].
Proof. eexists. eexists. split; [vm_compute; reflexivity|]. vm_compute. repeat split. Qed.

(* the hypotheses of C07_fresh_start_created on that run *)
Example C07_fresh_start_created_ex :
  let b := fold_left cbuilder_apply ex_time_calls (cbuilder_new (inr ex_client)) in
  let asg := from_map (cb_assign b) in
  exists s1 subs tpos s2 offsets s3,
    cb_assign b <> [] /\ cb_group b <> [] /\ cb_fallback b = FbByTime 1234
    /\ create_setup (inr ex_client) b ex_time_st = (Ok tt, s1)
    /\ subscriptions_of (cs (cl s1)) asg = Ok subs /\ subs = [(xt, [0; 1; 2])]
    /\ fetch_group_offsets (cb_group b) (sub_pairs subs) s1 = (Ok tpos, s2)
    /\ tpos = [(xt, [(0, -1); (1, -1); (2, -1)])]
    /\ load_partition_offsets (map fst subs) 1234 s2 = (Ok offsets, s3)
    /\ topic_ref asg xt = Some 0 /\ assoc_bytes xt offsets <> None
    /\ lookup_off offsets xt 0 = 17 /\ lookup_off offsets xt 1 = 3 /\ lookup_off offsets xt 2 = 5.
Proof.
  cbv zeta. do 6 eexists.
  split; [vm_compute; discriminate|]. split; [vm_compute; discriminate|]. split; [reflexivity|].
  split; [vm_compute; reflexivity|]. split; [vm_compute; reflexivity|]. split; [reflexivity|].
  split; [vm_compute; reflexivity|]. split; [reflexivity|].
  split; [vm_compute; reflexivity|]. split; [vm_compute; reflexivity|].
  split; [vm_compute; discriminate|]. vm_compute. repeat split.
Qed.

(* C07_unreported_topic_fails: the table that comes back does not list the topic *)
Example C07_unreported_topic_fails_ex : exists offsets s',
  load_partition_offsets (map fst [(xt, [0; 1; 2])]) (fallback_time (FbByTime 1234))
     (ex_st_of (OConn true :: ex_talk (print_offsets {| wr_corr := 2; wr_topics := Some [] |})
                ++ OConn true :: ex_talk (print_offsets {| wr_corr := 2; wr_topics := Some [] |})))
  = (Ok offsets, s')
  /\ topic_ref [(xt, @nil Z)] xt <> None /\ assoc_bytes xt offsets = None.
Proof. eexists. eexists. split; [vm_compute; reflexivity|]. split; [vm_compute; discriminate|reflexivity]. Qed.

(* ================================================================================== *)
(* B. every subscribed partition with a leader is asked about, on the wire            *)
(*    (seeded/C07-6)                                                                  *)
(* ================================================================================== *)

Lemma exchanges_in {P} enc (d : dec (Z * list (bytes * list P))) : forall reqs s resps s',
  exchanges enc d reqs s resps s' ->
  forall h tps, In (h, tps) reqs ->
  exists sa c rtps sb, send_receive d h (enc tps) sa = (Ok (c, rtps), sb) /\ In rtps resps.
Proof.
  intros reqs s resps s' H. induction H as [s|h0 tps0 reqs s c rtps s1 resps s2 Hsr Hex IH]; intros h tps Hin.
  - destruct Hin.
  - destruct Hin as [Heq|Hin].
    + inversion Heq. subst. exists s, c, rtps, s1. split; [exact Hsr|left; reflexivity].
    + destruct (IH h tps Hin) as (sa & c' & rtps' & sb & H1 & H2).
      exists sa, c', rtps', sb. split; [exact H1|right; exact H2].
Qed.

Lemma next_corr_inv s corr s1 : next_corr s = (Ok corr, s1) ->
  cfg (cl s1) = cfg (cl s) /\ cs (cl s1) = snd (next_correlation_id (cs (cl s)))
  /\ script s1 = script s /\ trace s1 = trace s.
Proof.
  intros H. unfold next_corr in H.
  apply mbind_ok in H. destruct H as (c0 & sx & Hc0 & H). unfold get_client in Hc0. inversion Hc0. subst c0 sx.
  destruct (next_correlation_id (cs (cl s))) as [n cs'] eqn:En.
  apply mbind_ok in H. destruct H as (u & sy & Hset & Hret).
  unfold set_cs in Hset. apply mbind_ok in Hset. destruct Hset as (c1 & sz & Hc1 & Hset).
  unfold get_client in Hc1. inversion Hc1. subst c1 sz.
  unfold set_client in Hset. inversion Hset. subst sy. unfold ret in Hret. inversion Hret. subst s1.
  cbn [cl cfg cs snd script trace]. repeat split; reflexivity.
Qed.

Lemma ordered_io {V} (l l' : list (bytes * V)) s s' :
  ordered l s = (Ok l', s') -> script s' = script s /\ trace s' = trace s /\ cl s' = cl s.
Proof.
  unfold ordered. destruct l as [|x l0].
  - intros H. inversion H. subst. repeat split; reflexivity.
  - intros H. apply mbind_ok in H. destruct H as (o & s1 & Hp & H). unfold ret in H. inversion H. subst s1.
    unfold pop_hosts in Hp. destruct (hostq s); inversion Hp; subst; repeat split; reflexivity.
Qed.

(* ONE OFFSET LOOK-UP ON THE WIRE (C07_load_partition_offsets_spec with the client tied to the state).  Whenever
   load_partition_offsets succeeds for a list of topics, the conversations that took place - starting
   from the script and trace the call started with, ending in the state it ended in - are exactly the
   per-broker requests computed from the CLIENT'S OWN metadata for exactly these topics, encoded with its
   own client id, in some order; and for every listed topic t and every partition p of it whose leader
   `host` the client knows, the request that went to `host` names (t, p). *)
Theorem C07_offsets_asked_of_every_leader : forall topics time s offs s',
  load_partition_offsets topics time s = (Ok offs, s') ->
  exists corr order s0 resps,
    script s0 = script s /\ trace s0 = trace s
    /\ exchanges (enc_offset_req corr (client_id (cfg (cl s)))) dec_offset_resp
                 (reorder order (offset_reqs (cs (cl s)) topics time)) s0 resps s'
    /\ forall t p host, In t topics -> find_broker (cs (cl s)) t p = Some host ->
       exists tps ps x, In (host, tps) (reorder order (offset_reqs (cs (cl s)) topics time))
                        /\ In (t, ps) tps /\ In (p, x) ps.
Proof.
  intros topics time s offs s' H. unfold load_partition_offsets in H.
  apply mbind_ok in H. destruct H as (m & s1 & Hf & Hret). unfold ret in Hret. inversion Hret. subst s1. clear Hret.
  unfold fetch_offsets in Hf.
  apply mbind_ok in Hf. destruct Hf as (corr & s2 & Hn & Hf).
  apply mbind_ok in Hf. destruct Hf as (c & s3 & Hc & Hf). unfold get_client in Hc. inversion Hc. subst c s3.
  apply mbind_ok in Hf. destruct Hf as (reqs & s4 & Ho & Hf).
  destruct (next_corr_inv _ _ _ Hn) as (Hcfg & Hcs & Hsc & Htr). rewrite Hcfg, Hcs in *.
  rewrite C20Extra.offset_reqs_bump in Ho.
  destruct (ordered_io _ _ _ _ Ho) as (Hsc4 & Htr4 & _).
  apply ordered_spec in Ho. destruct Ho as [order ->].
  apply C07_offsets_exchange_inv in Hf. destruct Hf as (resps & Hex & _ & _).
  exists corr, order, s4, resps.
  split; [congruence|]. split; [congruence|]. split; [exact Hex|].
  intros t p host Ht Hfb.
  destruct (C06Extra.C06_offsets_complete (cs (cl s)) topics time t p host Ht Hfb) as (tps & ps & x & Hin & Htp & Hp).
  exists tps, ps, x. split; [|split; assumption].
  eapply Permutation_in; [apply Permutation_sym; apply C20Facts.reorder_perm|exact Hin].
Qed.

(* what "asked" means for one of the look-up's requests: it was written to the host and answered *)
Definition asked_in (topics : list bytes) (time : Z) (s s' : st) (t : bytes) (p : Z) : Prop :=
  exists corr order s0 resps,
    script s0 = script s /\ trace s0 = trace s
    /\ exchanges (enc_offset_req corr (client_id (cfg (cl s)))) dec_offset_resp
                 (reorder order (offset_reqs (cs (cl s)) topics time)) s0 resps s'
    /\ forall host, find_broker (cs (cl s)) t p = Some host ->
       exists tps ps x, In (host, tps) (reorder order (offset_reqs (cs (cl s)) topics time))
                        /\ In (t, ps) tps /\ In (p, x) ps.

(* THE VALIDATION BRANCH ASKS ABOUT EVERY SUBSCRIBED TOPIC.  A consumer with restored offsets (consumed <> []):
   whenever load_fetch_states succeeds, BOTH look-ups - latest, then earliest - are computed for ALL
   subscribed topics, so each puts every subscribed partition that has a leader into the request to
   that leader; in particular the partitions of a subscribed topic for which nothing at all is
   committed, whose first fetch offset (the fallback position) is read from these two answers
   (C07_group_start_offsets). *)
Theorem C07_range_branch_asks_every_subscribed_partition : forall fb asg subs consumed s fetch s',
  load_fetch_states fb asg subs consumed s = (Ok fetch, s') -> consumed <> [] ->
  exists latest s1 earliest,
    load_partition_offsets (map fst subs) FETCH_OFFSET_LATEST s = (Ok latest, s1)
    /\ load_partition_offsets (map fst subs) FETCH_OFFSET_EARLIEST s1 = (Ok earliest, s')
    /\ forall t ps p, In (t, ps) subs -> In p ps ->
         asked_in (map fst subs) FETCH_OFFSET_LATEST s s1 t p
         /\ asked_in (map fst subs) FETCH_OFFSET_EARLIEST s1 s' t p.
Proof.
  intros fb asg subs consumed s fetch s' H Hne.
  apply C07_load_fetch_states_spec in H.
  destruct H as [(Hc & _)|(_ & latest & s1 & earliest & Hl & He & _)]; [contradiction|].
  exists latest, s1, earliest. split; [exact Hl|]. split; [exact He|].
  intros t ps p Hin Hp.
  assert (Ht : In t (map fst subs)) by (apply in_map_iff; exists (t, ps); split; [reflexivity|exact Hin]).
  split.
  - destruct (C07_offsets_asked_of_every_leader _ _ _ _ _ Hl) as (corr & order & s0 & resps & H1 & H2 & H3 & H4).
    exists corr, order, s0, resps. repeat (split; [assumption|]). intros host Hfb. exact (H4 t p host Ht Hfb).
  - destruct (C07_offsets_asked_of_every_leader _ _ _ _ _ He) as (corr & order & s0 & resps & H1 & H2 & H3 & H4).
    exists corr, order, s0, resps. repeat (split; [assumption|]). intros host Hfb. exact (H4 t p host Ht Hfb).
Qed.

(* Non-vacuity: the first demonstration of seeded/C07-6 on one broker.  Topics "t" (orders) and "u"
   (payments), two partitions each, all led by "a"; (earliest, latest, committed):
   t:0 = (5, 20, 12), t:1 = (0, 9, 9), u:0 = (3, 30, none), u:1 = (0, 7, none); fallback Latest.
   The partitions of "u" start at 30 and 7. *)
Definition xu : bytes := [x75].
Definition ex_client2 : client :=
  {| cfg := ex_cfg;
     cs := {| correlation := 0; brokers := [ {| b_node := 1; b_host := xa |}; {| b_node := 2; b_host := xb |} ];
              topic_partitions := [ (xt, [0; 0]); (xu, [0; 0]) ]; group_coordinators := [ (xg, 0) ] |};
     conns := [] |}.
Definition ex_group2_answer : bytes :=
  print_offset_fetch {| wr_corr := 1; wr_topics := Some [
      {| wt_name := Some xt; wt_partitions := Some [ex_fetch_part 0 12; ex_fetch_part 1 9] |};
      {| wt_name := Some xu; wt_partitions := Some [ex_fetch_part 0 (-1); ex_fetch_part 1 (-1)] |} ] |}.
Definition ex_off_answer2 (ts us : list w_offsets_part) : bytes :=
  print_offsets {| wr_corr := 2; wr_topics := Some [
      {| wt_name := Some xt; wt_partitions := Some ts |};
      {| wt_name := Some xu; wt_partitions := Some us |} ] |}.
Definition ex_st2_of (sc : list ev_out) : st :=
  {| script := sc; trace := []; anyq := []; hostq := []; fetchq := []; entryq := [];
     cl := ex_client2; env := ex_codecs |}.
Definition ex_two_topic_calls : list cbuilder_call := [CWithGroup xg; CWithTopic xt; CWithTopic xu; CWithFallback FbLatest].
Definition ex_latest2 : list ev_out :=
  ex_talk (ex_off_answer2 [ex_off_part 0 20; ex_off_part 1 9] [ex_off_part 0 30; ex_off_part 1 7]).
Definition ex_earliest2 : list ev_out :=
  ex_talk (ex_off_answer2 [ex_off_part 0 5; ex_off_part 1 0] [ex_off_part 0 3; ex_off_part 1 0]).

Example C07_second_topic_without_commit_ex : exists k s',
  consumer_create (inr ex_client2) ex_two_topic_calls
     (ex_st2_of (OConn true :: ex_talk ex_group2_answer ++ ex_latest2 ++ ex_earliest2)) = (Ok k, s')
  /\ k_consumed k = [((0, 0), (11, false)); ((0, 1), (8, false))]
  /\ k_fetch k = [((0, 0), (12, 4096)); ((0, 1), (9, 4096)); ((1, 0), (30, 4096)); ((1, 1), (7, 4096))]
  /\ script s' = [].
Proof. eexists. eexists. split; [vm_compute; reflexivity|]. vm_compute. repeat split. Qed.

(* hypotheses of C07_range_branch_asks_every_subscribed_partition / C07_offsets_asked_of_every_leader for the
   uncommitted topic "u" on that run *)
Example C07_range_branch_asks_ex : exists fetch s',
  load_fetch_states FbLatest [(xt, []); (xu, [])] [(xt, [0; 1]); (xu, [0; 1])]
     [((0, 0), (11, false)); ((0, 1), (8, false))] (ex_st2_of (OConn true :: ex_latest2 ++ ex_earliest2)) = (Ok fetch, s')
  /\ In (xu, [0; 1]) [(xt, [0; 1]); (xu, [0; 1])]
  /\ find_broker (cs ex_client2) xu 0 = Some xa /\ find_broker (cs ex_client2) xu 1 = Some xa
  /\ tk_get (1, 0) fetch = Some (30, 4096) /\ tk_get (1, 1) fetch = Some (7, 4096).
Proof.
  eexists. eexists. split; [vm_compute; reflexivity|]. split; [right; left; reflexivity|]. vm_compute. repeat split.
Qed.

(* ... and the one request of each look-up, as computed from the client's metadata, names both partitions of "u" *)
Example C07_requests_name_uncommitted_topic_ex :
  offset_reqs (cs ex_client2) (map fst [(xt, [0; 1]); (xu, [0; 1])]) FETCH_OFFSET_LATEST
  = [(xa, [(xt, [(0, -1); (1, -1)]); (xu, [(0, -1); (1, -1)])])].
Proof. vm_compute. reflexivity. Qed.

Check C07_fresh_group_loads_empty_table.
Check C07_nothing_committed_created.
Check C07_unreported_topic_fails.
Check C07_create_complete.
Check C07_fresh_start_created.
Check C07_offsets_asked_of_every_leader.
Check C07_range_branch_asks_every_subscribed_partition.

Print Assumptions C07_fresh_group_loads_empty_table.
Print Assumptions C07_nothing_committed_created.
Print Assumptions C07_unreported_topic_fails.
Print Assumptions C07_create_complete.
Print Assumptions C07_fresh_start_created.
Print Assumptions C07_offsets_asked_of_every_leader.
Print Assumptions C07_range_branch_asks_every_subscribed_partition.
