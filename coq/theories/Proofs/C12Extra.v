(* C12, additional theorems: the HISTORY dimension of the property (any interleaving of keyed, keyless and
   explicit records over several topics, any position inside a send_all batch) and the link between the
   partitioner, State::new and what send_all hands to the client.

   Props/C12.v speaks about ONE call of `partition` with an arbitrary counter, about runs of keyless records
   only (`keyless_run`), and about the FIRST record of a batch.  Here:
   - `assign` is the default partitioner run over a list of records (the loop of send_all, without the abort);
     C12_assign_nth says that the partition of the i-th record depends on the preceding records only through
     the NUMBER of preceding records that rotate (no partition, empty key, topic with an available partition);
     C12_history_explicit / C12_history_keyed / C12_history_keyless / C12_rotation_interleaved are its
     consequences for the three kinds of records; C12_assign_counter gives the counter afterwards.
   - C12_send_all_is_assign_then_route: send_all = partitioner pass, then the client's grouping (produce_reqs)
     of the records under exactly the partitions chosen by the partitioner.
   - C12_rejected_anywhere and its three instances: an unroutable record at ANY position of the batch makes
     the whole send_all fail locally (explicit partitions outside the topic included: they are not re-assigned).
   - C12_keyed_total_count: with the state built by State::new the modulus is the topic's TOTAL partition
     count, whatever the leaders are.
   - C12_send_all_rejects / C12_send_all_counter / C12_send_counter / C12_create_state: producer_send_all,
     producer_send and producer_create: local rejection with UnknownTopicOrPartition and nothing sent, the
     counter is carried from call to call, a new producer starts at 0 with producer_state of its client. *)
From Coq Require Import ZifyBool Sorting.Permutation.
From KV Require Import Base.Prelude Base.Xxh32 Gen.Consts Model.Codecs Model.Requests Model.Responses
                       Model.ClientState Model.Net Model.Client Model.Producer Proofs.C12Facts.
Ltac Zify.zify_post_hook ::= Z.div_mod_to_equations.

(* ---- the partitioner over a history of records -------------------------------------------------- *)
(* what send_all does with one record: to_option on the key, then DefaultPartitioner::partition *)
Definition choice (parts : list (bytes * pparts)) (cntr : Z) (r : record) : Z * Z :=
  partition parts cntr (r_topic r) (r_partition r) (to_option (r_key r)).

Fixpoint assign (parts : list (bytes * pparts)) (cntr : Z) (recs : list record) : list Z * Z :=
  match recs with
  | [] => ([], cntr)
  | r :: rest => let '(p, c') := choice parts cntr r in
                 let '(ps, c'') := assign parts c' rest in (p :: ps, c'')
  end.

(* the records that take part in the round robin *)
Definition rotates (parts : list (bytes * pparts)) (r : record) : bool :=
  (r_partition r <? 0)
  && match r_key r with [] => true | _ => false end
  && match assoc_bytes (r_topic r) parts with
     | Some ps => match available_ids ps with [] => false | _ => true end
     | None => false
     end.

Definition rot_count (parts : list (bytes * pparts)) (recs : list record) : Z :=
  Z.of_nat (length (filter (rotates parts) recs)).

Lemma assign_cons parts c r rest :
  assign parts c (r :: rest)
  = (fst (choice parts c r) :: fst (assign parts (snd (choice parts c r)) rest),
     snd (assign parts (snd (choice parts c r)) rest)).
Proof.
  cbn [assign]. destruct (choice parts c r) as [p c']. cbn [fst snd].
  destruct (assign parts c' rest) as [ps c'']. reflexivity.
Qed.

Lemma choice_snd parts c r :
  snd (choice parts c r) = if rotates parts r then (c + 1) mod 4294967296 else c.
Proof.
  unfold choice, partition, rotates, to_option.
  destruct (0 <=? r_partition r) eqn:E; destruct (r_partition r <? 0) eqn:E'; try lia;
    cbn [andb]; [reflexivity|].
  destruct (assoc_bytes (r_topic r) parts) as [ps|].
  - destruct (r_key r) as [|b k].
    + destruct (available_ids ps) as [|a av]; reflexivity.
    + cbn [andb]. destruct (num_all ps =? 0); reflexivity.
  - destruct (r_key r); reflexivity.
Qed.

Lemma choice_fst_norot parts c c' r :
  rotates parts r = false -> fst (choice parts c r) = fst (choice parts c' r).
Proof.
  unfold choice, partition, rotates, to_option.
  destruct (0 <=? r_partition r) eqn:E; destruct (r_partition r <? 0) eqn:E'; try lia;
    cbn [andb]; [reflexivity|].
  destruct (assoc_bytes (r_topic r) parts) as [ps|]; [|reflexivity].
  destruct (r_key r) as [|b k].
  - destruct (available_ids ps) as [|a av]; [reflexivity|discriminate].
  - intros _. destruct (num_all ps =? 0); reflexivity.
Qed.

Lemma choice_snd_range parts c r :
  0 <= c < 4294967296 -> 0 <= snd (choice parts c r) < 4294967296.
Proof. intros Hc. rewrite choice_snd. destruct (rotates parts r); lia. Qed.

Lemma rot_count_cons parts r rest :
  rot_count parts (r :: rest) = (if rotates parts r then 1 else 0) + rot_count parts rest.
Proof.
  unfold rot_count. cbn [filter]. destruct (rotates parts r); cbn [length]; lia.
Qed.

Lemma rot_count_nonneg parts recs : 0 <= rot_count parts recs.
Proof. unfold rot_count. lia. Qed.

(* THE history theorem: the partition chosen for the i-th record of a history is the one a fresh call of
   the partitioner chooses with the counter  start + (number of preceding rotating records)  mod 2^32.
   Explicit records, keyed records, records for unknown topics and records of topics without any available
   partition leave no trace. *)
Theorem C12_assign_nth : forall parts cntr recs i r,
  0 <= cntr < 4294967296 -> nth_error recs i = Some r ->
  nth_error (fst (assign parts cntr recs)) i
  = Some (fst (choice parts ((cntr + rot_count parts (firstn i recs)) mod 4294967296) r)).
Proof.
  intros parts cntr recs. revert cntr.
  induction recs as [|r0 rest IH]; intros cntr i r Hc Hn.
  - destruct i; discriminate.
  - rewrite assign_cons. cbn [fst]. destruct i as [|j].
    + cbn [nth_error] in *. injection Hn as Hn. subst r0.
      cbn [firstn]. unfold rot_count. cbn [filter length].
      replace (cntr + Z.of_nat 0) with cntr by lia. rewrite Z.mod_small by lia. reflexivity.
    + cbn [nth_error] in *. cbn [firstn]. rewrite rot_count_cons.
      rewrite (IH _ j r (choice_snd_range parts cntr r0 Hc) Hn).
      f_equal. f_equal. f_equal. rewrite choice_snd.
      pose proof (rot_count_nonneg parts (firstn j rest)) as Hk.
      destruct (rotates parts r0).
      * rewrite Z.add_mod_idemp_l by lia. f_equal. lia.
      * f_equal.
Qed.

Theorem C12_assign_counter : forall parts cntr recs,
  0 <= cntr < 4294967296 ->
  snd (assign parts cntr recs) = (cntr + rot_count parts recs) mod 4294967296.
Proof.
  intros parts cntr recs. revert cntr.
  induction recs as [|r0 rest IH]; intros cntr Hc.
  - cbn [assign snd]. unfold rot_count. cbn [filter length]. rewrite Z.mod_small by lia. lia.
  - rewrite assign_cons. cbn [snd]. rewrite (IH _ (choice_snd_range parts cntr r0 Hc)).
    rewrite rot_count_cons, choice_snd.
    destruct (rotates parts r0).
    + rewrite Z.add_mod_idemp_l by lia. f_equal. lia.
    + f_equal.
Qed.

Lemma assign_length parts : forall recs cntr, length (fst (assign parts cntr recs)) = length recs.
Proof.
  induction recs as [|r0 rest IH]; intros cntr; [reflexivity|].
  rewrite assign_cons. cbn [fst length]. rewrite IH. reflexivity.
Qed.

(* concrete history used by the examples: t1 has the available partitions 0,2,3 of 4; t2 has 0,1 of 2 *)
Definition hx : list record :=
  [ ex_rec (tag "t1") (-1) [] (tag "a");            (* keyless t1 *)
    ex_rec (tag "t1") (-1) (tag "abc") (tag "b");   (* keyed t1 *)
    ex_rec (tag "t1") (-1) [] (tag "c");            (* keyless t1 *)
    ex_rec (tag "t2") 1 [] (tag "d");               (* explicit t2 *)
    ex_rec (tag "nope") (-1) [] (tag "e");          (* unknown topic *)
    ex_rec (tag "t1") 7 (tag "k") (tag "f");        (* explicit t1, outside the topic *)
    ex_rec (tag "empty") (-1) [] (tag "g");         (* topic without partitions *)
    ex_rec (tag "t1") (-1) [] (tag "h") ].          (* keyless t1 *)

Example C12_assign_nth_ex :
  assign ex_parts 4294967295 hx = ([0; 3; 0; 1; -1; 7; -1; 2], 2)
  /\ nth_error hx 7 = Some (ex_rec (tag "t1") (-1) [] (tag "h"))
  /\ rot_count ex_parts (firstn 7 hx) = 2 /\ rot_count ex_parts hx = 3
  /\ fst (choice ex_parts ((4294967295 + 2) mod 4294967296) (ex_rec (tag "t1") (-1) [] (tag "h"))) = 2.
Proof. vm_compute. repeat split; reflexivity. Qed.

(* ---- consequences for the three kinds of records, at any point of any history -------------------- *)
Theorem C12_history_explicit : forall parts cntr recs i r,
  nth_error recs i = Some r -> 0 <= r_partition r ->
  nth_error (fst (assign parts cntr recs)) i = Some (r_partition r).
Proof.
  intros parts cntr recs. revert cntr.
  induction recs as [|r0 rest IH]; intros cntr i r Hn Hp.
  - destruct i; discriminate.
  - rewrite assign_cons. cbn [fst]. destruct i as [|j]; cbn [nth_error] in *.
    + injection Hn as Hn. subst r0. unfold choice. rewrite C12_explicit by exact Hp. reflexivity.
    + apply IH; assumption.
Qed.

Example C12_history_explicit_ex :
  nth_error hx 5 = Some (ex_rec (tag "t1") 7 (tag "k") (tag "f"))
  /\ nth_error (fst (assign ex_parts 4294967295 hx)) 5 = Some 7
  /\ nth_error (fst (assign ex_parts 0 hx)) 3 = Some 1.
Proof. vm_compute. repeat split; reflexivity. Qed.

(* keyed: XXH32(key, 0) mod N whatever was sent before, whatever the counter, whatever is available *)
Theorem C12_history_keyed : forall parts cntr recs i r ps,
  nth_error recs i = Some r -> r_partition r < 0 -> r_key r <> [] ->
  assoc_bytes (r_topic r) parts = Some ps -> 0 < num_all ps <= 2147483648 ->
  nth_error (fst (assign parts cntr recs)) i = Some (xxh32 0 (r_key r) mod num_all ps).
Proof.
  intros parts cntr recs. revert cntr.
  induction recs as [|r0 rest IH]; intros cntr i r ps Hn Hp Hk Ha Hnum.
  - destruct i; discriminate.
  - rewrite assign_cons. cbn [fst]. destruct i as [|j]; cbn [nth_error] in *.
    + injection Hn as Hn. subst r0. unfold choice.
      assert (Hto : to_option (r_key r) = Some (r_key r)).
      { unfold to_option. destruct (r_key r); [congruence|reflexivity]. }
      rewrite Hto.
      destruct (C12_keyed parts cntr (r_topic r) (r_partition r) (r_key r) ps Hp Ha Hnum) as [Hq _].
      rewrite Hq. reflexivity.
    + eapply IH; eassumption.
Qed.

Example C12_history_keyed_ex :
  nth_error hx 1 = Some (ex_rec (tag "t1") (-1) (tag "abc") (tag "b"))
  /\ xxh32 0 (tag "abc") mod 4 = 3
  /\ nth_error (fst (assign ex_parts 4294967295 hx)) 1 = Some 3
  /\ nth_error (fst (assign ex_parts 17 (rev hx))) 6 = Some 3.
Proof. vm_compute. repeat split; reflexivity. Qed.

(* keyless (an EMPTY key counts as no key): the slot is start + number of preceding rotating records *)
Theorem C12_history_keyless : forall parts cntr recs i r ps a av,
  0 <= cntr < 4294967296 ->
  nth_error recs i = Some r -> r_partition r < 0 -> r_key r = [] ->
  assoc_bytes (r_topic r) parts = Some ps -> available_ids ps = a :: av ->
  nth_error (fst (assign parts cntr recs)) i
  = Some (nth (Z.to_nat (((cntr + rot_count parts (firstn i recs)) mod 4294967296) mod ulen (a :: av)))
              (a :: av) a)
  /\ In (nth (Z.to_nat (((cntr + rot_count parts (firstn i recs)) mod 4294967296) mod ulen (a :: av)))
             (a :: av) a) (a :: av).
Proof.
  intros parts cntr recs i r ps a av Hc Hn Hp Hk Ha Hav.
  rewrite (C12_assign_nth parts cntr recs i r Hc Hn).
  unfold choice. rewrite Hk. cbn [to_option].
  set (c := (cntr + rot_count parts (firstn i recs)) mod 4294967296).
  assert (Hcr : 0 <= c) by (subst c; lia).
  destruct (C12_keyless parts c (r_topic r) (r_partition r) ps a av Hp Ha Hav Hcr) as [Hq Hin].
  rewrite Hq in Hin. rewrite Hq. cbn [fst] in *. split; [reflexivity|exact Hin].
Qed.

(* ---- rotation with arbitrary records interleaved -------------------------------------------------- *)
(* the partitions given to the rotating records of a history, in order *)
Definition rot_parts (parts : list (bytes * pparts)) (recs : list record) (qs : list Z) : list Z :=
  map snd (filter (fun rq => rotates parts (fst rq)) (combine recs qs)).

Lemma rot_parts_cons parts r rest q qs :
  rot_parts parts (r :: rest) (q :: qs)
  = if rotates parts r then q :: rot_parts parts rest qs else rot_parts parts rest qs.
Proof.
  unfold rot_parts. cbn [combine filter fst]. destruct (rotates parts r); reflexivity.
Qed.

Lemma rotates_inv parts r :
  rotates parts r = true ->
  r_partition r < 0 /\ r_key r = [] /\
  exists ps a av, assoc_bytes (r_topic r) parts = Some ps /\ available_ids ps = a :: av.
Proof.
  unfold rotates. intros H.
  destruct (r_partition r <? 0) eqn:E; [|discriminate]. cbn [andb] in H.
  destruct (r_key r) as [|b k]; [|discriminate]. cbn [andb] in H.
  destruct (assoc_bytes (r_topic r) parts) as [ps|]; [|discriminate].
  destruct (available_ids ps) as [|a av] eqn:Hav; [discriminate|].
  split; [lia|]. split; [reflexivity|]. exists ps, a, av. split; [reflexivity|exact Hav].
Qed.

(* If every rotating record of the history is for the topic t (keyed records, explicit records, records of
   unknown topics and of topics without available partitions may be interleaved freely, for t or for any other
   topic), then the rotating records walk through t's available partitions cyclically, starting at the
   counter: the j-th of them gets av[(cntr + j) mod |av|] -- as long as the counter does not wrap. *)
Theorem C12_rotation_interleaved_slots : forall parts cntr recs t ps a av,
  assoc_bytes t parts = Some ps -> available_ids ps = a :: av ->
  (forall r, In r recs -> rotates parts r = true -> r_topic r = t) ->
  0 <= cntr -> cntr + rot_count parts recs <= 4294967296 ->
  rot_parts parts recs (fst (assign parts cntr recs))
  = map (fun j => nth (idx_at cntr (ulen (a :: av)) j) (a :: av) a)
        (seq 0 (Z.to_nat (rot_count parts recs))).
Proof.
  intros parts cntr recs t ps a av Ha Hav. revert cntr.
  induction recs as [|r0 rest IH]; intros cntr Hall Hc Hb.
  - reflexivity.
  - rewrite assign_cons. cbn [fst]. rewrite rot_parts_cons.
    rewrite rot_count_cons in *. pose proof (rot_count_nonneg parts rest) as Hk.
    assert (Hall' : forall r, In r rest -> rotates parts r = true -> r_topic r = t).
    { intros r Hin. apply Hall. right. exact Hin. }
    rewrite choice_snd.
    destruct (rotates parts r0) eqn:Er.
    + assert (Ht : r_topic r0 = t) by (apply Hall; [left; reflexivity|exact Er]).
      destruct (rotates_inv parts r0 Er) as [Hp [Hkey _]].
      replace (Z.to_nat (1 + rot_count parts rest)) with (S (Z.to_nat (rot_count parts rest))) by lia.
      cbn [seq map]. f_equal.
      * unfold choice. rewrite Hkey, Ht. cbn [to_option].
        destruct (C12_keyless parts cntr t (r_partition r0) ps a av Hp Ha Hav Hc) as [Hq _].
        rewrite Hq. cbn [fst]. unfold idx_at. f_equal. f_equal. f_equal. lia.
      * destruct (Z.eq_dec (rot_count parts rest) 0) as [Hz|Hnz].
        { (* no further rotating record: both sides empty, whatever the counter *)
          rewrite Hz. cbn [Z.to_nat seq map].
          assert (Hnil : forall qs, rot_parts parts rest qs = []).
          { unfold rot_count in Hz. clear - Hz. intros qs. unfold rot_parts.
            assert (Hf : filter (rotates parts) rest = [])
              by (destruct (filter (rotates parts) rest); [reflexivity|cbn [length] in Hz; lia]).
            clear Hz. revert qs. induction rest as [|x xs IHx]; intros qs; [reflexivity|].
            destruct qs as [|q qs]; [reflexivity|]. cbn [combine filter fst].
            cbn [filter] in Hf. destruct (rotates parts x); [discriminate|]. apply IHx. exact Hf. }
          apply Hnil. }
        rewrite Z.mod_small by lia. rewrite (IH (cntr + 1) Hall') by lia.
        rewrite <- seq_shift, map_map. apply map_ext. intros j.
        unfold idx_at. f_equal. f_equal. f_equal. lia.
    + rewrite (IH cntr Hall') by lia. reflexivity.
Qed.

Lemma map_seq_from {A} (m : nat) : forall (f : nat -> A) (i : nat),
  map f (seq i m) = map (fun j => f (i + j)%nat) (seq 0 m).
Proof.
  induction m as [|m IHm]; intros f i; [reflexivity|].
  cbn [seq map]. f_equal; [f_equal; lia|].
  rewrite (IHm f (S i)). rewrite (IHm (fun j => f (i + j)%nat) 1%nat).
  apply map_ext. intros j. f_equal. lia.
Qed.

(* ... hence any |av| consecutive ones among them visit every available partition exactly once *)
Theorem C12_rotation_interleaved : forall parts cntr recs t ps av i,
  assoc_bytes t parts = Some ps -> available_ids ps = av -> av <> [] ->
  (forall r, In r recs -> rotates parts r = true -> r_topic r = t) ->
  0 <= cntr -> cntr + rot_count parts recs <= 4294967296 ->
  Z.of_nat (i + length av) <= rot_count parts recs ->
  Permutation (firstn (length av) (skipn i (rot_parts parts recs (fst (assign parts cntr recs))))) av.
Proof.
  intros parts cntr recs t ps av i Ha Hav Hne Hall Hc Hb Hi.
  destruct av as [|a av']; [congruence|].
  rewrite (C12_rotation_interleaved_slots parts cntr recs t ps a av' Ha Hav Hall Hc Hb).
  remember (a :: av') as l eqn:El.
  assert (Hlen : (0 < length l)%nat) by (subst l; cbn [length]; lia).
  set (n := Z.to_nat (rot_count parts recs)).
  assert (Hn : (i + length l <= n)%nat) by (subst n; lia).
  rewrite skipn_map, firstn_map.
  assert (Hseq : firstn (length l) (skipn i (seq 0 n)) = seq i (length l)).
  { replace n with (i + (length l + (n - i - length l)))%nat by lia.
    rewrite seq_app. rewrite skipn_app, seq_length, Nat.sub_diag.
    rewrite skipn_all2 by (rewrite seq_length; lia). cbn [skipn app].
    rewrite seq_app, firstn_app, seq_length, Nat.sub_diag. cbn [firstn].
    rewrite firstn_all2 by (rewrite seq_length; lia). apply app_nil_r. }
  rewrite Hseq.
  (* seq i L = map (+i) (seq 0 L); idx_at cntr L (i + j) = idx_at (cntr + i) L j *)
  assert (Hshift : map (fun j => nth (idx_at cntr (ulen l) j) l a) (seq i (length l))
                   = map (fun j => nth j l a)
                         (map (idx_at (cntr + Z.of_nat i) (Z.of_nat (length l))) (seq 0 (length l)))).
  { rewrite map_seq_from, map_map. apply map_ext. intros j.
    unfold idx_at, ulen. f_equal. f_equal. f_equal. lia. }
  rewrite Hshift. apply Permutation_sym.
  apply (@Permutation_trans _ _ (map (fun j => nth j l a) (seq 0 (length l)))).
  - rewrite map_nth_seq_id. apply Permutation_refl.
  - apply Permutation_map. apply idx_perm. exact Hlen.
Qed.

(* seven t1-keyless records with keyed / explicit / unknown / out-of-range-explicit records in between;
   windows at offsets 0..4 of the keyless records' partitions are permutations of [0;2;3] *)
Definition hx2 : list record :=
  hx ++ [ ex_rec (tag "t2") (-1) (tag "zz") (tag "i"); ex_rec (tag "t1") (-1) [] (tag "j");
          ex_rec (tag "t1") (-1) [] (tag "k"); ex_rec (tag "t2") 0 [] (tag "l");
          ex_rec (tag "t1") (-1) [] (tag "m"); ex_rec (tag "t1") (-1) [] (tag "n") ].

Example C12_rotation_interleaved_ex :
  (forall r, In r hx2 -> rotates ex_parts r = true -> r_topic r = tag "t1")
  /\ rot_count ex_parts hx2 = 7 /\ length hx2 = 14%nat
  /\ rot_parts ex_parts hx2 (fst (assign ex_parts 5 hx2)) = [3; 0; 2; 3; 0; 2; 3]
  /\ Z.of_nat (4 + length [0; 2; 3]) <= rot_count ex_parts hx2.
Proof.
  split.
  - intros r Hin Hr. cbn [hx2 hx app In] in Hin.
    repeat (destruct Hin as [Hin|Hin]; [subst r; first [reflexivity | vm_compute in Hr; discriminate]|]).
    destruct Hin.
  - vm_compute. repeat split; try reflexivity; discriminate.
Qed.

(* the position-wise form without a hypothesis on the counter: some counter value is used *)
Lemma assign_nth_some parts : forall recs cntr i r,
  nth_error recs i = Some r ->
  exists c, nth_error (fst (assign parts cntr recs)) i = Some (fst (choice parts c r)).
Proof.
  induction recs as [|r0 rest IH]; intros cntr i r Hn.
  - destruct i; discriminate.
  - rewrite assign_cons. cbn [fst]. destruct i as [|j]; cbn [nth_error] in *.
    + injection Hn as Hn. subst r0. exists cntr. reflexivity.
    + apply IH. exact Hn.
Qed.

(* unknown topic, anywhere in a history: left unassigned *)
Theorem C12_history_unknown : forall parts cntr recs i r,
  nth_error recs i = Some r -> r_partition r < 0 -> assoc_bytes (r_topic r) parts = None ->
  nth_error (fst (assign parts cntr recs)) i = Some (r_partition r).
Proof.
  intros parts cntr recs i r Hn Hp Ha.
  destruct (assign_nth_some parts recs cntr i r Hn) as [c Hc]. rewrite Hc.
  unfold choice. rewrite C12_unknown by assumption. reflexivity.
Qed.

Example C12_history_unknown_ex :
  nth_error hx 4 = Some (ex_rec (tag "nope") (-1) [] (tag "e"))
  /\ assoc_bytes (tag "nope") ex_parts = None
  /\ nth_error (fst (assign ex_parts 4294967295 hx)) 4 = Some (-1).
Proof. vm_compute. repeat split; reflexivity. Qed.

(* ---- send_all = partitioner pass + the client's grouping ------------------------------------------ *)
(* the ProduceMessages handed to KafkaClient::internal_produce_messages: the record's topic, key and value
   (empty = absent) under the partition chosen by the partitioner *)
Fixpoint assigned_msgs (recs : list record) (qs : list Z) : list produce_message :=
  match recs, qs with
  | r :: rs, q :: qs' => {| pq_topic := r_topic r; pq_partition := q; pq_key := to_option (r_key r);
                            pq_value := to_option (r_value r) |} :: assigned_msgs rs qs'
  | _, _ => []
  end.

Theorem C12_send_all_is_assign_then_route : forall s parts cntr recs reqs,
  fst (send_all_reqs s parts cntr recs reqs)
  = produce_reqs s (assigned_msgs recs (fst (assign parts cntr recs))) reqs
  /\ (fst (send_all_reqs s parts cntr recs reqs) <> None ->
      snd (send_all_reqs s parts cntr recs reqs) = snd (assign parts cntr recs)).
Proof.
  intros s parts cntr recs. revert cntr. induction recs as [|r rest IH]; intros cntr reqs.
  - cbn [send_all_reqs assign assigned_msgs produce_reqs fst snd]. split; reflexivity.
  - rewrite assign_cons. unfold choice.
    cbn [fst snd assigned_msgs produce_reqs pq_topic pq_partition pq_key pq_value send_all_reqs].
    destruct (partition parts cntr (r_topic r) (r_partition r) (to_option (r_key r))) as [p c'] eqn:E.
    cbn [fst snd].
    destruct (find_broker s (r_topic r) p) as [host|].
    + apply IH.
    + cbn [fst]. split; [reflexivity|congruence].
Qed.

Example C12_send_all_is_assign_then_route_ex :
  let recs := [ ex_rec (tag "t2") (-1) [] (tag "a"); ex_rec (tag "t1") (-1) (tag "abc") (tag "b");
                ex_rec (tag "t2") (-1) [] (tag "c"); ex_rec (tag "t1") 2 [] [] ] in
  fst (assign (producer_state ex_state) 0 recs) = [0; 3; 1; 2]
  /\ fst (send_all_reqs ex_state (producer_state ex_state) 0 recs [])
     = Some [ (tag "h1:9092", [ (tag "t2", [(0, [(None, Some (tag "a"))])]);
                                (tag "t1", [(2, [(None, None)])]) ]);
              (tag "h0:9092", [ (tag "t1", [(3, [(Some (tag "abc"), Some (tag "b"))])]);
                                (tag "t2", [(1, [(None, Some (tag "c"))])]) ]) ].
Proof. vm_compute. split; reflexivity. Qed.

(* ---- an unroutable record ANYWHERE in the batch makes send_all fail locally ----------------------- *)
Lemma send_all_rejects_if s parts (P : record -> Prop) :
  (forall r c, P r -> find_broker s (r_topic r) (fst (choice parts c r)) = None) ->
  forall recs cntr reqs r, In r recs -> P r -> fst (send_all_reqs s parts cntr recs reqs) = None.
Proof.
  intros HP. induction recs as [|r0 rest IH]; intros cntr reqs r Hin Hr; [destruct Hin|].
  cbn [send_all_reqs].
  destruct (partition parts cntr (r_topic r0) (r_partition r0) (to_option (r_key r0))) as [p c'] eqn:E.
  destruct (find_broker s (r_topic r0) p) as [host|] eqn:Ef; [|reflexivity].
  destruct Hin as [Heq|Hin].
  - subst r0. pose proof (HP r cntr Hr) as Hnone. unfold choice in Hnone. rewrite E in Hnone.
    cbn [fst] in Hnone. congruence.
  - eapply IH; eassumption.
Qed.

(* a record (with or without explicit partition, key or not) for a topic unknown to the client *)
Theorem C12_unknown_topic_rejected_anywhere : forall s parts cntr recs reqs r,
  In r recs -> partitions_for s (r_topic r) = None ->
  fst (send_all_reqs s parts cntr recs reqs) = None.
Proof.
  intros s parts cntr recs reqs r Hin Hu.
  apply (send_all_rejects_if s parts (fun r => partitions_for s (r_topic r) = None)) with (r := r);
    [|exact Hin|exact Hu].
  intros r' c Hr'. unfold find_broker. rewrite Hr'. reflexivity.
Qed.

(* a record the partitioner leaves unassigned because its snapshot does not know the topic *)
Theorem C12_unassigned_rejected_anywhere : forall s parts cntr recs reqs r,
  In r recs -> r_partition r < 0 -> assoc_bytes (r_topic r) parts = None ->
  fst (send_all_reqs s parts cntr recs reqs) = None.
Proof.
  intros s parts cntr recs reqs r Hin Hp Ha.
  apply (send_all_rejects_if s parts
           (fun r => r_partition r < 0 /\ assoc_bytes (r_topic r) parts = None)) with (r := r);
    [|exact Hin|split; assumption].
  intros r' c [Hp' Ha']. unfold choice. rewrite C12_unknown by assumption. cbn [fst].
  apply find_broker_neg. exact Hp'.
Qed.

(* an explicit partition is never re-assigned: if that very partition cannot be routed (it does not exist
   in the topic, or has no leader), the batch is rejected, wherever the record stands in the batch *)
Theorem C12_explicit_unroutable_rejected_anywhere : forall s parts cntr recs reqs r,
  In r recs -> 0 <= r_partition r -> find_broker s (r_topic r) (r_partition r) = None ->
  fst (send_all_reqs s parts cntr recs reqs) = None.
Proof.
  intros s parts cntr recs reqs r Hin Hp Hf.
  apply (send_all_rejects_if s parts
           (fun r => 0 <= r_partition r /\ find_broker s (r_topic r) (r_partition r) = None))
    with (r := r); [|exact Hin|split; assumption].
  intros r' c [Hp' Hf']. unfold choice. rewrite C12_explicit by assumption. exact Hf'.
Qed.

Theorem C12_explicit_out_of_range_rejected_anywhere : forall s parts cntr recs reqs r l,
  In r recs -> partitions_for s (r_topic r) = Some l -> ulen l <= r_partition r ->
  fst (send_all_reqs s parts cntr recs reqs) = None.
Proof.
  intros s parts cntr recs reqs r l Hin Hl Hge.
  apply (C12_explicit_unroutable_rejected_anywhere s parts cntr recs reqs r Hin).
  - unfold ulen in Hge. lia.
  - unfold find_broker, partition_ref, nth_z. rewrite Hl.
    destruct ((r_partition r <? 0) || (ulen l <=? r_partition r)) eqn:E; [reflexivity|lia].
Qed.

Example C12_rejected_anywhere_ex :
  let good := ex_rec (tag "t2") (-1) [] (tag "a") in
  partitions_for ex_state (tag "nope") = None
  /\ partitions_for ex_state (tag "t1") = Some [0; UNKNOWN_BROKER_INDEX; 1; 0]
  /\ fst (send_all_reqs ex_state (producer_state ex_state) 0 [good; good] []) <> None
  /\ fst (send_all_reqs ex_state (producer_state ex_state) 0
            [good; good; ex_rec (tag "nope") 0 (tag "k") (tag "v")] []) = None
  /\ fst (send_all_reqs ex_state (producer_state ex_state) 0
            [good; ex_rec (tag "nope") (-1) [] (tag "v"); good] []) = None
  /\ (* explicit partition 4 of the 4-partition topic t1, keyed and keyless; leaderless partition 1 *)
     fst (send_all_reqs ex_state (producer_state ex_state) 0
            [good; good; ex_rec (tag "t1") 4 (tag "abc") (tag "v")] []) = None
  /\ fst (send_all_reqs ex_state (producer_state ex_state) 0
            [good; ex_rec (tag "t1") 4 [] (tag "v")] []) = None
  /\ fst (send_all_reqs ex_state (producer_state ex_state) 0
            [good; ex_rec (tag "t1") 1 [] (tag "v")] []) = None.
Proof. vm_compute. repeat split; try reflexivity; discriminate. Qed.

(* ---- State::new: the keyed modulus is the TOTAL partition count ----------------------------------- *)
Theorem C12_keyed_total_count : forall s cntr topic p k l,
  p < 0 -> partitions_for s topic = Some l -> 0 < ulen l <= 2147483648 ->
  partition (producer_state s) cntr topic p (Some k) = (xxh32 0 k mod ulen l, cntr)
  /\ 0 <= xxh32 0 k mod ulen l < ulen l.
Proof.
  intros s cntr topic p k l Hp Hl Hn.
  apply (C12_keyed (producer_state s) cntr topic p k
           {| available_ids := map fst (leaders_from s l 0); num_all := ulen l |} Hp).
  - rewrite producer_state_assoc, Hl. reflexivity.
  - cbn [num_all]. exact Hn.
Qed.

(* same topic, same key: all four partitions led / only one of four led / none led *)
Definition st_leaders (l : list Z) : cstate :=
  {| correlation := 0;
     brokers := [ {| b_node := 10; b_host := tag "h0:9092" |}; {| b_node := 11; b_host := tag "h1:9092" |} ];
     topic_partitions := [ (tag "t1", l) ]; group_coordinators := [] |}.

Example C12_keyed_total_count_ex :
  xxh32 0 (tag "abc") mod 4 = 3 /\ xxh32 0 (tag "abc") mod 3 = 0
  /\ partition (producer_state (st_leaders [0; 1; 0; 1])) 5 (tag "t1") (-1) (Some (tag "abc")) = (3, 5)
  /\ partition (producer_state (st_leaders [0; UNKNOWN_BROKER_INDEX; 0; 1])) 6 (tag "t1") (-1)
               (Some (tag "abc")) = (3, 6)
  /\ partition (producer_state (st_leaders [UNKNOWN_BROKER_INDEX; UNKNOWN_BROKER_INDEX;
                                            UNKNOWN_BROKER_INDEX; UNKNOWN_BROKER_INDEX])) 7 (tag "t1") (-1)
               (Some (tag "abc")) = (3, 7).
Proof. vm_compute. repeat split; reflexivity. Qed.

(* a keyed record anywhere in a history sent through a producer built from s *)
Theorem C12_history_keyed_total_count : forall s cntr recs i r l,
  nth_error recs i = Some r -> r_partition r < 0 -> r_key r <> [] ->
  partitions_for s (r_topic r) = Some l -> 0 < ulen l <= 2147483648 ->
  nth_error (fst (assign (producer_state s) cntr recs)) i = Some (xxh32 0 (r_key r) mod ulen l).
Proof.
  intros s cntr recs i r l Hn Hp Hk Hl Hnum.
  apply (C12_history_keyed (producer_state s) cntr recs i r
           {| available_ids := map fst (leaders_from s l 0); num_all := ulen l |} Hn Hp Hk).
  - rewrite producer_state_assoc, Hl. reflexivity.
  - cbn [num_all]. exact Hnum.
Qed.

(* ---- producer_send_all / producer_send / producer_create ------------------------------------------ *)
Lemma mbind_ok {A B} (m : M A) (f : A -> M B) s b s' :
  mbind m f s = (Ok b, s') -> exists a s1, m s = (Ok a, s1) /\ f a s1 = (Ok b, s').
Proof.
  unfold mbind. destruct (m s) as [[a|e|w] s1]; intros H; try discriminate. exists a, s1. split; [reflexivity|exact H].
Qed.

Lemma find_broker_ext s s' :
  brokers s = brokers s' -> topic_partitions s = topic_partitions s' ->
  forall t p, find_broker s t p = find_broker s' t p.
Proof.
  intros Hb Ht t p. unfold find_broker, partitions_for, broker_of. rewrite Hb, Ht. reflexivity.
Qed.

Lemma send_all_reqs_ext s s' parts :
  brokers s = brokers s' -> topic_partitions s = topic_partitions s' ->
  forall recs cntr reqs, send_all_reqs s parts cntr recs reqs = send_all_reqs s' parts cntr recs reqs.
Proof.
  intros Hb Ht. induction recs as [|r rest IH]; intros cntr reqs; [reflexivity|].
  cbn [send_all_reqs].
  destruct (partition parts cntr (r_topic r) (r_partition r) (to_option (r_key r))) as [p c'].
  rewrite (find_broker_ext s s' Hb Ht).
  destruct (find_broker s' (r_topic r) p); [apply IH|reflexivity].
Qed.

(* next_corr only bumps the correlation id *)
Lemma next_corr_spec (s : st) :
  exists n s1, next_corr s = (Ok n, s1) /\ trace s1 = trace s /\ script s1 = script s
               /\ brokers (cs (cl s1)) = brokers (cs (cl s))
               /\ topic_partitions (cs (cl s1)) = topic_partitions (cs (cl s)).
Proof.
  unfold next_corr, mbind, get_client, next_correlation_id, set_cs, set_client, get_client, ret, mbind.
  cbn. eexists. eexists. repeat split.
Qed.

(* "rejected": when the partitioner/router pass fails, send_all returns UnknownTopicOrPartition and not a
   single I/O event happened (trace and script untouched) *)
Theorem C12_send_all_rejects : forall p recs s,
  fst (send_all_reqs (cs (cl s)) (p_parts p) (p_cntr p) recs []) = None ->
  exists s', producer_send_all p recs s = (Err (EKafka KC_UnknownTopicOrPartition), s')
             /\ trace s' = trace s /\ script s' = script s.
Proof.
  intros p recs s Hnone.
  destruct (next_corr_spec s) as [n [s1 [Hn [Htr [Hsc [Hb Ht]]]]]].
  unfold producer_send_all. unfold mbind at 1. rewrite Hn.
  unfold mbind at 1. unfold get_client at 1.
  rewrite (send_all_reqs_ext (cs (cl s1)) (cs (cl s)) (p_parts p) Hb Ht).
  destruct (send_all_reqs (cs (cl s)) (p_parts p) (p_cntr p) recs []) as [oreqs c'].
  cbn [fst] in Hnone. subst oreqs. exists s1. repeat split; assumption.
Qed.

(* the producer that comes back from a successful send_all: same snapshot, counter advanced by the
   partitioner pass over the whole batch *)
Theorem C12_send_all_counter : forall p recs s cf p' s',
  producer_send_all p recs s = (Ok (cf, p'), s') ->
  p_parts p' = p_parts p
  /\ p_cntr p' = snd (assign (p_parts p) (p_cntr p) recs)
  /\ fst (send_all_reqs (cs (cl s)) (p_parts p) (p_cntr p) recs []) <> None.
Proof.
  intros p recs s cf p' s' H.
  destruct (next_corr_spec s) as [n [s1 [Hn [Htr [Hsc [Hb Ht]]]]]].
  unfold producer_send_all in H.
  apply mbind_ok in H. destruct H as [n' [s1' [Hn' H]]].
  rewrite Hn in Hn'. injection Hn' as Hn' Hs1. subst n' s1'.
  apply mbind_ok in H. destruct H as [c [s2 [Hc H]]].
  unfold get_client in Hc. injection Hc as Hc Hs2. subst c s2.
  rewrite (send_all_reqs_ext (cs (cl s1)) (cs (cl s)) (p_parts p) Hb Ht) in H.
  destruct (C12_send_all_is_assign_then_route (cs (cl s)) (p_parts p) (p_cntr p) recs []) as [_ Hsnd].
  destruct (send_all_reqs (cs (cl s)) (p_parts p) (p_cntr p) recs []) as [oreqs c'].
  cbn [fst snd] in *.
  destruct oreqs as [reqs|]; [|discriminate].
  apply mbind_ok in H. destruct H as [reqs' [s3 [_ H]]].
  apply mbind_ok in H. destruct H as [cf' [s4 [_ H]]].
  unfold ret in H. injection H as Hcf Hp' Hs'. subst p'.
  cbn [producer_set_cntr p_parts p_cntr].
  split; [reflexivity|]. split; [apply Hsnd; discriminate|discriminate].
Qed.

(* Producer::send = send_all of one record: the counter moves exactly as the partitioner says, so a chain of
   send calls is `assign` over the list of records sent *)
Theorem C12_send_counter : forall p r s p' s',
  producer_send p r s = (Ok p', s') ->
  p_parts p' = p_parts p /\ p_cntr p' = snd (choice (p_parts p) (p_cntr p) r).
Proof.
  intros p r s p' s' H. unfold producer_send in H.
  apply mbind_ok in H. destruct H as [[cf p1] [s1 [Hall H]]].
  apply C12_send_all_counter in Hall. destruct Hall as [Hparts [Hcntr _]].
  rewrite assign_cons in Hcntr. cbn [assign snd] in Hcntr.
  assert (Hp : p' = p1).
  { destruct (p_acks p =? 0).
    - unfold ret in H. injection H as H _. symmetry. exact H.
    - destruct cf as [|[t pcs] [|x cf']]; try (unfold mpanic in H; discriminate).
      destruct pcs as [|[q [o|code]] [|y pcs']]; try (unfold mpanic in H; discriminate);
        try (unfold fail in H; discriminate).
      unfold ret in H. injection H as H _. symmetry. exact H. }
  subst p1. split; assumption.
Qed.

(* Builder::create: the snapshot is State::new of the client's metadata at creation, the counter starts at 0 *)
Theorem C12_create_state : forall src calls s p s',
  producer_create src calls s = (Ok p, s') ->
  p_parts p = producer_state (cs (cl s')) /\ p_cntr p = 0 /\ p_client p = cl s'.
Proof.
  intros src calls s p s' H. unfold producer_create in H.
  apply mbind_ok in H. destruct H as [c [s1 [_ H]]].
  apply mbind_ok in H. destruct H as [u1 [s2 [_ H]]].
  apply mbind_ok in H. destruct H as [t [s3 [_ H]]].
  apply mbind_ok in H. destruct H as [u2 [s4 [_ H]]].
  apply mbind_ok in H. destruct H as [c' [s5 [Hc H]]].
  unfold get_client in Hc. injection Hc as Hc Hs. subst c' s5.
  unfold ret in H. injection H as Hp Hs. subst p s'. cbn [p_parts p_cntr p_client]. repeat split.
Qed.

Definition xenv : codecs :=
  {| gz_compress := fun b => b; sn_compress := fun b => b; gz_decompress := fun b => Some b;
     debug_build := false |}.
Definition xst (sc : list ev_out) : st :=
  {| script := sc; trace := []; anyq := []; hostq := []; fetchq := []; entryq := [];
     cl := {| cfg := default_config []; cs := ex_state; conns := [] |}; env := xenv |}.
Definition xp (c acks : Z) : producer :=
  {| p_client := cl (xst []); p_parts := producer_state ex_state; p_cntr := c; p_ack_timeout := 1000;
     p_acks := acks |}.
Definition kl (t : String.string) : record := ex_rec (tag t) (-1) [] (tag "v").
Arguments kl t%string_scope.

Example C12_send_all_rejects_ex :
  fst (send_all_reqs ex_state (producer_state ex_state) 5 [kl "t2"; kl "nope"; kl "t2"] []) = None
  /\ fst (producer_send_all (xp 5 1) [kl "t2"; kl "nope"; kl "t2"] (xst [OConn true; OWrote 1000]))
     = Err (EKafka KC_UnknownTopicOrPartition)
  /\ trace (snd (producer_send_all (xp 5 1) [kl "t2"; kl "nope"; kl "t2"] (xst [OConn true; OWrote 1000]))) = []
  /\ (* explicit partition 4 of the 4-partition topic t1 *)
     fst (producer_send_all (xp 5 1) [kl "t2"; ex_rec (tag "t1") 4 (tag "abc") (tag "v")]
            (xst [OConn true; OWrote 1000]))
     = Err (EKafka KC_UnknownTopicOrPartition).
Proof. vm_compute. repeat split; reflexivity. Qed.

Example C12_send_all_counter_ex :
  match producer_send_all (xp 4294967295 0) [kl "t2"; ex_rec (tag "t1") (-1) (tag "abc") (tag "v"); kl "t2"]
          (xst [OConn true; OWrote 1000; OConn true; OWrote 1000]) with
  | (Ok (cf, p'), s') => p_cntr p' = 1 /\ p_parts p' = producer_state ex_state /\ length (trace s') = 4%nat
  | _ => False
  end.
Proof. vm_compute. repeat split; reflexivity. Qed.

Example C12_send_counter_ex :
  match producer_send (xp 4294967295 0) (kl "t2") (xst [OConn true; OWrote 1000]) with
  | (Ok p', s') =>
      p_cntr p' = 0
      /\ match producer_send p' (ex_rec (tag "t1") (-1) (tag "abc") (tag "v")) (xst [OConn true; OWrote 1000]) with
         | (Ok p'', _) => p_cntr p'' = 0
         | _ => False
         end
  | _ => False
  end.
Proof. vm_compute. repeat split; reflexivity. Qed.

Example C12_create_state_ex :
  match producer_create (inr (cl (xst []))) [PWithAcks 0] (xst []) with
  | (Ok p, s') => p_parts p = producer_state ex_state /\ p_cntr p = 0
                  /\ assoc_bytes (tag "t1") (p_parts p) = Some {| available_ids := [0; 2; 3]; num_all := 4 |}
  | _ => False
  end.
Proof. vm_compute. repeat split; reflexivity. Qed.

(* ---- two things the wording of the property glosses over (concrete witnesses) ---------------------- *)
(* 1. "a partition that has a leader in the producer's metadata" means the snapshot taken by State::new at
   creation (p_parts), which is never refreshed, while routing uses the client's CURRENT metadata.  Producer
   created while both partitions of t2 had leaders; later the client's metadata has partition 1 leaderless:
   the keyless record with an odd counter is still sent to partition 1 and the send is rejected, although
   partition 0 has a leader. *)
Definition ex_state_later : cstate :=
  {| correlation := 0; brokers := brokers ex_state;
     topic_partitions := [ (tag "t1", [0; UNKNOWN_BROKER_INDEX; 1; 0]); (tag "t2", [1; UNKNOWN_BROKER_INDEX]) ];
     group_coordinators := [] |}.

Theorem C12_keyless_has_leader_stale_snapshot_refuted :
  exists s s' cntr r ps,
    r_partition r < 0 /\ r_key r = [] /\ assoc_bytes (r_topic r) (producer_state s) = Some ps
    /\ available_ids ps <> [] /\ 0 <= cntr
    /\ find_broker s' (r_topic r) 0 <> None
    /\ find_broker s' (r_topic r) (fst (choice (producer_state s) cntr r)) = None
    /\ fst (send_all_reqs s' (producer_state s) cntr [r] []) = None.
Proof.
  exists ex_state, ex_state_later, 1, (kl "t2"), {| available_ids := [0; 1]; num_all := 2 |}.
  vm_compute. repeat split; try reflexivity; discriminate.
Qed.

(* 2. a batch that is rejected locally still consumes rotation slots (the counter keeps what it counted
   before the abort, cntr_after): keyless t2, then unknown topic -> rejected with nothing sent, counter 0 -> 1;
   so of the keyless t2 records that are actually DELIVERED, consecutive ones can repeat a partition *)
Example C12_rejected_batch_consumes_slot_ex :
  send_all_reqs ex_state (producer_state ex_state) 0 [kl "t2"; kl "nope"] [] = (None, 1)
  /\ fst (choice (producer_state ex_state) 1 (kl "t2")) = 1
  /\ send_all_reqs ex_state (producer_state ex_state) 2 [kl "t2"; kl "nope"] [] = (None, 3)
  /\ fst (choice (producer_state ex_state) 3 (kl "t2")) = 1.
Proof. vm_compute. repeat split; reflexivity. Qed.

Check C12_assign_nth.
Check C12_assign_counter.
Check C12_history_explicit.
Check C12_history_keyed.
Check C12_history_keyless.
Check C12_history_unknown.
Check C12_rotation_interleaved_slots.
Check C12_rotation_interleaved.
Check C12_send_all_is_assign_then_route.
Check C12_unknown_topic_rejected_anywhere.
Check C12_unassigned_rejected_anywhere.
Check C12_explicit_unroutable_rejected_anywhere.
Check C12_explicit_out_of_range_rejected_anywhere.
Check C12_keyed_total_count.
Check C12_history_keyed_total_count.
Check C12_send_all_rejects.
Check C12_send_all_counter.
Check C12_send_counter.
Check C12_create_state.

Print Assumptions C12_assign_nth.
Print Assumptions C12_assign_counter.
Print Assumptions C12_history_explicit.
Print Assumptions C12_history_keyed.
Print Assumptions C12_history_keyless.
Print Assumptions C12_history_unknown.
Print Assumptions C12_rotation_interleaved_slots.
Print Assumptions C12_rotation_interleaved.
Print Assumptions C12_send_all_is_assign_then_route.
Print Assumptions C12_unknown_topic_rejected_anywhere.
Print Assumptions C12_unassigned_rejected_anywhere.
Print Assumptions C12_explicit_unroutable_rejected_anywhere.
Print Assumptions C12_explicit_out_of_range_rejected_anywhere.
Print Assumptions C12_keyed_total_count.
Print Assumptions C12_history_keyed_total_count.
Print Assumptions C12_send_all_rejects.
Print Assumptions C12_send_all_counter.
Print Assumptions C12_send_counter.
Print Assumptions C12_create_state.
Print Assumptions C12_keyless_has_leader_stale_snapshot_refuted.
