(* C11, fourth adequacy pass (round-seven seed).  Everything here is about the unchanged model.

   Seed C11-7 (`array_of!` in src/protocol/fetch.rs applies the pre-allocation bound 1024 to `n_elems` itself, so
   the fetch-response parser stops after the 1024th element of a topics / partitions array) is mirrored by
   `zread_array` (Model/Responses.v; `zread_many d (S (length r)) n r` becomes `... (Z.min n 1024) r`).
   It was NOT covered by Props/C11.v: every fetch / poll statement there starts from the DECODED responses
   (`C11_poll_fails`, `C11_consumer_poll_fails`: "consumer_fetch returned resps, and all_parts resps = ...") or
   from ONE partition entry (`C11_fetch`: read_partition); nothing said that every entry the broker lists is
   decoded.  Confirmed in a scratch copy: with the mirrored change all of Props/C11.v still compiles, every
   theorem "Closed under the global context" (the only proof that stops is C10Facts.zread_array_print, i.e. the
   C10 / C02 round trips `C10_fetch_passthrough`, `C02_response` - other properties).

   Part A  (the seed, on ARBITRARY bytes)  a successful decode of a fetch array / topic / response returns exactly
           as many elements as the count on the wire says (not min(count, 1024)), each decoded where the previous
           one ended.  False on the mutated model (negation proved there with a 1025-element array).
   Part B  (the seed, forward, position explicit)  the broker lists a partition with code e <> 0 at position j of
           topic i of a well-formed response, any i, any j, any length of either listing: the decoded response
           has, at position j of topic i, that partition id with `inr (kind_of e)` - the kind documented for the
           WIRE code - and no data; listings keep their lengths.  False on the mutated model (j = 1024).
   Part C  (whole public calls, through the socket)  KafkaClient::fetch_messages and Consumer::poll for a consumer
           whose partitions are led by one broker: the request is written, one frame is read, and
           - fetch_messages returns the response with the per-partition error at the position listed (C11_fetch_messages_code_reported);
           - poll FAILS with the kind of the first non-zero code listed, whatever its position, the consumer
             comes back with fetch offsets, retry queue and consumed offsets untouched - so the next poll asks for
             the same offsets again (C11_consumer_poll_code_fails);
           - converse: if poll returns message sets, EVERY partition the broker listed had code 0
             (C11_consumer_poll_ok_only_if_wire), and on arbitrary input: poll returns message sets only if the
             consumer's fetch returned responses without a single code (C11_consumer_poll_ok_only_if).

   Not done / not proved:
   - Part C is for ONE broker and for the ordinary poll (empty retry queue); for several brokers iterate
     C02ExtraB.C02_fetch_round_delivered along C02_fetch_messages_rounds; for the single-partition retry poll
     the same proof goes through with the one-element input.
   - the backward direction of Part A (a chain of element decodes of the announced length IS what zread_array
     returns) needs "every element consumes at least one byte" for the fuel; only the count/chain direction that the
     seed breaks is stated.
   - a response whose message sets do not decode (CRC, nesting) fails as a whole with that error (C02_response_refused);
     a code listed in such a response is then not reported as such - the call still does not succeed. *)
From KV Require Import Base.Prelude Gen.ErrorCodes Gen.Consts Model.Codecs Model.Requests Model.Responses
                       Model.ClientState Model.Net Model.Client Model.Producer Model.Consumer.
From KV Require Import Spec.MsgSetSpec Spec.RespGrammar.
From KV Require Import Proofs.BytesFacts Proofs.C11Facts Proofs.C10Facts Proofs.C11Extra
                       Proofs.C11ExtraB Proofs.C11ExtraC.
From KV Require Import Proofs.C02Lemmas Proofs.C02Facts Proofs.C02Extra.
From KV Require Proofs.C02ExtraB.
From Coq Require Import ZifyBool.
Ltac Zify.zify_post_hook ::= Z.div_mod_to_equations.

(* ================================================================================================ *)
(* Part A: every element announced on the wire is decoded                                            *)
(* ================================================================================================ *)

(* xs are decoded one after the other from bs, each where the previous one ended; rest is what is left *)
Inductive reads_seq {A} (d : bytes -> res (A * bytes)) : bytes -> list A -> bytes -> Prop :=
| rs_nil bs : reads_seq d bs [] bs
| rs_cons bs x r xs rest : d bs = Ok (x, r) -> reads_seq d r xs rest -> reads_seq d bs (x :: xs) rest.

Lemma zread_many_complete {A} (d : bytes -> res (A * bytes)) : forall fuel count bs xs rest,
  zread_many d fuel count bs = Ok (xs, rest) ->
  Z.of_nat (length xs) = Z.max 0 count /\ reads_seq d bs xs rest.
Proof.
  induction fuel as [|f IH]; intros count bs xs rest H.
  - cbn [zread_many] in H. destruct (count <=? 0) eqn:E; [|discriminate H].
    inversion H; subst. split; [cbn [length]; lia|constructor].
  - cbn [zread_many] in H. destruct (count <=? 0) eqn:E.
    + inversion H; subst. split; [cbn [length]; lia|constructor].
    + destruct (d bs) as [[x r]|e|w] eqn:Ed; cbn [bind] in H; try discriminate H.
      destruct (zread_many d f (count - 1) r) as [[xs' r']|e|w] eqn:Em; cbn [bind] in H; try discriminate H.
      inversion H; subst. destruct (IH _ _ _ _ Em) as [Hl Hs].
      split; [cbn [length]; lia|]. econstructor; [exact Ed|exact Hs].
Qed.

(* array_of!: what comes back has the length the wire announced (a negative count is an empty array),
   whatever that length is *)
Theorem C11_fetch_array_complete : forall A sz (d : bytes -> res (A * bytes)) bs xs rest,
  zread_array sz d bs = Ok (xs, rest) ->
  exists n r0, zread_i32 bs = Ok (n, r0) /\ Z.of_nat (length xs) = Z.max 0 n /\ reads_seq d r0 xs rest.
Proof.
  intros A sz d bs xs rest H. unfold zread_array, zread_array_len in H.
  destruct (zread_i32 bs) as [[n r0]|e|w] eqn:E; cbn [bind] in H; try discriminate H.
  apply zread_many_complete in H. destruct H as [Hl Hs].
  exists n, r0. split; [reflexivity|]. split; [|exact Hs].
  destruct (n <? 0) eqn:En; lia.
Qed.

(* Topic::read: name, then ALL partitions announced *)
Theorem C11_fetch_topic_listing_complete : forall cz depth validate reqs bs ft rest,
  read_topic cz depth validate reqs bs = Ok (ft, rest) ->
  exists name r1 n r2,
    zread_str bs = Ok (name, r1) /\ zread_i32 r1 = Ok (n, r2) /\ ft_topic ft = name
    /\ Z.of_nat (length (ft_partitions ft)) = Z.max 0 n
    /\ reads_seq (read_partition cz depth validate (assoc_bytes name reqs)) r2 (ft_partitions ft) rest.
Proof.
  intros cz depth validate reqs bs ft rest H. unfold read_topic in H.
  destruct (zread_str bs) as [[name r1]|e|w] eqn:E1; cbn [bind] in H; try discriminate H.
  destruct (zread_array 64 (read_partition cz depth validate (assoc_bytes name reqs)) r1) as [[ps r]|e|w] eqn:E2;
    cbn [bind] in H; try discriminate H.
  inversion H; subst. cbn [ft_topic ft_partitions].
  destruct (C11_fetch_array_complete _ _ _ _ _ _ E2) as (n & r2 & Hn & Hl & Hs).
  exists name, r1, n, r2. repeat split; assumption.
Qed.

(* Response::from_vec: correlation id, then ALL topics announced *)
Theorem C11_fetch_response_listing_complete : forall cz depth validate reqs bs resp,
  fetch_from_vec cz depth validate reqs bs = Ok resp ->
  exists r1 n r2 rest,
    zread_i32 bs = Ok (fr_corr resp, r1) /\ zread_i32 r1 = Ok (n, r2)
    /\ Z.of_nat (length (fr_topics resp)) = Z.max 0 n
    /\ reads_seq (read_topic cz depth validate reqs) r2 (fr_topics resp) rest.
Proof.
  intros cz depth validate reqs bs resp H. unfold fetch_from_vec in H.
  destruct (zread_i32 bs) as [[c r1]|e|w] eqn:E1; cbn [bind] in H; try discriminate H.
  destruct (zread_array 40 (read_topic cz depth validate reqs) r1) as [[ts r]|e|w] eqn:E2;
    cbn [bind] in H; try discriminate H.
  inversion H; subst. cbn [fr_corr fr_topics].
  destruct (C11_fetch_array_complete _ _ _ _ _ _ E2) as (n & r2 & Hn & Hl & Hs).
  exists r1, n, r2, r. repeat split; assumption.
Qed.

(* every element of such a chain was decoded by one application of the element decoder; for partitions:
   its id and its code are the ones at that place of the wire (C11_fetch) *)
Lemma reads_seq_In {A} (d : bytes -> res (A * bytes)) bs xs rest :
  reads_seq d bs xs rest -> forall x, In x xs -> exists b r, d b = Ok (x, r).
Proof.
  induction 1 as [bs|bs x r xs rest Hd _ IH]; intros y Hy; [destruct Hy|].
  destruct Hy as [<-|Hy]; [exists bs, r; exact Hd|exact (IH y Hy)].
Qed.

(* one decoded partition entry, read off the wire: id and code are the first two fields at its place; data
   only for wire code 0, otherwise the kind of that code *)
Lemma read_partition_wire cz depth validate preqs b fp r :
  read_partition cz depth validate preqs b = Ok (fp, r) ->
  exists p r1 e r2, zread_i32 b = Ok (p, r1) /\ zread_i16 r1 = Ok (e, r2) /\ fp_partition fp = p
    /\ (e <> 0 -> fp_data fp = inr (kind_of e)) /\ (e = 0 -> exists dd, fp_data fp = inl dd).
Proof.
  intros H. unfold read_partition in H.
  destruct (zread_i32 b) as [[p r1]|e0|w] eqn:E1; [|discriminate H|discriminate H]. cbn [bind] in H.
  destruct (zread_i16 r1) as [[e r2]|e0|w] eqn:E2; [|discriminate H|discriminate H]. cbn [bind] in H.
  destruct (zread_i64 r2) as [[hw r3]|e0|w] eqn:E3; cbn [bind] in H; try discriminate H.
  destruct (zread_bytes r3) as [[ms r4]|e0|w] eqn:E4; cbn [bind] in H; try discriminate H.
  destruct (from_slice cz depth validate _ ms) as [msgs|e0|w] eqn:E5; cbn [bind] in H; try discriminate H.
  inversion H; subst. exists p, r1, e, r2. cbn [fp_partition fp_data].
  split; [first [exact E1|reflexivity]|]. split; [first [exact E2|reflexivity]|]. split; [reflexivity|]. split.
  - intros He. rewrite (C11_wire_kind _ He). reflexivity.
  - intros ->. rewrite from_protocol_zero. eexists. reflexivity.
Qed.

(* hence for a whole decoded topic (arbitrary bytes): every partition handed out was an entry of the listing,
   and it carries data only if the code at that place of the wire was 0 *)
Theorem C11_fetch_topic_entries_wire : forall cz depth validate reqs bs ft rest,
  read_topic cz depth validate reqs bs = Ok (ft, rest) ->
  forall fp, In fp (ft_partitions ft) ->
  exists b r p r1 e r2,
    read_partition cz depth validate (assoc_bytes (ft_topic ft) reqs) b = Ok (fp, r)
    /\ zread_i32 b = Ok (p, r1) /\ zread_i16 r1 = Ok (e, r2) /\ fp_partition fp = p
    /\ (e <> 0 -> fp_data fp = inr (kind_of e)) /\ (e = 0 -> exists dd, fp_data fp = inl dd).
Proof.
  intros cz depth validate reqs bs ft rest H fp Hin.
  destruct (C11_fetch_topic_listing_complete _ _ _ _ _ _ _ H) as (name & r1 & n & r2 & _ & _ & Hname & _ & Hs).
  destruct (reads_seq_In _ _ _ _ Hs fp Hin) as (b & r & Hd). rewrite <- Hname in Hd.
  destruct (read_partition_wire _ _ _ _ _ _ _ Hd) as (p & q1 & e & q2 & H1 & H2 & H3 & H4 & H5).
  exists b, r, p, q1, e, q2. repeat split; assumption.
Qed.

(* ================================================================================================ *)
(* Part B: a code listed at ANY position of a well-formed response                                   *)
(* ================================================================================================ *)
Lemma view_arr_list {A B} (v : A -> B) xs : view_arr v xs = map v (view_list xs).
Proof. destruct xs; reflexivity. Qed.

Lemma view_part_code cz d validate reqs tname q : wfe_error q <> 0 ->
  view_part cz d validate reqs tname q
  = {| fp_partition := wfe_partition q; fp_data := inr (kind_of (wfe_error q)) |}.
Proof. intros H. unfold view_part. rewrite (C11_wire_kind _ H). reflexivity. Qed.

Lemma view_part_healthy cz d validate reqs tname q : wfe_error q = 0 ->
  exists dd, fp_data (view_part cz d validate reqs tname q) = inl dd.
Proof. intros H. unfold view_part. cbn [fp_data]. rewrite H, from_protocol_zero. eexists. reflexivity. Qed.

(* what is reported for the listing `r`: same number of topics, per topic the same number of partitions, and
   at the place of every entry with a non-zero code: its partition id and the kind of that code, no data *)
Definition codes_reported (r : w_topics_resp w_fetch_part) (resp : fetch_resp) : Prop :=
  length (fr_topics resp) = length (view_list (wr_topics r))
  /\ forall i t, nth_error (view_list (wr_topics r)) i = Some t ->
       exists ft, nth_error (fr_topics resp) i = Some ft
                  /\ ft_topic ft = view_str (wt_name t)
                  /\ length (ft_partitions ft) = length (view_list (wt_partitions t))
                  /\ forall j q, nth_error (view_list (wt_partitions t)) j = Some q -> wfe_error q <> 0 ->
                       nth_error (ft_partitions ft) j
                       = Some {| fp_partition := wfe_partition q; fp_data := inr (kind_of (wfe_error q)) |}.

Lemma view_fresp_codes cz d validate reqs r : codes_reported r (view_fresp cz d validate reqs r).
Proof.
  unfold codes_reported, view_fresp. cbn [fr_topics]. rewrite view_arr_list. split; [apply map_length|].
  intros i t Ht. exists (view_ftopic cz d validate reqs t).
  split; [apply map_nth_error; exact Ht|]. unfold view_ftopic. cbn [ft_topic ft_partitions].
  split; [reflexivity|]. rewrite view_arr_list. split; [apply map_length|].
  intros j q Hq He. rewrite (map_nth_error _ _ _ Hq). f_equal. apply view_part_code. exact He.
Qed.

(* Response::from_vec on what a broker prints: hypotheses as in C02_response (well-formed listing, every message
   set decodes); any number of topics and partitions, anything behind the response *)
Theorem C11_fetch_decode_code_reported : forall cz d validate reqs r rest,
  wf_fetch r ->
  (forall t p, In t (view_list (wr_topics r)) -> In p (view_list (wt_partitions t)) ->
     exists ms, exposed cz d validate reqs (view_str (wt_name t)) p = Ok ms) ->
  exists resp, fetch_from_vec cz d validate reqs (print_fetch r ++ rest) = Ok resp /\ codes_reported r resp.
Proof.
  intros cz d validate reqs r rest Hwf Hdec. exists (view_fresp cz d validate reqs r).
  split; [apply C02_response; assumption|apply view_fresp_codes].
Qed.

(* the same with the position written as "so many entries before it" *)
Lemma nth_error_mid {A} (pre : list A) x post : nth_error (pre ++ x :: post) (length pre) = Some x.
Proof. rewrite nth_error_app2 by lia. rewrite Nat.sub_diag. reflexivity. Qed.

Theorem C11_fetch_decode_position : forall cz d validate reqs r rest tpre t tpost pre q post,
  wf_fetch r ->
  (forall t p, In t (view_list (wr_topics r)) -> In p (view_list (wt_partitions t)) ->
     exists ms, exposed cz d validate reqs (view_str (wt_name t)) p = Ok ms) ->
  wr_topics r = Some (tpre ++ t :: tpost) -> wt_partitions t = Some (pre ++ q :: post) ->
  wfe_error q <> 0 ->
  exists resp ft,
    fetch_from_vec cz d validate reqs (print_fetch r ++ rest) = Ok resp
    /\ nth_error (fr_topics resp) (length tpre) = Some ft
    /\ length (ft_partitions ft) = (length pre + 1 + length post)%nat
    /\ nth_error (ft_partitions ft) (length pre)
       = Some {| fp_partition := wfe_partition q; fp_data := inr (kind_of (wfe_error q)) |}.
Proof.
  intros cz d validate reqs r rest tpre t tpost pre q post Hwf Hdec Hts Hps He.
  destruct (C11_fetch_decode_code_reported cz d validate reqs r rest Hwf Hdec) as (resp & Hr & _ & Hc).
  rewrite Hts in Hc. cbn [view_list] in Hc.
  destruct (Hc (length tpre) t (nth_error_mid tpre t tpost)) as (ft & Hft & _ & Hlen & Hj).
  rewrite Hps in Hlen, Hj. cbn [view_list] in Hlen, Hj.
  exists resp, ft. split; [exact Hr|]. split; [exact Hft|]. split.
  - rewrite Hlen, app_length. cbn [length]. lia.
  - apply (Hj (length pre) q (nth_error_mid pre q post) He).
Qed.

(* ---- non-vacuity, and the seed's shape: 1025 partitions, the refused one listed last ---- *)
Definition exe_healthy (i : nat) : w_fetch_part :=
  {| wfe_partition := Z.of_nat i; wfe_error := 0; wfe_highwater := 7; wfe_message_set := [] |}.
Definition exe_refused : w_fetch_part :=
  {| wfe_partition := 1024; wfe_error := 6; wfe_highwater := -1; wfe_message_set := [] |}.
Definition exe_long : w_topics_resp w_fetch_part :=
  {| wr_corr := 3;
     wr_topics := Some [ {| wt_name := Some [x74];
                            wt_partitions := Some (map exe_healthy (seq 0 1024) ++ [exe_refused]) |} ] |}.

Example exe_long_wf : wf_fetch exe_long.
Proof.
  unfold wf_fetch, wf_topics_resp, exe_long. cbn [wr_corr wr_topics wf_array].
  split; [unfold in_i32; lia|]. split; [|vm_compute; reflexivity].
  apply Forall_cons; [|apply Forall_nil]. unfold wf_topic. cbn [wt_name wt_partitions wf_array wf_string].
  split; [split; [vm_compute; reflexivity|vm_compute; discriminate]|].
  split; [|vm_compute; reflexivity].
  apply Forall_app. split.
  - apply Forall_forall. intros p Hp. apply in_map_iff in Hp. destruct Hp as (i & <- & Hi).
    apply in_seq in Hi. unfold wf_fetch_part, exe_healthy, in_i32, in_i16, in_i64.
    cbn [wfe_partition wfe_error wfe_highwater wfe_message_set length]. lia.
  - apply Forall_cons; [|apply Forall_nil]. unfold wf_fetch_part, exe_refused, in_i32, in_i16, in_i64.
    cbn [wfe_partition wfe_error wfe_highwater wfe_message_set length]. lia.
Qed.

Example exe_long_sets : forall t p, In t (view_list (wr_topics exe_long)) -> In p (view_list (wt_partitions t)) ->
  exists ms, exposed (wcz true) 1 true [] (view_str (wt_name t)) p = Ok ms.
Proof.
  intros t p Ht Hp. cbn [exe_long wr_topics view_list In] in Ht. destruct Ht as [<-|[]].
  cbn [wt_partitions view_list] in Hp. exists []. unfold exposed.
  apply in_app_or in Hp. destruct Hp as [Hp|[<-|[]]]; [|reflexivity].
  apply in_map_iff in Hp. destruct Hp as (i & <- & _). reflexivity.
Qed.

Example C11_fetch_decode_position_ex :
  wr_topics exe_long = Some ([] ++ {| wt_name := Some [x74];
                                     wt_partitions := Some (map exe_healthy (seq 0 1024) ++ [exe_refused]) |} :: [])
  /\ length (map exe_healthy (seq 0 1024)) = 1024%nat
  /\ wfe_error exe_refused <> 0
  /\ match fetch_from_vec (wcz true) 1 true [] (print_fetch exe_long ++ [x09]) with
     | Ok resp => match fr_topics resp with
                  | [ft] => length (ft_partitions ft) = 1025%nat
                            /\ nth_error (ft_partitions ft) 1024 = Some {| fp_partition := 1024; fp_data := inr 6 |}
                            /\ nth_error (ft_partitions ft) 1023 = Some {| fp_partition := 1023; fp_data := inl (7, []) |}
                  | _ => False
                  end
     | _ => False
     end.
Proof.
  split; [reflexivity|]. split; [vm_compute; reflexivity|]. split; [vm_compute; discriminate|].
  vm_compute. repeat split; reflexivity.
Qed.

(* Part A on the same bytes: 1025 announced, 1025 decoded *)
Example C11_fetch_array_complete_ex :
  match zread_array 1 zread_i8 (p_i32 1025 ++ repeat x00 1025) with
  | Ok (xs, rest) => length xs = 1025%nat /\ rest = []
  | _ => False
  end.
Proof. vm_compute. split; reflexivity. Qed.

(* ================================================================================================ *)
(* Part C: the public calls, through the socket                                                      *)
(* ================================================================================================ *)

(* the situation of C02ExtraB.C02_fetch_messages_one_broker: every partition of `input` is led by broker h,
   whose connection is pooled and has not idled out; the stream takes the request frame in one write and then
   delivers one frame - the size, then `print_fetch r ++ extra` in the reads asked for - and then `tail`;
   r is a well-formed listing whose message sets are prefixes of well-formed logs within the nesting bound *)
Definition one_broker_answers (comp : Z -> bytes -> bytes) (input : list fetch_partition) (s : st) (h : bytes)
           (r : w_topics_resp w_fetch_part) (extra : bytes) (tail : list ev_out) : Prop :=
  input <> []
  /\ (forall q, In q input -> find_broker (cs (cl s)) (fq_topic q) (fq_partition q) = Some h)
  /\ in_pool h (conns (cl s)) = true /\ idle_expired (cfg (cl s)) = false
  /\ (exists p,
        enc_fetch_req (fst (next_correlation_id (cs (cl s)))) (client_id (cfg (cl s)))
                      (fetch_max_wait_time (cfg (cl s))) (fetch_min_bytes (cfg (cl s)))
                      (match assoc_bytes h (fetchq s) with
                       | Some o => order_fetch o (build_reqs (map (C02ExtraB.ask_mb (cfg (cl s))) input))
                       | None => build_reqs (map (C02ExtraB.ask_mb (cfg (cl s))) input) end) = Ok p
        /\ script s = OWrote (ulen (frame p)) :: OData (p_i32 (ulen (print_fetch r ++ extra)))
                      :: map OData (C02ExtraB.chunk_list (length (print_fetch r ++ extra)) (print_fetch r ++ extra))
                         ++ tail)
  /\ ulen (print_fetch r ++ extra) <= i32_max
  /\ codec_ok (env s) comp /\ wf_fetch r
  /\ (forall t q, In t (view_list (wr_topics r)) -> In q (view_list (wt_partitions t)) ->
        exists es k, wfe_message_set q = firstn k (ser comp es) /\ wf_entries comp es
                     /\ (depth es < decode_depth)%nat).

Lemma one_broker_fetch comp input s h r extra tail :
  one_broker_answers comp input s h r extra tail ->
  exists s', fetch_messages input s
             = (Ok [view_fresp (env s) decode_depth (fetch_crc_validation (cfg (cl s)))
                               (build_reqs (map (C02ExtraB.ask_mb (cfg (cl s))) input)) r], s')
             /\ script s' = tail.
Proof.
  intros (Hne & Hall & Hpool & Hidle & (p & Henc & Hs) & Hmax & Hc & Hwf & Hsets).
  exact (proj1 (C02ExtraB.C02_fetch_messages_one_broker comp input s h p r extra tail
                  Hne Hall Hpool Hidle Henc Hmax Hs Hc Hwf Hsets)).
Qed.

(* KafkaClient::fetch_messages: the call succeeds with ONE response, and every partition the broker listed with
   a non-zero code - at any position of any topic - is in it at that position as a per-partition error of the
   documented kind, without data *)
Theorem C11_fetch_messages_code_reported : forall comp input s h r extra tail,
  one_broker_answers comp input s h r extra tail ->
  exists resp s', fetch_messages input s = (Ok [resp], s') /\ script s' = tail /\ codes_reported r resp.
Proof.
  intros comp input s h r extra tail H. destruct (one_broker_fetch _ _ _ _ _ _ _ H) as (s' & Hf & Hs).
  eexists. exists s'. split; [exact Hf|]. split; [exact Hs|apply view_fresp_codes].
Qed.

(* ---- Consumer::poll ---- *)
Definition poll_input (k : consumer) : list fetch_partition :=
  map (fun '((tr, p), (off, maxb)) =>
         {| fq_topic := topic_name k tr; fq_partition := p; fq_offset := off; fq_max_bytes := maxb |}) (k_fetch k).

Lemma consumer_fetch_ordinary k s resps s' : k_retry k = [] ->
  fetch_messages (poll_input k) s = (Ok resps, s') ->
  consumer_fetch k s = (Ok (ulen (k_fetch k), Ok resps, k), s').
Proof.
  intros Hr Hf. unfold consumer_fetch. rewrite Hr. unfold mbind, mtry. fold (poll_input k). rewrite Hf. reflexivity.
Qed.

Lemma all_parts_view cz d validate reqs r tpre t tpost pre q post :
  view_list (wr_topics r) = tpre ++ t :: tpost -> view_list (wt_partitions t) = pre ++ q :: post ->
  all_parts [view_fresp cz d validate reqs r]
  = (flat_map ft_partitions (map (view_ftopic cz d validate reqs) tpre)
     ++ map (view_part cz d validate reqs (view_str (wt_name t))) pre)
    ++ view_part cz d validate reqs (view_str (wt_name t)) q
    :: (map (view_part cz d validate reqs (view_str (wt_name t))) post
        ++ flat_map ft_partitions (map (view_ftopic cz d validate reqs) tpost)).
Proof.
  intros Hts Hps. unfold all_parts. cbn [flat_map]. rewrite app_nil_r.
  unfold view_fresp. cbn [fr_topics]. rewrite view_arr_list, Hts, map_app, flat_map_app.
  cbn [map flat_map]. unfold view_ftopic at 2. cbn [ft_partitions].
  rewrite view_arr_list, Hps, map_app. cbn [map]. rewrite <- !app_assoc. reflexivity.
Qed.

Lemma in_parts_view cz d validate reqs ts x :
  In x (flat_map ft_partitions (map (view_ftopic cz d validate reqs) ts)) ->
  exists t q, In t ts /\ In q (view_list (wt_partitions t))
              /\ x = view_part cz d validate reqs (view_str (wt_name t)) q.
Proof.
  intros H. apply in_flat_map in H. destruct H as (ft & Hft & Hx).
  apply in_map_iff in Hft. destruct Hft as (t & <- & Ht).
  unfold view_ftopic in Hx. cbn [ft_partitions] in Hx. rewrite view_arr_list in Hx.
  apply in_map_iff in Hx. destruct Hx as (q & <- & Hq). exists t, q. repeat split; assumption.
Qed.

(* the broker refuses a partition: the first non-zero code of its listing - whatever the topic, whatever the
   position, however many healthy entries in front - is the error of the poll (kind documented for the wire
   code); the consumer that comes back differs from k only in the client handle, so fetch offsets, retry queue
   and consumed offsets are those from before the call and the next poll asks for the same offsets again *)
Theorem C11_consumer_poll_code_fails : forall comp k s h r extra tail tpre t tpost pre q post,
  k_retry k = [] ->
  one_broker_answers comp (poll_input k) s h r extra tail ->
  view_list (wr_topics r) = tpre ++ t :: tpost -> view_list (wt_partitions t) = pre ++ q :: post ->
  (forall t' q', In t' tpre -> In q' (view_list (wt_partitions t')) -> wfe_error q' = 0) ->
  (forall q', In q' pre -> wfe_error q' = 0) ->
  wfe_error q <> 0 ->
  exists s', consumer_poll k s
             = (Ok (Err (EKafka (kind_of (wfe_error q))), consumer_with_client k (cl s')), s')
             /\ script s' = tail
             /\ poll_input (consumer_with_client k (cl s')) = poll_input k.
Proof.
  intros comp k s h r extra tail tpre t tpost pre q post Hretry H Hts Hps Htpre Hpre He.
  destruct (one_broker_fetch _ _ _ _ _ _ _ H) as (s' & Hf & Hs).
  exists s'. split; [|split; [exact Hs|reflexivity]].
  eapply C11_consumer_poll_fails.
  - apply consumer_fetch_ordinary; [exact Hretry|exact Hf].
  - apply (all_parts_view _ _ _ _ r tpre t tpost pre q post Hts Hps).
  - intros x Hx. apply in_app_or in Hx. destruct Hx as [Hx|Hx].
    + apply in_parts_view in Hx. destruct Hx as (t' & q' & Ht' & Hq' & ->).
      apply view_part_healthy. exact (Htpre t' q' Ht' Hq').
    + apply in_map_iff in Hx. destruct Hx as (q' & <- & Hq'). apply view_part_healthy. exact (Hpre q' Hq').
  - rewrite (view_part_code _ _ _ _ _ q He). reflexivity.
Qed.

(* converse on arbitrary input: poll hands out message sets only if the consumer's fetch succeeded and not one
   partition of any response carries a code *)
Theorem C11_consumer_poll_ok_only_if : forall k s ms k2 s',
  consumer_poll k s = (Ok (Ok ms, k2), s') ->
  exists n resps k',
    consumer_fetch k s = (Ok (n, Ok resps, k'), s')
    /\ ms_responses ms = resps
    /\ forall p, In p (all_parts resps) -> exists d, fp_data p = inl d.
Proof.
  intros k s ms k2 s' H. unfold consumer_poll in H. unfold mbind at 1 in H.
  destruct (consumer_fetch k s) as [[[[n r] k']|e|w] s1] eqn:Ef; try discriminate H.
  unfold mbind, get_client, get_env in H.
  destruct r as [resps|er|w]; cbn [ret mpanic] in H; try discriminate H.
  unfold ret in H. inversion H as [[Hp Hs]]. subst s1.
  destruct (C11_poll_ok_clean _ _ _ _ _ _ Hp) as [Hms Hall].
  exists n, resps, k'. split; [reflexivity|]. split; assumption.
Qed.

(* converse through the socket: message sets only if EVERY partition the broker listed - all of them, at every
   position - has code 0 *)
Theorem C11_consumer_poll_ok_only_if_wire : forall comp k s h r extra tail ms k2 s2,
  k_retry k = [] ->
  one_broker_answers comp (poll_input k) s h r extra tail ->
  consumer_poll k s = (Ok (Ok ms, k2), s2) ->
  forall t q, In t (view_list (wr_topics r)) -> In q (view_list (wt_partitions t)) -> wfe_error q = 0.
Proof.
  intros comp k s h r extra tail ms k2 s2 Hretry H Hp t q Ht Hq.
  destruct (one_broker_fetch _ _ _ _ _ _ _ H) as (s' & Hf & Hs).
  pose proof (consumer_fetch_ordinary k s _ s' Hretry Hf) as Hcf.
  destruct (C11_consumer_poll_ok_only_if k s ms k2 s2 Hp) as (n & resps & k' & Hcf' & _ & Hall).
  set (cz := env s) in *. set (v := fetch_crc_validation (cfg (cl s))) in *.
  set (reqs := build_reqs (map (C02ExtraB.ask_mb (cfg (cl s))) (poll_input k))) in *.
  rewrite Hcf in Hcf'.
  assert (Hres : resps = [view_fresp cz decode_depth v reqs r]) by congruence.
  rewrite Hres in Hall. clear Hcf' Hres.
  destruct (Z.eq_dec (wfe_error q) 0) as [E|E]; [exact E|exfalso].
  apply in_split in Ht. destruct Ht as (tpre & tpost & Hts).
  apply in_split in Hq. destruct Hq as (pre & post & Hps).
  destruct (Hall (view_part cz decode_depth v reqs (view_str (wt_name t)) q)) as [dd Hd].
  - rewrite (all_parts_view cz decode_depth v reqs r tpre t tpost pre q post Hts Hps).
    apply in_or_app. right. left. reflexivity.
  - rewrite (view_part_code _ _ _ _ _ q E) in Hd. discriminate Hd.
Qed.

(* ---- non-vacuity: a consumer of t/0, t/1, t/2 (all led by b1); the broker lists 0 and 2 healthy and
        refuses partition 1 (code 6), listed LAST ---- *)
Definition exe_part (p e hw : Z) : w_fetch_part :=
  {| wfe_partition := p; wfe_error := e; wfe_highwater := hw; wfe_message_set := [] |}.
Definition exe_resp (e : Z) : w_topics_resp w_fetch_part :=
  {| wr_corr := 1;
     wr_topics := Some [ {| wt_name := Some [x74];
                            wt_partitions := Some [ exe_part 0 0 5; exe_part 2 0 7; exe_part 1 e (-1) ] |} ] |}.
Definition exe_k : consumer :=
  {| k_client := C02ExtraB.exb_client; k_group := []; k_fallback := FbLatest; k_retry_limit := 0;
     k_assign := [([x74], [0; 1; 2])];
     k_fetch := [((0, 0), (0, 1000)); ((0, 1), (0, 1000)); ((0, 2), (0, 1000))];
     k_retry := []; k_consumed := [] |}.
Definition exe_p : bytes :=
  match enc_fetch_req 1 [] (fetch_max_wait_time (cfg C02ExtraB.exb_client)) (fetch_min_bytes (cfg C02ExtraB.exb_client))
                      (build_reqs (map (C02ExtraB.ask_mb (cfg C02ExtraB.exb_client)) (poll_input exe_k)))
  with Ok p => p | _ => [] end.
Definition exe_st (e : Z) : st :=
  {| script := OWrote (ulen (frame exe_p)) :: OData (p_i32 (ulen (print_fetch (exe_resp e) ++ [])))
               :: map OData (C02ExtraB.chunk_list (length (print_fetch (exe_resp e) ++ [])) (print_fetch (exe_resp e) ++ []))
                  ++ [OData [x09]];
     trace := []; anyq := []; hostq := []; fetchq := []; entryq := [];
     cl := C02ExtraB.exb_client; env := wcz true |}.

Example exe_answers : forall e, in_i16 e ->
  one_broker_answers wcomp (poll_input exe_k) (exe_st e) C02ExtraB.exb_h (exe_resp e) [] [OData [x09]].
Proof.
  intros e He. unfold one_broker_answers.
  split; [discriminate|].
  split; [intros q [<-|[<-|[<-|[]]]]; vm_compute; reflexivity|].
  split; [vm_compute; reflexivity|]. split; [vm_compute; reflexivity|].
  split; [exists exe_p; split; [vm_compute; reflexivity|reflexivity]|].
  split.
  { unfold print_fetch, print_topics_resp, exe_resp, print_topic, print_fetch_part, exe_part, ulen.
    cbn [wr_corr wr_topics wt_name wt_partitions p_array p_seq p_string wfe_partition wfe_error wfe_highwater
         wfe_message_set length].
    rewrite !app_length. unfold p_i16, p_i32, p_i64. rewrite !be_enc_length. cbn [length]. vm_compute. discriminate. }
  split; [apply wcomp_codec_ok|]. split.
  { unfold wf_fetch, wf_topics_resp, exe_resp. cbn [wr_corr wr_topics wf_array].
    split; [unfold in_i32; lia|]. split; [|vm_compute; reflexivity].
    apply Forall_cons; [|apply Forall_nil]. unfold wf_topic. cbn [wt_name wt_partitions wf_array wf_string].
    split; [split; [vm_compute; reflexivity|vm_compute; discriminate]|].
    split; [|vm_compute; reflexivity].
    unfold in_i16 in He.
    repeat (apply Forall_cons; [unfold wf_fetch_part, exe_part, in_i32, in_i16, in_i64;
                                cbn [wfe_partition wfe_error wfe_highwater wfe_message_set length]; lia|]).
    apply Forall_nil. }
  intros t q Ht Hq. cbn [exe_resp wr_topics view_list In] in Ht. destruct Ht as [<-|[]].
  cbn [wt_partitions view_list In] in Hq. exists [], 0%nat.
  destruct Hq as [<-|[<-|[<-|[]]]];
    (split; [reflexivity|]; split; [constructor|]; unfold decode_depth, MAX_COMPRESSION_DEPTH; cbn [depth fold_right]; lia).
Qed.

Example C11_consumer_poll_code_fails_ex :
  k_retry exe_k = []
  /\ view_list (wr_topics (exe_resp 6)) = [] ++ {| wt_name := Some [x74];
         wt_partitions := Some [ exe_part 0 0 5; exe_part 2 0 7; exe_part 1 6 (-1) ] |} :: []
  /\ match fst (consumer_poll exe_k (exe_st 6)) with
     | Ok (Err (EKafka c), k2) => c = 6 /\ k_fetch k2 = k_fetch exe_k /\ k_retry k2 = [] /\ k_consumed k2 = []
     | _ => False
     end
  /\ script (snd (consumer_poll exe_k (exe_st 6))) = [OData [x09]]
  /\ (exists ms k2, fst (consumer_poll exe_k (exe_st 0)) = Ok (Ok ms, k2))
  /\ match fst (consumer_poll exe_k (exe_st 36)) with Ok (Err (EKafka c), _) => c = -1 | _ => False end
  /\ match fst (fetch_messages (poll_input exe_k) (exe_st 6)) with
     | Ok [resp] => map ft_partitions (fr_topics resp)
                    = [[ {| fp_partition := 0; fp_data := inl (5, []) |};
                         {| fp_partition := 2; fp_data := inl (7, []) |};
                         {| fp_partition := 1; fp_data := inr 6 |} ]]
     | _ => False
     end.
Proof.
  split; [reflexivity|]. split; [reflexivity|]. split; [vm_compute; repeat split; reflexivity|].
  split; [vm_compute; reflexivity|]. split; [do 2 eexists; vm_compute; reflexivity|].
  split; [vm_compute; reflexivity|]. vm_compute. reflexivity.
Qed.

Check C11_fetch_array_complete.
Check C11_fetch_topic_listing_complete.
Check C11_fetch_response_listing_complete.
Check C11_fetch_topic_entries_wire.
Check C11_fetch_decode_code_reported.
Check C11_fetch_decode_position.
Check C11_fetch_messages_code_reported.
Check C11_consumer_poll_code_fails.
Check C11_consumer_poll_ok_only_if.
Check C11_consumer_poll_ok_only_if_wire.

Print Assumptions C11_fetch_array_complete.
Print Assumptions C11_fetch_topic_listing_complete.
Print Assumptions C11_fetch_response_listing_complete.
Print Assumptions C11_fetch_topic_entries_wire.
Print Assumptions C11_fetch_decode_code_reported.
Print Assumptions C11_fetch_decode_position.
Print Assumptions C11_fetch_messages_code_reported.
Print Assumptions C11_consumer_poll_code_fails.
Print Assumptions C11_consumer_poll_ok_only_if.
Print Assumptions C11_consumer_poll_ok_only_if_wire.
