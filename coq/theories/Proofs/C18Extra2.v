(* C18 extra, part C: the poll result (consumer/mod.rs) and the client's fetch result keep the
   per-broker responses WHOLE.  A fetch::Response owns the wire buffer its topic names and plain
   keys / values point into (C18Extra.C18_fetch_views_owned), so what a result may hand out is
   exactly the list of parsed responses, one per broker reply - never topics moved out of the
   response that owns their bytes (seeded change C18-3: `fetch::Response::merge`). *)
From KV Require Import Base.Prelude Gen.Consts Model.Codecs Model.Requests Model.Responses
                       Model.ClientState Model.Net Model.Client Model.Consumer Model.Ownership.
From KV Require Import Proofs.C18Extra.
From KV Require Proofs.C01Facts Proofs.NetFacts.

(* Consumer::process_fetch_responses: a successful poll hands out the very list of responses
   it was given: same number, same order, each response with all of its own topics *)
Theorem C18_poll_keeps_responses : forall dbg k n resps ms k',
  process_fetch_responses dbg k n resps = (Ok ms, k') -> ms_responses ms = resps.
Proof.
  intros dbg k n resps ms k' H. unfold process_fetch_responses in H.
  destruct (first_error resps); [discriminate H|]. cbv zeta in H.
  destruct (process_topics _ _ _ _ _ _ _ _) as [s1|e s1|w]; try discriminate H.
  inversion H; subst. reflexivity.
Qed.

(* resp is what Response::from_vec made of the reply bytes `b` that the broker `fst req`
   delivered (get_response_bytes) in answer to the request `snd req` *)
Definition parsed_reply (req : bytes * fetch_tps) (resp : fetch_resp) : Prop :=
  exists cz validate b s2 s3,
    get_response_bytes (fst req) s2 = (Ok b, s3) /\
    fetch_from_vec cz decode_depth validate (snd req) b = Ok resp.

(* __fetch_messages: one whole parsed response per per-broker request, in request order *)
Theorem C18_fetch_exchange_one_response_per_broker : forall reqs corr acc s rs s',
  fetch_exchange corr reqs acc s = (Ok rs, s') ->
  exists news, rs = acc ++ news /\ Forall2 parsed_reply reqs news.
Proof.
  induction reqs as [|[h tps] r IH]; intros corr acc s rs s' H.
  - cbn [fetch_exchange] in H. unfold ret in H. inversion H; subst.
    exists []. split; [rewrite app_nil_r; reflexivity|constructor].
  - cbn [fetch_exchange] in H.
    unfold mbind at 1 in H. unfold get_client at 1 in H.
    unfold mbind at 1 in H. unfold get_env at 1 in H.
    unfold mbind at 1 in H. unfold get_fetch_order at 1 in H.
    unfold mbind at 1 in H.
    destruct (get_conn h s) as [[u|e|w] s1] eqn:E1; try discriminate H.
    unfold mbind at 1 in H.
    destruct (send_request h _ s1) as [[z|e|w] s2] eqn:E2; try discriminate H.
    unfold mbind at 1 in H.
    destruct (get_response_bytes h s2) as [[b|e|w] s3] eqn:E3; try discriminate H.
    unfold mbind at 1 in H. unfold lift at 1 in H.
    destruct (fetch_from_vec (env s) decode_depth (fetch_crc_validation (cfg (cl s))) tps b)
      as [resp|e|w] eqn:E4; try discriminate H.
    apply IH in H. destruct H as [news [-> HF]].
    exists (resp :: news). split; [rewrite <- app_assoc; reflexivity|].
    constructor; [|exact HF].
    exists (env s), (fetch_crc_validation (cfg (cl s))), b, s2, s3. split; assumption.
Qed.

(* KafkaClient::fetch_messages: the result is one whole parsed response for each per-broker
   request built from the input (grouped by partition leader), in the order they were sent *)
Theorem C18_fetch_messages_one_response_per_broker : forall input s rs s',
  fetch_messages input s = (Ok rs, s') ->
  exists c reqs s1 s2,
    ordered (fetch_reqs c input) s1 = (Ok reqs, s2) /\ Forall2 parsed_reply reqs rs.
Proof.
  intros input s rs s' H. unfold fetch_messages in H.
  unfold mbind at 1 in H.
  destruct (next_corr s) as [[corr|e|w] s0] eqn:E0; try discriminate H.
  unfold mbind at 1 in H. unfold get_client at 1 in H.
  unfold mbind at 1 in H.
  destruct (ordered (fetch_reqs (cl s0) input) s0) as [[reqs|e|w] s1] eqn:E1; try discriminate H.
  apply C18_fetch_exchange_one_response_per_broker in H. destruct H as [news [-> HF]].
  exists (cl s0), reqs, s0, s1. split; [exact E1|exact HF].
Qed.

(* Consumer::poll: what a successful poll hands out is exactly the list of responses the
   client's fetch_messages returned for the consumer's requests *)
Theorem C18_poll_hands_out_fetch_result : forall k s ms k' s',
  consumer_poll k s = (Ok (Ok ms, k'), s') ->
  exists input, C01Facts.poll_requests k = Some input /\
                fetch_messages input s = (Ok (ms_responses ms), s').
Proof.
  intros k s ms k' s' H. unfold consumer_poll, consumer_fetch in H.
  unfold C01Facts.poll_requests.
  destruct (k_retry k) as [|tp rest] eqn:Er.
  - unfold mbind, mtry, ret, get_client, get_env in H. cbv beta in H.
    destruct (fetch_messages _ s) as [[resps|e|w] s1] eqn:Ef; cbv beta iota in H; try discriminate H.
    inversion H as [[Hp Hs]]. apply C18_poll_keeps_responses in Hp.
    eexists. split; [reflexivity|]. rewrite Hp, <- Hs. exact Ef.
  - destruct (tk_get tp (k_fetch k)) as [[off maxb]|] eqn:Hg.
    + unfold mbind, mtry, ret, get_client, get_env in H. cbv beta in H.
      destruct (fetch_messages _ s) as [[resps|e|w] s1] eqn:Ef; cbv beta iota in H; try discriminate H.
      inversion H as [[Hp Hs]]. apply C18_poll_keeps_responses in Hp.
      eexists. split; [reflexivity|]. rewrite Hp, <- Hs. exact Ef.
    + unfold mbind, ret, get_client, get_env in H. cbv beta iota in H. inversion H.
Qed.

(* Consumer::poll, all clauses together: a poll result consists of one WHOLE response per
   per-broker request, each parsed by Response::from_vec from that broker's own reply bytes;
   by C18Extra.C18_fetch_views_owned every topic name / key / value it exposes is a slice of
   those reply bytes or of a decompressed vector owned by the partition's MessageSet. *)
Theorem C18_poll_result_owned : forall k s ms k' s',
  consumer_poll k s = (Ok (Ok ms, k'), s') ->
  exists input c reqs s1 s2,
    C01Facts.poll_requests k = Some input /\
    ordered (fetch_reqs c input) s1 = (Ok reqs, s2) /\
    Forall2 parsed_reply reqs (ms_responses ms).
Proof.
  intros k s ms k' s' H.
  destruct (C18_poll_hands_out_fetch_result _ _ _ _ _ H) as [input [H1 H2]].
  destruct (C18_fetch_messages_one_response_per_broker _ _ _ _ H2) as [c [reqs [s1 [s2 [H3 H4]]]]].
  exists input, c, reqs, s1, s2. auto.
Qed.

(* every view of a poll result: the response it sits in was parsed from reply bytes `b` of which
   the topic name is a slice, and the messages lie in one buffer that is a range of `b` or is
   owned by the partition's MessageSet *)
Corollary C18_poll_views_owned : forall k s ms k' s' r t p hw msgs,
  consumer_poll k s = (Ok (Ok ms, k'), s') ->
  In r (ms_responses ms) -> In t (fr_topics r) -> In p (ft_partitions t) -> fp_data p = inl (hw, msgs) ->
  exists cz validate b,
    subslice (ft_topic t) b /\
    exists raw l buf,
      subslice raw b
      /\ view_buffer cz decode_depth validate raw = Ok (l, buf)
      /\ owner_level cz decode_depth validate raw = Ok (if Nat.eqb l 0 then None else Some l)
      /\ (l = O -> buf = raw)
      /\ Forall (fun m => subslice (m_key m) buf /\ subslice (m_value m) buf) msgs.
Proof.
  intros k s ms k' s' r t p hw msgs H Hr Ht Hp Hd.
  destruct (C18_poll_result_owned _ _ _ _ _ H) as [input [c [reqs [s1 [s2 [_ [_ HF]]]]]]].
  assert (Hq : exists q, parsed_reply q r).
  { clear - HF Hr. induction HF as [|q x qs xs Hqx HF' IH]; [destruct Hr|].
    destruct Hr as [<-|Hr]; [eauto|auto]. }
  destruct Hq as [q [cz [validate [b [s3 [s4 [_ Hb]]]]]]].
  destruct (C18_fetch_views_owned _ _ _ _ _ _ _ _ _ _ Hb Ht Hp Hd)
    as [N [raw [l [buf [R1 [R2 [R3 [R4 [_ R6]]]]]]]]].
  exists cz, validate, b. split; [exact N|]. exists raw, l, buf. auto.
Qed.

(* ---- non-vacuity: a poll answered by TWO brokers (the dimension seeded change C18-3 needs) ---- *)
From KV Require Import Spec.MsgSetSpec Proofs.C02Lemmas Proofs.C02Facts.

Definition ex2_cs : cstate :=
  {| correlation := 0;
     brokers := [ {| b_node := 1; b_host := tag "a:9092" |}; {| b_node := 2; b_host := tag "b:9092" |} ];
     topic_partitions := [ (tag "t", [0; 1]) ]; group_coordinators := [] |}.
Definition ex2_client : client :=
  {| cfg := default_config [tag "a:9092"]; cs := ex2_cs; conns := [] |}.
Definition ex2_k : consumer :=
  {| k_client := ex2_client; k_group := tag "g"; k_fallback := FbEarliest; k_retry_limit := 1000000;
     k_assign := [(tag "t", [0; 1])];
     k_fetch := [((0, 0), (1, 32768)); ((0, 1), (1, 32768))];
     k_retry := [];
     k_consumed := [] |}.
Definition ex2_reply (p : Z) (set : bytes) : bytes :=
  enc_i32 1 ++ enc_i32 1 ++ ex_topic (tag "t") [ex_part p set].
Definition ex2_script : list ev_out :=
  [ OConn true; OWrote 1000; OData (enc_i32 (ulen (ex2_reply 0 (ser wcomp es3)))); OData (ex2_reply 0 (ser wcomp es3));
    OConn true; OWrote 1000; OData (enc_i32 (ulen (ex2_reply 1 (ser wcomp es_gz)))); OData (ex2_reply 1 (ser wcomp es_gz)) ].
Definition ex2_st : st :=
  {| script := ex2_script; trace := []; anyq := []; hostq := []; fetchq := []; entryq := []; cl := ex2_client;
     env := wcz true |}.

Example C18_poll_result_owned_ex :
  exists ms k' s',
    consumer_poll ex2_k ex2_st = (Ok (Ok ms, k'), s') /\
    ms_responses ms =
      [ {| fr_corr := 1; fr_topics := [ {| ft_topic := tag "t"; ft_partitions :=
             [ {| fp_partition := 0; fp_data := inl (10, [m1; m2]) |} ] |} ] |};
        {| fr_corr := 1; fr_topics := [ {| ft_topic := tag "t"; ft_partitions :=
             [ {| fp_partition := 1; fp_data := inl (10, [m1; m2]) |} ] |} ] |} ] /\
    map fst (fetch_reqs ex2_client [ {| fq_topic := tag "t"; fq_partition := 0; fq_offset := 1; fq_max_bytes := 32768 |};
                                     {| fq_topic := tag "t"; fq_partition := 1; fq_offset := 1; fq_max_bytes := 32768 |} ])
    = [tag "a:9092"; tag "b:9092"] /\
    script s' = [].
Proof. eexists. eexists. eexists. vm_compute. repeat split; reflexivity. Qed.

Example C18_poll_keeps_responses_ex :
  forall ms k', process_fetch_responses true ex2_k 2
    [ {| fr_corr := 1; fr_topics := [ {| ft_topic := tag "t"; ft_partitions :=
           [ {| fp_partition := 0; fp_data := inl (10, [m1; m2]) |} ] |} ] |};
      {| fr_corr := 1; fr_topics := [ {| ft_topic := tag "t"; ft_partitions :=
           [ {| fp_partition := 1; fp_data := inl (10, [m1; m2]) |} ] |} ] |} ] = (Ok ms, k') ->
  length (ms_responses ms) = 2%nat.
Proof. intros ms k' H. vm_compute in H. inversion H. reflexivity. Qed.

(* the reply bytes handed to Response::from_vec are byte-identical to what the broker's stream
   delivered behind the size header - whatever the size of the reply (read_exact_alloc reads
   replies above 64 KiB in several chunks) and however the stream fragments the data *)
Theorem C18_reply_bytes_are_what_was_sent : forall h s b s',
  get_response_bytes h s = (Ok b, s') ->
  exists hdr, NetFacts.payloads (NetFacts.consumed s s') = hdr ++ b /\ 4 <= ulen hdr /\
              0 <= be_dec_s hdr <= ulen b.
Proof.
  intros h s b s' H.
  destruct (NetFacts.get_response_bytes_ok _ _ _ _ H) as (ops & outs & b0 & Hs & Hr & L4 & Hnn & Hle & _).
  exists b0. rewrite (NetFacts.seg_consumed _ _ _ _ Hs).
  destruct Hr as (_ & _ & _ & Hp). split; [exact Hp|]. split; [exact L4|]. split; assumption.
Qed.

Example C18_reply_bytes_are_what_was_sent_ex :
  exists s', get_response_bytes (tag "a:9092")
               {| script := [OData [x00; x00]; OReadIntr; OData [x00; x05]; OData [x61]; OReadIntr; OData [x62; x63]; OData [x64; x65]];
                  trace := []; anyq := []; hostq := []; fetchq := []; entryq := []; cl := ex2_client; env := wcz true |}
             = (Ok [x61; x62; x63; x64; x65], s').
Proof. eexists. vm_compute. reflexivity. Qed.

Print Assumptions C18_poll_keeps_responses.
Print Assumptions C18_reply_bytes_are_what_was_sent.
Print Assumptions C18_fetch_exchange_one_response_per_broker.
Print Assumptions C18_fetch_messages_one_response_per_broker.
Print Assumptions C18_poll_hands_out_fetch_result.
Print Assumptions C18_poll_result_owned.
Print Assumptions C18_poll_views_owned.
