(* C13, additional theorems (mutation adequacy, second pass).

   Seed C13-4: ClientState::update_metadata grows the per-topic partition vector up to a partition ID
   found in the reply (resize_with(id + 1)), so a well-formed Metadata reply with one id >= 2^28 makes
   the client ask for >= 1 GiB in one allocation.  Nothing panics, the call returns Ok(()): none of
   the panic-freedom statements of Props/C13.v notices (C13_metadata_update_total stays provable).
   The model has no allocator; the nearest expressible statement is about the LENGTH of the vectors
   the client state holds (a Vec<TopicPartition> of n entries is one allocation of 4 * n bytes):

   Part A  update_metadata: every per-topic vector of the new state is an old one, or is exactly as
           long as the NUMBER of partition entries listed for that topic in the reply - never a
           function of a partition id, a leader id or any other VALUE on the wire.
   Part B  dec_metadata_resp: the number of brokers, topics and partition entries a reply of n bytes
           decodes to is below n (every element costs at least one byte), whatever the count fields say.
   Part C  composition up to the public entry points load_metadata / load_metadata_all and over any
           history of them: every vector in the client state is either one the state started with or
           shorter than the number of bytes the broker(s) delivered; with less than 2^28 bytes received
           (the property speaks of replies up to 64 KiB) no vector reaches 1 GiB.
   Part D  the same bound for the brokers vector (no invariant needed). *)
From KV Require Import Base.Prelude Gen.Consts Model.Codecs Model.Requests Model.Responses
                       Model.ClientState Model.Net Model.Client.
From KV Require Import Proofs.BytesFacts Proofs.NetFacts Proofs.C13Decode.
From KV Require Proofs.C06Extra.
From Coq Require Import ZifyBool.

(* ====================================================================== *)
(* Part A: the vectors update_metadata builds                              *)
(* ====================================================================== *)

Lemma resize_refs_length : forall m ps, length (resize_refs ps m) = m.
Proof. induction m as [|m IH]; intros [|p ps]; cbn [resize_refs length]; auto. Qed.

Lemma set_ref_length : forall ps i v, length (set_ref ps i v) = length ps.
Proof. induction ps as [|p ps IH]; intros [|i] v; cbn [set_ref length]; auto. Qed.

(* syncing the leaders never changes the length of the vector *)
Theorem C13_sync_partitions_length : forall idx pms ps ps',
  sync_partitions idx pms ps = Ok ps' -> length ps' = length ps.
Proof.
  intros idx. induction pms as [|pm r IH]; intros ps ps' H; cbn [sync_partitions] in H.
  - inversion H; subst. reflexivity.
  - destruct ((pm_id pm <? 0) || (ulen ps <=? pm_id pm)); [exact (IH _ _ H)|].
    rewrite (IH _ _ H). apply set_ref_length.
Qed.

Lemma tp_set_in : forall tps k v t (ps : list Z),
  In (t, ps) (tp_set tps k v) -> In (t, ps) tps \/ (t = k /\ ps = v).
Proof.
  induction tps as [|[t' ps'] r IH]; intros k v t ps H; cbn [tp_set] in H.
  - destruct H as [H|[]]. inversion H; subst. right. split; reflexivity.
  - destruct (bytes_eqb t' k) eqn:E.
    + destruct H as [H|H].
      * inversion H; subst. right. split; [apply bytes_eqb_eq; exact E|reflexivity].
      * left. right. exact H.
    + destruct H as [H|H]; [left; left; exact H|].
      destruct (IH _ _ _ _ H) as [H'|H']; [left; right; exact H'|right; exact H'].
Qed.

Lemma update_topics_vecs idx : forall tms tps tps',
  update_topics idx tms tps = Ok tps' ->
  forall t ps, In (t, ps) tps' ->
  In (t, ps) tps \/ exists tm, In tm tms /\ tm_topic tm = t /\ length ps = length (tm_partitions tm).
Proof.
  induction tms as [|tm r IH]; intros tps tps' H t ps Hin; cbn [update_topics] in H.
  - inversion H; subst. left. exact Hin.
  - cbv zeta in H.
    set (m := length (tm_partitions tm)) in *.
    set (ps0 := match assoc_bytes (tm_topic tm) tps with
                | Some ps => resize_refs ps m | None => resize_refs [] m end) in *.
    assert (L0 : length ps0 = m) by (unfold ps0; destruct (assoc_bytes (tm_topic tm) tps); apply resize_refs_length).
    destruct (sync_partitions idx (tm_partitions tm) ps0) as [ps1|e|w] eqn:E; try discriminate.
    pose proof (C13_sync_partitions_length _ _ _ _ E) as L1.
    destruct (IH _ _ H t ps Hin) as [H1|(tm' & Hi & Ht & Hl)].
    + apply tp_set_in in H1. destruct H1 as [H1|[-> ->]].
      * apply tp_set_in in H1. destruct H1 as [H1|[-> ->]]; [left; exact H1|].
        right. exists tm. split; [left; reflexivity|]. split; [reflexivity|exact L0].
      * right. exists tm. split; [left; reflexivity|]. split; [reflexivity|rewrite L1; exact L0].
    + right. exists tm'. split; [right; exact Hi|]. split; assumption.
Qed.

(* [seed C13-4] whatever the reply holds - unrequested topics, partition ids -1, 7, 2^28, 2^31-1,
   in any order, unknown leaders -: a vector of the new state that was not already there is as long
   as the number of partition entries the reply lists for its topic *)
Theorem C13_metadata_vec_length : forall s md s' t ps,
  update_metadata s md = Ok s' ->
  In (t, ps) (topic_partitions s') ->
  In (t, ps) (topic_partitions s) \/
  exists tm, In tm (md_topics md) /\ tm_topic tm = t /\ length ps = length (tm_partitions tm).
Proof.
  intros s md s' t ps H Hin. unfold update_metadata in H. destruct (update_brokers s md) as [bs idx].
  destruct (update_topics idx (md_topics md) (topic_partitions s)) as [tps|e|w] eqn:E; cbn [bind] in H;
    try discriminate.
  inversion H; subst. cbn [topic_partitions] in Hin. exact (update_topics_vecs _ _ _ _ E _ _ Hin).
Qed.

(* non-vacuity: one topic, ONE partition entry whose id is 2^28 (then 2^31-1, 7, -1): the vector has
   one entry *)
Definition exb_md (id : Z) : metadata_resp :=
  {| md_corr := 1;
     md_brokers := [{| bm_node := 1; bm_host := tag "a"; bm_port := 9092 |}];
     md_topics := [{| tm_error := 0; tm_topic := tag "sane";
                      tm_partitions := [{| pm_error := 0; pm_id := 0; pm_leader := 1; pm_replicas := []; pm_isr := [] |};
                                        {| pm_error := 0; pm_id := 1; pm_leader := 1; pm_replicas := []; pm_isr := [] |}] |};
                   {| tm_error := 0; tm_topic := tag "odd";
                      tm_partitions := [{| pm_error := 0; pm_id := id; pm_leader := 1; pm_replicas := []; pm_isr := [] |}] |}] |}.
Example exb_vec_length :
  forallb (fun id => match update_metadata cstate_new (exb_md id) with
                     | Ok s' => match topic_partitions s' with
                                | [(_, ps1); (_, ps2)] => Nat.eqb (length ps1) 2 && Nat.eqb (length ps2) 1
                                | _ => false end
                     | _ => false end)
          [268435456; 2147483647; 7; -1; 0] = true.
Proof. vm_compute. reflexivity. Qed.

(* ====================================================================== *)
(* Part B: how many elements a reply of n bytes can decode to              *)
(* ====================================================================== *)

(* a decoder that consumes at least `w x` bytes for the value x it returns *)
Definition weighs {A} (w : A -> nat) (d : dec A) : Prop :=
  forall bs x r, d bs = Ok (x, r) -> (w x + length r <= length bs)%nat.

Lemma good_shrinks {A} (d : dec A) : fgood d -> forall bs x r, d bs = Ok (x, r) -> (length r < length bs)%nat.
Proof. intros G bs x r H. specialize (G bs). rewrite H in G. exact G. Qed.

Lemma dec_many_weighs {A} (w : A -> nat) (d : dec A) : weighs w d ->
  forall fuel count bs xs r, dec_many d fuel count bs = Ok (xs, r) ->
  (list_sum (map w xs) + length r <= length bs)%nat.
Proof.
  intros Hw. induction fuel as [|f IH]; intros count bs xs r H; cbn [dec_many] in H;
    destruct (count <=? 0); try discriminate.
  - inversion H; subst. cbn [map list_sum fold_right]. lia.
  - inversion H; subst. cbn [map list_sum fold_right]. lia.
  - destruct (d bs) as [[x r1]|e|w0] eqn:E; cbn [bind] in H; try discriminate.
    destruct (dec_many d f (count - 1) r1) as [[xs' r2]|e|w0] eqn:E2; cbn [bind] in H; try discriminate.
    inversion H; subst. cbn [map].
    change (list_sum (w x :: map w xs')) with (w x + list_sum (map w xs'))%nat.
    pose proof (Hw _ _ _ E). pose proof (IH _ _ _ _ E2). lia.
Qed.

(* the element count of a decoded array is bounded by the bytes it was decoded from - the count
   field (2^31-1, ...) has no say *)
Theorem C13_dec_vec_weighs : forall A (w : A -> nat) sz (d : dec A), weighs w d ->
  weighs (fun xs => list_sum (map w xs)) (dec_vec sz d).
Proof.
  intros A w sz d Hw bs xs r H. unfold dec_vec in H.
  destruct (dec_i32 bs) as [[len r1]|e|w0] eqn:E; cbn [bind] in H; try discriminate.
  pose proof (good_shrinks _ (dec_i32_good False (fun _ => False)) _ _ _ E) as L.
  destruct (len <=? 0).
  - inversion H; subst. cbn [map list_sum fold_right]. lia.
  - pose proof (dec_many_weighs w d Hw _ _ _ _ _ H). cbv beta. lia.
Qed.

Lemma list_sum_ones {A} (l : list A) : list_sum (map (fun _ => 1%nat) l) = length l.
Proof. induction l as [|x l IH]; [reflexivity|]. cbn [map length]. rewrite <- IH. reflexivity. Qed.

Lemma list_sum_in {A} (w : A -> nat) x : forall l, In x l -> (w x <= list_sum (map w l))%nat.
Proof.
  induction l as [|y l IH]; intros H; [destruct H|]. cbn [map].
  change (list_sum (w y :: map w l)) with (w y + list_sum (map w l))%nat.
  destruct H as [->|H]; [lia|]. specialize (IH H). lia.
Qed.

Lemma weighs_one {A} (d : dec A) : fgood d -> weighs (fun _ => 1%nat) d.
Proof. intros G bs x r H. pose proof (good_shrinks d G _ _ _ H). lia. Qed.

Lemma dec_topic_md_weighs : weighs (fun tm => S (length (tm_partitions tm))) dec_topic_md.
Proof.
  intros bs tm r H. unfold dec_topic_md in H.
  destruct (dec_i16 bs) as [[e r1]|e|w0] eqn:E1; cbn [bind] in H; try discriminate.
  destruct (dec_string r1) as [[t r2]|e0|w0] eqn:E2; cbn [bind] in H; try discriminate.
  destruct (dec_vec 64 dec_partition_md r2) as [[ps r3]|e0|w0] eqn:E3; cbn [bind] in H; try discriminate.
  inversion H; subst. cbn [tm_partitions].
  pose proof (good_shrinks _ (dec_i16_good False (fun _ => False)) _ _ _ E1).
  pose proof (good_shrinks _ (dec_string_good False (fun _ => False)) _ _ _ E2).
  pose proof (C13_dec_vec_weighs _ _ 64 _ (weighs_one _ (dec_partition_md_good False (fun _ => False))) _ _ _ E3) as L.
  cbv beta in L. rewrite list_sum_ones in L. lia.
Qed.

(* what a decoded Metadata reply makes the client store: brokers, topics, partition entries *)
Definition md_elems (md : metadata_resp) : nat :=
  (length (md_brokers md) + list_sum (map (fun tm => S (length (tm_partitions tm))) (md_topics md)))%nat.

Theorem C13_metadata_reply_counts : forall bs md r,
  dec_metadata_resp bs = Ok (md, r) -> (md_elems md + length r < length bs)%nat.
Proof.
  intros bs md r H. unfold dec_metadata_resp in H.
  destruct (dec_corr bs) as [[c r1]|e|w0] eqn:E1; cbn [bind] in H; try discriminate.
  destruct (dec_vec 32 dec_broker_md r1) as [[bms r2]|e0|w0] eqn:E2; cbn [bind] in H; try discriminate.
  destruct (dec_vec 56 dec_topic_md r2) as [[ts r3]|e0|w0] eqn:E3; cbn [bind] in H; try discriminate.
  inversion H; subst. unfold md_elems. cbn [md_brokers md_topics].
  pose proof (good_shrinks _ (dec_corr_good False (fun _ => False)) _ _ _ E1).
  pose proof (C13_dec_vec_weighs _ _ 32 _ (weighs_one _ (dec_broker_md_good False (fun _ => False))) _ _ _ E2) as L2.
  pose proof (C13_dec_vec_weighs _ _ 56 _ dec_topic_md_weighs _ _ _ E3) as L3.
  cbv beta in L2, L3. rewrite list_sum_ones in L2. lia.
Qed.

Corollary C13_metadata_reply_partitions : forall bs md r tm,
  dec_metadata_resp bs = Ok (md, r) -> In tm (md_topics md) ->
  (length (tm_partitions tm) < length bs)%nat.
Proof.
  intros bs md r tm H Hin. pose proof (C13_metadata_reply_counts _ _ _ H) as L. unfold md_elems in L.
  pose proof (list_sum_in (fun tm => S (length (tm_partitions tm))) tm _ Hin) as L'. cbv beta in L'. lia.
Qed.

(* non-vacuity: a reply of 47 bytes with one broker, one topic "t" and one partition whose id is 2^28;
   the same reply with the partition COUNT replaced by 2^31-1 is an error *)
Definition exb_reply (count id : Z) : bytes :=
  enc_i32 7 ++ enc_i32 1 ++ (enc_i32 1 ++ enc_i16 1 ++ tag "a" ++ enc_i32 9092)
  ++ enc_i32 1 ++ (enc_i16 0 ++ enc_i16 1 ++ tag "t"
                   ++ enc_i32 count ++ (enc_i16 0 ++ enc_i32 id ++ enc_i32 1 ++ enc_i32 0 ++ enc_i32 0)).
Example exb_reply_counts :
  length (exb_reply 1 268435456) = 50%nat /\
  match dec_metadata_resp (exb_reply 1 268435456) with
  | Ok (md, r) => md_elems md = 3%nat /\ r = [] /\
                  map (fun tm => map pm_id (tm_partitions tm)) (md_topics md) = [[268435456]]
  | _ => False end /\
  dec_metadata_resp (exb_reply 2147483647 0) = Err (EIo IoUnexpectedEof).
Proof. vm_compute. repeat split; reflexivity. Qed.

(* ====================================================================== *)
(* Part C: up to load_metadata / load_metadata_all, and over histories     *)
(* ====================================================================== *)

(* a successful metadata fetch: the value returned was decoded from the bytes of one frame read
   from one of the hosts, after some (possibly failed) earlier attempts *)
Lemma hosts_ok corr topics : forall hs s md s',
  fetch_metadata_hosts corr topics hs s = (Ok md, s') ->
  exists h s2 b rest, ext s s2 /\ get_response_bytes h s2 = (Ok b, s') /\ dec_metadata_resp b = Ok (md, rest).
Proof.
  induction hs as [|h r IH]; intros s md s' H; cbn [fetch_metadata_hosts] in H; [discriminate|].
  bind_inv H c s0 H1 H2; try discriminate. unfold get_client in H1. inversion H1; subst s0 c. clear H1.
  bind_inv H2 rc s1 H3 H4; try discriminate.
  assert (X1 : ext s s1) by (exact (keeps_mtry ext _ (tracks_ext _ (tracks_get_conn h)) _ _ _ H3)).
  assert (Hrec : fetch_metadata_hosts corr topics r s1 = (Ok md, s') ->
                 exists h s2 b rest, ext s s2 /\ get_response_bytes h s2 = (Ok b, s') /\
                                     dec_metadata_resp b = Ok (md, rest)).
  { intros H'. destruct (IH _ _ _ H') as (h' & s2 & b & rest & X & Hb & Hd).
    exists h', s2, b, rest. split; [exact (ext_trans _ _ _ X1 X)|]. split; assumption. }
  destruct rc as [u|e|w]; [|exact (Hrec H4)|exact (Hrec H4)].
  bind_inv H4 rs s2 H5 H6; try discriminate.
  assert (X2 : ext s1 s2) by (exact (keeps_mtry ext _ (tracks_ext _ (tracks_send_request h _)) _ _ _ H5)).
  assert (Hrec2 : fetch_metadata_hosts corr topics r s2 = (Ok md, s') ->
                 exists h s2 b rest, ext s s2 /\ get_response_bytes h s2 = (Ok b, s') /\
                                     dec_metadata_resp b = Ok (md, rest)).
  { intros H'. destruct (IH _ _ _ H') as (h' & s3 & b & rest & X & Hb & Hd).
    exists h', s3, b, rest. split; [exact (ext_trans _ _ _ X1 (ext_trans _ _ _ X2 X))|]. split; assumption. }
  destruct rs as [z|e|w]; [|exact (Hrec2 H6)|exact (Hrec2 H6)].
  destruct (get_response_inv _ _ _ _ _ H6) as [[b [Hb Hr]]|[e [_ Hr]]]; [|discriminate].
  destruct (dec_metadata_resp b) as [[a rest]|e|w] eqn:Ed; inversion Hr; subst.
  exists h, s2, b, rest. split; [exact (ext_trans _ _ _ X1 X2)|]. split; [exact Hb|exact Ed].
Qed.

Lemma ext_same_script s s' : script s' = script s -> trace s' = trace s -> ext s s'.
Proof. intros Hs Ht. exists [], []. split; cbn [app rev]; congruence. Qed.

Lemma consumed_script s s1 s2 : script s2 = script s1 -> consumed s s2 = consumed s s1.
Proof. intros H. unfold consumed. rewrite H. reflexivity. Qed.

Lemma next_corr_tps s : topic_partitions (snd (next_correlation_id s)) = topic_partitions s.
Proof. reflexivity. Qed.

(* the bytes the peer(s) delivered between two states *)
Definition received (s s' : st) : nat := length (payloads (consumed s s')).

Lemma load_metadata_ext topics s r s' : load_metadata topics s = (r, s') -> ext s s'.
Proof. intros H. exact (proj1 (C06Extra.C06_load_metadata_only_bootstrap_hosts _ _ _ _ H)). Qed.

(* [seed C13-4, up to the entry point]  KafkaClient::load_metadata, whatever the outcome and whatever
   the script (the brokers) delivers: a per-topic vector the client holds afterwards is one it held
   before, or has fewer entries than bytes were received during the call (minus the 4 of the frame size) *)
Theorem C13_load_metadata_vec_bound : forall topics s r s' t ps,
  load_metadata topics s = (r, s') ->
  In (t, ps) (topic_partitions (cs (cl s'))) ->
  In (t, ps) (topic_partitions (cs (cl s))) \/ (length ps + 4 < received s s')%nat.
Proof.
  intros topics s r s' t ps H Hin. rewrite C06Extra.load_metadata_split in H.
  bind_inv H md s1 H1 H2.
  2,3: left; destruct (C06Extra.fetch_metadata_cs _ _ _ _ H1) as [Hcs _]; rewrite Hcs, next_corr_tps in Hin; exact Hin.
  destruct (C06Extra.fetch_metadata_cs _ _ _ _ H1) as [Hcs _].
  destruct (C06Extra.apply_md_run _ _ _ _ H2) as (Hsc & Htr & _ & _ & Hupd).
  destruct r as [[]|e|w].
  2,3: left; revert H2; unfold C06Extra.apply_md; unfold mbind at 1; unfold get_client at 1;
       unfold mbind at 1; unfold lift at 1;
       destruct (update_metadata (cs (cl s1)) md) as [x|e'|w'] eqn:Eu; intros H2;
       [unfold set_cs, mbind, get_client, set_client in H2; discriminate| |];
       inversion H2; subst; rewrite Hcs, next_corr_tps in Hin; exact Hin.
  specialize (Hupd eq_refl).
  destruct (C13_metadata_vec_length _ _ _ _ _ Hupd Hin) as [Hold|(tm & Htm & _ & Hlen)].
  { left. rewrite Hcs, next_corr_tps in Hold. exact Hold. }
  right. rewrite C06Extra.fetch_metadata_run in H1.
  destruct (hosts_ok _ _ _ _ _ _ H1) as (h & s2 & b & rest & X & Hb & Hd).
  pose proof (C13_metadata_reply_partitions _ _ _ _ Hd Htm) as Lp.
  destruct (get_response_bytes_ok _ _ _ _ Hb) as (ops & outs & b0 & Hseg & Hreads & L4 & _).
  destruct Hreads as (_ & _ & _ & Hpay).
  assert (X0 : ext s (C06Extra.bump s)) by (apply ext_same_script; reflexivity).
  assert (X2 : ext s2 s1) by (exists outs, ops; exact Hseg).
  unfold received. rewrite (consumed_script s s1 s') by exact Hsc.
  rewrite (consumed_app s s2 s1) by (first [exact (ext_trans _ _ _ X0 X)|exact X2]).
  rewrite payloads_app, app_length, (seg_consumed _ _ _ _ Hseg), Hpay, app_length.
  unfold ulen in L4. lia.
Qed.

(* KafkaClient::load_metadata_all forgets the old vectors first *)
Theorem C13_load_metadata_all_vec_bound : forall s r s' t ps,
  load_metadata_all s = (r, s') ->
  In (t, ps) (topic_partitions (cs (cl s'))) -> (length ps + 4 < received s s')%nat.
Proof.
  intros s r s' t ps H Hin. unfold load_metadata_all in H.
  bind_inv H u s1 H1 H2.
  - unfold reset_metadata, mbind, get_client, set_cs, mbind, get_client, set_client in H1.
    inversion H1; subst s1. clear H1.
    destruct (C13_load_metadata_vec_bound _ _ _ _ _ _ H2 Hin) as [Hold|L].
    + cbn [cl cs clear_metadata topic_partitions] in Hold. destruct Hold.
    + exact L.
  - unfold reset_metadata, mbind, get_client, set_cs, mbind, get_client, set_client in H1. discriminate.
  - unfold reset_metadata, mbind, get_client, set_cs, mbind, get_client, set_client in H1. discriminate.
Qed.

Lemma load_metadata_all_ext s r s' : load_metadata_all s = (r, s') -> ext s s'.
Proof.
  intros H. unfold load_metadata_all in H. bind_inv H u s1 H1 H2;
    unfold reset_metadata, mbind, get_client, set_cs, mbind, get_client, set_client in H1; try discriminate.
  inversion H1; subst s1. apply load_metadata_ext in H2. destruct H2 as (outs & ops & Hs & Ht).
  exists outs, ops. split; [exact Hs|exact Ht].
Qed.

(* any history of metadata (re)loads *)
Definition md_call (o : option (list bytes)) : M unit :=
  match o with Some topics => load_metadata topics | None => load_metadata_all end.
Fixpoint run_loads (calls : list (option (list bytes))) (s : st) : st :=
  match calls with
  | [] => s
  | o :: r => run_loads r (snd (md_call o s))
  end.

Lemma md_call_ext o s : ext s (snd (md_call o s)).
Proof.
  destruct (md_call o s) as [r s'] eqn:E. cbn [snd]. destruct o as [topics|]; cbn [md_call] in E.
  - exact (load_metadata_ext _ _ _ _ E).
  - exact (load_metadata_all_ext _ _ _ E).
Qed.

Lemma run_loads_ext : forall calls s, ext s (run_loads calls s).
Proof.
  induction calls as [|o r IH]; intros s; cbn [run_loads]; [apply ext_refl|].
  exact (ext_trans _ _ _ (md_call_ext o s) (IH _)).
Qed.

Lemma received_app s s1 s2 : ext s s1 -> ext s1 s2 -> received s s2 = (received s s1 + received s1 s2)%nat.
Proof. intros X1 X2. unfold received. rewrite (consumed_app _ _ _ X1 X2), payloads_app, app_length. reflexivity. Qed.

Theorem C13_metadata_history_vec_bound : forall calls s t ps,
  In (t, ps) (topic_partitions (cs (cl (run_loads calls s)))) ->
  In (t, ps) (topic_partitions (cs (cl s))) \/ (length ps + 4 < received s (run_loads calls s))%nat.
Proof.
  induction calls as [|o r IH]; intros s t ps Hin; cbn [run_loads] in *; [left; exact Hin|].
  pose proof (md_call_ext o s) as X1. pose proof (run_loads_ext r (snd (md_call o s))) as X2.
  rewrite (received_app _ _ _ X1 X2).
  destruct (IH _ _ _ Hin) as [Hold|L]; [|right; lia].
  destruct (md_call o s) as [res s1] eqn:E. cbn [snd] in *. destruct o as [topics|]; cbn [md_call] in E.
  - destruct (C13_load_metadata_vec_bound _ _ _ _ _ _ E Hold) as [H|H]; [left; exact H|right; lia].
  - pose proof (C13_load_metadata_all_vec_bound _ _ _ _ _ E Hold). right. lia.
Qed.

(* the clause of the property: a Vec<TopicPartition> (4 bytes per entry) of 1 GiB or more would need
   2^28 entries, hence more than 2^28 bytes received - replies of up to 64 KiB (or 256 MiB) cannot do it *)
Corollary C13_metadata_vec_alloc_below_limit : forall calls s t ps,
  (forall t0 ps0, In (t0, ps0) (topic_partitions (cs (cl s))) -> 4 * ulen ps0 < alloc_limit) ->
  Z.of_nat (received s (run_loads calls s)) <= 2 ^ 28 ->
  In (t, ps) (topic_partitions (cs (cl (run_loads calls s)))) ->
  4 * ulen ps < alloc_limit.
Proof.
  intros calls s t ps Hold Hrecv Hin.
  destruct (C13_metadata_history_vec_bound _ _ _ _ Hin) as [H|H]; [exact (Hold _ _ H)|].
  unfold alloc_limit, ulen. change (2 ^ 30) with (4 * 2 ^ 28). lia.
Qed.

(* non-vacuity, end to end: a fresh client with bootstrap host a:1; the broker answers the metadata
   request with the 50-byte reply of Part B whose only partition has id 2^28.  The call returns Ok,
   54 bytes were received, topic "t" got a vector of ONE entry.  Then a reload. *)
Definition exb_st (sc : list ev_out) : st :=
  {| script := sc; trace := []; anyq := []; hostq := []; fetchq := []; entryq := [];
     cl := client_new [tag "a:1"];
     env := {| gz_compress := fun b => b; sn_compress := fun b => b; gz_decompress := fun b => Some b;
               debug_build := false |} |}.
Definition exb_s0 : st :=
  exb_st [OConn true; OWrote 1000; OData (enc_i32 50); OData (exb_reply 1 268435456);
          OWrote 1000; OData (enc_i32 50); OData (exb_reply 1 2147483647)].
Example exb_e2e :
  fst (load_metadata_all exb_s0) = Ok tt /\
  (let s1 := snd (load_metadata_all exb_s0) in
   map (fun tp => (fst tp, length (snd tp))) (topic_partitions (cs (cl s1))) = [(tag "t", 1%nat)] /\
   received exb_s0 s1 = 54%nat) /\
  (let s2 := run_loads [None; Some [tag "t"]] exb_s0 in
   map (fun tp => (fst tp, length (snd tp))) (topic_partitions (cs (cl s2))) = [(tag "t", 1%nat)] /\
   received exb_s0 s2 = 108%nat /\ script s2 = []).
Proof. vm_compute. repeat split; reflexivity. Qed.

(* ====================================================================== *)
(* Part D: the brokers vector                                              *)
(* ====================================================================== *)

Lemma set_host_length : forall bs i h, length (set_host bs i h) = length bs.
Proof. induction bs as [|b bs IH]; intros [|i] h; cbn [set_host length]; auto. Qed.

Lemma update_brokers_go_length : forall mds bs idx,
  (length (fst (update_brokers_go mds bs idx)) <= length bs + length mds)%nat.
Proof.
  induction mds as [|m r IH]; intros bs idx; cbn [update_brokers_go fst length]; [lia|].
  destruct (assoc_z (bm_node m) idx) as [i|].
  - specialize (IH (set_host bs (Z.to_nat i) (host_port (bm_host m) (bm_port m))) idx).
    rewrite set_host_length in IH. lia.
  - match goal with |- context [update_brokers_go r ?b ?i] => specialize (IH b i) end.
    rewrite app_length in IH. cbn [length] in IH. lia.
Qed.

(* the brokers vector grows by at most one entry per broker entry of the reply (node ids, ports and
   host names have no say), with no assumption on the state *)
Theorem C13_metadata_brokers_bound : forall s md s',
  update_metadata s md = Ok s' ->
  (length (brokers s') <= length (brokers s) + length (md_brokers md))%nat.
Proof.
  intros s md s' H. unfold update_metadata in H.
  pose proof (update_brokers_go_length (md_brokers md) (brokers s) (index_brokers (brokers s) 0 [])) as L.
  fold (update_brokers s md) in L. destruct (update_brokers s md) as [bs idx]. cbn [fst] in L.
  destruct (update_topics idx (md_topics md) (topic_partitions s)) as [tps|e|w]; cbn [bind] in H; try discriminate.
  inversion H; subst. cbn [brokers]. exact L.
Qed.
Example exb_brokers_bound :
  match update_metadata cstate_new (exb_md 268435456) with
  | Ok s' => length (brokers s') = 1%nat
  | _ => False end.
Proof. vm_compute. reflexivity. Qed.

Print Assumptions C13_sync_partitions_length.
Print Assumptions C13_metadata_vec_length.
Print Assumptions C13_dec_vec_weighs.
Print Assumptions C13_metadata_reply_counts.
Print Assumptions C13_metadata_reply_partitions.
Print Assumptions C13_load_metadata_vec_bound.
Print Assumptions C13_load_metadata_all_vec_bound.
Print Assumptions C13_metadata_history_vec_bound.
Print Assumptions C13_metadata_vec_alloc_below_limit.
Print Assumptions C13_metadata_brokers_bound.
