(* C15, additional theorems (mutation adequacy):
   1. the reader of a reply (get_response_bytes = size prefix + read_exact_alloc body): every
      outcome; the first answer that is not a good read (end of stream, time-out, error, a
      foreign answer) ends the call right there with the matching error - it is the LAST answer
      consumed, in the size prefix as well as anywhere inside the body (seed C15-2: hang on
      end-of-stream inside the body);
   2. produce with acks enabled, several brokers: the run is a chain of COMPLETE exchanges, one
      broker after the other, followed by at most one failed exchange and nothing else
      (seed C15: pipelined requests whose replies stay unread when the call leaves early);
   3. produce with acks disabled: success only if EVERY frame was handed over completely; the
      first failure is the result and nothing is done after it; no read is ever performed
      (seed C15-3: the failure of an earlier broker is overwritten by a later success);
   4. the same chain structure for the other multi-broker calls (offsets, fetch) and the
      retrying group calls (commit). *)
From KV Require Import Base.Prelude Gen.Consts Model.Codecs Model.Requests Model.Responses
                       Model.ClientState Model.Net Model.Client.
From KV Require Proofs.C14Facts.
From KV Require Import Proofs.BytesFacts Proofs.NetFacts Proofs.C15Facts.
From Coq Require Import ZifyBool.

(* ================================================================================== *)
(* 0. small tools                                                                     *)
(* ================================================================================== *)

Lemma bind_get_client {B} (f : client -> M B) s : mbind get_client f s = f (cl s) s.
Proof. reflexivity. Qed.
Lemma bind_get_env {B} (f : codecs -> M B) s : mbind get_env f s = f (env s) s.
Proof. reflexivity. Qed.

(* a run all of whose answers were good reads (data or interruptions), all events answered *)
Definition good_run (s s' : st) : Prop :=
  ext s s' /\ forallb good_read (consumed s s') = true /\
  length (performed s s') = length (consumed s s').

(* a run of reads that ended with an error: all answers but the last were good reads and the
   last one is the fault reported (read_bad), or the script ran dry *)
Definition rfail (s s' : st) (r : res bytes) : Prop :=
  ext s s' /\
  ((exists pre o, consumed s s' = pre ++ [o] /\ forallb good_read pre = true /\ read_bad o r /\
                  length (performed s s') = length (consumed s s'))
   \/ (r = Err EOutOfScript /\ script s' = [] /\ forallb good_read (consumed s s') = true /\
       length (performed s s') = S (length (consumed s s')))).

Lemma good_run_refl s : good_run s s.
Proof.
  split; [apply ext_refl|]. rewrite consumed_refl, performed_refl. split; reflexivity.
Qed.

Lemma good_run_trans s s1 s2 : good_run s s1 -> good_run s1 s2 -> good_run s s2.
Proof.
  intros (E1 & G1 & L1) (E2 & G2 & L2). split; [eapply ext_trans; eassumption|].
  rewrite (consumed_app _ _ _ E1 E2), (performed_app _ _ _ E1 E2), forallb_app, !app_length, G1, G2.
  split; [reflexivity|lia].
Qed.

Lemma good_rfail_trans s s1 s2 r : good_run s s1 -> rfail s1 s2 r -> rfail s s2 r.
Proof.
  intros (E1 & G1 & L1) (E2 & C). split; [eapply ext_trans; eassumption|].
  rewrite (consumed_app _ _ _ E1 E2), (performed_app _ _ _ E1 E2).
  destruct C as [(pre & o & Hc & Hg & Hb & L2)|(Hr & Hs & Hg & L2)].
  - left. exists (consumed s s1 ++ pre), o. rewrite Hc, app_assoc. split; [reflexivity|].
    rewrite forallb_app, G1, Hg. split; [reflexivity|]. split; [exact Hb|].
    rewrite Hc in L2. rewrite !app_length in *. lia.
  - right. rewrite forallb_app, G1, Hg, !app_length. repeat split; try assumption. lia.
Qed.

Lemma read_exact_cases h n acc s r s' :
  with_fuel (fun f => read_exact f h n acc) s = (r, s') ->
  (exists bs, r = Ok bs /\ good_run s s') \/ rfail s s' r.
Proof.
  intros H.
  assert (E : ext s s').
  { pose proof H as H'. unfold with_fuel in H'. eapply tracks_ext; [apply tracks_read_exact|exact H']. }
  destruct (C15_read_exact_outcomes _ _ _ _ _ _ H)
    as (_ & _ & [(bs & Hr & Hg & L)|[(pre & o & Hc & Hg & Hb & L)|(Hr & Hs & Hg & L)]]).
  - left. exists bs. split; [exact Hr|]. split; [exact E|split; assumption].
  - right. split; [exact E|]. left. exists pre, o. repeat split; assumption.
  - right. split; [exact E|]. right. repeat split; assumption.
Qed.

Lemma rfail_not_ok s s' bs : ~ rfail s s' (Ok bs).
Proof.
  intros [_ [(pre & o & _ & _ & Hb & _)|(Hr & _)]]; [exact (read_bad_not_ok _ _ _ Hb eq_refl)|discriminate].
Qed.

Lemma read_chunks_cases fuel h : forall rem acc s r s',
  read_chunks fuel h rem acc s = (r, s') ->
  r = Err EOutOfFuel \/ (exists bs, r = Ok bs /\ good_run s s') \/ rfail s s' r.
Proof.
  induction fuel as [|f IH]; intros rem acc s r s' H; cbn [read_chunks] in H; destruct (rem <=? 0) eqn:Er.
  - inversion H; subst. right; left. exists acc. split; [reflexivity|apply good_run_refl].
  - inversion H; subst. left; reflexivity.
  - inversion H; subst. right; left. exists acc. split; [reflexivity|apply good_run_refl].
  - cbv zeta in H. bind_inv H b s1 H1 H2.
    + destruct (read_exact_cases _ _ _ _ _ _ H1) as [(bs & Hb & G)|F].
      * destruct (IH _ _ _ _ _ H2) as [Hf|[(bs2 & Hr & G2)|F2]].
        -- left; exact Hf.
        -- right; left. exists bs2. split; [exact Hr|eapply good_run_trans; eassumption].
        -- right; right. eapply good_rfail_trans; eassumption.
      * exfalso. exact (rfail_not_ok _ _ _ F).
    + subst r. destruct (read_exact_cases _ _ _ _ _ _ H1) as [(bs & Hb & G)|F]; [discriminate|].
      right; right. exact F.
    + exfalso. eapply nopanic_with_fuel; [intros g; apply nopanic_read_exact|exact H1|reflexivity].
Qed.

(* ================================================================================== *)
(* 1. the reader of a reply: all outcomes (seed C15-2)                                *)
(* ================================================================================== *)

(* get_response_bytes (__get_response_size + read_exact_alloc): never a panic, never out of
   fuel (no hang: at most one answer that is not a good read is ever consumed, and it is the
   last); the outcomes are
     - Ok: every answer consumed was a good read;
     - CodecError: the size prefix was read with good reads only and is negative;
     - a fault: the LAST answer consumed is the fault reported - end of stream gives
       UnexpectedEof, a failed read its own error - wherever it occurs: inside the size prefix
       or at any point of the body, first chunk or later;
     - the script ran dry. *)
Theorem C15_reply_outcomes : forall h s r s',
  get_response_bytes h s = (r, s') ->
  (forall w, r <> Panic w) /\ r <> Err EOutOfFuel /\
  (   (exists b, r = Ok b /\ forallb good_read (consumed s s') = true
       /\ length (performed s s') = length (consumed s s'))
   \/ (r = Err ECodec /\ forallb good_read (consumed s s') = true
       /\ length (performed s s') = length (consumed s s') /\ be_dec_s (payloads (consumed s s')) < 0)
   \/ (exists pre o, consumed s s' = pre ++ [o] /\ forallb good_read pre = true /\ read_bad o r
       /\ length (performed s s') = length (consumed s s'))
   \/ (r = Err EOutOfScript /\ script s' = [] /\ forallb good_read (consumed s s') = true
       /\ length (performed s s') = S (length (consumed s s')))).
Proof.
  intros h s r s' H. split; [|split].
  - intros w. eapply nopanic_get_response_bytes; exact H.
  - eapply nofuel_get_response_bytes; exact H.
  - unfold get_response_bytes in H. bind_inv H size s1 H1 H2.
    + (* the size prefix was read *)
      unfold get_response_size in H1. bind_inv H1 b s0 H3 H4; try discriminate.
      cbv zeta in H4. destruct (be_dec_s b <? 0) eqn:Eneg; [discriminate|]. inversion H4; subst. clear H4.
      destruct (read_exact_cases _ _ _ _ _ _ H3) as [(bs & Hb & G)|F]; [|exfalso; exact (rfail_not_ok _ _ _ F)].
      pose proof (nofuel_read_exact_alloc _ _ _ _ _ H2) as Hnf.
      unfold read_exact_alloc, with_fuel in H2.
      destruct (read_chunks_cases _ _ _ _ _ _ _ H2) as [Hf|[(bs2 & Hr & G2)|F2]]; [contradiction| |].
      * left. exists bs2. split; [exact Hr|]. apply (good_run_trans _ _ _ G G2).
      * right; right. destruct (good_rfail_trans _ _ _ _ G F2) as [_ C]. exact C.
    + (* reading the size prefix failed, or it is negative *)
      subst r. unfold get_response_size in H1. bind_inv H1 b s0 H3 H4.
      * cbv zeta in H4. destruct (be_dec_s b <? 0) eqn:Eneg; [|discriminate]. inversion H4; subst. clear H4.
        destruct (read_exact_cases _ _ _ _ _ _ H3) as [(bs & Hb & (E & G & L))|F];
          [|exfalso; exact (rfail_not_ok _ _ _ F)].
        right; left. repeat split; try assumption.
        unfold with_fuel in H3.
        destruct (C15_read_exact_complete _ _ _ _ _ _ _ H3 ltac:(lia)) as (data & n' & Hbd & Hd & _).
        cbn [app] in Hbd. rewrite <- Hd, <- Hbd. lia.
      * inversion H4; subst. destruct (read_exact_cases _ _ _ _ _ _ H3) as [(bs & Hb & _)|[_ C]]; [discriminate|].
        right; right. exact C.
      * discriminate.
    + exfalso. subst r. unfold get_response_size in H1. bind_inv H1 b s0 H3 H4.
      * cbv zeta in H4. destruct (be_dec_s b <? 0); discriminate.
      * discriminate.
      * eapply nopanic_with_fuel; [intros g; apply nopanic_read_exact|exact H3|reflexivity].
Qed.

(* The "fails, does not hang" clause for every fault at every read index: whatever answer that is
   not a good read (OData [] = end of stream, OReadFail = time-out / error, anything foreign) the
   reader of a reply comes to consume, it is the last answer it consumes and the call returns the
   matching error. *)
Theorem C15_reply_fault_stops : forall h s r s' o,
  get_response_bytes h s = (r, s') -> In o (consumed s s') -> good_read o = false ->
  exists pre, consumed s s' = pre ++ [o] /\ forallb good_read pre = true /\ r = read_failure o.
Proof.
  intros h s r s' o H Hin Hbad.
  assert (Hno : forall l, forallb good_read l = true -> ~ In o l).
  { intros l Hl Hi. rewrite forallb_forall in Hl. specialize (Hl _ Hi). congruence. }
  destruct (C15_reply_outcomes _ _ _ _ H) as (_ & _ & [(b & _ & G & _)|[(_ & G & _)|[(pre & o' & Hc & G & Hb & _)|(_ & _ & G & _)]]]);
    try (exfalso; exact (Hno _ G Hin)).
  rewrite Hc in Hin. apply in_app_or in Hin. destruct Hin as [Hin|[<-|[]]]; [exfalso; exact (Hno _ G Hin)|].
  exists pre. split; [exact Hc|]. split; [exact G|].
  destruct o' as [ok|k| |e|[|b0 bs]| |e|]; cbn [read_bad good_read] in *; try exact Hb; try discriminate; contradiction.
Qed.

(* end of stream in particular *)
Corollary C15_reply_eof_stops : forall h s r s',
  get_response_bytes h s = (r, s') -> In (OData []) (consumed s s') ->
  r = Err (EIo IoUnexpectedEof) /\ exists pre, consumed s s' = pre ++ [OData []] /\ forallb good_read pre = true.
Proof.
  intros h s r s' H Hin. destruct (C15_reply_fault_stops _ _ _ _ _ H Hin eq_refl) as (pre & Hc & G & Hr).
  split; [exact Hr|]. exists pre. split; assumption.
Qed.

(* the stream closes inside the body of a reply (after the size prefix and one byte of three),
   and stays closed: UnexpectedEof at once, the further answers are not touched *)
Example C15_reply_eof_stops_ex :
  let s := mkst [OData (enc_i32 3); OData [x01]; OData []; OData []; OData []] cl1 in
  let '(r, s') := get_response_bytes h1 s in
  r = Err (EIo IoUnexpectedEof) /\ script s' = [OData []; OData []] /\
  consumed s s' = [OData (enc_i32 3); OData [x01]; OData []] /\
  performed s s' = [ERead h1 4; ERead h1 3; ERead h1 2].
Proof. vm_compute. repeat split. Qed.

(* ... also in a later 64 KiB chunk of a long body, and for a time-out *)
Example C15_reply_fault_stops_ex :
  let big := repeat x00 (Z.to_nat 65536) in
  let s := mkst [OData (enc_i32 65540); OData big; OData [x01]; OReadFail IoTimedOut; OData [x02]] cl1 in
  let '(r, s') := get_response_bytes h1 s in
  r = Err (EIo IoTimedOut) /\ script s' = [OData [x02]] /\
  performed s s' = [ERead h1 4; ERead h1 65536; ERead h1 4; ERead h1 3].
Proof. vm_compute. repeat split. Qed.

(* ================================================================================== *)
(* 2. chains of exchanges                                                             *)
(* ================================================================================== *)

(* `chain d pl s als s'`: starting in s, for the (host, payload) pairs of pl in this order, one
   COMPLETE and successful exchange each (send_receive = Ok: by C15_exchange_complete the whole
   frame was written to that host and then exactly one reply read from it), with the decoded
   replies als, ending in s'.  Nothing happens between, before or after the exchanges. *)
Inductive chain {A} (d : dec A) : list (bytes * res bytes) -> st -> list A -> st -> Prop :=
| chain_nil s : chain d [] s [] s
| chain_cons h p rest s a s1 als s' :
    send_receive d h p s = (Ok a, s1) -> chain d rest s1 als s' ->
    chain d ((h, p) :: rest) s (a :: als) s'.

Lemma chain_full {A} (d : dec A) pl s als s' : chain d pl s als s' -> full s s'.
Proof.
  induction 1 as [s|h p rest s a s1 als s' H1 _ IH]; [apply full_refl|].
  eapply full_trans; [|exact IH]. eapply stepsR_ok_full, tracks_send_receive, H1.
Qed.

Lemma chain_frame {A} (d : dec A) pl s als s' : chain d pl s als s' -> same_but_conns s s'.
Proof.
  induction 1 as [s|h p rest s a s1 als s' H1 _ IH]; [apply preorder_same_but_conns|].
  eapply (proj2 preorder_same_but_conns); [eapply frame_send_receive; exact H1|exact IH].
Qed.

Lemma chain_length {A} (d : dec A) pl s als s' : chain d pl s als s' -> length als = length pl.
Proof. induction 1; cbn [length]; congruence. Qed.

(* every event of a chain is an event on one of its hosts *)
Lemma chain_ops {A} (d : dec A) pl s als s' : chain d pl s als s' ->
  Forall (fun e => exists h, In h (map fst pl) /\ on_host h e) (performed s s').
Proof.
  induction 1 as [s|h p rest s a s1 als s' H1 Hc IH]; [rewrite performed_refl; constructor|].
  destruct (ops_send_receive _ _ _ _ _ _ _ H1) as [E1 F1].
  rewrite (performed_app _ _ _ E1 (full_ext _ _ (chain_full _ _ _ _ _ Hc))). apply Forall_app. split.
  - eapply Forall_impl; [|exact F1]. intros e He. exists h. split; [left; reflexivity|exact He].
  - eapply Forall_impl; [|exact IH]. intros e [h' [Hin He]]. exists h'. split; [right; exact Hin|exact He].
Qed.

(* a failed exchange: its outcome re-typed *)
Definition failed_as {A B} (r0 : res A) (r : res B) : Prop :=
  (exists e, r0 = Err e /\ r = Err e) \/ (exists w, r0 = Panic w /\ r = Panic w).

(* ---- produce, acks enabled (seed C15) ------------------------------------------------ *)

(* the payload of the request to one broker; it only depends on configuration and codecs, which
   no exchange changes *)
Definition produce_item (s : st) (corr acks timeout : Z) (req : bytes * produce_tps) : bytes * res bytes :=
  (fst req, enc_produce_req (env s) corr (client_id (cfg (cl s))) acks timeout (compression (cfg (cl s))) (snd req)).

Definition confirms_of (a : Z * list (bytes * list produce_part)) : list confirm :=
  map (fun '(t, ps) => (t, map produce_confirm ps)) (snd a).

Lemma produce_item_frame s s1 corr acks timeout reqs : same_but_conns s s1 ->
  map (produce_item s1 corr acks timeout) reqs = map (produce_item s corr acks timeout) reqs.
Proof.
  intros (_ & _ & _ & _ & He & Hc & _). apply map_ext. intros req. unfold produce_item. rewrite He, Hc. reflexivity.
Qed.

(* With acks enabled, a produce call to several brokers (__produce_messages, in the order `reqs`)
   is, for EVERY behaviour of the stream:
     - success: one complete exchange per broker, in order, the confirms being those decoded
       from the replies in this order; or
     - failure: complete exchanges with the brokers of a prefix `pre`, then ONE failed exchange
       with the next broker, whose outcome is the result - and nothing else: in particular no
       request is on the wire whose reply has not been consumed, except possibly the failed one. *)
Theorem C15_produce_acked_chain : forall corr acks timeout reqs acc s r s',
  acks <> 0 ->
  produce_exchange corr acks timeout reqs acc s = (r, s') ->
  let pl := map (produce_item s corr acks timeout) reqs in
  (exists als, chain dec_produce_resp pl s als s' /\ r = Ok (acc ++ flat_map confirms_of als))
  \/ (exists pre h p post als sk r0,
        pl = pre ++ (h, p) :: post /\ chain dec_produce_resp pre s als sk /\
        send_receive dec_produce_resp h p sk = (r0, s') /\ failed_as r0 r).
Proof.
  intros corr acks timeout reqs acc s r s' Hacks. revert acc s r s'.
  assert (Ez : (acks =? 0) = false) by lia.
  induction reqs as [|[h tps] rest IH]; intros acc s r s' H pl; subst pl.
  - cbn [produce_exchange] in H. rewrite Ez in H. inversion H; subst. left. exists [].
    split; [constructor|]. cbn [flat_map]. rewrite app_nil_r. reflexivity.
  - cbn [produce_exchange] in H. rewrite bind_get_client, bind_get_env in H. cbv zeta in H. rewrite Ez in H.
    cbn [map]. unfold produce_item at 1 3. cbn [fst snd].
    set (p := enc_produce_req (env s) corr (client_id (cfg (cl s))) acks timeout (compression (cfg (cl s))) tps) in *.
    bind_inv H a s1 H1 H2.
    + destruct a as [c0 rtps].
      pose proof (frame_send_receive _ _ _ _ _ _ _ H1) as Hfr.
      specialize (IH _ _ _ _ H2). cbv zeta in IH. rewrite (produce_item_frame _ _ _ _ _ _ Hfr) in IH.
      destruct IH as [(als & Hc & Hr)|(pre & h' & p' & post & als & sk & r0 & Hpl & Hc & Hx & Hf)].
      * left. exists ((c0, rtps) :: als). split; [econstructor; eassumption|].
        rewrite Hr. cbn [flat_map]. unfold confirms_of at 2. cbn [snd]. rewrite app_assoc. reflexivity.
      * right. exists ((h, p) :: pre), h', p', post, ((c0, rtps) :: als), sk, r0.
        split; [rewrite Hpl; reflexivity|]. split; [econstructor; eassumption|]. split; assumption.
    + right. exists [], h, p, (map (produce_item s corr acks timeout) rest), [], s, (Err a).
      split; [reflexivity|]. split; [constructor|]. split; [exact H1|]. left. exists a. split; [reflexivity|exact H2].
    + right. exists [], h, p, (map (produce_item s corr acks timeout) rest), [], s, (Panic a).
      split; [reflexivity|]. split; [constructor|]. split; [exact H1|]. right. exists a. split; [reflexivity|exact H2].
Qed.

(* consequence, in terms of events: when the call fails at broker h, everything before the failed
   exchange is fully answered complete exchanges, and every event of the failed exchange
   concerns h - no other connection is left with a request whose reply was not read *)
Corollary C15_produce_acked_failure_local : forall corr acks timeout reqs acc s r s',
  acks <> 0 ->
  produce_exchange corr acks timeout reqs acc s = (r, s') -> (forall cs, r <> Ok cs) ->
  exists pre h p post als sk,
    map (produce_item s corr acks timeout) reqs = pre ++ (h, p) :: post /\
    chain dec_produce_resp pre s als sk /\ full s sk /\
    performed s s' = performed s sk ++ performed sk s' /\
    Forall (on_host h) (performed sk s') /\
    (forall a, fst (send_receive dec_produce_resp h p sk) <> Ok a) /\ snd (send_receive dec_produce_resp h p sk) = s'.
Proof.
  intros corr acks timeout reqs acc s r s' Hacks H Hne.
  destruct (C15_produce_acked_chain _ _ _ _ _ _ _ _ Hacks H) as [(als & _ & Hr)|(pre & h & p & post & als & sk & r0 & Hpl & Hc & Hx & Hf)].
  - exfalso. exact (Hne _ Hr).
  - exists pre, h, p, post, als, sk. split; [exact Hpl|]. split; [exact Hc|].
    pose proof (chain_full _ _ _ _ _ Hc) as F. split; [exact F|].
    destruct (ops_send_receive _ _ _ _ _ _ _ Hx) as [E2 F2].
    split; [apply performed_app; [apply full_ext; exact F|exact E2]|]. split; [exact F2|].
    rewrite Hx. cbn [fst snd]. split; [|reflexivity].
    intros a Ha. destruct Hf as [(e & -> & _)|(w & -> & _)]; discriminate.
Qed.

(* two brokers; the second one refuses the write: the first exchange is complete (request
   written, reply of 4 + 30 bytes read) before the second broker is approached *)
Definition h2 : bytes := tag "b2:9092".
Definition cs2 : cstate :=
  {| correlation := 0; brokers := [{| b_node := 1; b_host := h1 |}; {| b_node := 2; b_host := h2 |}];
     topic_partitions := [(tag "t", [0; 1])]; group_coordinators := [] |}.
Definition cl2 : client := {| cfg := default_config [h1]; cs := cs2; conns := [h1; h2] |}.
Definition produce_reply (p off : Z) : bytes :=
  enc_i32 1 ++ enc_i32 1 ++ enc_i16 1 ++ tag "t" ++ enc_i32 1 ++ enc_i32 p ++ enc_i16 0 ++ enc_i64 off.
Definition two_msgs : list produce_message :=
  [{| pq_topic := tag "t"; pq_partition := 0; pq_key := None; pq_value := Some (tag "a") |};
   {| pq_topic := tag "t"; pq_partition := 1; pq_key := None; pq_value := Some (tag "b") |}].

Example C15_produce_acked_chain_ex :
  let s := mkst [OWrote 1000; OData (enc_i32 (ulen (produce_reply 0 100))); OData (produce_reply 0 100);
                 OWriteFail IoOther; OData (tag "untouched")] cl2 in
  let '(r, s') := produce_messages 1 (1, 0) two_msgs s in
  r = Err (EIo IoOther) /\ script s' = [OData (tag "untouched")] /\
  map (fun e => match e with EWrite h _ => (1, h) | ERead h _ => (2, h) | _ => (0, []) end) (performed s s')
  = [(1, h1); (2, h1); (2, h1); (1, h2)].
Proof. vm_compute. repeat split. Qed.

(* ---- produce, acks disabled (seed C15-3) --------------------------------------------- *)

(* `pushes pl s s'`: for the pairs of pl in order, the connection was obtained and the request
   sent successfully (send_request = Ok: by C15_push_complete the WHOLE frame was accepted) *)
Inductive pushes : list (bytes * res bytes) -> st -> st -> Prop :=
| pushes_nil s : pushes [] s s
| pushes_cons h p rest s s1 z s2 s' :
    get_conn h s = (Ok tt, s1) -> send_request h p s1 = (Ok z, s2) -> pushes rest s2 s' ->
    pushes ((h, p) :: rest) s s'.

(* the failure of one push: connecting failed, or sending failed *)
Definition push_failed (h : bytes) (p : res bytes) (sk : st) (r : res (list confirm)) (s' : st) : Prop :=
  (exists e, get_conn h sk = (Err e, s') /\ r = Err e) \/
  (exists s1 r0, get_conn h sk = (Ok tt, s1) /\ send_request h p s1 = (r0, s') /\ failed_as r0 r).

Theorem C15_push_complete : forall h payload s z s',
  send_request h payload s = (Ok z, s') ->
  exists p chunks, payload = Ok p /\ z = ulen (frame p) /\
    wsteps h (frame p) (performed s s') (consumed s s') chunks [] /\ concat chunks = frame p.
Proof.
  intros h payload s z s' H. unfold send_request in H. unfold mbind at 1 in H. unfold lift in H.
  destruct payload as [p|e|w]; try discriminate.
  destruct (send_ok _ _ _ _ _ H) as (ops & outs & chunks & Hw & Hs & Hz).
  exists p, chunks. rewrite (seg_performed _ _ _ _ Hs), (seg_consumed _ _ _ _ Hs).
  split; [reflexivity|]. split; [exact Hz|]. split; [exact Hw|].
  pose proof (wsteps_concat _ _ _ _ _ _ Hw) as Hc. rewrite app_nil_r in Hc. symmetry. exact Hc.
Qed.

Lemma frame_send_request_conns h p : keeps same_but_conns (send_request h p).
Proof. eapply keeps_weaken; [apply same_but_io_conns|apply frame_send_request]. Qed.

(* With acks disabled, for EVERY behaviour of the stream: success (always with no confirms) only
   if the request to EVERY broker was handed over completely, in order; otherwise the FIRST
   failure (connect or send) is the result of the call and nothing is done after it. *)
Theorem C15_produce_noack_all_or_error : forall corr timeout reqs acc s r s',
  produce_exchange corr 0 timeout reqs acc s = (r, s') ->
  let pl := map (produce_item s corr 0 timeout) reqs in
  (r = Ok [] /\ pushes pl s s')
  \/ (exists pre h p post sk,
        pl = pre ++ (h, p) :: post /\ pushes pre s sk /\ push_failed h p sk r s').
Proof.
  intros corr timeout reqs. induction reqs as [|[h tps] rest IH]; intros acc s r s' H pl; subst pl.
  - cbn [produce_exchange] in H. change (0 =? 0) with true in H. inversion H; subst. left. split; [reflexivity|constructor].
  - cbn [produce_exchange] in H. rewrite bind_get_client, bind_get_env in H. cbv zeta in H.
    change (0 =? 0) with true in H. cbv iota in H.
    cbn [map]. unfold produce_item at 1 3. cbn [fst snd].
    set (p := enc_produce_req (env s) corr (client_id (cfg (cl s))) 0 timeout (compression (cfg (cl s))) tps) in *.
    bind_inv H u s1 H1 H2.
    + destruct u. bind_inv H2 z s2 H3 H4.
      * assert (Hfr : same_but_conns s s2).
        { eapply (proj2 preorder_same_but_conns); [eapply frame_get_conn; exact H1|eapply frame_send_request_conns; exact H3]. }
        specialize (IH _ _ _ _ H4). cbv zeta in IH. rewrite (produce_item_frame _ _ _ _ _ _ Hfr) in IH.
        destruct IH as [(Hr & Hp)|(pre & h' & p' & post & sk & Hpl & Hp & Hf)].
        -- left. split; [exact Hr|]. econstructor; eassumption.
        -- right. exists ((h, p) :: pre), h', p', post, sk. split; [rewrite Hpl; reflexivity|].
           split; [econstructor; eassumption|exact Hf].
      * right. exists [], h, p, (map (produce_item s corr 0 timeout) rest), s.
        split; [reflexivity|]. split; [constructor|]. right. exists s1, (Err z). split; [exact H1|].
        split; [exact H3|]. left. exists z. split; [reflexivity|exact H4].
      * right. exists [], h, p, (map (produce_item s corr 0 timeout) rest), s.
        split; [reflexivity|]. split; [constructor|]. right. exists s1, (Panic z). split; [exact H1|].
        split; [exact H3|]. right. exists z. split; [reflexivity|exact H4].
    + right. exists [], h, p, (map (produce_item s corr 0 timeout) rest), s.
      split; [reflexivity|]. split; [constructor|]. left. exists u. split; assumption.
    + exfalso. exact (nopanic_get_conn _ _ _ _ _ H1 eq_refl).
Qed.

(* no reply is awaited: not a single read event, whatever happens *)
Definition not_read (e : ev_op) : Prop := match e with ERead _ _ => False | _ => True end.

Theorem C15_produce_noack_reads_nothing : forall corr timeout reqs acc s r s',
  produce_exchange corr 0 timeout reqs acc s = (r, s') -> Forall not_read (performed s s').
Proof.
  intros corr timeout reqs acc s r s' H.
  enough (K : forall reqs acc, keeps (ops_in not_read) (produce_exchange corr 0 timeout reqs acc)) by (eapply K; exact H).
  clear. intros reqs. induction reqs as [|[h tps] rest IH]; intros acc; cbn [produce_exchange].
  - change (0 =? 0) with true. cbv iota. apply keeps_ret, preorder_ops_in.
  - apply keeps_bind; [apply preorder_ops_in|apply keeps_get_client, preorder_ops_in|]. intros c.
    apply keeps_bind; [apply preorder_ops_in|apply keeps_get_env, preorder_ops_in|]. intros e. cbv zeta.
    change (0 =? 0) with true. cbv iota.
    apply keeps_bind; [apply preorder_ops_in| |].
    + apply (keepsR_get_conn _ (preorder_ops_in _) h); intros; try (apply keeps_io_ops; exact I); apply keeps_set_conns_ops.
    + intros _. apply keeps_bind; [apply preorder_ops_in| |intros _; apply IH].
      apply (keepsR_send_request _ (preorder_ops_in _) h); intros; apply keeps_io_ops; exact I.
Qed.

(* two brokers, acks disabled; the FIRST broker approached accepts 10 bytes and then breaks: the
   call fails with that error and the second broker is not approached *)
Example C15_produce_noack_ex :
  let s := mkst [OWrote 10; OWriteFail IoOther; OWrote 1000] cl2 in
  let '(r, s') := produce_messages 0 (1, 0) two_msgs s in
  r = Err (EIo IoOther) /\ script s' = [OWrote 1000] /\
  map (fun e => match e with EWrite h _ => (1, h) | ERead h _ => (2, h) | _ => (0, []) end) (performed s s')
  = [(1, h1); (1, h1)].
Proof. vm_compute. repeat split. Qed.
(* ... and when both accept everything: success, two writes, no read *)
Example C15_produce_noack_ok_ex :
  let s := mkst [OWrote 10; OWrote 1000; OWrote 1000; OData (tag "untouched")] cl2 in
  let '(r, s') := produce_messages 0 (1, 0) two_msgs s in
  r = Ok [] /\ script s' = [OData (tag "untouched")] /\
  map (fun e => match e with EWrite h _ => (1, h) | ERead h _ => (2, h) | _ => (0, []) end) (performed s s')
  = [(1, h1); (1, h1); (1, h2)].
Proof. vm_compute. repeat split. Qed.

(* ================================================================================== *)
(* 3. the other multi-broker calls                                                    *)
(* ================================================================================== *)

(* ---- fetch_offsets / list_offsets (offsets_exchange) ----------------------------------- *)

(* what the call computes from the decoded replies, in the order of the exchanges *)
Fixpoint merge_all {P V} (conv : P -> V + Z) (pid : P -> Z) (als : list (Z * list (bytes * list P)))
         (m : list (bytes * list V)) : res (list (bytes * list V)) :=
  match als with
  | [] => Ok m
  | a :: r => match merge_topics conv pid (snd a) m with
              | Ok m' => merge_all conv pid r m'
              | Err e => Err e
              | Panic w => Panic w
              end
  end.

(* For EVERY behaviour of the stream the run of offsets_exchange is a chain of complete exchanges
   with a prefix of the brokers, in order, and then
     - either nothing more: the result is merge_all of exactly the replies decoded in these
       exchanges (it stops early only when merging a reply gives an error), or
     - ONE failed exchange with the next broker, whose outcome is the result. *)
Theorem C15_offsets_chain : forall P V enc (d : dec (Z * list (bytes * list P))) (conv : P -> V + Z) pid reqs m s r s',
  offsets_exchange enc d conv pid reqs m s = (r, s') ->
  let pl := map (fun req : bytes * list (bytes * list (Z * Z)) => (fst req, enc (snd req))) reqs in
  (exists pre post als, pl = pre ++ post /\ chain d pre s als s' /\ r = merge_all conv pid als m /\
                        (post = [] \/ forall x, r <> Ok x))
  \/ (exists pre h p post als sk r0,
        pl = pre ++ (h, p) :: post /\ chain d pre s als sk /\ (exists mk, merge_all conv pid als m = Ok mk) /\
        send_receive d h p sk = (r0, s') /\ failed_as r0 r).
Proof.
  intros P V enc d conv pid reqs. induction reqs as [|[h tps] rest IH]; intros m s r s' H pl; subst pl.
  - cbn [offsets_exchange] in H. inversion H; subst. left. exists [], [], []. split; [reflexivity|].
    split; [constructor|]. split; [reflexivity|left; reflexivity].
  - cbn [offsets_exchange] in H. cbn [map fst snd]. bind_inv H a s1 H1 H2.
    + destruct a as [c0 rtps]. unfold mbind at 1 in H2. unfold lift in H2.
      destruct (merge_topics conv pid rtps m) as [m'|e|w] eqn:Em.
      * specialize (IH _ _ _ _ H2). cbv zeta in IH.
        destruct IH as [(pre & post & als & Hpl & Hc & Hr & Hend)|(pre & h' & p' & post & als & sk & r0 & Hpl & Hc & (mk & Hm) & Hx & Hf)].
        -- left. exists ((h, enc tps) :: pre), post, ((c0, rtps) :: als). split; [rewrite Hpl; reflexivity|].
           split; [econstructor; eassumption|]. cbn [merge_all snd]. rewrite Em. split; assumption.
        -- right. exists ((h, enc tps) :: pre), h', p', post, ((c0, rtps) :: als), sk, r0.
           split; [rewrite Hpl; reflexivity|]. split; [econstructor; eassumption|].
           split; [exists mk; cbn [merge_all snd]; rewrite Em; exact Hm|]. split; assumption.
      * inversion H2; subst. left.
        exists [(h, enc tps)], (map (fun req : bytes * list (bytes * list (Z * Z)) => (fst req, enc (snd req))) rest), [(c0, rtps)].
        split; [reflexivity|]. split; [econstructor; [exact H1|constructor]|]. cbn [merge_all snd]. rewrite Em.
        split; [reflexivity|right; intros x; discriminate].
      * inversion H2; subst. left.
        exists [(h, enc tps)], (map (fun req : bytes * list (bytes * list (Z * Z)) => (fst req, enc (snd req))) rest), [(c0, rtps)].
        split; [reflexivity|]. split; [econstructor; [exact H1|constructor]|]. cbn [merge_all snd]. rewrite Em.
        split; [reflexivity|right; intros x; discriminate].
    + right. exists [], h, (enc tps), (map (fun req : bytes * list (bytes * list (Z * Z)) => (fst req, enc (snd req))) rest), [], s, (Err a).
      split; [reflexivity|]. split; [constructor|]. split; [exists m; reflexivity|]. split; [exact H1|].
      left. exists a. split; [reflexivity|exact H2].
    + right. exists [], h, (enc tps), (map (fun req : bytes * list (bytes * list (Z * Z)) => (fst req, enc (snd req))) rest), [], s, (Panic a).
      split; [reflexivity|]. split; [constructor|]. split; [exists m; reflexivity|]. split; [exact H1|].
      right. exists a. split; [reflexivity|exact H2].
Qed.

(* two brokers: the reply of the first one is read completely before the second is approached;
   the second times out *)
Definition offsets_reply (p off : Z) : bytes :=
  enc_i32 1 ++ enc_i32 1 ++ enc_i16 1 ++ tag "t" ++ enc_i32 1 ++ enc_i32 p ++ enc_i16 0 ++ enc_i32 1 ++ enc_i64 off.
Example C15_offsets_chain_ex :
  let s := mkst [OWrote 1000; OData (enc_i32 (ulen (offsets_reply 0 42))); OData (offsets_reply 0 42);
                 OWrote 1000; OReadFail IoTimedOut; OData (tag "untouched")] cl2 in
  let '(r, s') := fetch_offsets [tag "t"] (-1) s in
  r = Err (EIo IoTimedOut) /\ script s' = [OData (tag "untouched")] /\
  map (fun e => match e with EWrite h _ => (1, h) | ERead h _ => (2, h) | _ => (0, []) end) (performed s s')
  = [(1, h1); (2, h1); (2, h1); (1, h2); (2, h2)].
Proof. vm_compute. repeat split. Qed.

(* ---- fetch_messages (fetch_exchange; the exchange is written out inline there) ---------- *)

Definition fetch_payload (s : st) (corr : Z) (h : bytes) (tps : fetch_tps) : res bytes :=
  enc_fetch_req corr (client_id (cfg (cl s))) (fetch_max_wait_time (cfg (cl s))) (fetch_min_bytes (cfg (cl s)))
                (match assoc_bytes h (fetchq s) with Some o => order_fetch o tps | None => tps end).
Definition fetch_decode (s : st) (tps : fetch_tps) (b : bytes) : res fetch_resp :=
  fetch_from_vec (env s) decode_depth (fetch_crc_validation (cfg (cl s))) tps b.

(* one complete fetch exchange per broker, in order: connection, the whole request frame, one
   whole reply, and the response decoded from exactly the bytes of that reply *)
Inductive fetch_chain (corr : Z) : list (bytes * fetch_tps) -> st -> list fetch_resp -> st -> Prop :=
| fetch_chain_nil s : fetch_chain corr [] s [] s
| fetch_chain_cons h tps rest s s1 z s2 b s3 resp resps s' :
    get_conn h s = (Ok tt, s1) ->
    send_request h (fetch_payload s corr h tps) s1 = (Ok z, s2) ->
    get_response_bytes h s2 = (Ok b, s3) ->
    fetch_decode s tps b = Ok resp ->
    fetch_chain corr rest s3 resps s' ->
    fetch_chain corr ((h, tps) :: rest) s (resp :: resps) s'.

Definition fetch_step_failed (corr : Z) (h : bytes) (tps : fetch_tps) (sk : st) (r : res (list fetch_resp)) (s' : st) : Prop :=
  (exists e, get_conn h sk = (Err e, s') /\ r = Err e) \/
  exists s1, get_conn h sk = (Ok tt, s1) /\
    ((exists r0, send_request h (fetch_payload sk corr h tps) s1 = (r0, s') /\ failed_as r0 r) \/
     exists z s2, send_request h (fetch_payload sk corr h tps) s1 = (Ok z, s2) /\
       ((exists e, get_response_bytes h s2 = (Err e, s') /\ r = Err e) \/
        exists b, get_response_bytes h s2 = (Ok b, s') /\ failed_as (fetch_decode sk tps b) r)).

Lemma bind_get_fetch_order {B} h (f : option (list (bytes * list Z)) -> M B) s :
  mbind (get_fetch_order h) f s = f (assoc_bytes h (fetchq s)) s.
Proof. reflexivity. Qed.

Theorem C15_fetch_chain : forall corr reqs acc s r s',
  fetch_exchange corr reqs acc s = (r, s') ->
  (exists resps, fetch_chain corr reqs s resps s' /\ r = Ok (acc ++ resps))
  \/ (exists pre h tps post resps sk,
        reqs = pre ++ (h, tps) :: post /\ fetch_chain corr pre s resps sk /\ fetch_step_failed corr h tps sk r s').
Proof.
  intros corr reqs. induction reqs as [|[h tps] rest IH]; intros acc s r s' H.
  - cbn [fetch_exchange] in H. inversion H; subst. left. exists []. split; [constructor|]. rewrite app_nil_r. reflexivity.
  - cbn [fetch_exchange] in H. rewrite bind_get_client, bind_get_env, bind_get_fetch_order in H. cbv zeta in H.
    fold (fetch_payload s corr h tps) in H.
    assert (Hhere : fetch_step_failed corr h tps s r s' ->
              exists pre h0 tps0 post resps sk, (h, tps) :: rest = pre ++ (h0, tps0) :: post /\
                fetch_chain corr pre s resps sk /\ fetch_step_failed corr h0 tps0 sk r s').
    { intros F. exists [], h, tps, rest, [], s. split; [reflexivity|]. split; [constructor|exact F]. }
    bind_inv H u s1 H1 H2.
    + destruct u. bind_inv H2 z s2 H3 H4.
      * bind_inv H4 b s3 H5 H6.
        -- unfold mbind at 1 in H6. unfold lift in H6. fold (fetch_decode s tps b) in H6.
           destruct (fetch_decode s tps b) as [resp|e|w] eqn:Ed.
           ++ destruct (IH _ _ _ _ H6) as [(resps & Hc & Hr)|(pre & h' & tps' & post & resps & sk & Hpl & Hc & Hf)].
              ** left. exists (resp :: resps). split; [econstructor; eassumption|].
                 rewrite Hr, <- app_assoc. reflexivity.
              ** right. exists ((h, tps) :: pre), h', tps', post, (resp :: resps), sk.
                 split; [rewrite Hpl; reflexivity|]. split; [econstructor; eassumption|exact Hf].
           ++ inversion H6; subst. right. apply Hhere. right. exists s1. split; [exact H1|]. right. exists z, s2.
              split; [exact H3|]. right. exists b. split; [exact H5|]. rewrite Ed. left. exists e. split; reflexivity.
           ++ inversion H6; subst. right. apply Hhere. right. exists s1. split; [exact H1|]. right. exists z, s2.
              split; [exact H3|]. right. exists b. split; [exact H5|]. rewrite Ed. right. exists w. split; reflexivity.
        -- right. apply Hhere. right. exists s1. split; [exact H1|]. right. exists z, s2.
           split; [exact H3|]. left. exists b. split; assumption.
        -- exfalso. exact (nopanic_get_response_bytes _ _ _ _ _ H5 eq_refl).
      * right. apply Hhere. right. exists s1. split; [exact H1|]. left. exists (Err z). split; [exact H3|].
        left. exists z. split; [reflexivity|exact H4].
      * right. apply Hhere. right. exists s1. split; [exact H1|]. left. exists (Panic z). split; [exact H3|].
        right. exists z. split; [reflexivity|exact H4].
    + right. apply Hhere. left. exists u. split; assumption.
    + exfalso. exact (nopanic_get_conn _ _ _ _ _ H1 eq_refl).
Qed.

(* two brokers; the stream of the second closes inside the body of its reply: the first exchange
   is complete, the call fails at once with UnexpectedEof *)
Definition fetch_reply (p : Z) : bytes :=
  enc_i32 1 ++ enc_i32 1 ++ enc_i16 1 ++ tag "t" ++ enc_i32 1 ++ enc_i32 p ++ enc_i16 0 ++ enc_i64 5 ++ enc_i32 0.
Definition two_fetches : list fetch_partition :=
  [{| fq_topic := tag "t"; fq_partition := 0; fq_offset := 0; fq_max_bytes := 100 |};
   {| fq_topic := tag "t"; fq_partition := 1; fq_offset := 0; fq_max_bytes := 100 |}].
Example C15_fetch_chain_ex :
  let s := mkst [OWrote 1000; OData (enc_i32 (ulen (fetch_reply 0))); OData (fetch_reply 0);
                 OWrote 1000; OData (enc_i32 (ulen (fetch_reply 1))); OData (firstn 7 (fetch_reply 1)); OData [];
                 OData (tag "untouched")] cl2 in
  let '(r, s') := fetch_messages two_fetches s in
  r = Err (EIo IoUnexpectedEof) /\ script s' = [OData (tag "untouched")] /\
  map (fun e => match e with EWrite h _ => (1, h) | ERead h _ => (2, h) | _ => (0, []) end) (performed s s')
  = [(1, h1); (2, h1); (2, h1); (1, h2); (2, h2); (2, h2); (2, h2)].
Proof. vm_compute. repeat split. Qed.
Example C15_fetch_chain_ok_ex :
  let s := mkst [OWrote 1000; OData (enc_i32 (ulen (fetch_reply 0))); OData (fetch_reply 0);
                 OWrote 1000; OData (enc_i32 (ulen (fetch_reply 1))); OData (fetch_reply 1);
                 OData (tag "untouched")] cl2 in
  let '(r, s') := fetch_messages two_fetches s in
  is_ok r = true /\ script s' = [OData (tag "untouched")].
Proof. vm_compute. repeat split. Qed.

(* ================================================================================== *)
(* 4. the retrying group calls: success comes from an exchange of this very call       *)
(* ================================================================================== *)

Lemma ext_set_cs x : keeps ext (set_cs x).
Proof.
  apply tracks_ext. apply tracks_bind; [apply tracks_get_client|intros c; apply tracks_set_client].
Qed.

(* commit_offsets reports success only if, in THIS call, after everything else it did, a complete
   exchange with the coordinator took place whose reply - the last thing read - carries no error
   code; the call ends with that exchange *)
Theorem C15_commit_ok_own_exchange : forall fuel group req attempt s s',
  commit_loop fuel group req attempt s = (Ok tt, s') ->
  exists h sk c tps, ext s sk /\
    send_receive dec_offset_commit_resp h req sk = (Ok (c, tps), s') /\ commit_scan tps = ScanOk.
Proof.
  induction fuel as [|f IH]; intros group req attempt s s' H; cbn [commit_loop] in H; [discriminate|].
  bind_inv H h s1 H1 H2; try discriminate.
  destruct (C14Facts.ggc_cfg _ _ _ _ H1) as [E1 _].
  bind_inv H2 a s2 H3 H4; try discriminate. destruct a as [c tps].
  destruct (commit_scan tps) eqn:Es.
  - inversion H4; subst. exists h, s1, c, tps. split; [exact E1|]. split; [exact H3|exact Es].
  - rewrite bind_get_client in H4. bind_inv H4 u s3 H5 H6; try discriminate.
    destruct (attempt <? retry_max_attempts (cfg (cl s2))); [|discriminate].
    destruct (IH _ _ _ _ _ H6) as (h' & sk & c' & tps' & E & Hx & Hs).
    exists h', sk, c', tps'. split; [|split; assumption].
    eapply ext_trans; [exact E1|]. eapply ext_trans; [eapply tracks_ext; [apply tracks_send_receive|exact H3]|].
    eapply ext_trans; [|exact E]. destruct reset; [eapply ext_set_cs; exact H5|inversion H5; subst; apply ext_refl].
  - discriminate.
Qed.

(* the same for fetch_group_offsets: the offsets returned are computed (group_scan) from the reply
   read in the last exchange of this call *)
Theorem C15_group_fetch_ok_own_exchange : forall fuel group req attempt s m s',
  group_fetch_loop fuel group req attempt s = (Ok m, s') ->
  exists h sk c tps, ext s sk /\
    send_receive dec_offset_fetch_resp h req sk = (Ok (c, tps), s') /\ group_scan tps [] = inl (inl m).
Proof.
  induction fuel as [|f IH]; intros group req attempt s m s' H; cbn [group_fetch_loop] in H; [discriminate|].
  bind_inv H h s1 H1 H2; try discriminate.
  destruct (C14Facts.ggc_cfg _ _ _ _ H1) as [E1 _].
  bind_inv H2 a s2 H3 H4; try discriminate. destruct a as [c tps].
  destruct (group_scan tps []) as [[m0|[code reset]]|code] eqn:Es.
  - inversion H4; subst. exists h, s1, c, tps. split; [exact E1|]. split; [exact H3|exact Es].
  - rewrite bind_get_client in H4. bind_inv H4 u s3 H5 H6; try discriminate.
    destruct (attempt <? retry_max_attempts (cfg (cl s2))); [|discriminate].
    destruct (IH _ _ _ _ _ _ H6) as (h' & sk & c' & tps' & E & Hx & Hs).
    exists h', sk, c', tps'. split; [|split; assumption].
    eapply ext_trans; [exact E1|]. eapply ext_trans; [eapply tracks_ext; [apply tracks_send_receive|exact H3]|].
    eapply ext_trans; [|exact E]. destruct reset; [eapply ext_set_cs; exact H5|inversion H5; subst; apply ext_refl].
  - discriminate.
Qed.

(* a commit that is told "group load in progress" (14) once and then succeeds: two complete
   exchanges, success from the second *)
Definition cfg3 : config :=
  {| client_id := []; hosts := [h1]; compression := 0; fetch_max_wait_time := 100; fetch_min_bytes := 1;
     fetch_max_bytes_per_partition := 1000; fetch_crc_validation := true; offset_storage := 1;
     retry_backoff_time := (0, 0); retry_max_attempts := 3; idle_timeout := (1, 0) |}.
Definition cs3 : cstate :=
  {| correlation := 0; brokers := [{| b_node := 1; b_host := h1 |}];
     topic_partitions := [(tag "t", [0])]; group_coordinators := [(tag "g", 0)] |}.
Definition cl3 : client := {| cfg := cfg3; cs := cs3; conns := [h1] |}.
Definition commit_reply (code : Z) : bytes :=
  enc_i32 1 ++ enc_i32 1 ++ enc_i16 1 ++ tag "t" ++ enc_i32 1 ++ enc_i32 0 ++ enc_i16 code.
Example C15_commit_ok_own_exchange_ex :
  let s := mkst [OWrote 1000; OData (enc_i32 (ulen (commit_reply 14))); OData (commit_reply 14);
                 OWrote 1000; OData (enc_i32 (ulen (commit_reply 0))); OData (commit_reply 0);
                 OData (tag "untouched")] cl3 in
  let '(r, s') := commit_offsets (tag "g") [{| co_topic := tag "t"; co_partition := 0; co_offset := 7 |}] s in
  r = Ok tt /\ script s' = [OData (tag "untouched")] /\
  map (fun e => match e with EWrite h _ => (1, h) | ERead h _ => (2, h) | _ => (0, []) end) (performed s s')
  = [(1, h1); (2, h1); (2, h1); (1, h1); (2, h1); (2, h1)].
Proof. vm_compute. repeat split. Qed.
Definition gfetch_reply (code : Z) : bytes :=
  enc_i32 1 ++ enc_i32 1 ++ enc_i16 1 ++ tag "t" ++ enc_i32 1 ++ enc_i32 0 ++ enc_i64 9 ++ enc_i16 0 ++ enc_i16 code.
Example C15_group_fetch_ok_own_exchange_ex :
  let s := mkst [OWrote 1000; OData (enc_i32 (ulen (gfetch_reply 14))); OData (gfetch_reply 14);
                 OWrote 1000; OData (enc_i32 (ulen (gfetch_reply 0))); OData (gfetch_reply 0);
                 OData (tag "untouched")] cl3 in
  let '(r, s') := fetch_group_offsets (tag "g") [(tag "t", 0)] s in
  r = Ok [(tag "t", [(0, 9)])] /\ script s' = [OData (tag "untouched")] /\ length (performed s s') = 6%nat.
Proof. vm_compute. repeat split. Qed.

Print Assumptions C15_reply_outcomes.
Print Assumptions C15_reply_fault_stops.
Print Assumptions C15_reply_eof_stops.
Print Assumptions C15_produce_acked_chain.
Print Assumptions C15_produce_acked_failure_local.
Print Assumptions C15_push_complete.
Print Assumptions C15_produce_noack_all_or_error.
Print Assumptions C15_produce_noack_reads_nothing.
Print Assumptions C15_offsets_chain.
Print Assumptions C15_fetch_chain.
Print Assumptions C15_commit_ok_own_exchange.
Print Assumptions C15_group_fetch_ok_own_exchange.
