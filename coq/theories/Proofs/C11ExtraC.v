(* C11, third adequacy pass (round-five and round-six seeds).  Everything here is about the unchanged model.

   Seed C11-5 (`KafkaCode::from_protocol` range-checks the LOW BYTE `n as i8` instead of the 16-bit wire value)
   is mirrored by `from_protocol` (Model/Responses.v).  It is ALREADY covered: `C11_table` is stated for every
   integer, and is false for the mirrored change at n = 259 (confirmed in a scratch copy: C11Facts.v stops at
   `from_protocol_table`, and the negation of the statement of C11_table is provable there).
   Seed C11-6 (`KafkaClient::list_offsets` hands out all requests before it reads any answer) is mirrored by
   `list_offsets` / `offsets_exchange` (Model/Client.v).  It is ALREADY covered: `C11_list_offsets_fails` pins result
   AND final state of a failing call to "the healthy exchanges, then the exchange with the refusing broker, nothing
   else"; with two brokers the mirrored change performs other I/O (confirmed in a scratch copy: the negation of the
   statement of C11_list_offsets_fails is provable there on a two-broker run).

   What this file adds, along the dimensions the two seeds moved in:

   Part A  (the VALUE of the code, seed 5)  every statement of Props/C11.v except C11_table and the commit loop's
           `C11_commit_resend_only_if` speaks about the code through `from_protocol e = Some c`, so it cannot tell
           wire code 259 from 3.  Here the call-level statements are restated on the WIRE value `e`:
           the kind is `kind_of e` (1..35 itself, anything else -1); the mapped kinds come from their own code
           only; the documented exceptions fire for the wire codes 3 / 14 / 16 / 15 and for no other: group offset
           fetch ("no offset" only for 3; re-sent only for 14 / 16), coordinator lookup (repeated only for 15).
   Part B  (several brokers, what a call leaves behind, seed 6)  a TOTAL description of `offsets_exchange`,
           hence of list_offsets and fetch_offsets, for every outcome (success, refused partition, transport error,
           undecodable answer): the I/O of the call is a chain of complete request/answer exchanges, one broker
           after the other, and the call ends in the state right after the exchange that failed - no request is
           ever in flight when the call returns.  `C11_list_offsets_ok_clean` (missing so far) is a corollary. *)
From KV Require Import Base.Prelude Gen.ErrorCodes Gen.Consts Model.Codecs Model.Requests Model.Responses
                       Model.ClientState Model.Net Model.Client Model.Producer Model.Consumer.
From KV Require Import Proofs.BytesFacts Spec.RespGrammar Proofs.C11Facts Proofs.C10Facts Proofs.C11Extra
                       Proofs.C11ExtraB.
From Coq Require Import ZifyBool.
Ltac Zify.zify_post_hook ::= Z.div_mod_to_equations.

(* ================================================================================================ *)
(* Part A: the wire value of the code                                                               *)
(* ================================================================================================ *)

(* the documented kind of a non-zero wire code, with the numbers of the protocol guide written out *)
Definition kind_of (e : Z) : Z := if (1 <=? e) && (e <=? 35) then e else -1.

Theorem C11_wire_kind : forall e, e <> 0 -> from_protocol e = Some (kind_of e).
Proof.
  intros e He. rewrite from_protocol_table. destruct (e =? 0) eqn:E; [lia|].
  replace from_protocol_lo with 1 by reflexivity. replace from_protocol_hi with 35 by reflexivity.
  replace from_protocol_default with (-1) by reflexivity. unfold kind_of.
  destruct ((1 <=? e) && (e <=? 35)); reflexivity.
Qed.

(* converse: a mapped kind is only ever reported for its own wire code, Unknown only for unmapped codes *)
Theorem C11_wire_kind_only : forall e c, from_protocol e = Some c ->
  (1 <= c <= 35 /\ e = c) \/ (c = -1 /\ (e < 0 \/ 35 < e)).
Proof.
  intros e c H. assert (He : e <> 0) by (exact (from_protocol_some_nonzero e c H)).
  rewrite (C11_wire_kind e He) in H. inversion H; subst. unfold kind_of.
  destruct ((1 <=? e) && (e <=? 35)) eqn:E; [left|right]; lia.
Qed.

(* the four kinds that drive control flow are reached from exactly one wire code each *)
Theorem C11_control_codes_exact : forall e,
  (from_protocol e = Some KC_UnknownTopicOrPartition <-> e = 3)
  /\ (from_protocol e = Some KC_GroupLoadInProgress <-> e = 14)
  /\ (from_protocol e = Some KC_GroupCoordinatorNotAvailable <-> e = 15)
  /\ (from_protocol e = Some KC_NotCoordinatorForGroup <-> e = 16).
Proof.
  intros e.
  replace KC_UnknownTopicOrPartition with 3 by reflexivity. replace KC_GroupLoadInProgress with 14 by reflexivity.
  replace KC_GroupCoordinatorNotAvailable with 15 by reflexivity. replace KC_NotCoordinatorForGroup with 16 by reflexivity.
  repeat split; intros H;
    try (destruct (C11_wire_kind_only e _ H) as [[_ Heq]|[Hc _]]; [exact Heq|discriminate Hc]);
    subst e; reflexivity.
Qed.

Example C11_wire_kind_ex :
  map from_protocol [259; 515; -253; 32515; 270; 272; -240; 271; 262; -250; 36; -1; 255; 256; 32767; -32768; 3; 14; 35]
  = map Some [-1; -1; -1; -1; -1; -1; -1; -1; -1; -1; -1; -1; -1; -1; -1; -1; 3; 14; 35]
  /\ kind_of 259 = -1 /\ kind_of 35 = 35 /\ kind_of (-32767) = -1.
Proof. vm_compute. repeat split. Qed.

(* per-partition results of the four "topic -> partitions" answers, on the wire code *)
Theorem C11_wire_partition_results : forall e, e <> 0 ->
  (forall p, por_error p = e -> to_offset p = inr (kind_of e))
  /\ (forall p, lop_error p = e -> lop_to_offset p = inr (kind_of e))
  /\ (forall p, pp_error p = e -> produce_confirm p = (pp_partition p, inr (kind_of e)))
  /\ (forall p, ofp_error p = e -> e <> 3 -> get_offsets p = inr (kind_of e)).
Proof.
  intros e He. pose proof (C11_wire_kind e He) as Hk. repeat split; intros p Hp.
  - apply to_offset_error. rewrite Hp. exact Hk.
  - apply lop_to_offset_error. rewrite Hp. exact Hk.
  - apply produce_confirm_error. rewrite Hp. exact Hk.
  - intros H3. apply get_offsets_error; [rewrite Hp; exact Hk|].
    replace KC_UnknownTopicOrPartition with 3 by reflexivity. unfold kind_of.
    destruct ((1 <=? e) && (e <=? 35)); lia.
Qed.

(* group offset fetch, one entry: the whole function on the wire code *)
Theorem C11_get_offsets_wire : forall p,
  get_offsets p = if ofp_error p =? 0 then inl (ofp_partition p, ofp_offset p)
                  else if ofp_error p =? 3 then inl (ofp_partition p, -1)
                  else inr (kind_of (ofp_error p)).
Proof.
  intros p. destruct (ofp_error p =? 0) eqn:E0.
  - assert (ofp_error p = 0) as Hz by lia. unfold get_offsets. rewrite Hz. reflexivity.
  - destruct (ofp_error p =? 3) eqn:E3.
    + assert (ofp_error p = 3) as Hz by lia. unfold get_offsets. rewrite Hz. reflexivity.
    + destruct (C11_wire_partition_results (ofp_error p) ltac:(lia)) as [_ [_ [_ H]]].
      apply H; [reflexivity|lia].
Qed.

(* "acceptable" (the notion the *_ok_clean theorems of C11Extra use) on the wire: code 0 or code 3, nothing else *)
Definition ofp_wire_ok (p : offset_fetch_part) : Prop := ofp_error p = 0 \/ ofp_error p = 3.

Theorem C11_acceptable_wire : forall p, ofp_acceptable p <-> ofp_wire_ok p.
Proof.
  intros p. unfold ofp_acceptable, ofp_wire_ok. destruct (C11_control_codes_exact (ofp_error p)) as [H3 _].
  split; intros [H|H]; [left; exact H|right; apply H3; exact H|left; exact H|right; apply H3; exact H].
Qed.

Lemma ofp_wire_ok_dec p : {ofp_wire_ok p} + {~ ofp_wire_ok p}.
Proof.
  unfold ofp_wire_ok. destruct (Z.eq_dec (ofp_error p) 0); [left; left; assumption|].
  destruct (Z.eq_dec (ofp_error p) 3); [left; right; assumption|]. right. intros [H|H]; contradiction.
Qed.

Lemma wire_ok_healthy ps : (forall q, In q ps -> ofp_wire_ok q) -> healthy get_offsets ps.
Proof.
  intros H q Hq. rewrite C11_get_offsets_wire. destruct (H q Hq) as [Hz|Hz]; rewrite Hz; eexists; reflexivity.
Qed.

(* never data: whatever history of retries, offsets are only handed out right after an answer in which every
   entry has WIRE code 0 or 3 *)
Theorem C11_group_fetch_ok_wire : forall f group req attempt s m s',
  group_fetch_loop f group req attempt s = (Ok m, s') ->
  exists h s1 corr tps,
    send_receive dec_offset_fetch_resp h req s1 = (Ok (corr, tps), s') /\ group_scan tps [] = inl (inl m)
    /\ forall t ps p, In (t, ps) tps -> In p ps -> ofp_error p = 0 \/ ofp_error p = 3.
Proof.
  intros f group req attempt s m s' H.
  destruct (C11_group_fetch_ok_clean f group req attempt s m s' H) as [h [s1 [corr [tps [Hsr [Hscan Hacc]]]]]].
  exists h, s1, corr, tps. repeat split; try assumption.
  intros t ps p Hin Hp. apply C11_acceptable_wire. exact (Hacc t ps p Hin Hp).
Qed.

Theorem C11_fetch_group_offsets_ok_wire : forall group ps s m s',
  fetch_group_offsets group ps s = (Ok m, s') ->
  exists corr otps h s1 rc tps,
    group_fetch_tps (cs (cl s)) ps [] = Some otps /\
    send_receive dec_offset_fetch_resp h
      (enc_offset_fetch_req corr (client_id (cfg (cl s))) group
                            (fetch_version (offset_storage (cfg (cl s)))) otps) s1 = (Ok (rc, tps), s')
    /\ group_scan tps [] = inl (inl m)
    /\ forall t ps' p, In (t, ps') tps -> In p ps' -> ofp_error p = 0 \/ ofp_error p = 3.
Proof.
  intros group ps s m s' H.
  destruct (C11_fetch_group_offsets_ok_clean group ps s m s' H)
    as [corr [otps [h [s1 [rc [tps [Ht [Hsr [Hscan Hacc]]]]]]]]].
  exists corr, otps, h, s1, rc, tps. repeat split; try assumption.
  intros t ps' p Hin Hp. apply C11_acceptable_wire. exact (Hacc t ps' p Hin Hp).
Qed.

Theorem C11_fetch_group_topic_offset_ok_wire : forall group topic s vs s',
  fetch_group_topic_offset group topic s = (Ok vs, s') ->
  exists h req s1 rc tps m,
    send_receive dec_offset_fetch_resp h req s1 = (Ok (rc, tps), s') /\ group_scan tps [] = inl (inl m)
    /\ vs = match assoc_bytes topic m with Some v => v | None => [] end
    /\ forall t ps p, In (t, ps) tps -> In p ps -> ofp_error p = 0 \/ ofp_error p = 3.
Proof.
  intros group topic s vs s' H.
  destruct (C11_fetch_group_topic_offset_ok_clean group topic s vs s' H)
    as [h [req [s1 [rc [tps [m [Hsr [Hscan [Hvs Hacc]]]]]]]]].
  exists h, req, s1, rc, tps, m. repeat split; try assumption.
  intros t ps p Hin Hp. apply C11_acceptable_wire. exact (Hacc t ps p Hin Hp).
Qed.

(* the first entry of an OffsetFetchResponse, in listing order, whose wire code is neither 0 nor 3 *)
Definition group_first_bad (tps : list (bytes * list offset_fetch_part)) (t : bytes) (p : offset_fetch_part) : Prop :=
  exists tpre tpost pre post,
    tps = tpre ++ (t, pre ++ p :: post) :: tpost
    /\ (forall t' ps' q, In (t', ps') tpre -> In q ps' -> ofp_wire_ok q)
    /\ (forall q, In q pre -> ofp_wire_ok q) /\ ~ ofp_wire_ok p.

Lemma group_parts_split (ps : list offset_fetch_part) :
  (forall q, In q ps -> ofp_wire_ok q) \/
  exists pre p post, ps = pre ++ p :: post /\ (forall q, In q pre -> ofp_wire_ok q) /\ ~ ofp_wire_ok p.
Proof.
  induction ps as [|p ps IH]; [left; intros q []|].
  destruct (ofp_wire_ok_dec p) as [Hp|Hp].
  - destruct IH as [Hz|[pre [p' [post [-> [Hpre Hb]]]]]].
    + left. intros q [<-|Hq]; [exact Hp|exact (Hz q Hq)].
    + right. exists (p :: pre), p', post. split; [reflexivity|]. split; [|exact Hb].
      intros q [<-|Hq]; [exact Hp|exact (Hpre q Hq)].
  - right. exists [], p, ps. split; [reflexivity|]. split; [intros q []|exact Hp].
Qed.

Theorem C11_group_first_bad_total : forall tps,
  (forall t ps q, In (t, ps) tps -> In q ps -> ofp_wire_ok q) \/ exists t p, group_first_bad tps t p.
Proof.
  induction tps as [|[t ps] tps IH]; [left; intros t ps q []|].
  destruct (group_parts_split ps) as [Hz|[pre [p [post [-> [Hpre Hb]]]]]].
  - destruct IH as [Hall|[t' [p' [tpre [tpost [pre [post [-> [Htpre [Hpre Hb]]]]]]]]]].
    + left. intros t0 ps0 q [Heq|Hin] Hq; [inversion Heq; subst; exact (Hz q Hq)|exact (Hall t0 ps0 q Hin Hq)].
    + right. exists t', p', ((t, ps) :: tpre), tpost, pre, post. split; [reflexivity|].
      split; [|split; assumption].
      intros t0 ps0 q [Heq|Hin] Hq; [inversion Heq; subst; exact (Hz q Hq)|exact (Htpre t0 ps0 q Hin Hq)].
  - right. exists t, p, [], tps, pre, post. split; [reflexivity|]. split; [intros t0 ps0 q []|split; assumption].
Qed.

(* the scan of the answer on the wire: the first entry whose code is neither 0 nor 3 decides, whatever follows;
   14 and 16 ask for a retry, EVERY other code (mapped or not) is fatal with its documented kind *)
Theorem C11_group_scan_wire : forall tps m t p, group_first_bad tps t p ->
  group_scan tps m =
    if ofp_error p =? 14 then inl (inr (14, false))
    else if ofp_error p =? 16 then inl (inr (16, true))
    else inr (kind_of (ofp_error p)).
Proof.
  intros tps m t p [tpre [tpost [pre [post [Htps [Htpre [Hpre Hb]]]]]]].
  assert (Hh1 : forall t' ps', In (t', ps') tpre -> healthy get_offsets ps').
  { intros t' ps' Hin. apply wire_ok_healthy. intros q Hq. exact (Htpre t' ps' q Hin Hq). }
  pose proof (wire_ok_healthy pre Hpre) as Hh2.
  destruct (C11_group_scan_retry tps m tpre t (pre ++ p :: post) tpost pre p post Htps Hh1 eq_refl Hh2) as [H14 H16].
  destruct (ofp_error p =? 14) eqn:E14; [apply H14; lia|].
  destruct (ofp_error p =? 16) eqn:E16; [apply H16; lia|].
  unfold ofp_wire_ok in Hb.
  assert (He : ofp_error p <> 0) by (intros X; apply Hb; left; exact X).
  assert (He3 : ofp_error p <> 3) by (intros X; apply Hb; right; exact X).
  apply (C11_group_scan_fatal tps m tpre t (pre ++ p :: post) tpost pre p post (kind_of (ofp_error p)) Htps Hh1 eq_refl Hh2).
  - exact (C11_wire_kind _ He).
  - replace KC_UnknownTopicOrPartition with 3 by reflexivity. unfold kind_of.
    destruct ((1 <=? ofp_error p) && (ofp_error p <=? 35)); lia.
  - replace KC_GroupLoadInProgress with 14 by reflexivity. unfold kind_of.
    destruct ((1 <=? ofp_error p) && (ofp_error p <=? 35)); lia.
  - replace KC_NotCoordinatorForGroup with 16 by reflexivity. unfold kind_of.
    destruct ((1 <=? ofp_error p) && (ofp_error p <=? 35)); lia.
Qed.

Lemma group_scan_all_ok tps : (forall t ps q, In (t, ps) tps -> In q ps -> ofp_wire_ok q) ->
  forall m, exists m', group_scan tps m = inl (inl m').
Proof.
  induction tps as [|[t ps] tps IH]; intros Hall m; [exists m; reflexivity|].
  cbn [group_scan].
  destruct (group_scan_parts_healthy ps (wire_ok_healthy ps (fun q Hq => Hall t ps q (or_introl eq_refl) Hq)) [])
    as [vs Hvs].
  rewrite Hvs. apply IH. intros t0 ps0 q Hin Hq. exact (Hall t0 ps0 q (or_intror Hin) Hq).
Qed.

(* "retryable coordinator codes are retried" and nothing else is: one attempt of the group offset fetch either
   ends the call in the state right after this one exchange - with the offsets (every wire code 0 or 3), or
   with the documented kind of the first other wire code -, or that first wire code was 14 or 16 *)
Theorem C11_group_fetch_resend_only_if : forall f group req attempt s h s1 corr tps s2 r s',
  get_group_coordinator group s = (Ok h, s1) ->
  send_receive dec_offset_fetch_resp h req s1 = (Ok (corr, tps), s2) ->
  group_fetch_loop (S f) group req attempt s = (r, s') ->
  (exists m, (forall t ps q, In (t, ps) tps -> In q ps -> ofp_error q = 0 \/ ofp_error q = 3)
             /\ group_scan tps [] = inl (inl m) /\ r = Ok m /\ s' = s2)
  \/ (exists t p, group_first_bad tps t p /\ ofp_error p <> 14 /\ ofp_error p <> 16
                  /\ r = Err (EKafka (kind_of (ofp_error p))) /\ s' = s2)
  \/ (exists t p, group_first_bad tps t p /\ (ofp_error p = 14 \/ ofp_error p = 16)).
Proof.
  intros f group req attempt s h s1 corr tps s2 r s' Hg Hsr H.
  cbn [group_fetch_loop] in H. unfold mbind at 1 in H. rewrite Hg in H. unfold mbind at 1 in H. rewrite Hsr in H.
  destruct (C11_group_first_bad_total tps) as [Hall|[t [p Hb]]].
  - left. destruct (group_scan_all_ok tps Hall []) as [m Hm]. rewrite Hm in H.
    unfold ret in H. inversion H; subst. exists m. repeat split; try assumption; reflexivity.
  - right. pose proof (C11_group_scan_wire tps [] t p Hb) as Hscan.
    destruct (ofp_error p =? 14) eqn:E14; [right; exists t, p; split; [exact Hb|left; lia]|].
    destruct (ofp_error p =? 16) eqn:E16; [right; exists t, p; split; [exact Hb|right; lia]|].
    left. rewrite Hscan in H. unfold fail in H. inversion H; subst.
    exists t, p. repeat split; try assumption; lia.
Qed.

(* group coordinator lookup on the wire: one answer either yields the coordinator (code 0), or fails the lookup
   at once with the documented kind of its code, or the code was 15 - the only one that is retried *)
Theorem C11_coordinator_wire : forall f group req attempt s r s1 x s',
  group_lookup_attempt req s = (Ok r, s1) ->
  group_lookup_loop (S f) group req attempt s = (x, s') ->
  (gc_error r = 0 /\ x = Ok (fst (set_group_coordinator (cs (cl s1)) group r)))
  \/ (gc_error r <> 0 /\ gc_error r <> 15 /\ x = Err (EKafka (kind_of (gc_error r))) /\ s' = s1)
  \/ (gc_error r = 15 /\
      (attempt < retry_max_attempts (cfg (cl s1)) -> (x, s') = group_lookup_loop f group req (attempt + 1) s1) /\
      (retry_max_attempts (cfg (cl s1)) <= attempt -> x = Err (EKafka 15) /\ s' = s1)).
Proof.
  intros f group req attempt s r s1 x s' Ha H.
  cbn [group_lookup_loop] in H. unfold mbind at 1 in H. rewrite Ha in H.
  destruct (Z.eq_dec (gc_error r) 0) as [Hz|Hne].
  - left. split; [exact Hz|]. rewrite Hz in H. rewrite from_protocol_zero in H.
    unfold mbind at 1 in H. unfold get_client at 1 in H.
    destruct (set_group_coordinator (cs (cl s1)) group r) as [h0 cs0] eqn:Hs.
    unfold mbind, set_cs, get_client, set_client, ret in H. inversion H; subst. reflexivity.
  - right. rewrite (C11_wire_kind _ Hne) in H.
    replace KC_GroupCoordinatorNotAvailable with 15 in H by reflexivity.
    destruct (Z.eq_dec (gc_error r) 15) as [H15|Hn15].
    + right. split; [exact H15|]. rewrite H15 in H. change (kind_of 15) with 15 in H. cbn [Z.eqb Pos.eqb] in H.
      unfold mbind at 1 in H. unfold get_client at 1 in H.
      split; intros Hlt.
      * destruct (attempt <? retry_max_attempts (cfg (cl s1))) eqn:E; [|lia]. symmetry. exact H.
      * destruct (attempt <? retry_max_attempts (cfg (cl s1))) eqn:E; [lia|].
        unfold fail in H. inversion H; subst. split; reflexivity.
    + left. destruct (kind_of (gc_error r) =? 15) eqn:E.
      * exfalso. unfold kind_of in E. destruct ((1 <=? gc_error r) && (gc_error r <=? 35)); lia.
      * unfold fail in H. inversion H; subst. repeat split; assumption.
Qed.

(* ---- non-vacuity of Part A: the seed's codes through the public calls (a healthy answer is waiting behind
   each refusal; observed: result and number of script items left unread) ---------------------------------- *)
Definition xc_obs {A} (x : res A * st) := (fst x, length (script (snd x))).
Definition xc_coord (e : Z) : bytes :=
  print_coordinator {| wc_corr := 1; wc_error := e; wc_id := 2; wc_host := Some [x62]; wc_port := 9092 |}.

Example C11_wire_calls_ex :
  (* group offset fetch: 259 / 515 / -253 / 32515 (low byte 3) are NOT "no offset" *)
  map (fun e => fst (fetch_group_offsets [x67] [ ([x74], 0); ([x74], 1) ] (xd_st [] (ex_script (xd_fetch_resp e)))))
      [259; 515; -253; 32515]
  = [Err (EKafka (-1)); Err (EKafka (-1)); Err (EKafka (-1)); Err (EKafka (-1))]
  (* 270 / 272 / -240 (low byte 14 / 16) are not re-sent: the healthy answer behind (3 items) stays unread *)
  /\ map (fun e => xc_obs (fetch_group_offsets [x67] [ ([x74], 0); ([x74], 1) ]
                            (xd_st [] (ex_script (xd_fetch_resp e) ++ xd_again (xd_fetch_resp 0)))))
         [270; 272; -240]
     = [(Err (EKafka (-1)), 3%nat); (Err (EKafka (-1)), 3%nat); (Err (EKafka (-1)), 3%nat)]
  /\ map (fun e => xc_obs (commit_offsets [x67] xd_os
                            (xd_st [] (ex_script (xd_commit_resp e) ++ xd_again (xd_commit_resp 0)))))
         [270; 272; -240]
     = [(Err (EKafka (-1)), 3%nat); (Err (EKafka (-1)), 3%nat); (Err (EKafka (-1)), 3%nat)]
  (* coordinator lookup: 271 (low byte 15) is not repeated *)
  /\ xc_obs (get_group_coordinator [x68] (xd_st [[x61]] (xd_again (xc_coord 271) ++ xd_again (xc_coord 0))))
     = (Err (EKafka (-1)), 3%nat)
  (* controls: the genuine 3, 14 and 15 do take the documented exceptions *)
  /\ fst (fetch_group_offsets [x67] [ ([x74], 0); ([x74], 1) ] (xd_st [] (ex_script (xd_fetch_resp 3))))
     = Ok [ ([x74], [ (0, 5); (1, -1) ]) ]
  /\ xc_obs (commit_offsets [x67] xd_os (xd_st [] (ex_script (xd_commit_resp 14) ++ xd_again (xd_commit_resp 0))))
     = (Ok tt, 0%nat)
  /\ xc_obs (get_group_coordinator [x68] (xd_st [[x61]] (xd_again (xc_coord 15) ++ xd_again (xc_coord 0))))
     = (Ok [x62], 0%nat).
Proof. vm_compute. repeat split. Qed.

(* the hypotheses of C11_group_fetch_resend_only_if / C11_group_scan_wire on a decoded answer: t:0 healthy, t:1
   "nothing committed" (3), t:2 carries 270, t:3 the retryable 14 - the first bad entry is t:2, the verdict fatal *)
Definition xc_part (p e : Z) : offset_fetch_part :=
  {| ofp_partition := p; ofp_offset := 5; ofp_metadata := []; ofp_error := e |}.
Example C11_group_first_bad_ex :
  group_first_bad [ ([x74], [xc_part 0 0; xc_part 1 3; xc_part 2 270; xc_part 3 14]) ] [x74] (xc_part 2 270)
  /\ group_scan [ ([x74], [xc_part 0 0; xc_part 1 3; xc_part 2 270; xc_part 3 14]) ] [] = inr (-1)
  /\ group_scan [ ([x74], [xc_part 0 0; xc_part 1 3; xc_part 2 16; xc_part 3 12]) ] [] = inl (inr (16, true))
  /\ group_scan [ ([x74], [xc_part 0 0; xc_part 1 3]) ] [] = inl (inl [ ([x74], [ (0, 5); (1, -1) ]) ]).
Proof.
  split; [|vm_compute; repeat split].
  exists [], [], [xc_part 0 0; xc_part 1 3], [xc_part 3 14]. split; [reflexivity|]. split; [intros t' ps' q []|].
  split.
  - intros q [<-|[<-|[]]]; [left|right]; reflexivity.
  - intros [H|H]; discriminate H.
Qed.

(* the hypotheses of C11_coordinator_wire on a scripted run *)
Example C11_coordinator_wire_ex :
  let s := xd_st [[x61]] (xd_again (xc_coord 271) ++ xd_again (xc_coord 0)) in
  exists r s1, group_lookup_attempt (enc_group_coordinator_req 1 [] [x68]) s = (Ok r, s1) /\ gc_error r = 271
               /\ fst (group_lookup_loop 5 [x68] (enc_group_coordinator_req 1 [] [x68]) 1 s) = Err (EKafka (kind_of 271)).
Proof. cbv zeta. do 2 eexists. split; [vm_compute; reflexivity|]. split; vm_compute; reflexivity. Qed.

(* ================================================================================================ *)
(* Part B: offset lookups over several brokers - every outcome, and what the call leaves behind     *)
(* ================================================================================================ *)

(* converse of C11_merge_fails: a merge only fails with the first failing partition of the answer, never panics *)
Lemma collect_err_inv {P V} (conv : P -> V + Z) (pid : P -> Z) ps : forall acc pp code,
  collect conv pid ps acc = inr (pp, code) ->
  exists ppre p ppost, ps = ppre ++ p :: ppost /\ healthy conv ppre /\ conv p = inr code /\ pp = pid p.
Proof.
  induction ps as [|q ps IH]; intros acc pp code H; [discriminate|].
  cbn [collect] in H. destruct (conv q) as [v|c] eqn:E.
  - destruct (IH _ _ _ H) as [ppre [p [ppost [-> [Hh [Hp Hpp]]]]]].
    exists (q :: ppre), p, ppost. split; [reflexivity|]. split; [|split; assumption].
    intros q' [<-|Hq']; [exists v; exact E|exact (Hh q' Hq')].
  - inversion H; subst. exists [], q, ps. split; [reflexivity|]. split; [intros q' []|]. split; [exact E|reflexivity].
Qed.

Theorem C11_merge_fails_only_if : forall {P V} (conv : P -> V + Z) (pid : P -> Z) tps m,
  match merge_topics conv pid tps m with
  | Ok _ => all_conv conv tps
  | Err e => exists tpre t ps tpost ppre p ppost c,
      tps = tpre ++ (t, ps) :: tpost /\ (forall t' ps', In (t', ps') tpre -> healthy conv ps')
      /\ ps = ppre ++ p :: ppost /\ healthy conv ppre /\ conv p = inr c /\ e = ETopicPartition t (pid p) c
  | Panic _ => False
  end.
Proof.
  intros P V conv pid tps. induction tps as [|[t ps] tps IH]; intros m.
  - cbn [merge_topics]. intros t ps p [].
  - cbn [merge_topics]. destruct (collect conv pid ps []) as [vs|[pp code]] eqn:E.
    + specialize (IH (res_push m t vs)). pose proof (collect_ok_healthy conv pid _ _ _ E) as Hh.
      destruct (merge_topics conv pid tps (res_push m t vs)) as [m1|e|w].
      * intros t0 ps0 p0 [Heq|Hin] Hp; [inversion Heq; subst; exact (Hh p0 Hp)|exact (IH t0 ps0 p0 Hin Hp)].
      * destruct IH as [tpre [t1 [ps1 [tpost [ppre [p [ppost [c [-> [Htpre [Hps [Hppre [Hp He]]]]]]]]]]]]].
        exists ((t, ps) :: tpre), t1, ps1, tpost, ppre, p, ppost, c. split; [reflexivity|].
        split; [|repeat split; assumption].
        intros t' ps' [Heq|Hin]; [inversion Heq; subst; exact Hh|exact (Htpre t' ps' Hin)].
      * exact IH.
    + destruct (collect_err_inv conv pid ps [] pp code E) as [ppre [p [ppost [Hps [Hh [Hp Hpp]]]]]].
      exists [], t, ps, tps, ppre, p, ppost, code. split; [reflexivity|]. split; [intros t' ps' []|].
      repeat split; try assumption. rewrite Hpp. reflexivity.
Qed.

(* how an exchange with ONE broker that does not end in "answer merged" ends the call *)
Definition exchange_failure {P V} (conv : P -> V + Z) (pid : P -> Z)
           (x : res (Z * list (bytes * list P))) (r : res (list (bytes * list V))) : Prop :=
  match x with
  | Ok (_, rtps) =>      (* decoded answer with a refused partition: the first one, named *)
      exists tpre t ps tpost ppre p ppost c,
        rtps = tpre ++ (t, ps) :: tpost /\ (forall t' ps', In (t', ps') tpre -> healthy conv ps')
        /\ ps = ppre ++ p :: ppost /\ healthy conv ppre /\ conv p = inr c
        /\ r = Err (ETopicPartition t (pid p) c)
  | Err e => r = Err e   (* connect / write / read / decode failure *)
  | Panic w => r = Panic w
  end.

(* EVERY run of offsets_exchange: healthy, complete exchanges with a prefix of the brokers, in order; then either
   that was all of them and the call succeeds, or the exchange with the next broker fails as described and the call
   ends IN THE STATE RIGHT AFTER THAT EXCHANGE: no later broker was contacted, nothing is left in flight *)
Theorem C11_offsets_exchange_total :
  forall {P V} enc (d : dec (Z * list (bytes * list P))) (conv : P -> V + Z) (pid : P -> Z) reqs m s r s',
  offsets_exchange enc d conv pid reqs m s = (r, s') ->
  exists pre resps s1,
    exchanges enc d pre s resps s1 /\ all_conv conv (concat resps) /\
    ((pre = reqs /\ s' = s1 /\ exists m', r = Ok m')
     \/ exists h tps post x, reqs = pre ++ (h, tps) :: post /\ send_receive d h (enc tps) s1 = (x, s')
                             /\ exchange_failure conv pid x r).
Proof.
  intros P V enc d conv pid reqs. induction reqs as [|[h tps] reqs IH]; intros m s r s' H.
  - cbn [offsets_exchange] in H. unfold ret in H. inversion H; subst.
    exists [], [], s'. split; [apply exch_nil|]. split; [intros t ps p []|]. left. repeat split. exists m. reflexivity.
  - cbn [offsets_exchange] in H. unfold mbind at 1 in H.
    destruct (send_receive d h (enc tps) s) as [[[c rtps]|e|w] s1] eqn:Hsr.
    + unfold mbind at 1 in H. unfold lift at 1 in H.
      pose proof (C11_merge_fails_only_if conv pid rtps m) as Hm.
      destruct (merge_topics conv pid rtps m) as [m1|e|w] eqn:Em.
      * destruct (IH _ _ _ _ H) as [pre [resps [s2 [Hex [Hall Hcase]]]]].
        exists ((h, tps) :: pre), (rtps :: resps), s2. split; [eapply exch_cons; eassumption|].
        split.
        { cbn [concat]. intros t ps p Hin Hp. apply in_app_or in Hin.
          destruct Hin as [Hin|Hin]; [exact (Hm t ps p Hin Hp)|exact (Hall t ps p Hin Hp)]. }
        destruct Hcase as [[-> [-> Hok]]|[h' [tps' [post [x [-> [Hsr' Hf]]]]]]].
        { left. repeat split. exact Hok. }
        { right. exists h', tps', post, x. repeat split; assumption. }
      * inversion H; subst. exists [], [], s. split; [apply exch_nil|]. split; [intros t ps p []|].
        right. exists h, tps, reqs, (Ok (c, rtps)). split; [reflexivity|]. split; [exact Hsr|].
        cbn [exchange_failure].
        destruct Hm as [tpre [t [ps [tpost [ppre [p [ppost [c0 [Hr [Htpre [Hps [Hppre [Hp He]]]]]]]]]]]]].
        exists tpre, t, ps, tpost, ppre, p, ppost, c0. rewrite He. repeat split; assumption.
      * destruct Hm.
    + inversion H; subst. exists [], [], s. split; [apply exch_nil|]. split; [intros t ps p []|].
      right. exists h, tps, reqs, (Err e). split; [reflexivity|]. split; [exact Hsr|]. reflexivity.
    + inversion H; subst. exists [], [], s. split; [apply exch_nil|]. split; [intros t ps p []|].
      right. exists h, tps, reqs, (Panic w). split; [reflexivity|]. split; [exact Hsr|]. reflexivity.
Qed.

(* forward direction for the failures C11_offsets_exchange_fails does not speak about (every `?` of the loop):
   the exchange with some broker fails below the level of error codes => the call fails with that very error in
   that very state, whatever brokers are still waiting in `post` *)
Theorem C11_offsets_exchange_io_error :
  forall {P V} enc (d : dec (Z * list (bytes * list P))) (conv : P -> V + Z) (pid : P -> Z)
         pre h tps post m s resps s1 e s2,
  exchanges enc d pre s resps s1 -> all_conv conv (concat resps) ->
  send_receive d h (enc tps) s1 = (Err e, s2) ->
  offsets_exchange enc d conv pid (pre ++ (h, tps) :: post) m s = (Err e, s2).
Proof.
  intros P V enc d conv pid pre h tps post m s resps s1 e s2 Hex Hall Hsr.
  rewrite offsets_exchange_app.
  destruct (C10_offsets_exchange_all enc d conv pid pre s resps s1 Hex Hall m) as [m1 [Hm1 _]].
  rewrite Hm1. cbn [offsets_exchange]. unfold mbind at 1. rewrite Hsr. reflexivity.
Qed.

(* KafkaClient::list_offsets, every outcome *)
Theorem C11_list_offsets_total : forall topics time s corr s0 reqs s1 r s',
  next_corr s = (Ok corr, s0) -> ordered (offset_reqs (cs (cl s0)) topics time) s0 = (Ok reqs, s1) ->
  list_offsets topics time s = (r, s') ->
  let enc := enc_list_offsets_req corr (client_id (cfg (cl s0))) in
  exists pre resps s2,
    exchanges enc dec_list_offsets_resp pre s1 resps s2 /\
    (forall t ps p, In (t, ps) (concat resps) -> In p ps -> lop_error p = 0) /\
    ((pre = reqs /\ s' = s2 /\ exists m', r = Ok m')
     \/ exists h tps post x, reqs = pre ++ (h, tps) :: post
                             /\ send_receive dec_list_offsets_resp h (enc tps) s2 = (x, s')
                             /\ exchange_failure lop_to_offset lop_partition x r).
Proof.
  intros topics time s corr s0 reqs s1 r s' Hc Ho H enc.
  unfold list_offsets in H. unfold mbind at 1 in H. rewrite Hc in H.
  unfold mbind at 1 in H. unfold get_client at 1 in H. unfold mbind at 1 in H. rewrite Ho in H.
  destruct (C11_offsets_exchange_total _ _ _ _ _ _ _ _ _ H) as [pre [resps [s2 [Hex [Hall Hcase]]]]].
  exists pre, resps, s2. split; [exact Hex|]. split; [|exact Hcase].
  intros t ps p Hin Hp. destruct (Hall t ps p Hin Hp) as [v Hv].
  unfold lop_to_offset in Hv. destruct (Z.eq_dec (lop_error p) 0) as [Hz|Hne]; [exact Hz|].
  rewrite (C11_wire_kind _ Hne) in Hv. discriminate.
Qed.

(* KafkaClient::fetch_offsets, every outcome *)
Theorem C11_fetch_offsets_total : forall topics time s corr s0 reqs s1 r s',
  next_corr s = (Ok corr, s0) -> ordered (offset_reqs (cs (cl s0)) topics time) s0 = (Ok reqs, s1) ->
  fetch_offsets topics time s = (r, s') ->
  let enc := enc_offset_req corr (client_id (cfg (cl s0))) in
  exists pre resps s2,
    exchanges enc dec_offset_resp pre s1 resps s2 /\
    (forall t ps p, In (t, ps) (concat resps) -> In p ps -> por_error p = 0) /\
    ((pre = reqs /\ s' = s2 /\ exists m', r = Ok m')
     \/ exists h tps post x, reqs = pre ++ (h, tps) :: post
                             /\ send_receive dec_offset_resp h (enc tps) s2 = (x, s')
                             /\ exchange_failure to_offset por_partition x r).
Proof.
  intros topics time s corr s0 reqs s1 r s' Hc Ho H enc.
  unfold fetch_offsets in H. unfold mbind at 1 in H. rewrite Hc in H.
  unfold mbind at 1 in H. unfold get_client at 1 in H. unfold mbind at 1 in H. rewrite Ho in H.
  destruct (C11_offsets_exchange_total _ _ _ _ _ _ _ _ _ H) as [pre [resps [s2 [Hex [Hall Hcase]]]]].
  exists pre, resps, s2. split; [exact Hex|]. split; [|exact Hcase].
  intros t ps p Hin Hp. destruct (Hall t ps p Hin Hp) as [v Hv].
  unfold to_offset in Hv. destruct (Z.eq_dec (por_error p) 0) as [Hz|Hne]; [exact Hz|].
  rewrite (C11_wire_kind _ Hne) in Hv. discriminate.
Qed.

(* never data or success (the statement C11Extra has for fetch_offsets only): list_offsets returns Ok only after
   one complete exchange with EVERY broker of the call, in order, none of whose answers carries a code *)
Theorem C11_list_offsets_ok_clean : forall topics time s m s',
  list_offsets topics time s = (Ok m, s') ->
  exists corr s0 reqs s1 resps,
    next_corr s = (Ok corr, s0) /\ ordered (offset_reqs (cs (cl s0)) topics time) s0 = (Ok reqs, s1) /\
    exchanges (enc_list_offsets_req corr (client_id (cfg (cl s0)))) dec_list_offsets_resp reqs s1 resps s' /\
    forall t ps p, In (t, ps) (concat resps) -> In p ps -> lop_error p = 0.
Proof.
  intros topics time s m s' H. pose proof H as H0. unfold list_offsets in H0. unfold mbind at 1 in H0.
  destruct (next_corr s) as [[corr|e|w] s0] eqn:Hc; try discriminate.
  unfold mbind at 1 in H0. unfold get_client at 1 in H0. unfold mbind at 1 in H0.
  destruct (ordered (offset_reqs (cs (cl s0)) topics time) s0) as [[reqs|e|w] s1] eqn:Ho; try discriminate.
  destruct (C11_list_offsets_total topics time s corr s0 reqs s1 (Ok m) s' Hc Ho H)
    as [pre [resps [s2 [Hex [Hz Hcase]]]]].
  exists corr, s0, reqs, s1, resps. split; [reflexivity|]. split; [exact Ho|].
  destruct Hcase as [[-> [-> _]]|[h [tps [post [x [_ [_ Hf]]]]]]]; [split; assumption|].
  exfalso. destruct x as [[c rtps]|e|w]; cbn [exchange_failure] in Hf.
  - destruct Hf as [? [? [? [? [? [? [? [? [_ [_ [_ [_ [_ Hr]]]]]]]]]]]]]. discriminate.
  - discriminate.
  - discriminate.
Qed.

(* ---- non-vacuity of Part B: the cluster of C11Extra (topic "t": partitions 0, 2 on broker "a", 1, 3 on "b") ---- *)
Definition xc_wl (p e o : Z) : w_list_offsets_part := {| wl_partition := p; wl_error := e; wl_timestamp := 7; wl_offset := o |}.
Definition xc_lresp (ps : list w_list_offsets_part) : bytes :=
  print_list_offsets {| wr_corr := 1; wr_topics := Some [ {| wt_name := Some [x74]; wt_partitions := Some ps |} ] |}.
Definition xc_st (sc : list ev_out) : st :=
  {| script := sc; trace := []; anyq := []; hostq := []; fetchq := []; entryq := []; cl := xa_client; env := ex_codecs |}.
(* the hosts requests were written to / answers were read from, oldest first *)
Definition xc_io (s : st) : list (bool * bytes) :=
  rev (flat_map (fun o => match o with EWrite h _ => [(true, h)] | ERead h _ => [(false, h)] | _ => [] end) (trace s)).

(* the seed's scenario, TWO calls on one client: in call 1 the broker asked first refuses t:0 - the call fails and the
   other broker has not been sent anything (no answer can be left unread); call 2 is answered healthy by "a" and
   refused by "b" for t:1 - it fails naming t:1, it does not return offsets *)
Example C11_list_offsets_two_calls_ex :
  let s := xc_st (ex_script (xc_lresp [xc_wl 0 6 (-1); xc_wl 2 0 102])
                  ++ xd_again (xc_lresp [xc_wl 0 0 200; xc_wl 2 0 202])
                  ++ ex_script (xc_lresp [xc_wl 1 6 (-1); xc_wl 3 0 203])) in
  let x1 := list_offsets [[x74]] (-1) s in
  let x2 := list_offsets [[x74]] (-1) (snd x1) in
  fst x1 = Err (ETopicPartition [x74] 0 6)
  /\ xc_io (snd x1) = [ (true, [x61]); (false, [x61]); (false, [x61]) ]
  /\ conns (cl (snd x1)) = [[x61]]
  /\ fst x2 = Err (ETopicPartition [x74] 1 6)
  /\ xc_io (snd x2) = [ (true, [x61]); (false, [x61]); (false, [x61]);
                        (true, [x61]); (false, [x61]); (false, [x61]); (true, [x62]); (false, [x62]); (false, [x62]) ]
  /\ length (script (snd x2)) = 0%nat
  (* all healthy: every broker asked and read, in turn *)
  /\ fst (list_offsets [[x74]] (-1) (xc_st (ex_script (xc_lresp [xc_wl 0 0 100; xc_wl 2 0 102])
                                            ++ ex_script (xc_lresp [xc_wl 1 0 101; xc_wl 3 0 103]))))
     = Ok [ ([x74], [ (0, 100, 7); (2, 102, 7); (1, 101, 7); (3, 103, 7) ]) ].
Proof. vm_compute. repeat split. Qed.

(* the hypotheses of C11_offsets_exchange_io_error / the `Err` case of C11_list_offsets_total: broker "a" answers
   healthy, the read from broker "b" fails; a third exchange that would have been possible is not attempted *)
Example C11_list_offsets_io_error_hyps :
  let s := xc_st (ex_script (xc_lresp [xc_wl 0 0 100; xc_wl 2 0 102]) ++ [OConn true; OWrote 1000; OReadFail IoTimedOut]
                  ++ ex_script (xc_lresp [xc_wl 1 0 101; xc_wl 3 0 103])) in
  exists s0 s2 s3 tps1 tps2 r1,
    next_corr s = (Ok 1, s0)
    /\ ordered (offset_reqs (cs (cl s0)) [[x74]] (-1)) s0 = (Ok ([ ([x61], tps1) ] ++ ([x62], tps2) :: []), s0)
    /\ exchanges (enc_list_offsets_req 1 (client_id (cfg (cl s0)))) dec_list_offsets_resp [ ([x61], tps1) ] s0 [r1] s2
    /\ all_conv lop_to_offset (concat [r1])
    /\ send_receive dec_list_offsets_resp [x62] (enc_list_offsets_req 1 (client_id (cfg (cl s0))) tps2) s2
       = (Err (EIo IoTimedOut), s3)
    /\ list_offsets [[x74]] (-1) s = (Err (EIo IoTimedOut), s3)
    /\ length (script s3) = 4%nat.
Proof.
  cbv zeta. do 6 eexists.
  split; [vm_compute; reflexivity|].
  split; [vm_compute; reflexivity|].
  split; [eapply exch_cons; [vm_compute; reflexivity|apply exch_nil]|].
  split; [|split; [vm_compute; reflexivity|split; vm_compute; reflexivity]].
  intros t ps p Hin Hp. cbn [concat app] in Hin.
  repeat (destruct Hin as [Hin|Hin]; [inversion Hin; subst; clear Hin;
            repeat (destruct Hp as [Hp|Hp]; [subst p; eexists; reflexivity|]); destruct Hp|]).
  destruct Hin.
Qed.

Check C11_wire_kind.
Check C11_wire_kind_only.
Check C11_control_codes_exact.
Check C11_wire_partition_results.
Check C11_get_offsets_wire.
Check C11_acceptable_wire.
Check C11_group_fetch_ok_wire.
Check C11_fetch_group_offsets_ok_wire.
Check C11_fetch_group_topic_offset_ok_wire.
Check C11_group_first_bad_total.
Check C11_group_scan_wire.
Check C11_group_fetch_resend_only_if.
Check C11_coordinator_wire.
Check @C11_merge_fails_only_if.
Check @C11_offsets_exchange_total.
Check @C11_offsets_exchange_io_error.
Check C11_list_offsets_total.
Check C11_fetch_offsets_total.
Check C11_list_offsets_ok_clean.

Print Assumptions C11_wire_kind.
Print Assumptions C11_wire_kind_only.
Print Assumptions C11_control_codes_exact.
Print Assumptions C11_wire_partition_results.
Print Assumptions C11_get_offsets_wire.
Print Assumptions C11_acceptable_wire.
Print Assumptions C11_group_fetch_ok_wire.
Print Assumptions C11_fetch_group_offsets_ok_wire.
Print Assumptions C11_fetch_group_topic_offset_ok_wire.
Print Assumptions C11_group_first_bad_total.
Print Assumptions C11_group_scan_wire.
Print Assumptions C11_group_fetch_resend_only_if.
Print Assumptions C11_coordinator_wire.
Print Assumptions C11_merge_fails_only_if.
Print Assumptions C11_offsets_exchange_total.
Print Assumptions C11_offsets_exchange_io_error.
Print Assumptions C11_list_offsets_total.
Print Assumptions C11_fetch_offsets_total.
Print Assumptions C11_list_offsets_ok_clean.
