(* C08, additional theorems (mutation adequacy).
   A. load_consumed_offsets over answers with SEVERAL partitions / topics: every stored offset is
      loaded, whatever stands before it in the answer (an entry "-1 = nothing stored" is skipped,
      it does not end the loading); lifted to the fetch positions of the re-created consumer.
   B. the scan of an offset-commit response: success iff EVERY partition answer carries code 0, the
      first non-zero code decides; lifted to commit_loop and commit_consumed: a commit is reported
      successful (and the dirty flags are cleared) only if the coordinator accepted every entry of the
      request that was built with the API version of the configured storage.
   C. a history invariant: over any sequence of marks and successful commits the dirty flag of a
      partition says exactly "the mark moved since the last successful commit". *)
From KV Require Import Base.Prelude Gen.ErrorCodes Gen.Consts Model.Codecs Model.Requests Model.Responses
                       Model.ClientState Model.Net Model.Client Model.Consumer.
From KV Require Import Proofs.BytesFacts Proofs.C07Facts Proofs.C19Facts Proofs.C08Facts.
From Coq Require Import ZifyBool Permutation.
Ltac Zify.zify_post_hook ::= Z.div_mod_to_equations.

(* ================================================================================== *)
(* A. loading the stored offsets of several partitions                                *)
(* ================================================================================== *)

(* what one entry (partition, stored offset) of the coordinator's answer does to the map *)
Definition load_step (r : Z) (m : list (tpkey * (Z * bool))) (po : Z * Z) : list (tpkey * (Z * bool)) :=
  if snd po =? -1 then m else tk_set (r, fst po) (snd po - 1, false) m.

(* consumed_parts is the fold of load_step over the WHOLE answer *)
Theorem C08_load_parts_all : forall dbg r pos m,
  Forall (fun po => i64_min < snd po <= i64_max) pos ->
  consumed_parts dbg r pos m = Ok (fold_left (load_step r) pos m).
Proof.
  intros dbg r pos. induction pos as [|[p c] rest IH]; intros m H; [reflexivity|].
  inversion H as [|x l Hc Hrest]; subst. cbn [snd] in Hc.
  cbn [consumed_parts fold_left]. unfold load_step at 2. cbn [fst snd].
  destruct (c =? -1) eqn:E; [apply IH; exact Hrest|].
  rewrite i64_op_in by lia. cbn [bind]. apply IH. exact Hrest.
Qed.

Lemma nodup_fst_inj {A B} (l : list (A * B)) a b b' :
  NoDup (map fst l) -> In (a, b) l -> In (a, b') l -> b = b'.
Proof.
  induction l as [|[a0 b0] l IH]; intros Hnd H1 H2; [destruct H1|].
  cbn [map fst] in Hnd. inversion Hnd as [|x xs Hnot Hnd']; subst.
  destruct H1 as [H1|H1], H2 as [H2|H2].
  - congruence.
  - inversion H1; subst. exfalso. apply Hnot. apply in_map_iff. exists (a, b'). auto.
  - inversion H2; subst. exfalso. apply Hnot. apply in_map_iff. exists (a, b). auto.
  - apply IH; assumption.
Qed.

(* invariant of consumed_parts: a key of topic r is either set by an entry <> -1 of the answer, or no
   such entry exists for it and it is untouched; keys of other topics are untouched *)
Lemma consumed_parts_inv dbg r : forall pos m m',
  NoDup (map fst pos) ->
  consumed_parts dbg r pos m = Ok m' ->
  (forall p, (exists c o, In (p, c) pos /\ c <> -1 /\ i64_op dbg (c - 1) = Ok o /\ tk_get (r, p) m' = Some (o, false))
             \/ ((forall c, In (p, c) pos -> c = -1) /\ tk_get (r, p) m' = tk_get (r, p) m))
  /\ (forall key, fst key <> r -> tk_get key m' = tk_get key m).
Proof.
  induction pos as [|[p0 c0] rest IH]; intros m m' Hnd H; cbn [consumed_parts] in H.
  - inversion H; subst. split; [intros p; right; split; [intros c []|reflexivity]|reflexivity].
  - cbn [map fst] in Hnd. inversion Hnd as [|x xs Hnot Hnd']; subst.
    destruct (c0 =? -1) eqn:E.
    + destruct (IH _ _ Hnd' H) as [IH1 IH2]. split; [|exact IH2].
      intros p. destruct (IH1 p) as [(c & o & Hin & Hc & Ho & Hg)|[Hall Hg]].
      * left. exists c, o. split; [right; exact Hin|auto].
      * right. split; [|exact Hg]. intros c [Hh|Ht]; [inversion Hh; lia|apply Hall; exact Ht].
    + apply bind_ok in H. destruct H as (o0 & Ho0 & H).
      destruct (IH _ _ Hnd' H) as [IH1 IH2]. split.
      * intros p. destruct (IH1 p) as [(c & o & Hin & Hc & Ho & Hg)|[Hall Hg]].
        -- left. exists c, o. split; [right; exact Hin|auto].
        -- destruct (Z.eq_dec p p0) as [Ep|Ep].
           ++ subst p0. left. exists c0, o0. split; [left; reflexivity|]. split; [lia|]. split; [exact Ho0|].
              rewrite Hg. apply tk_get_set_same.
           ++ right. split.
              ** intros c [Hh|Ht]; [inversion Hh; congruence|apply Hall; exact Ht].
              ** rewrite Hg. apply tk_get_set_other. intros Hk. inversion Hk. congruence.
      * intros key Hk. rewrite IH2 by exact Hk. apply tk_get_set_other. intros Hk'. subst key. apply Hk. reflexivity.
Qed.

(* THE per-topic statement: whatever else the answer for the topic holds (entries without a stored
   offset before or after, any number of partitions), a partition with stored offset c is loaded as
   "last consumed = c - 1, clean", and a partition without one is left out *)
Theorem C08_load_parts_lookup : forall dbg r pos m m',
  NoDup (map fst pos) ->
  consumed_parts dbg r pos m = Ok m' ->
  forall p c, In (p, c) pos ->
    (c <> -1 -> i64_min < c <= i64_max -> tk_get (r, p) m' = Some (c - 1, false))
    /\ (c = -1 -> tk_get (r, p) m' = tk_get (r, p) m).
Proof.
  intros dbg r pos m m' Hnd H p c Hin. destruct (consumed_parts_inv _ _ _ _ _ Hnd H) as [H1 _].
  destruct (H1 p) as [(c' & o & Hin' & Hc' & Ho & Hg)|[Hall Hg]].
  - assert (c' = c) by (eapply nodup_fst_inj; eassumption). subst c'. split.
    + intros _ Hr. rewrite i64_op_in in Ho by lia. inversion Ho; subst o. exact Hg.
    + intros E. contradiction.
  - split; [intros Hc _; exfalso; apply Hc; apply Hall; exact Hin|intros _; exact Hg].
Qed.

Example C08_load_parts_ex :
  (* partition 0 has nothing stored, partitions 1 and 3 have, partition 2 has not *)
  consumed_parts true 0 [(0, -1); (1, 3); (2, -1); (3, 8)] [] = Ok [((0, 1), (2, false)); ((0, 3), (7, false))]
  /\ NoDup (map fst [(0, -1); (1, 3); (2, -1); (3, 8)]).
Proof. split; [vm_compute; reflexivity|]. repeat constructor; cbn; intuition lia. Qed.

(* ---- several topics ----------------------------------------------------------------- *)

Lemma forallb_minus1 (pos : list (Z * Z)) :
  forallb (fun '(_, off) => off =? -1) pos = true -> forall p c, In (p, c) pos -> c = -1.
Proof.
  intros H p c Hin. rewrite forallb_forall in H. specialize (H _ Hin). cbn beta iota in H. lia.
Qed.

Lemma consumed_parts_all_minus1 dbg r : forall pos m,
  (forall p c, In (p, c) pos -> c = -1) -> consumed_parts dbg r pos m = Ok m.
Proof.
  induction pos as [|[p c] rest IH]; intros m H; [reflexivity|]. cbn [consumed_parts].
  rewrite (H p c (or_introl eq_refl)). cbn [Z.eqb Pos.eqb]. apply IH. intros p' c' Hin. eapply H. right. exact Hin.
Qed.

Lemma consumed_topics_inv dbg asg : forall tpos m m',
  NoDup (map fst tpos) ->
  (forall t pos, In (t, pos) tpos -> NoDup (map fst pos)) ->
  consumed_topics dbg asg tpos m = Ok m' ->
  forall r p,
    (exists t pos c o, In (t, pos) tpos /\ topic_ref asg t = Some r /\ In (p, c) pos /\ c <> -1
                       /\ i64_op dbg (c - 1) = Ok o /\ tk_get (r, p) m' = Some (o, false))
    \/ ((forall t pos c, In (t, pos) tpos -> topic_ref asg t = Some r -> In (p, c) pos -> c = -1)
        /\ tk_get (r, p) m' = tk_get (r, p) m).
Proof.
  induction tpos as [|[t0 pos0] rest IH]; intros m m' Hnd Hpn H r p; cbn [consumed_topics] in H.
  - inversion H; subst. right. split; [intros t pos c []|reflexivity].
  - cbn [map fst] in Hnd. inversion Hnd as [|x xs Hnot Hnd']; subst.
    assert (Hpn' : forall t pos, In (t, pos) rest -> NoDup (map fst pos))
      by (intros t pos Hin; eapply Hpn; right; exact Hin).
    assert (Hskip : (forall p c, In (p, c) pos0 -> c = -1) -> consumed_topics dbg asg rest m = Ok m' ->
                    (exists t pos c o, In (t, pos) ((t0, pos0) :: rest) /\ topic_ref asg t = Some r /\ In (p, c) pos /\ c <> -1
                       /\ i64_op dbg (c - 1) = Ok o /\ tk_get (r, p) m' = Some (o, false))
                    \/ ((forall t pos c, In (t, pos) ((t0, pos0) :: rest) -> topic_ref asg t = Some r -> In (p, c) pos -> c = -1)
                        /\ tk_get (r, p) m' = tk_get (r, p) m)).
    { intros Hall H'. destruct (IH _ _ Hnd' Hpn' H' r p) as [(t & pos & c & o & Hin & Hrest)|[Hno Hg]].
      - left. exists t, pos, c, o. split; [right; exact Hin|exact Hrest].
      - right. split; [|exact Hg]. intros t pos c [Hh|Ht] Hr Hin.
        + inversion Hh; subst. eapply Hall. exact Hin.
        + eapply Hno; eassumption. }
    destruct pos0 as [|e0 pos0'] eqn:Epos.
    { apply Hskip; [intros p' c' []|exact H]. }
    rewrite <- Epos in *. clear Epos e0 pos0'.
    destruct (forallb (fun '(_, off) => off =? -1) pos0) eqn:Eall.
    { apply Hskip; [apply forallb_minus1; exact Eall|].
      destruct pos0; exact H. }
    assert (H' : match topic_ref asg t0 with
                 | None => Panic (tag "non-assigned topic")
                 | Some r => let* m' := consumed_parts dbg r pos0 m in consumed_topics dbg asg rest m'
                 end = Ok m') by (destruct pos0; [discriminate Eall|exact H]).
    clear H. destruct (topic_ref asg t0) as [r0|] eqn:Hr0; [|discriminate].
    apply bind_ok in H'. destruct H' as (m1 & Hp & H).
    assert (Hnd0 : NoDup (map fst pos0)) by (eapply Hpn; left; reflexivity).
    destruct (consumed_parts_inv _ _ _ _ _ Hnd0 Hp) as [Hp1 Hp2].
    destruct (IH _ _ Hnd' Hpn' H r p) as [(t & pos & c & o & Hin & Hrest)|[Hno Hg]].
    + left. exists t, pos, c, o. split; [right; exact Hin|exact Hrest].
    + destruct (Z.eq_dec r r0) as [Er|Er].
      * subst r0. destruct (Hp1 p) as [(c & o & Hin & Hc & Ho & Hg1)|[Hall Hg1]].
        -- left. exists t0, pos0, c, o. split; [left; reflexivity|]. rewrite Hg. auto.
        -- right. split; [|rewrite Hg; exact Hg1]. intros t pos c [Hh|Ht] Hr Hin.
           ++ inversion Hh; subst. apply Hall. exact Hin.
           ++ eapply Hno; eassumption.
      * right. split.
        -- intros t pos c [Hh|Ht] Hr Hin; [inversion Hh; subst; congruence|eapply Hno; eassumption].
        -- rewrite Hg. apply Hp2. exact Er.
Qed.

(* THE statement for the whole answer of the coordinator (several topics, several partitions each):
   every partition with a stored offset c is loaded as c - 1 / clean, every partition the answer lists
   without a stored offset stays absent - independently of the position in the answer *)
Theorem C08_load_topics_lookup : forall dbg asg tpos m',
  NoDup (map fst tpos) ->
  (forall t pos, In (t, pos) tpos -> NoDup (map fst pos)) ->
  consumed_topics dbg asg tpos [] = Ok m' ->
  forall t pos p c r, In (t, pos) tpos -> In (p, c) pos -> topic_ref asg t = Some r ->
    (c <> -1 -> i64_min < c <= i64_max -> tk_get (r, p) m' = Some (c - 1, false))
    /\ (c = -1 -> tk_get (r, p) m' = None).
Proof.
  intros dbg asg tpos m' Hnd Hpn H t pos p c r Hin Hpc Hr.
  destruct (consumed_topics_inv _ _ _ _ _ Hnd Hpn H r p) as [(t' & pos' & c' & o & Hin' & Hr' & Hpc' & Hc' & Ho & Hg)|[Hno Hg]].
  - assert (t' = t) by (eapply topic_ref_inj; eassumption). subst t'.
    assert (pos' = pos) by (eapply nodup_fst_inj; eassumption). subst pos'.
    assert (c' = c) by (eapply nodup_fst_inj; [eapply Hpn| |]; eassumption). subst c'.
    split; [|intros E; contradiction].
    intros _ Hrg. rewrite i64_op_in in Ho by lia. inversion Ho; subst o. exact Hg.
  - split; [intros Hc _; exfalso; apply Hc; eapply Hno; eassumption|intros _; exact Hg].
Qed.

Example C08_load_topics_ex :
  consumed_topics true (k_assign ex_consumer)
                  [(tag "a", [(0, -1); (1, 20)]); (tag "b", [(0, 5)])] []
  = Ok [((0, 1), (19, false)); ((1, 0), (4, false))]
  /\ topic_ref (k_assign ex_consumer) (tag "a") = Some 0 /\ topic_ref (k_assign ex_consumer) (tag "b") = Some 1.
Proof. vm_compute. repeat split. Qed.

(* ---- from the coordinator's answer to the first fetch positions of the re-created consumer ---- *)

(* Restart, many partitions: consumed_topics feeds range_states (load_fetch_states).  Every subscribed
   partition for which the coordinator reported a stored offset c inside the log range starts exactly at
   c and reports c - 1 as last consumed; every partition reported without a stored offset starts at the
   fallback offset.  No hypothesis on the order or on the neighbours in the answer. *)
Theorem C08_restart_resumes : forall dbg fb asg tpos consumed latest earliest maxb subs fetch,
  NoDup (map fst tpos) ->
  (forall t pos, In (t, pos) tpos -> NoDup (map fst pos)) ->
  consumed_topics dbg asg tpos [] = Ok consumed ->
  range_states dbg fb asg consumed latest earliest maxb subs [] = Ok fetch ->
  forall t ps p pos c, In (t, ps) subs -> In p ps -> In (t, pos) tpos -> In (p, c) pos ->
  exists r, topic_ref asg t = Some r
    /\ (c <> -1 -> i64_min < c <= i64_max -> lookup_off earliest t p <= c <= lookup_off latest t p ->
        tk_get (r, p) fetch = Some (c, maxb) /\ tk_get (r, p) consumed = Some (c - 1, false))
    /\ (c = -1 ->
        tk_get (r, p) consumed = None
        /\ exists off, start_offset dbg fb None (lookup_off earliest t p) (lookup_off latest t p) = Ok off
                       /\ tk_get (r, p) fetch = Some (off, maxb)).
Proof.
  intros dbg fb asg tpos consumed latest earliest maxb subs fetch Hnd Hpn Hc Hf t ps p pos c Hsub Hp Hin Hpc.
  destruct (C07_range_states _ _ _ _ _ _ _ _ _ _ Hf t ps p Hsub Hp) as (r & off & Hr & Hs & Hg).
  exists r. split; [exact Hr|].
  destruct (C08_load_topics_lookup _ _ _ _ Hnd Hpn Hc t pos p c r Hin Hpc Hr) as [Hl1 Hl2].
  split.
  - intros Hc1 Hrg Hlog. specialize (Hl1 Hc1 Hrg). split; [|exact Hl1].
    rewrite Hl1, C07_start_valid in Hs by assumption. inversion Hs; subst off. exact Hg.
  - intros Hc1. specialize (Hl2 Hc1). split; [exact Hl2|]. rewrite Hl2 in Hs. exists off. auto.
Qed.

Example C08_restart_resumes_ex :
  let asg := k_assign ex_consumer in
  let tpos := [(tag "a", [(0, -1); (1, 20)]); (tag "b", [(0, 5)])] in
  let latest := [(tag "a", [(0, 50); (1, 60)]); (tag "b", [(0, 70)])] in
  let earliest := [(tag "a", [(0, 1); (1, 2)]); (tag "b", [(0, 3)])] in
  exists consumed,
    consumed_topics true asg tpos [] = Ok consumed
    /\ range_states true FbEarliest asg consumed latest earliest 4096 asg []
       = Ok [((0, 0), (1, 4096)); ((0, 1), (20, 4096)); ((1, 0), (5, 4096))].
Proof. exists [((0, 1), (19, false)); ((1, 0), (4, false))]. split; vm_compute; reflexivity. Qed.

(* the two monadic functions of Builder::create are exactly these pure functions applied to what the
   coordinator / the brokers answered *)
Theorem C08_load_consumed_offsets_ok : forall group asg subs s consumed s',
  group <> [] ->
  load_consumed_offsets group asg subs s = (Ok consumed, s') ->
  exists tpos,
    fetch_group_offsets group (flat_map (fun '(t, ps) => map (fun p => (t, p)) ps) subs) s = (Ok tpos, s')
    /\ consumed_topics (debug_build (env s')) asg tpos [] = Ok consumed.
Proof.
  intros group asg subs s consumed s' Hg H. unfold load_consumed_offsets in H.
  destruct group as [|g0 g]; [congruence|].
  apply mbind_ok in H. destruct H as (tpos & s1 & Ht & H).
  apply mbind_ok in H. destruct H as (e & s2 & He & H).
  unfold get_env in He. inversion He; subst e s2. unfold lift in H. cbv beta in H.
  injection H as H1 H2. subst s'. exists tpos. split; [exact Ht|exact H1].
Qed.

Theorem C08_load_fetch_states_ok : forall fb asg subs consumed s fetch s',
  consumed <> [] ->
  load_fetch_states fb asg subs consumed s = (Ok fetch, s') ->
  exists latest earliest s1,
    load_partition_offsets (map fst subs) FETCH_OFFSET_LATEST s = (Ok latest, s1)
    /\ load_partition_offsets (map fst subs) FETCH_OFFSET_EARLIEST s1 = (Ok earliest, s')
    /\ range_states (debug_build (env s)) fb asg consumed latest earliest
                    (fetch_max_bytes_per_partition (cfg (cl s))) subs [] = Ok fetch.
Proof.
  intros fb asg subs consumed s fetch s' Hne H. unfold load_fetch_states in H.
  apply mbind_ok in H. destruct H as (c & s1 & Hc & H). unfold get_client in Hc. inversion Hc; subst c s1.
  apply mbind_ok in H. destruct H as (e & s2 & He & H). unfold get_env in He. inversion He; subst e s2.
  cbv zeta in H. destruct consumed as [|c0 cr]; [congruence|].
  apply mbind_ok in H. destruct H as (latest & s1 & Hl & H).
  apply mbind_ok in H. destruct H as (earliest & s2 & Hea & H).
  unfold lift in H. cbv beta in H. injection H as H1 H2. subst s'. exists latest, earliest, s1. auto.
Qed.

(* ================================================================================== *)
(* B. the answer to an offset-commit request                                          *)
(* ================================================================================== *)

(* all error codes of an OffsetCommitResponse, in wire order *)
Definition commit_codes (tps : list (bytes * list (Z * Z))) : list Z := map snd (flat_map snd tps).

(* what a non-zero code means for __commit_offsets *)
Definition scan_code (c : Z) : scan :=
  if c =? KC_GroupLoadInProgress then ScanRetry c false
  else if c =? KC_NotCoordinatorForGroup then ScanRetry c true
  else ScanFatal c.

Fixpoint scan_codes (es : list Z) : scan :=
  match es with
  | [] => ScanOk
  | e :: r => match from_protocol e with None => scan_codes r | Some c => scan_code c end
  end.

Lemma from_protocol_none e : from_protocol e = None <-> e = 0.
Proof.
  unfold from_protocol. destruct (e =? 0) eqn:E; [split; [lia|reflexivity]|].
  destruct ((from_protocol_lo <=? e) && (e <=? from_protocol_hi)); split; try discriminate; lia.
Qed.

Lemma scan_parts_codes ps : commit_scan_parts ps = scan_codes (map snd ps).
Proof.
  induction ps as [|[q e] r IH]; [reflexivity|]. cbn [commit_scan_parts map snd scan_codes].
  destruct (from_protocol e); [reflexivity|exact IH].
Qed.

Lemma scan_codes_app a b :
  scan_codes (a ++ b) = match scan_codes a with ScanOk => scan_codes b | x => x end.
Proof.
  induction a as [|e a IH]; [reflexivity|]. cbn [app scan_codes].
  destruct (from_protocol e) as [c|]; [|exact IH].
  unfold scan_code. destruct (c =? KC_GroupLoadInProgress); [reflexivity|].
  destruct (c =? KC_NotCoordinatorForGroup); reflexivity.
Qed.

(* the scan is a function of the flat list of ALL codes of the answer *)
Theorem C08_scan_all_codes : forall tps, commit_scan tps = scan_codes (commit_codes tps).
Proof.
  unfold commit_codes. induction tps as [|[t ps] r IH]; [reflexivity|].
  cbn [commit_scan flat_map snd]. rewrite map_app, scan_codes_app, <- scan_parts_codes, IH. reflexivity.
Qed.

(* success iff EVERY partition of EVERY topic was accepted *)
Theorem C08_scan_ok_iff : forall tps,
  commit_scan tps = ScanOk <-> Forall (fun e => e = 0) (commit_codes tps).
Proof.
  intros tps. rewrite C08_scan_all_codes. induction (commit_codes tps) as [|e r IH]; cbn [scan_codes].
  - split; [constructor|reflexivity].
  - destruct (from_protocol e) as [c|] eqn:E.
    + split.
      * unfold scan_code. destruct (c =? KC_GroupLoadInProgress); [discriminate|].
        destruct (c =? KC_NotCoordinatorForGroup); discriminate.
      * intros H. inversion H as [|x l He Hr]. apply from_protocol_none in He. congruence.
    + apply from_protocol_none in E. rewrite IH. split; [intros H; constructor; assumption|].
      intros H. inversion H; assumption.
Qed.

(* the first non-zero code, wherever it stands in the answer, decides *)
Theorem C08_scan_first_error : forall tps pre e post c,
  commit_codes tps = pre ++ e :: post -> Forall (fun x => x = 0) pre -> from_protocol e = Some c ->
  commit_scan tps = scan_code c.
Proof.
  intros tps pre e post c Hc Hpre He. rewrite C08_scan_all_codes, Hc, scan_codes_app.
  assert (Hp : scan_codes pre = ScanOk).
  { clear Hc. induction Hpre as [|x l Hx Hl IH]; [reflexivity|]. cbn [scan_codes].
    apply from_protocol_none in Hx. rewrite Hx. exact IH. }
  rewrite Hp. cbn [scan_codes]. rewrite He. reflexivity.
Qed.

Example C08_scan_ex :
  (* accepted first entry, rejected later entry (code 12), in the same and in another topic *)
  commit_scan [(tag "t", [(1, 0); (0, 12)])] = ScanFatal 12
  /\ commit_scan [(tag "b", [(0, 0)]); (tag "a", [(0, 12)])] = ScanFatal 12
  /\ commit_scan [(tag "b", [(0, 0)]); (tag "a", [(0, 0); (1, 16)])] = ScanRetry 16 true
  /\ commit_scan [(tag "b", [(0, 0)]); (tag "a", [(0, 0); (1, 14)])] = ScanRetry 14 false
  /\ commit_scan [(tag "b", [(0, 0)]); (tag "a", [(0, 0); (1, 0)])] = ScanOk
  /\ commit_codes [(tag "b", [(0, 0)]); (tag "a", [(0, 0); (1, 16)])] = [0; 0; 16].
Proof. vm_compute. repeat split. Qed.

(* ---- commit_loop -------------------------------------------------------------------- *)

(* commit_loop answers Ok only after an exchange with the group's coordinator whose answer carries
   code 0 for every entry (earlier exchanges may have been retried) *)
Theorem C08_commit_loop_ok : forall fuel group req attempt s s',
  commit_loop fuel group req attempt s = (Ok tt, s') ->
  exists h corr tps s1 s2,
    get_group_coordinator group s1 = (Ok h, s2)
    /\ send_receive dec_offset_commit_resp h req s2 = (Ok (corr, tps), s')
    /\ Forall (fun e => e = 0) (commit_codes tps).
Proof.
  induction fuel as [|f IH]; intros group req attempt s s' H; cbn [commit_loop] in H; [discriminate|].
  apply mbind_ok in H. destruct H as (h & s1 & Hh & H).
  apply mbind_ok in H. destruct H as ([corr tps] & s2 & Hsr & H).
  destruct (commit_scan tps) as [|code reset|code] eqn:Es.
  - unfold ret in H. inversion H; subst s'. exists h, corr, tps, s, s1.
    split; [exact Hh|]. split; [exact Hsr|]. apply C08_scan_ok_iff. exact Es.
  - apply mbind_ok in H. destruct H as (c & s3 & Hc & H).
    apply mbind_ok in H. destruct H as (u & s4 & Hu & H).
    destruct (attempt <? retry_max_attempts (cfg c)); [|discriminate].
    eapply IH. exact H.
  - discriminate.
Qed.

(* a code other than the two transient ones, on ANY entry of the answer: the commit fails with it *)
Theorem C08_commit_loop_rejected : forall f group req attempt s h s1 corr tps s2 pre e post c,
  get_group_coordinator group s = (Ok h, s1) ->
  send_receive dec_offset_commit_resp h req s1 = (Ok (corr, tps), s2) ->
  commit_codes tps = pre ++ e :: post -> Forall (fun x => x = 0) pre -> from_protocol e = Some c ->
  c <> KC_GroupLoadInProgress -> c <> KC_NotCoordinatorForGroup ->
  commit_loop (S f) group req attempt s = (Err (EKafka c), s2).
Proof.
  intros f group req attempt s h s1 corr tps s2 pre e post c Hh Hsr Hc Hpre He Hn1 Hn2.
  cbn [commit_loop]. unfold mbind at 1. rewrite Hh. unfold mbind at 1. rewrite Hsr.
  rewrite (C08_scan_first_error _ _ _ _ _ Hc Hpre He). unfold scan_code.
  destruct (c =? KC_GroupLoadInProgress) eqn:E1; [lia|].
  destruct (c =? KC_NotCoordinatorForGroup) eqn:E2; [lia|]. reflexivity.
Qed.

(* ---- commit_consumed ------------------------------------------------------------------- *)

Lemma tp_add_nonempty {P} (tps : list (bytes * list P)) t p : tp_add tps t p <> [].
Proof. destruct tps as [|[t0 ps] r]; cbn [tp_add]; [discriminate|]. destruct (bytes_eqb t0 t); discriminate. Qed.

Lemma commit_tps_nonempty s : forall os acc r,
  commit_tps s os acc = Some r -> (os <> [] \/ acc <> []) -> r <> [].
Proof.
  induction os as [|o os IH]; intros acc r H Hne; cbn [commit_tps] in H.
  - inversion H; subst. destruct Hne; congruence.
  - destruct (contains_topic_partition s (co_topic o) (co_partition o)); [|discriminate].
    eapply IH; [exact H|]. right. apply tp_add_nonempty.
Qed.

Lemma commit_entries_nonempty dbg e es os : commit_entries dbg (e :: es) = Ok os -> os <> [].
Proof.
  destruct e as [[t p] o]. cbn [commit_entries]. intros H.
  apply bind_ok in H. destruct H as (o1 & _ & H). apply bind_ok in H. destruct H as (rest & _ & H).
  inversion H. discriminate.
Qed.

(* commit_consumed with something to commit answers Ok (and so clears the dirty flags,
   C08_commit_clears_only_on_success) only if: the request held the dirty entries as mark + 1, was built
   with the commit version of the configured storage, went to the group's coordinator, and the answer
   accepted EVERY entry *)
Theorem C08_commit_consumed_ok_accepted : forall k s k' s',
  commit_consumed k s = (Ok k', s') -> dirty_entries k <> [] ->
  exists order os tps0 h corr tps s1 s2,
    commit_entries (debug_build (env s)) (reorder_entries order (dirty_entries k)) = Ok os
    /\ commit_tps (cs (cl s)) os [] = Some tps0
    /\ 0 <= offset_storage (cfg (cl s))
    /\ get_group_coordinator (k_group k) s1 = (Ok h, s2)
    /\ send_receive dec_offset_commit_resp h
         (enc_offset_commit_req (fst (next_correlation_id (cs (cl s)))) (client_id (cfg (cl s))) (k_group k)
                                (commit_version (offset_storage (cfg (cl s)))) tps0) s2 = (Ok (corr, tps), s')
    /\ Forall (fun e => e = 0) (commit_codes tps).
Proof.
  intros k s k' s' H Hne. unfold commit_consumed in H. destruct (k_group k) as [|g0 g] eqn:Eg; [discriminate|].
  apply mbind_ok in H. destruct H as (e & s1 & He & H). unfold get_env in He. inversion He; subst e s1.
  apply mbind_ok in H. destruct H as (order & s2 & Ho & H).
  assert (Hs2 : cl s2 = cl s /\ env s2 = env s).
  { destruct (dirty_entries k); [congruence|]. unfold pop_entries in Ho.
    destruct (entryq s); inversion Ho; subst; split; reflexivity. }
  destruct Hs2 as [Hcl He2].
  apply mbind_ok in H. destruct H as (os & s3 & Hos & H). unfold lift in Hos. cbv beta in Hos.
  injection Hos as Hos Hs3. subst s3.
  apply mbind_ok in H. destruct H as (u & s4 & Hco & H).
  apply mbind_ok in H. destruct H as (c & s5 & Hc & H). unfold get_client in Hc. inversion Hc; subst c s5.
  unfold ret in H. injection H as _ Hs'. subst s4. clear Hc.
  unfold commit_offsets in Hco.
  apply mbind_ok in Hco. destruct Hco as (c & s5 & Hc & Hco). unfold get_client in Hc. inversion Hc; subst c s5. clear Hc.
  destruct (offset_storage (cfg (cl s2)) <? 0) eqn:Est; [discriminate|].
  apply mbind_ok in Hco. destruct Hco as (corr0 & s6 & Hnc & Hco).
  unfold next_corr in Hnc. apply mbind_ok in Hnc. destruct Hnc as (c & s7 & Hc & Hnc).
  unfold get_client in Hc; inversion Hc; subst c s7. clear Hc.
  destruct (next_correlation_id (cs (cl s2))) as [n cs'] eqn:En.
  apply mbind_ok in Hnc. destruct Hnc as (u' & s8 & _ & Hnc). unfold ret in Hnc. injection Hnc as Hn _. subst corr0.
  destruct (commit_tps (cs (cl s2)) os []) as [tps0|] eqn:Etps; [|discriminate].
  assert (Hos_ne : os <> []).
  { pose proof (C08_reorder_perm order (dirty_entries k)) as Hp.
    destruct (reorder_entries order (dirty_entries k)) as [|e0 es0] eqn:Er.
    - apply Permutation_nil in Hp. congruence.
    - eapply commit_entries_nonempty. exact Hos. }
  assert (Htne : tps0 <> []) by (eapply commit_tps_nonempty; [exact Etps|left; exact Hos_ne]).
  destruct tps0 as [|tp0 tpr] eqn:E0; [congruence|]. rewrite <- E0 in *.
  unfold with_fuel in Hco. destruct u. apply C08_commit_loop_ok in Hco.
  destruct Hco as (h & corr & tps & sa & sb & Hh & Hsr & Hall).
  exists order, os, tps0, h, corr, tps, sa, sb.
  rewrite Hcl in *. rewrite En. cbn [fst].
  split; [exact Hos|]. split; [exact Etps|]. split; [lia|]. split; [exact Hh|]. split; [exact Hsr|exact Hall].
Qed.

(* non-vacuity: a consumer with two changed partitions commits; the coordinator's answer lists
   a/1 first and b/0 second.  Both accepted: Ok, flags cleared.  The SECOND entry rejected with
   code 12 (the first accepted): the commit fails, as it does when the first one is rejected. *)
Definition exh : bytes := tag "h:9092".
Definition ex_cfg1 : config :=
  {| client_id := tag "me"; hosts := [exh]; compression := COMPRESSION_NONE; fetch_max_wait_time := 100;
     fetch_min_bytes := 1; fetch_max_bytes_per_partition := 4096; fetch_crc_validation := true;
     offset_storage := 1; retry_backoff_time := (0, 0); retry_max_attempts := 3; idle_timeout := (9, 0) |}.
Definition ex_client1 : client :=
  {| cfg := ex_cfg1;
     cs := {| correlation := 0; brokers := [{| b_node := 1; b_host := exh |}];
              topic_partitions := [(tag "a", [0; 0]); (tag "b", [0])]; group_coordinators := [(tag "g", 0)] |};
     conns := [] |}.
Definition ex_k2 : consumer :=
  {| k_client := ex_client1; k_group := tag "g"; k_fallback := FbLatest; k_retry_limit := 0;
     k_assign := [(tag "a", [0; 1]); (tag "b", [0])];
     k_fetch := [((0, 0), (10, 4096)); ((0, 1), (20, 4096)); ((1, 0), (30, 4096))];
     k_retry := [];
     k_consumed := [((0, 1), (19, true)); ((1, 0), (31, true))] |}.
Definition ex_commit_resp (e1 e2 : Z) : bytes :=
  enc_i32 1 ++ enc_i32 2 ++ enc_i16 1 ++ tag "a" ++ enc_i32 1 ++ enc_i32 1 ++ enc_i16 e1
            ++ enc_i16 1 ++ tag "b" ++ enc_i32 1 ++ enc_i32 0 ++ enc_i16 e2.
Definition ex_run2 (e1 e2 : Z) : st :=
  st_with (ex_st ex_client1)
          [OConn true; OWrote 1000; OData (enc_i32 (ulen (ex_commit_resp e1 e2))); OData (ex_commit_resp e1 e2)] [].
Definition consumed_of (r : res consumer) : res (list (tpkey * (Z * bool))) :=
  match r with Ok k => Ok (k_consumed k) | Err e => Err e | Panic w => Panic w end.

Example C08_commit_consumed_ex2 :
  dirty_entries ex_k2 = [(tag "a", 1, 19); (tag "b", 0, 31)]
  /\ consumed_of (fst (commit_consumed ex_k2 (ex_run2 0 0))) = Ok [((0, 1), (19, false)); ((1, 0), (31, false))]
  /\ consumed_of (fst (commit_consumed ex_k2 (ex_run2 0 12))) = Err (EKafka 12)
  /\ consumed_of (fst (commit_consumed ex_k2 (ex_run2 12 0))) = Err (EKafka 12)
  /\ option_map fst (match dec_offset_commit_resp (ex_commit_resp 0 12) with Ok x => Some x | _ => None end)
     = Some (1, [(tag "a", [(1, 0)]); (tag "b", [(0, 12)])])
  /\ match trace (snd (commit_consumed ex_k2 (ex_run2 0 0))) with
     | [_; _; EWrite h bs; EConnect h'] =>
         h = exh /\ h' = exh
         /\ Ok bs = match enc_offset_commit_req 1 (tag "me") (tag "g") OFFSET_COMMIT_V1
                                                [(tag "a", [(1, 20)]); (tag "b", [(0, 32)])]
                    with Ok p => Ok (frame p) | Err e => Err e | Panic w => Panic w end
     | _ => False
     end.
Proof. vm_compute. repeat split. Qed.

(* ================================================================================== *)
(* C. histories: "dirty" = "the mark moved since the last successful commit"           *)
(* ================================================================================== *)

(* base: the marks as of the last successful commit (or as loaded at start-up) *)
Definition hinv (base : tpkey -> option Z) (k : consumer) : Prop :=
  forall key, match tk_get key (k_consumed k) with
              | None => base key = None
              | Some (o, false) => base key = Some o
              | Some (o, true) => match base key with None => True | Some b => b < o end
              end.

(* histories over: mark (consume_message, any offset, also lower ones); successful commit; anything
   that leaves consumed_offsets alone (poll, seek, a failed mark, a FAILED commit - commit_consumed then
   returns no new consumer, the caller goes on with the old one) *)
Inductive reach : (tpkey -> option Z) -> consumer -> (tpkey -> option Z) -> consumer -> Prop :=
| reach_refl base k : reach base k base k
| reach_mark base k t p off k1 b' k' :
    consume_message k t p off = Ok k1 -> reach base k1 b' k' -> reach base k b' k'
| reach_commit_ok base k s k1 s1 b' k' :
    commit_consumed k s = (Ok k1, s1) -> reach (mark k1) k1 b' k' -> reach base k b' k'
| reach_other base k k1 b' k' :
    k_consumed k1 = k_consumed k -> reach base k1 b' k' -> reach base k b' k'.

Lemma hinv_init k0 : (forall key, dirty k0 key <> Some true) -> hinv (mark k0) k0.
Proof.
  intros H key. specialize (H key). unfold dirty, mark in *.
  destruct (tk_get key (k_consumed k0)) as [[o d]|]; cbn [option_map fst snd] in *; [|reflexivity].
  destruct d; [congruence|reflexivity].
Qed.

Lemma hinv_mark base k t p off k1 : hinv base k -> consume_message k t p off = Ok k1 -> hinv base k1.
Proof.
  intros Hi H key. destruct (consume_spec _ _ _ _ _ H) as (r & Hr & _ & Hoth & Hkey).
  destruct (tpkey_eq_dec key (r, p)) as [E|E].
  - subst key. specialize (Hi (r, p)). destruct (tk_get (r, p) (k_consumed k)) as [[o d]|] eqn:Ec.
    + destruct (o <? off) eqn:El.
      * rewrite Hkey, tk_get_set_same. destruct d.
        -- destruct (base (r, p)); [lia|exact I].
        -- rewrite Hi. lia.
      * subst k1. rewrite Ec. exact Hi.
    + rewrite Hkey, tk_get_set_same, Hi. exact I.
  - rewrite (Hoth key E). apply Hi.
Qed.

Lemma hinv_commit k s k1 s1 : commit_consumed k s = (Ok k1, s1) -> hinv (mark k1) k1.
Proof.
  intros H key. destruct (commit_consumed_ok _ _ _ _ H) as (Hc & _). unfold mark.
  rewrite Hc, tk_get_map_clear. destruct (tk_get key (k_consumed k)) as [[o d]|]; reflexivity.
Qed.

Lemma hinv_concl b k : hinv b k ->
  forall key, (dirty k key = Some true <-> mark k key <> b key) /\ mark_le (b key) (mark k key).
Proof.
  intros H key. specialize (H key). unfold dirty, mark.
  destruct (tk_get key (k_consumed k)) as [[o d]|]; cbn [option_map fst snd].
  - destruct d.
    + destruct (b key) as [x|]; cbn [mark_le]; split; try exact I; try lia.
      * split; [intros _ E; inversion E; lia|reflexivity].
      * split; [discriminate|reflexivity].
    + rewrite H. cbn [mark_le]. split; [|lia]. split; [discriminate|congruence].
  - rewrite H. cbn [mark_le]. split; [|exact I]. split; [discriminate|congruence].
Qed.

Lemma hinv_reach base k b' k' : reach base k b' k' -> hinv base k -> hinv b' k'.
Proof.
  intros Hr. induction Hr as [base k|base k t p off k1 b' k' Hm Hr IH|base k s k1 s1 b' k' Hc Hr IH|base k k1 b' k' Ho Hr IH];
    intros H0.
  - exact H0.
  - apply IH. eapply hinv_mark; eassumption.
  - apply IH. eapply hinv_commit; eassumption.
  - apply IH. intros key. rewrite Ho. apply H0.
Qed.

(* THE history statement: start from a consumer without pending marks (what Builder::create returns:
   everything loaded is clean); after ANY history the dirty flag of a partition is set exactly when
   its mark differs from the mark at the last successful commit (b), and marks never fall below b.
   With C08_dirty_entries / C08_commit_content: the next commit sends exactly these partitions. *)
Theorem C08_history_dirty_exact : forall k0 b k,
  (forall key, dirty k0 key <> Some true) ->
  reach (mark k0) k0 b k ->
  forall key, (dirty k key = Some true <-> mark k key <> b key) /\ mark_le (b key) (mark k key).
Proof.
  intros k0 b k H0 Hr. apply hinv_concl. eapply hinv_reach; [exact Hr|]. apply hinv_init. exact H0.
Qed.

(* the steps "anything else" of reach: poll and seek leave consumed_offsets alone *)
Lemma consumer_fetch_consumed k s n r k1 s1 :
  consumer_fetch k s = (Ok (n, r, k1), s1) -> k_consumed k1 = k_consumed k.
Proof.
  unfold consumer_fetch. destruct (k_retry k) as [|tp rest].
  - intros H. apply mbind_ok in H. destruct H as (r0 & s2 & _ & H). unfold ret in H. inversion H; subst. reflexivity.
  - destruct (tk_get tp (k_fetch k)) as [[off maxb]|].
    + intros H. apply mbind_ok in H. destruct H as (r0 & s2 & _ & H). unfold ret in H. inversion H; subst. reflexivity.
    + intros H. unfold ret in H. inversion H; subst. reflexivity.
Qed.

Theorem C08_poll_keeps_marks : forall k s r k' s',
  consumer_poll k s = (Ok (r, k'), s') -> k_consumed k' = k_consumed k.
Proof.
  intros k s r k' s' H. unfold consumer_poll in H.
  apply mbind_ok in H. destruct H as ([[n r0] k1] & s1 & Hf & H). apply consumer_fetch_consumed in Hf.
  apply mbind_ok in H. destruct H as (c & s2 & _ & H).
  apply mbind_ok in H. destruct H as (e & s3 & _ & H).
  destruct r0 as [resps|er|w].
  - unfold ret in H. inversion H as [[Hp Hs]]. clear H. unfold process_fetch_responses in Hp.
    destruct (first_error resps).
    + inversion Hp; subst. exact Hf.
    + destruct (process_topics _ _ _ _ _ _ _ _); inversion Hp; subst; exact Hf.
  - unfold ret in H. inversion H; subst. exact Hf.
  - discriminate.
Qed.

Example C08_history_ex :
  let k0 := consumer_with ex_k2 (k_fetch ex_k2) [] [((0, 1), (19, false)); ((1, 0), (31, false))] in
  exists k1 k2 k3 s3,
    consume_message k0 (tag "a") 1 25 = Ok k1        (* a/1: 19 -> 25 *)
    /\ consume_message k1 (tag "a") 1 7 = Ok k2      (* a lower mark afterwards *)
    /\ reach (mark k0) k0 (mark k0) k2
    /\ dirty k2 (0, 1) = Some true /\ mark k2 (0, 1) = Some 25 /\ mark k0 (0, 1) = Some 19
    /\ dirty k2 (1, 0) = Some false /\ mark k2 (1, 0) = mark k0 (1, 0)
    /\ commit_consumed ex_k2 (ex_run2 0 0) = (Ok k3, s3) /\ reach (mark ex_k2) ex_k2 (mark k3) k3.
Proof.
  cbv zeta.
  set (k0 := consumer_with ex_k2 (k_fetch ex_k2) [] [((0, 1), (19, false)); ((1, 0), (31, false))]).
  set (k1 := consumer_with k0 (k_fetch k0) (k_retry k0) [((0, 1), (25, true)); ((1, 0), (31, false))]).
  set (k3 := match fst (commit_consumed ex_k2 (ex_run2 0 0)) with Ok k => k | _ => ex_k2 end).
  set (s3 := snd (commit_consumed ex_k2 (ex_run2 0 0))).
  assert (H1 : consume_message k0 (tag "a") 1 25 = Ok k1) by (vm_compute; reflexivity).
  assert (H2 : consume_message k1 (tag "a") 1 7 = Ok k1) by (vm_compute; reflexivity).
  assert (H3 : commit_consumed ex_k2 (ex_run2 0 0) = (Ok k3, s3)) by (vm_compute; reflexivity).
  exists k1, k1, k3, s3.
  split; [exact H1|]. split; [exact H2|].
  split; [exact (reach_mark _ _ _ _ _ _ _ _ H1 (reach_mark _ _ _ _ _ _ _ _ H2 (reach_refl _ _)))|].
  repeat (split; [vm_compute; reflexivity|]).
  exact (reach_commit_ok _ _ _ _ _ _ _ H3 (reach_refl _ _)).
Qed.

(* ================================================================================== *)
(* D. smaller gaps                                                                    *)
(* ================================================================================== *)

(* D1. commit_tps groups the entries by topic: every entry of the commit is in the request, exactly
   once, under its own topic (nothing dropped, nothing duplicated) *)
Definition flat_c (tps : list (bytes * list (Z * Z))) : list (bytes * (Z * Z)) :=
  flat_map (fun tp => map (fun q => (fst tp, q)) (snd tp)) tps.

Lemma tp_add_flat tps t q : Permutation (flat_c (tp_add tps t q)) ((t, q) :: flat_c tps).
Proof.
  unfold flat_c. induction tps as [|[t0 ps] r IH]; cbn [tp_add flat_map map app fst snd].
  - apply Permutation_refl.
  - destruct (bytes_eqb t0 t) eqn:E.
    + apply bytes_eqb_eq in E. subst t0. cbn [flat_map fst snd]. rewrite map_app. cbn [map].
      rewrite <- app_assoc. cbn [app]. symmetry. apply Permutation_middle.
    + cbn [flat_map fst snd]. eapply Permutation_trans; [apply Permutation_app_head; exact IH|].
      symmetry. apply Permutation_middle.
Qed.

Lemma commit_tps_flat s : forall os acc tps,
  commit_tps s os acc = Some tps ->
  Permutation (flat_c tps) (flat_c acc ++ map (fun o => (co_topic o, (co_partition o, co_offset o))) os)
  /\ Forall (fun o => contains_topic_partition s (co_topic o) (co_partition o) = true) os.
Proof.
  induction os as [|o os IH]; intros acc tps H; cbn [commit_tps] in H.
  - inversion H; subst. cbn [map]. rewrite app_nil_r. split; [apply Permutation_refl|constructor].
  - destruct (contains_topic_partition s (co_topic o) (co_partition o)) eqn:E; [|discriminate].
    destruct (IH _ _ H) as [Hp Hall]. split; [|constructor; assumption].
    eapply Permutation_trans; [exact Hp|]. cbn [map].
    eapply Permutation_trans; [apply Permutation_app_tail; apply tp_add_flat|].
    cbn [app]. apply Permutation_middle.
Qed.

Theorem C08_commit_tps_all : forall s os tps,
  commit_tps s os [] = Some tps ->
  Permutation (flat_c tps) (map (fun o => (co_topic o, (co_partition o, co_offset o))) os).
Proof. intros s os tps H. destruct (commit_tps_flat _ _ _ _ H) as [Hp _]. exact Hp. Qed.

Example C08_commit_tps_ex :
  commit_tps (cs ex_client1)
             [{| co_topic := tag "a"; co_partition := 1; co_offset := 20 |};
              {| co_topic := tag "b"; co_partition := 0; co_offset := 32 |};
              {| co_topic := tag "a"; co_partition := 0; co_offset := 7 |}] []
  = Some [(tag "a", [(1, 20); (0, 7)]); (tag "b", [(0, 32)])].
Proof. vm_compute. reflexivity. Qed.

(* D2. offset-fetch answers: code 0 carries the stored offset; code 3 (what storage v0 answers for
   "nothing stored") is turned into offset -1, i.e. the entry load_consumed_offsets skips *)
Theorem C08_get_offsets : forall p,
  (ofp_error p = 0 -> get_offsets p = inl (ofp_partition p, ofp_offset p))
  /\ (ofp_error p = 3 -> get_offsets p = inl (ofp_partition p, -1)).
Proof. intros p. split; intros H; unfold get_offsets; rewrite H; reflexivity. Qed.

Example C08_get_offsets_ex :
  get_offsets {| ofp_partition := 4; ofp_offset := 17; ofp_metadata := []; ofp_error := 0 |} = inl (4, 17)
  /\ get_offsets {| ofp_partition := 4; ofp_offset := 17; ofp_metadata := []; ofp_error := 3 |} = inl (4, -1)
  /\ get_offsets {| ofp_partition := 4; ofp_offset := 17; ofp_metadata := []; ofp_error := 12 |} = inr 12.
Proof. vm_compute. repeat split. Qed.

(* D3. everything load_consumed_offsets loads is clean: a created consumer has no pending marks
   (the premise of C08_history_dirty_exact), and Builder::create is the composition
   load_consumed_offsets ; load_fetch_states of section A *)
Definition clean (m : list (tpkey * (Z * bool))) : Prop := forall key o d, tk_get key m = Some (o, d) -> d = false.

Lemma clean_set key0 o0 m : clean m -> clean (tk_set key0 (o0, false) m).
Proof.
  intros H key o d Hg. destruct (tpkey_eq_dec key key0) as [E|E].
  - subst key. rewrite tk_get_set_same in Hg. inversion Hg. reflexivity.
  - rewrite tk_get_set_other in Hg by exact E. eapply H. exact Hg.
Qed.

Lemma consumed_parts_clean dbg r : forall pos m m', consumed_parts dbg r pos m = Ok m' -> clean m -> clean m'.
Proof.
  induction pos as [|[p c] rest IH]; intros m m' H Hc; cbn [consumed_parts] in H.
  - inversion H; subst. exact Hc.
  - destruct (c =? -1); [eapply IH; eassumption|].
    apply bind_ok in H. destruct H as (o & _ & H). eapply IH; [exact H|]. apply clean_set. exact Hc.
Qed.

Lemma consumed_topics_clean dbg asg : forall tpos m m', consumed_topics dbg asg tpos m = Ok m' -> clean m -> clean m'.
Proof.
  induction tpos as [|[t pos] rest IH]; intros m m' H Hc; cbn [consumed_topics] in H.
  - inversion H; subst. exact Hc.
  - destruct pos as [|e0 pos']; [eapply IH; eassumption|].
    destruct (forallb (fun '(_, off) => off =? -1) (e0 :: pos')); [eapply IH; eassumption|].
    destruct (topic_ref asg t) as [r|]; [|discriminate].
    apply bind_ok in H. destruct H as (m1 & Hp & H). eapply IH; [exact H|].
    eapply consumed_parts_clean; eassumption.
Qed.

Theorem C08_create_loads : forall src calls s k s',
  consumer_create src calls s = (Ok k, s') ->
  exists subs s1 s2,
    k_group k = cb_group (fold_left cbuilder_apply calls (cbuilder_new src))
    /\ k_assign k = from_map (cb_assign (fold_left cbuilder_apply calls (cbuilder_new src)))
    /\ load_consumed_offsets (k_group k) (k_assign k) subs s1 = (Ok (k_consumed k), s2)
    /\ load_fetch_states (cb_fallback (fold_left cbuilder_apply calls (cbuilder_new src)))
                         (k_assign k) subs (k_consumed k) s2 = (Ok (k_fetch k), s')
    /\ (forall key, dirty k key <> Some true).
Proof.
  intros src calls s k s' H. unfold consumer_create in H. cbv zeta in H.
  set (b := fold_left cbuilder_apply calls (cbuilder_new src)) in *.
  destruct (cb_assign b) as [|a0 ar] eqn:Ea; [discriminate|]. rewrite <- Ea in H |- *.
  apply mbind_ok in H. destruct H as (c & sa & _ & H).
  apply mbind_ok in H. destruct H as (wait & sb & _ & H).
  apply mbind_ok in H. destruct H as (u1 & sc & _ & H).
  apply mbind_ok in H. destruct H as (u2 & sd & _ & H).
  apply mbind_ok in H. destruct H as (c1 & se & _ & H).
  apply mbind_ok in H. destruct H as (subs & sf & _ & H).
  apply mbind_ok in H. destruct H as (consumed & sg & Hlc & H).
  apply mbind_ok in H. destruct H as (fetch & sh & Hlf & H).
  apply mbind_ok in H. destruct H as (c2 & si & Hc2 & H).
  unfold get_client in Hc2. inversion Hc2; subst c2 si. unfold ret in H. inversion H; subst k s'. clear H.
  cbn [k_group k_assign k_consumed k_fetch].
  exists subs, sf, sg. split; [reflexivity|]. split; [reflexivity|]. split; [exact Hlc|]. split; [exact Hlf|].
  intros key. unfold dirty. cbn [k_consumed].
  assert (Hcl : clean consumed).
  { unfold load_consumed_offsets in Hlc. destruct (cb_group b) as [|g0 g].
    - unfold ret in Hlc. inversion Hlc; subst. intros key' o d Hg. discriminate.
    - apply mbind_ok in Hlc. destruct Hlc as (tpos & s1 & _ & Hlc).
      apply mbind_ok in Hlc. destruct Hlc as (e & s2 & _ & Hlc). unfold lift in Hlc. cbv beta in Hlc.
      injection Hlc as Hlc _. eapply consumed_topics_clean; [exact Hlc|]. intros key' o d Hg. discriminate. }
  destruct (tk_get key consumed) as [[o d]|] eqn:Eg; cbn [option_map snd]; [|discriminate].
  rewrite (Hcl _ _ _ Eg). discriminate.
Qed.

(* non-vacuity of C08_load_consumed_offsets_ok (placed here because it needs ex_client1): the
   coordinator answers "a/0: nothing stored, a/1: 20"; the stored offset of a/1 is loaded *)
Definition ex_fetch_resp : bytes :=
  enc_i32 1 ++ enc_i32 1 ++ enc_i16 1 ++ tag "a" ++ enc_i32 2
    ++ enc_i32 0 ++ enc_i64 (-1) ++ enc_i16 0 ++ enc_i16 0
    ++ enc_i32 1 ++ enc_i64 20 ++ enc_i16 0 ++ enc_i16 0.
Definition ex_run3 : st :=
  st_with (ex_st ex_client1)
          [OConn true; OWrote 1000; OData (enc_i32 (ulen ex_fetch_resp)); OData ex_fetch_resp] [].
Example C08_load_consumed_offsets_ex :
  fst (load_consumed_offsets (tag "g") (k_assign ex_k2) [(tag "a", [0; 1])] ex_run3) = Ok [((0, 1), (19, false))].
Proof. vm_compute. reflexivity. Qed.

Print Assumptions C08_load_parts_all.
Print Assumptions C08_load_parts_lookup.
Print Assumptions C08_load_topics_lookup.
Print Assumptions C08_restart_resumes.
Print Assumptions C08_load_consumed_offsets_ok.
Print Assumptions C08_load_fetch_states_ok.
Print Assumptions C08_scan_all_codes.
Print Assumptions C08_scan_ok_iff.
Print Assumptions C08_scan_first_error.
Print Assumptions C08_commit_loop_ok.
Print Assumptions C08_commit_loop_rejected.
Print Assumptions C08_commit_consumed_ok_accepted.
Print Assumptions C08_history_dirty_exact.
Print Assumptions C08_poll_keeps_marks.
Print Assumptions C08_commit_tps_all.
Print Assumptions C08_get_offsets.
Print Assumptions C08_create_loads.
