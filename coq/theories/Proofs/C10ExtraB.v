(* C10, second adequacy pass: the metadata table over a HISTORY of loads, and the leader's node id.

   Seeded change C10-4 (`ClientState::update_brokers` first drops, with Vec::retain, every known broker that the
   response being processed does not list; BrokerRefs are indices into that vector, so the entries stored behind a
   dropped one shift and the partitions of topics that the response does NOT mention are afterwards reported with
   another broker as leader, or as leaderless).  Model counterpart: `ClientState.update_brokers`.

   What Props/C10.v said before this file: C10_update_metadata_routing / C10_metadata_routing speak only about the
   topics CONTAINED in the response being processed (and only about the address, `find_broker`).  The mirrored
   change does falsify their fallback clause (a leader that the response does not list among its brokers keeps the
   address known before - checked in a scratch copy of the model with a concrete witness), but that needs a
   response which names a leader it does not list; on the seed's own history (every response self-contained) all
   theorems of Props/C10.v stay true.  New here:

   1. `leader_entry s t k`: the (node id, "host:port") pair that `topics()` shows for partition k of topic t
      (C10_topics_view_entry ties it to Dispatch.topics_view, the value the harness compares).
   2. C10_leader_entry_listed: for a topic contained in the response, node id AND address (the earlier theorems
      gave the address only: a table that reports the right address under a wrong node id passed).
   3. C10_leader_entry_unlisted: for a topic NOT contained in the response, every partition keeps its leader's node
      id, its address follows what the response says about that node (else stays), the number of partitions
      stays.  This is the statement the seeded change breaks.
   4. C10_two_loads_routing (model level) and C10_two_loads_wire (from two printed responses): the seed's history.
   5. C10_load_metadata_entries: the same through the public entry point `load_metadata topics`.
   6. C10_load_metadata_all_entries: `load_metadata_all` - what is reported afterwards is what the one response
      says, nothing survives from earlier loads.

   7. C10_coordinator_survives_load: the coordinator cached for a group (also an index into the broker vector)
      is the same node after a metadata load.

   Confirmed in a scratch copy of the model with the change mirrored (update_brokers first filters `brokers s` by
   "node id listed in md"): C10_leader_entry_unlisted, C10_two_loads_routing (hence _wire) are FALSE there on the
   seed's own history (sd_md1, sd_md2 below: alpha/0 -> (4, b4:9095), alpha/2 -> None), the cached coordinator of
   ex_coordinator_survives_load is lost, and C10_update_metadata_routing is false on a response that names a
   leader it does not list.  Non-vacuity examples: section 7 (one scenario shared by all theorems).

   Not done / not proved:
   - the forward direction "fetch_metadata returns view_metadata r when the stream delivers frame(print_metadata r)":
     there is no forward lemma for get_response / read_exact in NetFacts (only inversions), C06_fetch_metadata_first
     stops at `get_response dec_metadata_resp h (...)`.  C10_load_metadata_entries therefore quantifies over the
     response that fetch_metadata returned.
   - histories longer than two loads as ONE statement (iterate C10_leader_entry_listed / _unlisted; C06_history
     gives the abstract view of any history).
   - the third list of topics_view (ids with a leader) is shown only structurally in C10_topics_view_entry.

   All statements are about the unchanged model.  C6 = Proofs.C06Facts (abstract view, refinement lemmas). *)
From Coq Require Import ZifyBool Sorting.Permutation.
From KV Require Import Base.Prelude Gen.ErrorCodes Gen.Consts Model.Codecs Model.Requests Model.Responses
                       Model.ClientState Model.Net Model.Client.
From KV Require Import Proofs.BytesFacts Spec.RespGrammar Proofs.C10Facts Proofs.C10Extra.
From KV Require Proofs.C06Facts Proofs.C06Extra Proofs.NetFacts.
From KV Require Model.Val Model.Dispatch.
Ltac Zify.zify_post_hook ::= Z.div_mod_to_equations.

(* ================================================================================== *)
(* 1. what topics() reports for one partition                                         *)
(* ================================================================================== *)
Definition leader_entry (s : cstate) (t : bytes) (k : Z) : option (Z * bytes) :=
  match partitions_for s t with
  | None => None
  | Some ps => match partition_ref ps k with
               | None => None
               | Some bref => option_map C6.bpair (broker_of s bref)
               end
  end.

Lemma find_broker_entry s t k : find_broker s t k = option_map snd (leader_entry s t k).
Proof.
  unfold find_broker, leader_entry. destruct (partitions_for s t) as [ps|]; [|reflexivity].
  destruct (partition_ref ps k) as [bref|]; [|reflexivity].
  destruct (broker_of s bref) as [b|]; reflexivity.
Qed.

(* the entry, read in the abstract view of C06Facts *)
Lemma leader_entry_abs s t k : C6.inv s ->
  leader_entry s t k = match C6.leader_of (C6.abs s) t k with
                       | Some l => option_map (pair l) (assoc_z l (C6.a_host (C6.abs s)))
                       | None => None
                       end.
Proof.
  intros (Hnd & _). unfold leader_entry, partitions_for, partition_ref, broker_of, C6.leader_of, C6.abs.
  cbn [C6.a_topics C6.a_host]. unfold C6.abs_tps. rewrite (C6.assoc_bytes_map (map (C6.ref_node (brokers s)))).
  destruct (assoc_bytes t (topic_partitions s)) as [ps|]; cbn [option_map]; [|reflexivity].
  rewrite C6.nth_z_map. destruct (nth_z ps k) as [bref|]; cbn [option_map]; [|reflexivity].
  unfold C6.ref_node. destruct (nth_z (brokers s) bref) as [b|] eqn:E; cbn [option_map]; [|reflexivity].
  apply C6.nth_z_some in E. destruct E as [_ E].
  rewrite (C6.assoc_bpair (brokers s) _ b Hnd E). reflexivity.
Qed.

Lemma leader_entry_known s t k l h : C6.inv s -> leader_entry s t k = Some (l, h) ->
  C6.leader_of (C6.abs s) t k = Some l /\ assoc_z l (map C6.bpair (brokers s)) = Some h.
Proof.
  intros Hinv H. rewrite (leader_entry_abs s t k Hinv) in H.
  destruct (C6.leader_of (C6.abs s) t k) as [l'|]; [|discriminate].
  change (C6.a_host (C6.abs s)) with (map C6.bpair (brokers s)) in H.
  destruct (assoc_z l' (map C6.bpair (brokers s))) as [h'|] eqn:E; [|discriminate].
  cbn [option_map] in H. injection H as Hl Hh. subst l' h'. split; [reflexivity|exact E].
Qed.

Lemma leader_entry_none s t k : C6.inv s -> leader_entry s t k = None -> C6.leader_of (C6.abs s) t k = None.
Proof.
  intros Hinv H.
  destruct (C6.leader_of (C6.abs s) t k) as [l|] eqn:E; [|reflexivity]. exfalso.
  (* a recorded leader is a valid reference, hence has an address *)
  revert H E. destruct Hinv as (Hnd & _).
  unfold leader_entry, partitions_for, partition_ref, broker_of, C6.leader_of, C6.abs.
  cbn [C6.a_topics]. unfold C6.abs_tps. rewrite (C6.assoc_bytes_map (map (C6.ref_node (brokers s)))).
  destruct (assoc_bytes t (topic_partitions s)) as [ps|]; cbn [option_map]; [|discriminate].
  rewrite C6.nth_z_map. destruct (nth_z ps k) as [bref|]; cbn [option_map]; [|discriminate].
  unfold C6.ref_node. destruct (nth_z (brokers s) bref) as [b|]; cbn [option_map]; discriminate.
Qed.

(* the address of node l after a load that received md *)
Definition host_after (old : option bytes) (md : metadata_resp) (l : Z) : option bytes :=
  match C6.last_broker (md_brokers md) l with
  | Some m => Some (host_port (bm_host m) (bm_port m))
  | None => old
  end.

Lemma merged_host s md l :
  assoc_z l (C6.merge_hosts (map C6.bpair (brokers s)) (md_brokers md))
  = host_after (assoc_z l (map C6.bpair (brokers s))) md l.
Proof.
  pose proof (C6.C06_merge_host_lookup (C6.abs s) md l) as Hm. unfold C6.merge in Hm. cbn [C6.a_host] in Hm.
  exact Hm.
Qed.

(* ================================================================================== *)
(* 2. one load: topics contained in the response (node id and address)                 *)
(* ================================================================================== *)
Theorem C10_leader_entry_listed : forall s md s' t tm k l,
  C6.inv s -> C6.small s' -> update_metadata s md = Ok s' ->
  C6.last_topic (md_topics md) t = Some tm ->
  0 <= k < ulen (tm_partitions tm) ->
  C6.listed_leader (tm_partitions tm) k = Some l ->
  leader_entry s' t k = option_map (pair l) (host_after (assoc_z l (map C6.bpair (brokers s))) md l).
Proof.
  intros s md s' t tm k l Hinv Hsm Hupd Hlt Hk Hl.
  pose proof (C6.C06_inv_step s md s' Hinv Hupd) as Hinv'.
  pose proof (C6.C06_refines_code s md s' Hinv Hsm Hupd) as Habs.
  remember (C6.merge_hosts (C6.a_host (C6.abs s)) (md_brokers md)) as h eqn:Hh.
  destruct (code_fold_lookup h (md_topics md) (C6.a_topics (C6.abs s)) t tm Hlt) as [old Hold].
  assert (Htop : assoc_bytes t (C6.a_topics (C6.abs s')) = Some (C6.code_vec h old (tm_partitions tm))).
  { rewrite Habs. unfold C6.merge_code. cbn [C6.a_topics]. rewrite <- Hh. exact Hold. }
  assert (Hhost : C6.a_host (C6.abs s') = h). { rewrite Habs, Hh. reflexivity. }
  rewrite (leader_entry_abs s' t k Hinv'). unfold C6.leader_of.
  rewrite Htop, (code_vec_nth_z h old _ k l Hk Hl), Hhost.
  change (C6.a_host (C6.abs s)) with (map C6.bpair (brokers s)) in Hh.
  rewrite <- merged_host, <- Hh. unfold C6.known_leader, C6.known.
  destruct (assoc_z l h) as [x|] eqn:E; [rewrite E|]; reflexivity.
Qed.

(* ================================================================================== *)
(* 3. one load: topics NOT contained in the response                                   *)
(* ================================================================================== *)
Theorem C10_leader_entry_unlisted : forall s md s' t,
  C6.inv s -> C6.small s' -> update_metadata s md = Ok s' ->
  C6.last_topic (md_topics md) t = None ->
  partitions_for s' t = partitions_for s t /\
  forall k, leader_entry s' t k = match leader_entry s t k with
                                  | Some (l, h) => option_map (pair l) (host_after (Some h) md l)
                                  | None => None
                                  end.
Proof.
  intros s md s' t Hinv Hsm Hupd Hlt.
  pose proof (C6.C06_inv_step s md s' Hinv Hupd) as Hinv'.
  pose proof (C6.C06_refines_code s md s' Hinv Hsm Hupd) as Habs.
  assert (Hnot : ~ In t (map tm_topic (md_topics md))).
  { clear - Hlt. induction (md_topics md) as [|tm tms IH]; [intros []|].
    cbn [C6.last_topic] in Hlt. destruct (C6.last_topic tms t); [discriminate|].
    destruct (bytes_eqb (tm_topic tm) t) eqn:E; [discriminate|].
    cbn [map In]. intros [H|H]; [|exact (IH eq_refl H)].
    rewrite H, bytes_eqb_refl in E. discriminate. }
  split; [exact (C6.C06_stable_refs s md s' t Hupd Hnot)|].
  intros k.
  assert (Hlead : C6.leader_of (C6.abs s') t k = C6.leader_of (C6.abs s) t k).
  { unfold C6.leader_of. rewrite Habs. unfold C6.merge_code. cbn [C6.a_topics].
    rewrite code_fold_other by exact Hlt. reflexivity. }
  assert (Hhost : C6.a_host (C6.abs s') = C6.merge_hosts (map C6.bpair (brokers s)) (md_brokers md)).
  { rewrite Habs. reflexivity. }
  rewrite (leader_entry_abs s' t k Hinv'), Hlead, Hhost.
  destruct (leader_entry s t k) as [[l h]|] eqn:E.
  - destruct (leader_entry_known s t k l h Hinv E) as [El Eh]. rewrite El, merged_host, Eh. reflexivity.
  - rewrite (leader_entry_none s t k Hinv E). reflexivity.
Qed.

(* in particular: the node id never changes, and the address only if the response lists that node *)
Corollary C10_unlisted_topic_keeps_leader : forall s md s' t k l h,
  C6.inv s -> C6.small s' -> update_metadata s md = Ok s' ->
  C6.last_topic (md_topics md) t = None ->
  leader_entry s t k = Some (l, h) ->
  exists h', leader_entry s' t k = Some (l, h') /\
             (C6.last_broker (md_brokers md) l = None -> h' = h) /\
             find_broker s' t k = Some h'.
Proof.
  intros s md s' t k l h Hinv Hsm Hupd Hlt He.
  destruct (C10_leader_entry_unlisted s md s' t Hinv Hsm Hupd Hlt) as [_ H]. specialize (H k).
  rewrite He in H. unfold host_after in H.
  destruct (C6.last_broker (md_brokers md) l) as [m|] eqn:Eb; cbn [option_map] in H.
  - exists (host_port (bm_host m) (bm_port m)). split; [exact H|]. split; [discriminate|].
    rewrite find_broker_entry, H. reflexivity.
  - exists h. split; [exact H|]. split; [reflexivity|]. rewrite find_broker_entry, H. reflexivity.
Qed.

Corollary C10_unlisted_topic_keeps_noleader : forall s md s' t k,
  C6.inv s -> C6.small s' -> update_metadata s md = Ok s' ->
  C6.last_topic (md_topics md) t = None ->
  leader_entry s t k = None -> leader_entry s' t k = None.
Proof.
  intros s md s' t k Hinv Hsm Hupd Hlt He.
  destruct (C10_leader_entry_unlisted s md s' t Hinv Hsm Hupd Hlt) as [_ H]. rewrite (H k), He. reflexivity.
Qed.

(* ================================================================================== *)
(* 4. the seed's history: two loads, the second one does not mention the topic          *)
(* ================================================================================== *)
Theorem C10_two_loads_routing : forall s0 md1 s1 md2 s2 t tm k l m1,
  C6.inv s0 ->
  ulen (brokers s0) + ulen (md_brokers md1) + ulen (md_brokers md2) <= UNKNOWN_BROKER_INDEX ->
  update_metadata s0 md1 = Ok s1 -> update_metadata s1 md2 = Ok s2 ->
  C6.last_topic (md_topics md1) t = Some tm ->
  0 <= k < ulen (tm_partitions tm) ->
  C6.listed_leader (tm_partitions tm) k = Some l ->
  C6.last_broker (md_brokers md1) l = Some m1 ->
  C6.last_topic (md_topics md2) t = None ->
  leader_entry s2 t k
  = Some (l, match C6.last_broker (md_brokers md2) l with
             | Some m2 => host_port (bm_host m2) (bm_port m2)
             | None => host_port (bm_host m1) (bm_port m1)
             end)
  /\ option_map (@length Z) (partitions_for s2 t) = Some (length (tm_partitions tm)).
Proof.
  intros s0 md1 s1 md2 s2 t tm k l m1 Hinv Hsz H1 H2 Hlt Hk Hl Hb Hun.
  assert (Hnn2 : 0 <= ulen (md_brokers md2)) by (unfold ulen; lia).
  assert (Hsm1 : C6.small s1) by (apply (C6.small_step s0 md1 s1 Hinv); [lia|exact H1]).
  pose proof (C6.C06_inv_step s0 md1 s1 Hinv H1) as Hinv1.
  pose proof (C6.brokers_bound s0 md1 s1 Hinv H1) as Hb1.
  assert (Hsm2 : C6.small s2) by (apply (C6.small_step s1 md2 s2 Hinv1); [lia|exact H2]).
  pose proof (C10_leader_entry_listed s0 md1 s1 t tm k l Hinv Hsm1 H1 Hlt Hk Hl) as E1.
  unfold host_after in E1. rewrite Hb in E1. cbn [option_map] in E1.
  destruct (C10_leader_entry_unlisted s1 md2 s2 t Hinv1 Hsm2 H2 Hun) as [Hp E2].
  split.
  - rewrite (E2 k), E1. unfold host_after. destruct (C6.last_broker (md_brokers md2) l); reflexivity.
  - rewrite Hp.
    assert (Hsz1 : ulen (brokers s0) + ulen (md_brokers md1) <= UNKNOWN_BROKER_INDEX) by lia.
    exact (proj2 (C10_update_metadata_routing s0 md1 s1 t tm k l Hinv Hsz1 H1 Hlt Hk Hl)).
Qed.

(* WIRE LEVEL.  Two well-formed printed responses r1, r2 are decoded and loaded one after the other (no reset in
   between).  t is the last topic entry of r1 with its name, p the last partition entry of t with its id (one of
   0..N-1), b the last broker entry of r1 whose node id is p's leader, and r2 does not mention a topic of that
   name.  Then topics() still shows N partitions for the topic and, for partition id p, the leader's node id as
   printed in r1, at the address r2 prints for that node id (last entry) if it lists it, else at b's address. *)
Theorem C10_two_loads_wire : forall (r1 r2 : w_metadata) (rest1 rest2 : bytes) (s0 : cstate),
  wf_metadata r1 -> wf_metadata r2 -> C6.inv s0 ->
  ulen (brokers s0) + ulen (view_list (wm_brokers r1)) + ulen (view_list (wm_brokers r2)) <= UNKNOWN_BROKER_INDEX ->
  exists s1 s2,
    dec_metadata_resp (print_metadata r1 ++ rest1) = Ok (view_metadata r1, rest1) /\
    dec_metadata_resp (print_metadata r2 ++ rest2) = Ok (view_metadata r2, rest2) /\
    update_metadata s0 (view_metadata r1) = Ok s1 /\
    update_metadata s1 (view_metadata r2) = Ok s2 /\
    forall tpre t tpost ppre p ppost bpre b bpost,
      view_list (wm_topics r1) = tpre ++ t :: tpost ->
      (forall t', In t' tpost -> view_str (wtm_name t') <> view_str (wtm_name t)) ->
      view_list (wtm_partitions t) = ppre ++ p :: ppost ->
      (forall p', In p' ppost -> wpm_id p' <> wpm_id p) ->
      0 <= wpm_id p < ulen (view_list (wtm_partitions t)) ->
      view_list (wm_brokers r1) = bpre ++ b :: bpost -> wb_node b = wpm_leader p ->
      (forall b', In b' bpost -> wb_node b' <> wpm_leader p) ->
      (forall t', In t' (view_list (wm_topics r2)) -> view_str (wtm_name t') <> view_str (wtm_name t)) ->
      option_map (@length Z) (partitions_for s2 (view_str (wtm_name t)))
        = Some (length (view_list (wtm_partitions t))) /\
      ((forall b', In b' (view_list (wm_brokers r2)) -> wb_node b' <> wpm_leader p) ->
         leader_entry s2 (view_str (wtm_name t)) (wpm_id p)
           = Some (wpm_leader p, host_port (view_str (wb_host b)) (wb_port b))) /\
      (forall bpre2 b2 bpost2,
         view_list (wm_brokers r2) = bpre2 ++ b2 :: bpost2 -> wb_node b2 = wpm_leader p ->
         (forall b', In b' bpost2 -> wb_node b' <> wpm_leader p) ->
         leader_entry s2 (view_str (wtm_name t)) (wpm_id p)
           = Some (wpm_leader p, host_port (view_str (wb_host b2)) (wb_port b2))).
Proof.
  intros r1 r2 rest1 rest2 s0 Hwf1 Hwf2 Hinv Hsz.
  destruct (C6.C06_update_total s0 (view_metadata r1)) as [s1 Hs1].
  destruct (C6.C06_update_total s1 (view_metadata r2)) as [s2 Hs2].
  exists s1, s2. split; [apply C10_metadata_decode; exact Hwf1|]. split; [apply C10_metadata_decode; exact Hwf2|].
  split; [exact Hs1|]. split; [exact Hs2|].
  intros tpre t tpost ppre p ppost bpre b bpost Ht Htl Hp Hpl Hid Hb Hnode Hbl Hun.
  assert (Hsz' : ulen (brokers s0) + ulen (md_brokers (view_metadata r1)) + ulen (md_brokers (view_metadata r2))
                 <= UNKNOWN_BROKER_INDEX).
  { cbn [view_metadata md_brokers]. rewrite !view_arr_list. unfold ulen in *. rewrite !map_length. exact Hsz. }
  assert (Hlt : C6.last_topic (md_topics (view_metadata r1)) (view_str (wtm_name t)) = Some (view_topic_md t)).
  { cbn [view_metadata md_topics]. rewrite view_arr_list, Ht, map_app. cbn [map].
    apply (last_topic_decomp (map view_topic_md tpre) (view_topic_md t) (map view_topic_md tpost)).
    intros x Hx. apply in_map_iff in Hx. destruct Hx as [t' [<- Hin]]. apply (Htl t' Hin). }
  assert (Hparts : tm_partitions (view_topic_md t) = map view_partition_md (view_list (wtm_partitions t))).
  { cbn [view_topic_md tm_partitions]. apply view_arr_list. }
  assert (Hk : 0 <= wpm_id p < ulen (tm_partitions (view_topic_md t))).
  { rewrite Hparts. unfold ulen in *. rewrite map_length. exact Hid. }
  assert (Hll : C6.listed_leader (tm_partitions (view_topic_md t)) (wpm_id p) = Some (wpm_leader p)).
  { rewrite Hparts, Hp, map_app. cbn [map].
    apply (listed_leader_decomp (map view_partition_md ppre) (view_partition_md p) (map view_partition_md ppost)).
    intros x Hx. apply in_map_iff in Hx. destruct Hx as [p' [<- Hin]]. apply (Hpl p' Hin). }
  assert (Hlb : C6.last_broker (md_brokers (view_metadata r1)) (wpm_leader p) = Some (view_broker b)).
  { cbn [view_metadata md_brokers]. rewrite view_arr_list, Hb, map_app. cbn [map]. rewrite <- Hnode.
    change (wb_node b) with (bm_node (view_broker b)).
    apply (last_broker_decomp (map view_broker bpre) (view_broker b) (map view_broker bpost)).
    intros x Hx. apply in_map_iff in Hx. destruct Hx as [b' [<- Hin]]. cbn [view_broker bm_node].
    rewrite Hnode. apply (Hbl b' Hin). }
  assert (Hun' : C6.last_topic (md_topics (view_metadata r2)) (view_str (wtm_name t)) = None).
  { cbn [view_metadata md_topics]. rewrite view_arr_list. apply last_topic_none.
    intros x Hx. apply in_map_iff in Hx. destruct Hx as [t' [<- Hin]]. apply (Hun t' Hin). }
  destruct (C10_two_loads_routing s0 _ s1 _ s2 _ _ _ _ _ Hinv Hsz' Hs1 Hs2 Hlt Hk Hll Hlb Hun') as [He Hn].
  split; [|split].
  - rewrite Hn, Hparts, map_length. reflexivity.
  - intros Hnone. rewrite He. cbn [view_metadata md_brokers]. rewrite view_arr_list.
    rewrite last_broker_none; [reflexivity|].
    intros x Hx. apply in_map_iff in Hx. destruct Hx as [b' [<- Hin]]. apply (Hnone b' Hin).
  - intros bpre2 b2 bpost2 Hb2 Hnode2 Hbl2. rewrite He. cbn [view_metadata md_brokers].
    rewrite view_arr_list, Hb2, map_app. cbn [map]. rewrite <- Hnode2.
    change (wb_node b2) with (bm_node (view_broker b2)).
    rewrite (last_broker_decomp (map view_broker bpre2) (view_broker b2) (map view_broker bpost2)); [reflexivity|].
    intros x Hx. apply in_map_iff in Hx. destruct Hx as [b' [<- Hin]]. cbn [view_broker bm_node].
    rewrite Hnode2. apply (Hbl2 b' Hin).
Qed.

(* ================================================================================== *)
(* 5. through the public entry points load_metadata / load_metadata_all                *)
(* ================================================================================== *)
Module C6X := KV.Proofs.C06Extra.

(* what a successful load_metadata does to the table: the update with the response that fetch_metadata returned *)
Lemma load_metadata_update topics s s' :
  load_metadata topics s = (Ok tt, s') ->
  exists md s1, fetch_metadata topics s = (Ok md, s1) /\
                update_metadata (snd (next_correlation_id (cs (cl s)))) md = Ok (cs (cl s')).
Proof.
  intros H. rewrite C6X.load_metadata_split in H. apply NF.mbind_inv in H.
  destruct H as [(md & s1 & H1 & H2)|[(e & _ & He)|(w & _ & Hw)]]; [|discriminate|discriminate].
  destruct (C6X.apply_md_run _ _ _ _ H2) as (_ & _ & _ & _ & Hu). specialize (Hu eq_refl).
  destruct (C6X.fetch_metadata_cs _ _ _ _ H1) as [Hcs _]. rewrite Hcs in Hu.
  exists md, s1. split; [exact H1|exact Hu].
Qed.

Theorem C10_load_metadata_entries : forall topics s s',
  C6.inv (cs (cl s)) -> load_metadata topics s = (Ok tt, s') -> C6.small (cs (cl s')) ->
  exists md s1, fetch_metadata topics s = (Ok md, s1) /\
    (forall t tm k l,
        C6.last_topic (md_topics md) t = Some tm -> 0 <= k < ulen (tm_partitions tm) ->
        C6.listed_leader (tm_partitions tm) k = Some l ->
        leader_entry (cs (cl s')) t k
        = option_map (pair l) (host_after (assoc_z l (map C6.bpair (brokers (cs (cl s))))) md l)) /\
    (forall t,
        C6.last_topic (md_topics md) t = None ->
        partitions_for (cs (cl s')) t = partitions_for (cs (cl s)) t /\
        forall k, leader_entry (cs (cl s')) t k
                  = match leader_entry (cs (cl s)) t k with
                    | Some (l, h) => option_map (pair l) (host_after (Some h) md l)
                    | None => None
                    end).
Proof.
  intros topics s s' Hinv H Hsm. destruct (load_metadata_update topics s s' H) as (md & s1 & H1 & Hu).
  exists md, s1. split; [exact H1|].
  assert (Hinv1 : C6.inv (snd (next_correlation_id (cs (cl s))))) by exact Hinv.
  split.
  - intros t tm k l Hlt Hk Hl.
    exact (C10_leader_entry_listed _ md _ t tm k l Hinv1 Hsm Hu Hlt Hk Hl).
  - intros t Hlt. exact (C10_leader_entry_unlisted _ md _ t Hinv1 Hsm Hu Hlt).
Qed.

(* load_metadata_all = reset + load: afterwards the table is what this one response says; nothing of an earlier
   load survives (a topic the response does not list has no entry, a leader it does not list has no address) *)
Theorem C10_load_metadata_all_entries : forall s s',
  load_metadata_all s = (Ok tt, s') -> C6.small (cs (cl s')) ->
  exists md s1, fetch_metadata [] (C6X.reset_st s) = (Ok md, s1) /\
    (forall t tm k l,
        C6.last_topic (md_topics md) t = Some tm -> 0 <= k < ulen (tm_partitions tm) ->
        C6.listed_leader (tm_partitions tm) k = Some l ->
        leader_entry (cs (cl s')) t k
        = match C6.last_broker (md_brokers md) l with
          | Some m => Some (l, host_port (bm_host m) (bm_port m))
          | None => None
          end) /\
    (forall t, C6.last_topic (md_topics md) t = None ->
               partitions_for (cs (cl s')) t = None /\ forall k, leader_entry (cs (cl s')) t k = None).
Proof.
  intros s s' H Hsm.
  assert (Hl : load_metadata [] (C6X.reset_st s) = (Ok tt, s')) by exact H.
  assert (Hinv : C6.inv (cs (cl (C6X.reset_st s)))) by (apply C6.C06_inv_clear).
  destruct (C10_load_metadata_entries [] (C6X.reset_st s) s' Hinv Hl Hsm) as (md & s1 & H1 & Hlisted & Hunl).
  exists md, s1. split; [exact H1|]. split.
  - intros t tm k l Hlt Hk Hll. rewrite (Hlisted t tm k l Hlt Hk Hll). unfold host_after.
    destruct (C6.last_broker (md_brokers md) l); reflexivity.
  - intros t Hlt. destruct (Hunl t Hlt) as [Hp He]. split; [rewrite Hp; reflexivity|].
    intros k. rewrite (He k). reflexivity.
Qed.

(* ================================================================================== *)
(* 6. leader_entry is what the harness observes at topics()                            *)
(* ================================================================================== *)
Import KV.Model.Val KV.Model.Dispatch.

Lemma parts_view_nth s : forall ps id n bref, nth_error ps n = Some bref ->
  nth_error (parts_view s ps id) n
  = Some (vt "p" [VI (id + Z.of_nat n);
                  match broker_of s bref with
                  | Some b => vt "leader" [VI (b_node b); VB (b_host b)]
                  | None => vt "noleader" []
                  end]).
Proof.
  induction ps as [|x ps IH]; intros id n bref H; [destruct n; discriminate|].
  destruct n as [|n]; cbn [nth_error parts_view] in *.
  - injection H as ->. replace (id + Z.of_nat 0) with id by lia. reflexivity.
  - rewrite (IH (id + 1) n bref H). replace (id + 1 + Z.of_nat n) with (id + Z.of_nat (S n)) by lia. reflexivity.
Qed.

Lemma parts_view_length s : forall ps id, length (parts_view s ps id) = length ps.
Proof. induction ps as [|x ps IH]; intros id; cbn [parts_view length]; [reflexivity|]. rewrite IH. reflexivity. Qed.

(* every topic the client knows is one "topic" entry of the view (in table order), with one "p" entry per
   partition id 0..N-1, in order, carrying leader_entry *)
Theorem C10_topics_view_entry : forall s t ps k,
  C6.inv s -> In (t, ps) (topic_partitions s) -> 0 <= k < ulen ps ->
  topics_view s = VL (map (fun '(t, ps) => vt "topic" [VB t; VL (parts_view s ps 0);
                                                        VL (map (fun '(id, _) => VI id) (leaders_from s ps 0))])
                          (topic_partitions s)) /\
  length (parts_view s ps 0) = length ps /\
  nth_error (parts_view s ps 0) (Z.to_nat k)
  = Some (vt "p" [VI k; match leader_entry s t k with
                        | Some (l, h) => vt "leader" [VI l; VB h]
                        | None => vt "noleader" []
                        end]).
Proof.
  intros s t ps k (_ & _ & Hnd) Hin Hk. split; [reflexivity|]. split; [apply parts_view_length|].
  assert (Hps : partitions_for s t = Some ps).
  { unfold partitions_for. clear Hk. induction (topic_partitions s) as [|[t' ps'] r IH]; [destruct Hin|].
    cbn [map fst] in Hnd. inversion Hnd as [|x xs Hni Hnd']; subst. cbn [assoc_bytes].
    destruct Hin as [Heq|Hin].
    - injection Heq as -> ->. rewrite bytes_eqb_refl. reflexivity.
    - destruct (bytes_eqb t' t) eqn:E; [|apply IH; assumption].
      apply bytes_eqb_eq in E. subst t'. exfalso. apply Hni.
      change t with (fst (t, ps)). apply in_map. exact Hin. }
  assert (Hn : exists bref, nth_error ps (Z.to_nat k) = Some bref).
  { destruct (nth_error ps (Z.to_nat k)) as [x|] eqn:E; [eauto|]. apply nth_error_None in E. unfold ulen in Hk. lia. }
  destruct Hn as [bref Hn]. rewrite (parts_view_nth s ps 0 _ bref Hn).
  replace (0 + Z.of_nat (Z.to_nat k)) with k by lia.
  unfold leader_entry. rewrite Hps. unfold partition_ref.
  replace (nth_z ps k) with (Some bref) by (symmetry; apply C6.nth_z_some; split; [lia|exact Hn]).
  destruct (broker_of s bref) as [b|]; reflexivity.
Qed.

(* ================================================================================== *)
(* 6b. the cached group coordinator (also a reference into the broker vector)           *)
(* ================================================================================== *)
(* a metadata load leaves the coordinator cached for a group with the same NODE; its address follows what the
   response says about that node, else stays *)
Theorem C10_coordinator_survives_load : forall s md s' g i b,
  C6.inv s -> update_metadata s md = Ok s' ->
  assoc_bytes g (group_coordinators s) = Some i -> nth_z (brokers s) i = Some b ->
  exists b', assoc_bytes g (group_coordinators s') = Some i /\
             nth_z (brokers s') i = Some b' /\ b_node b' = b_node b /\
             Some (b_host b') = host_after (Some (b_host b)) md (b_node b) /\
             group_coordinator s' g = Some (b_host b').
Proof.
  intros s md s' g i b Hinv Hupd Hg Hb.
  pose proof (C6.C06_inv_step s md s' Hinv Hupd) as (Hnd' & _).
  destruct Hinv as (Hnd & _).
  rewrite C6.update_metadata_eq in Hupd. injection Hupd as <-.
  unfold group_coordinator, C6.upd_fun in *. cbn [brokers group_coordinators] in *.
  destruct (update_brokers s md) as [bs' idx'] eqn:Hub. cbn [fst] in *.
  destruct (C6.update_brokers_spec s md bs' idx' Hnd Hub) as (_ & _ & [sfx Hsfx] & Hhost & _).
  assert (Hn : nth_z (map b_node bs') i = Some (b_node b)).
  { rewrite Hsfx. apply C6.nth_z_some in Hb as Hb'. destruct Hb' as [Hi0 Hi].
    rewrite C6.nth_z_app1.
    - rewrite C6.nth_z_map, Hb. reflexivity.
    - rewrite C6.ulen_map. assert (Hlt : (Z.to_nat i < length (brokers s))%nat) by (apply nth_error_Some; congruence).
      unfold ulen. lia. }
  rewrite C6.nth_z_map in Hn. destruct (nth_z bs' i) as [b'|] eqn:Eb'; [|discriminate].
  cbn [option_map] in Hn. injection Hn as Hn.
  exists b'. split; [exact Hg|]. split; [reflexivity|]. split; [exact Hn|].
  split; [|rewrite Hg, Eb'; reflexivity].
  apply C6.nth_z_some in Eb'. destruct Eb' as [_ Eb']. apply C6.nth_z_some in Hb. destruct Hb as [_ Hb].
  pose proof (C6.assoc_bpair bs' _ b' Hnd' Eb') as H1.
  pose proof (C6.assoc_bpair (brokers s) _ b Hnd Hb) as H0.
  rewrite Hhost, Hn, merged_host, H0 in H1. symmetry. exact H1.
Qed.

(* ================================================================================== *)
(* 7. non-vacuity: the history of the seeded demonstration                             *)
(* ================================================================================== *)
(* brokers 1 b1:9092, 2 b2:9093, 3 b3:9094, 4 b4:9095 (listed in this order);
   alpha: 0 -> 3, 1 -> 1, 2 -> 4 (never broker 2);  beta: 0 -> 2, 1 -> 1.
   Then broker 2 leaves, beta/0 moves to broker 3, and the client reloads "beta" only. *)
Definition sd_md1 : metadata_resp :=
  {| md_corr := 1;
     md_brokers := [C6.ex_bm 1 (tag "b1") 9092; C6.ex_bm 2 (tag "b2") 9093; C6.ex_bm 3 (tag "b3") 9094;
                    C6.ex_bm 4 (tag "b4") 9095];
     md_topics := [C6.ex_tm (tag "alpha") [C6.ex_pm 0 3; C6.ex_pm 1 1; C6.ex_pm 2 4];
                   C6.ex_tm (tag "beta") [C6.ex_pm 0 2; C6.ex_pm 1 1]] |}.
Definition sd_md2 : metadata_resp :=
  {| md_corr := 2;
     md_brokers := [C6.ex_bm 1 (tag "b1") 9092; C6.ex_bm 3 (tag "b3") 9094; C6.ex_bm 4 (tag "b4") 9095];
     md_topics := [C6.ex_tm (tag "beta") [C6.ex_pm 0 3; C6.ex_pm 1 1]] |}.
(* variant: broker 4 is listed again, at a new address *)
Definition sd_md2' : metadata_resp :=
  {| md_corr := 2;
     md_brokers := [C6.ex_bm 1 (tag "b1") 9092; C6.ex_bm 3 (tag "b3") 9094; C6.ex_bm 4 (tag "c4") 19095];
     md_topics := [C6.ex_tm (tag "beta") [C6.ex_pm 0 3; C6.ex_pm 1 1]] |}.
Definition sd_s1 : cstate := C6.ex_load cstate_new sd_md1.
Definition sd_s2 : cstate := C6.ex_load sd_s1 sd_md2.
Definition sd_s2' : cstate := C6.ex_load sd_s1 sd_md2'.

Example sd_inv_s1 : C6.inv sd_s1.
Proof. apply (C6.C06_inv_step cstate_new sd_md1); [apply C6.C06_inv_init | vm_compute; reflexivity]. Qed.

(* C10_leader_entry_listed: hypotheses and the value it gives *)
Example ex_leader_entry_listed :
  C6.inv cstate_new /\ C6.small sd_s1 /\ update_metadata cstate_new sd_md1 = Ok sd_s1 /\
  C6.last_topic (md_topics sd_md1) (tag "alpha")
    = Some (C6.ex_tm (tag "alpha") [C6.ex_pm 0 3; C6.ex_pm 1 1; C6.ex_pm 2 4]) /\
  C6.listed_leader [C6.ex_pm 0 3; C6.ex_pm 1 1; C6.ex_pm 2 4] 2 = Some 4 /\
  leader_entry sd_s1 (tag "alpha") 2 = Some (4, tag "b4:9095") /\
  option_map (pair 4) (host_after (assoc_z 4 (map C6.bpair (brokers cstate_new))) sd_md1 4)
    = Some (4, tag "b4:9095").
Proof.
  split; [apply C6.C06_inv_init|]. split; [unfold C6.small; vm_compute; discriminate|].
  vm_compute. repeat split; reflexivity.
Qed.

(* C10_leader_entry_unlisted / C10_unlisted_topic_keeps_leader: alpha is not in the second response and is reported
   exactly as before; beta is reported as the second response says *)
Example ex_leader_entry_unlisted :
  C6.inv sd_s1 /\ C6.small sd_s2 /\ update_metadata sd_s1 sd_md2 = Ok sd_s2 /\
  C6.last_topic (md_topics sd_md2) (tag "alpha") = None /\
  map (leader_entry sd_s1 (tag "alpha")) [0; 1; 2; 3]
    = [Some (3, tag "b3:9094"); Some (1, tag "b1:9092"); Some (4, tag "b4:9095"); None] /\
  map (leader_entry sd_s2 (tag "alpha")) [0; 1; 2; 3] = map (leader_entry sd_s1 (tag "alpha")) [0; 1; 2; 3] /\
  map (leader_entry sd_s2 (tag "beta")) [0; 1] = [Some (3, tag "b3:9094"); Some (1, tag "b1:9092")] /\
  map b_node (brokers sd_s2) = [1; 2; 3; 4].
Proof.
  split; [exact sd_inv_s1|]. split; [unfold C6.small; vm_compute; discriminate|].
  vm_compute. repeat split; reflexivity.
Qed.
(* the address follows the node: broker 4 re-listed at a new address, alpha/2 keeps node id 4 *)
Example ex_leader_entry_unlisted_moved :
  update_metadata sd_s1 sd_md2' = Ok sd_s2' /\ C6.small sd_s2' /\
  C6.last_topic (md_topics sd_md2') (tag "alpha") = None /\
  leader_entry sd_s2' (tag "alpha") 2 = Some (4, tag "c4:19095") /\
  option_map (pair 4) (host_after (Some (tag "b4:9095")) sd_md2' 4) = Some (4, tag "c4:19095").
Proof. split; [vm_compute; reflexivity|]. split; [unfold C6.small; vm_compute; discriminate|].
       vm_compute. repeat split; reflexivity. Qed.
Example ex_unlisted_topic_keeps_noleader :
  leader_entry sd_s1 (tag "gamma") 0 = None /\ leader_entry sd_s2 (tag "gamma") 0 = None /\
  C6.last_topic (md_topics sd_md2) (tag "gamma") = None.
Proof. vm_compute. repeat split; reflexivity. Qed.

(* C10_two_loads_routing: all hypotheses, for alpha/2 (the partition the seeded change reports as leaderless)
   and alpha/0 (the one it attributes to broker 4) *)
Example ex_two_loads_routing :
  C6.inv cstate_new /\
  ulen (brokers cstate_new) + ulen (md_brokers sd_md1) + ulen (md_brokers sd_md2) <= UNKNOWN_BROKER_INDEX /\
  update_metadata cstate_new sd_md1 = Ok sd_s1 /\ update_metadata sd_s1 sd_md2 = Ok sd_s2 /\
  C6.last_topic (md_topics sd_md1) (tag "alpha")
    = Some (C6.ex_tm (tag "alpha") [C6.ex_pm 0 3; C6.ex_pm 1 1; C6.ex_pm 2 4]) /\
  C6.listed_leader [C6.ex_pm 0 3; C6.ex_pm 1 1; C6.ex_pm 2 4] 2 = Some 4 /\
  C6.last_broker (md_brokers sd_md1) 4 = Some (C6.ex_bm 4 (tag "b4") 9095) /\
  C6.listed_leader [C6.ex_pm 0 3; C6.ex_pm 1 1; C6.ex_pm 2 4] 0 = Some 3 /\
  C6.last_broker (md_brokers sd_md1) 3 = Some (C6.ex_bm 3 (tag "b3") 9094) /\
  C6.last_topic (md_topics sd_md2) (tag "alpha") = None /\
  leader_entry sd_s2 (tag "alpha") 2 = Some (4, tag "b4:9095") /\
  leader_entry sd_s2 (tag "alpha") 0 = Some (3, tag "b3:9094") /\
  option_map (@length Z) (partitions_for sd_s2 (tag "alpha")) = Some 3%nat.
Proof.
  split; [apply C6.C06_inv_init|]. split; [vm_compute; discriminate|].
  vm_compute. repeat split; reflexivity.
Qed.

(* the same history as printed responses *)
Definition sd_b (n : Z) (h : bytes) (p : Z) : w_broker := {| wb_node := n; wb_host := Some h; wb_port := p |}.
Definition sd_alpha : w_topic_md :=
  {| wtm_error := 0; wtm_name := Some (tag "alpha"); wtm_partitions := Some [ex_wpm 0 3; ex_wpm 1 1; ex_wpm 2 4] |}.
Definition sd_r1 : w_metadata :=
  {| wm_corr := 1;
     wm_brokers := Some [sd_b 1 (tag "b1") 9092; sd_b 2 (tag "b2") 9093; sd_b 3 (tag "b3") 9094;
                         sd_b 4 (tag "b4") 9095];
     wm_topics := Some [ sd_alpha;
                         {| wtm_error := 0; wtm_name := Some (tag "beta");
                            wtm_partitions := Some [ex_wpm 0 2; ex_wpm 1 1] |} ] |}.
Definition sd_r2 : w_metadata :=
  {| wm_corr := 2;
     wm_brokers := Some [sd_b 1 (tag "b1") 9092; sd_b 3 (tag "b3") 9094; sd_b 4 (tag "b4") 9095];
     wm_topics := Some [ {| wtm_error := 0; wtm_name := Some (tag "beta");
                            wtm_partitions := Some [ex_wpm 0 3; ex_wpm 1 1] |} ] |}.
Example sd_r1_wf : wf_metadata sd_r1.
Proof. unfold sd_r1, sd_alpha, sd_b, ex_wpm, wf_metadata, wf_array, wf_broker, wf_topic_md, wf_partition_md, wf_string,
         wf_array, in_i16, in_i32; cbn [wm_corr wm_brokers wm_topics]. wf_compute. Qed.
Example sd_r2_wf : wf_metadata sd_r2.
Proof. unfold sd_r2, sd_b, ex_wpm, wf_metadata, wf_array, wf_broker, wf_topic_md, wf_partition_md, wf_string,
         wf_array, in_i16, in_i32; cbn [wm_corr wm_brokers wm_topics]. wf_compute. Qed.

(* the instance of C10_two_loads_wire for alpha/2: whatever states the two updates produce *)
Example ex_two_loads_wire : forall s1 s2,
  update_metadata cstate_new (view_metadata sd_r1) = Ok s1 -> update_metadata s1 (view_metadata sd_r2) = Ok s2 ->
  leader_entry s2 (tag "alpha") 2 = Some (4, host_port (tag "b4") 9095) /\
  option_map (@length Z) (partitions_for s2 (tag "alpha")) = Some 3%nat.
Proof.
  intros s1 s2 H1 H2.
  assert (Hsz : ulen (brokers cstate_new) + ulen (view_list (wm_brokers sd_r1)) + ulen (view_list (wm_brokers sd_r2))
                <= UNKNOWN_BROKER_INDEX) by (vm_compute; discriminate).
  destruct (C10_two_loads_wire sd_r1 sd_r2 [] [] cstate_new sd_r1_wf sd_r2_wf C6.C06_inv_init Hsz)
    as (s1' & s2' & _ & _ & H1' & H2' & H).
  rewrite H1 in H1'. injection H1' as <-. rewrite H2 in H2'. injection H2' as <-.
  destruct (H [] sd_alpha
              [ {| wtm_error := 0; wtm_name := Some (tag "beta"); wtm_partitions := Some [ex_wpm 0 2; ex_wpm 1 1] |} ]
              [ex_wpm 0 3; ex_wpm 1 1] (ex_wpm 2 4) []
              [sd_b 1 (tag "b1") 9092; sd_b 2 (tag "b2") 9093; sd_b 3 (tag "b3") 9094] (sd_b 4 (tag "b4") 9095) [])
    as (Hn & _ & Hb).
  - reflexivity.
  - intros t' [<-|[]]. vm_compute. discriminate.
  - reflexivity.
  - intros p' [].
  - vm_compute. split; [discriminate|reflexivity].
  - reflexivity.
  - reflexivity.
  - intros b' [].
  - intros t' [<-|[]]. vm_compute. discriminate.
  - split; [|exact Hn].
    apply (Hb [sd_b 1 (tag "b1") 9092; sd_b 3 (tag "b3") 9094] (sd_b 4 (tag "b4") 9095) []);
      [reflexivity|reflexivity|intros b' []].
Qed.

(* through the entry points: the client that knows sd_s1 calls load_metadata ["beta"] and is answered sd_r2 *)
Definition sd_st : st :=
  {| script := [OConn true; OWrote 24; OData (enc_i32 (ulen (print_metadata sd_r2))); OData (print_metadata sd_r2)];
     trace := []; anyq := []; hostq := []; fetchq := []; entryq := [];
     cl := {| cfg := default_config [tag "a:1"]; cs := sd_s1; conns := [] |}; env := C6.ex_env |}.
Example ex_load_metadata_entries :
  let '(r, s) := load_metadata [tag "beta"] sd_st in
  r = Ok tt /\ C6.inv (cs (cl sd_st)) /\ C6.small (cs (cl s)) /\
  map (leader_entry (cs (cl s)) (tag "alpha")) [0; 1; 2]
    = [Some (3, tag "b3:9094"); Some (1, tag "b1:9092"); Some (4, tag "b4:9095")] /\
  map (leader_entry (cs (cl s)) (tag "beta")) [0; 1] = [Some (3, tag "b3:9094"); Some (1, tag "b1:9092")].
Proof.
  vm_compute. split; [reflexivity|]. split; [exact sd_inv_s1|]. split; [discriminate|].
  split; reflexivity.
Qed.
Example ex_load_metadata_all_entries :
  let '(r, s) := load_metadata_all sd_st in
  r = Ok tt /\ C6.small (cs (cl s)) /\
  map (leader_entry (cs (cl s)) (tag "alpha")) [0; 1; 2] = [None; None; None] /\
  partitions_for (cs (cl s)) (tag "alpha") = None /\
  map (leader_entry (cs (cl s)) (tag "beta")) [0; 1] = [Some (3, tag "b3:9094"); Some (1, tag "b1:9092")].
Proof. vm_compute. split; [reflexivity|]. split; [discriminate|]. repeat split; reflexivity. Qed.

(* what the harness sees at topics() after the two loads: the "p" entry of alpha/2 *)
Example ex_topics_view_entry :
  In (tag "alpha", [2; 0; 3]) (topic_partitions sd_s2) /\
  nth_error (parts_view sd_s2 [2; 0; 3] 0) 2 = Some (vt "p" [VI 2; vt "leader" [VI 4; VB (tag "b4:9095")]]) /\
  leader_entry sd_s2 (tag "alpha") 2 = Some (4, tag "b4:9095").
Proof. vm_compute. split; [left; reflexivity|]. split; reflexivity. Qed.

Print Assumptions C10_leader_entry_listed.
Print Assumptions C10_leader_entry_unlisted.
Print Assumptions C10_unlisted_topic_keeps_leader.
Print Assumptions C10_unlisted_topic_keeps_noleader.
Print Assumptions C10_two_loads_routing.
Print Assumptions C10_two_loads_wire.
Print Assumptions C10_load_metadata_entries.
Print Assumptions C10_load_metadata_all_entries.
Print Assumptions C10_topics_view_entry.

(* C10_coordinator_survives_load: group "g" was found on broker 4 (index 3 of the table) before the partial reload *)
Definition sd_s1g : cstate :=
  {| correlation := correlation sd_s1; brokers := brokers sd_s1; topic_partitions := topic_partitions sd_s1;
     group_coordinators := [(tag "g", 3)] |}.
Example ex_coordinator_survives_load :
  let s2 := C6.ex_load sd_s1g sd_md2 in
  C6.inv sd_s1g /\ update_metadata sd_s1g sd_md2 = Ok s2 /\
  assoc_bytes (tag "g") (group_coordinators sd_s1g) = Some 3 /\
  option_map C6.bpair (nth_z (brokers sd_s1g) 3) = Some (4, tag "b4:9095") /\
  group_coordinator sd_s1g (tag "g") = Some (tag "b4:9095") /\
  group_coordinator s2 (tag "g") = Some (tag "b4:9095") /\
  group_coordinator (C6.ex_load sd_s1g sd_md2') (tag "g") = Some (tag "c4:19095").
Proof. split; [exact sd_inv_s1|]. vm_compute. repeat split; reflexivity. Qed.
Print Assumptions C10_coordinator_survives_load.
