(* C16: every producer and consumer setting takes effect, in any builder order.
   - for each option the builder field after any sequence of calls is the argument of the LAST
     call setting it (the default if none does); a call changes exactly one field;
   - Builder::create copies every field into the client configuration / the consumer / producer;
   - a Duration that does not fit an i32 of milliseconds is EInvalidDuration, before any I/O. *)
From KV Require Import Base.Prelude Gen.ErrorCodes Gen.Consts Model.Codecs Model.Requests Model.Responses
                       Model.ClientState Model.Net Model.Client Model.Producer Model.Consumer.
From KV Require Import Proofs.BytesFacts Proofs.C07Facts Proofs.C19Facts.
From Coq Require Import ZifyBool.
Ltac Zify.zify_post_hook ::= Z.div_mod_to_equations.

(* ================================================================================== *)
(* 0. "the last call wins", generically                                               *)
(* ================================================================================== *)

(* `sets c = Some v`: the call c sets the option to v;  `sets c = None`: c is about something else *)
Definition last_wins {B C T} (apply : B -> C -> B) (init : B) (proj : B -> T) (sets : C -> option T) : Prop :=
  (forall calls, Forall (fun c => sets c = None) calls -> proj (fold_left apply calls init) = proj init)
  /\ (forall l1 c l2 v, sets c = Some v -> Forall (fun c' => sets c' = None) l2 ->
        proj (fold_left apply (l1 ++ c :: l2) init) = v).

Section LastWins.
  Context {B C T : Type} (apply : B -> C -> B) (proj : B -> T) (sets : C -> option T).
  Hypothesis Hstep : forall b c, proj (apply b c) = match sets c with Some v => v | None => proj b end.

  Lemma fold_unset : forall calls b,
    Forall (fun c => sets c = None) calls -> proj (fold_left apply calls b) = proj b.
  Proof.
    induction calls as [|c calls IH]; intros b H; cbn [fold_left]; [reflexivity|].
    inversion H as [|? ? Hc Hr]; subst. rewrite (IH _ Hr), Hstep, Hc. reflexivity.
  Qed.

  Lemma last_wins_intro : forall init, last_wins apply init proj sets.
  Proof.
    intros init. split.
    - intros calls H. apply fold_unset. exact H.
    - intros l1 c l2 v Hc Hl2. rewrite fold_left_app. cbn [fold_left].
      rewrite (fold_unset _ _ Hl2), Hstep, Hc. reflexivity.
  Qed.
End LastWins.

Definition osome {T} (o : option T) : nat := match o with Some _ => 1%nat | None => 0%nat end.

(* ================================================================================== *)
(* 1. consumer builder                                                                *)
(* ================================================================================== *)

Definition sets_group (c : cbuilder_call) := match c with CWithGroup x => Some x | _ => None end.
Definition sets_fallback (c : cbuilder_call) := match c with CWithFallback x => Some x | _ => None end.
Definition sets_max_wait (c : cbuilder_call) := match c with CWithMaxWait x => Some x | _ => None end.
Definition sets_min_bytes (c : cbuilder_call) := match c with CWithMinBytes x => Some x | _ => None end.
Definition sets_max_bytes (c : cbuilder_call) := match c with CWithMaxBytes x => Some x | _ => None end.
Definition sets_retry_limit (c : cbuilder_call) := match c with CWithRetryLimit x => Some x | _ => None end.
Definition sets_crc (c : cbuilder_call) := match c with CWithCrc x => Some x | _ => None end.
(* the storage argument is an enum in Rust: 0 = Zookeeper, 1 = Kafka; the model maps anything
   else to "unset" *)
Definition sets_storage (c : cbuilder_call) :=
  match c with CWithStorage x => Some (if (x =? 0) || (x =? 1) then x else -1) | _ => None end.
Definition sets_idle (c : cbuilder_call) := match c with CWithIdle x => Some x | _ => None end.
Definition sets_client_id (c : cbuilder_call) := match c with CWithClientId x => Some (Some x) | _ => None end.

Theorem C16_consumer_last_wins : forall src,
  let init := cbuilder_new src in
  last_wins cbuilder_apply init cb_group sets_group
  /\ last_wins cbuilder_apply init cb_fallback sets_fallback
  /\ last_wins cbuilder_apply init cb_max_wait sets_max_wait
  /\ last_wins cbuilder_apply init cb_min_bytes sets_min_bytes
  /\ last_wins cbuilder_apply init cb_max_bytes sets_max_bytes
  /\ last_wins cbuilder_apply init cb_retry_limit sets_retry_limit
  /\ last_wins cbuilder_apply init cb_crc sets_crc
  /\ last_wins cbuilder_apply init cb_storage sets_storage
  /\ last_wins cbuilder_apply init cb_idle sets_idle
  /\ last_wins cbuilder_apply init cb_client_id sets_client_id.
Proof.
  intros src init. repeat split; apply last_wins_intro; intros b c; destruct c; reflexivity.
Qed.

(* every call sets exactly one thing (an option or a topic assignment) ... *)
Theorem C16_consumer_one_option_per_call : forall c,
  (osome (sets_group c) + osome (sets_fallback c) + osome (sets_max_wait c) + osome (sets_min_bytes c)
   + osome (sets_max_bytes c) + osome (sets_retry_limit c) + osome (sets_crc c) + osome (sets_storage c)
   + osome (sets_idle c) + osome (sets_client_id c) + osome (asg_call c) = 1)%nat.
Proof. destruct c; reflexivity. Qed.

(* ... and leaves every other field as it was *)
Theorem C16_consumer_independent : forall b c,
  (sets_group c = None -> cb_group (cbuilder_apply b c) = cb_group b)
  /\ (sets_fallback c = None -> cb_fallback (cbuilder_apply b c) = cb_fallback b)
  /\ (sets_max_wait c = None -> cb_max_wait (cbuilder_apply b c) = cb_max_wait b)
  /\ (sets_min_bytes c = None -> cb_min_bytes (cbuilder_apply b c) = cb_min_bytes b)
  /\ (sets_max_bytes c = None -> cb_max_bytes (cbuilder_apply b c) = cb_max_bytes b)
  /\ (sets_retry_limit c = None -> cb_retry_limit (cbuilder_apply b c) = cb_retry_limit b)
  /\ (sets_crc c = None -> cb_crc (cbuilder_apply b c) = cb_crc b)
  /\ (sets_storage c = None -> cb_storage (cbuilder_apply b c) = cb_storage b)
  /\ (sets_idle c = None -> cb_idle (cbuilder_apply b c) = cb_idle b)
  /\ (sets_client_id c = None -> cb_client_id (cbuilder_apply b c) = cb_client_id b)
  /\ (asg_call c = None -> cb_assign (cbuilder_apply b c) = cb_assign b).
Proof. intros b c. destruct c; repeat split; intros H; try reflexivity; discriminate. Qed.

Example C16_consumer_last_wins_ex :
  let b := fold_left cbuilder_apply
             [CWithMaxBytes 1; CWithGroup (tag "g1"); CWithStorage 1; CWithTopic (tag "t"); CWithCrc false;
              CWithMaxWait (7, 5000000); CWithGroup (tag "g2"); CWithMaxBytes 2; CWithClientId (tag "me");
              CWithFallback FbEarliest; CWithStorage 0; CWithIdle (9, 0); CWithRetryLimit 77; CWithMinBytes 3]
             (cbuilder_new (inl [tag "h:9092"])) in
  (cb_group b, cb_fallback b, cb_max_wait b, cb_min_bytes b, cb_max_bytes b, cb_retry_limit b, cb_crc b,
   cb_storage b, cb_idle b, cb_client_id b)
  = (tag "g2", FbEarliest, (7, 5000000), 3, 2, 77, false, 0, (9, 0), Some (tag "me")).
Proof. vm_compute. reflexivity. Qed.

(* ---- create: the fields reach the configuration and the consumer ------------------------ *)

Theorem C16_consumer_applied : forall g b wait,
  let g' := cfg_set_consumer g b wait in
  fetch_max_wait_time g' = wait
  /\ fetch_min_bytes g' = cb_min_bytes b
  /\ fetch_max_bytes_per_partition g' = cb_max_bytes b
  /\ fetch_crc_validation g' = cb_crc b
  /\ offset_storage g' = cb_storage b
  /\ idle_timeout g' = cb_idle b
  /\ client_id g' = match cb_client_id b with Some id => id | None => client_id g end
  /\ hosts g' = hosts g /\ compression g' = compression g
  /\ retry_backoff_time g' = retry_backoff_time g /\ retry_max_attempts g' = retry_max_attempts g.
Proof. intros g b wait g'. repeat split. Qed.

Definition st_with_client (s : st) (c : client) : st :=
  {| script := script s; trace := trace s; anyq := anyq s; hostq := hostq s; fetchq := fetchq s;
     entryq := entryq s; cl := c; env := env s |}.

(* what Builder::create does once the configuration is in place (the tail of consumer_create) *)
Definition consumer_create_rest (src : list bytes + client) (b : cbuilder) : M consumer :=
  let+ _ := (match src with inl _ => load_metadata_all | inr _ => ret tt end) in
  let asg := from_map (cb_assign b) in
  let+ c1 := get_client in
  let+ subs := lift (subscriptions_of (cs c1) asg) in
  let+ consumed := load_consumed_offsets (cb_group b) asg subs in
  let+ fetch := load_fetch_states (cb_fallback b) asg subs consumed in
  let+ c2 := get_client in
  ret {| k_client := c2; k_group := cb_group b; k_fallback := cb_fallback b;
         k_retry_limit := cb_retry_limit b; k_assign := asg; k_fetch := fetch; k_retry := [];
         k_consumed := consumed |}.

(* everything create does - metadata, offset loading - runs under the builder's configuration *)
Theorem C16_consumer_create_config : forall src calls s wait,
  let b := fold_left cbuilder_apply calls (cbuilder_new src) in
  cb_assign b <> [] -> to_millis_i32 (cb_max_wait b) = Ok wait ->
  consumer_create src calls s
  = consumer_create_rest src b
      (st_with_client s {| cfg := cfg_set_consumer (cfg (cl s)) b wait; cs := cs (cl s); conns := conns (cl s) |}).
Proof.
  intros src calls s wait b Ha Hw. unfold consumer_create. fold b. cbv zeta.
  destruct (cb_assign b) as [|a0 ar] eqn:Ea; [congruence|]. rewrite <- Ea.
  cbv beta iota delta [mbind get_client lift]. rewrite Hw. reflexivity.
Qed.

Lemma mbind_ok {A B} (m : M A) (f : A -> M B) s b s' :
  mbind m f s = (Ok b, s') -> exists a s1, m s = (Ok a, s1) /\ f a s1 = (Ok b, s').
Proof. unfold mbind. destruct (m s) as [[a|e|w] s1]; intros H; [eauto|discriminate|discriminate]. Qed.

(* the consumer uses group / fallback / retry limit / assignment of the builder *)
Theorem C16_consumer_create_uses : forall src calls s k s',
  consumer_create src calls s = (Ok k, s') ->
  let b := fold_left cbuilder_apply calls (cbuilder_new src) in
  k_group k = cb_group b /\ k_fallback k = cb_fallback b /\ k_retry_limit k = cb_retry_limit b
  /\ k_assign k = from_map (cb_assign b) /\ k_retry k = []
  /\ exists wait, to_millis_i32 (cb_max_wait b) = Ok wait.
Proof.
  intros src calls s k s' H b. unfold consumer_create in H. fold b in H. cbv zeta in H.
  destruct (cb_assign b) as [|a0 ar] eqn:Ea; [discriminate|]. rewrite <- Ea in H |- *.
  apply mbind_ok in H. destruct H as (c & s1 & _ & H).
  apply mbind_ok in H. destruct H as (wait & s2 & Hw & H).
  apply mbind_ok in H. destruct H as (u1 & s3 & _ & H).
  apply mbind_ok in H. destruct H as (u2 & s4 & _ & H).
  apply mbind_ok in H. destruct H as (c1 & s5 & _ & H).
  apply mbind_ok in H. destruct H as (subs & s6 & _ & H).
  apply mbind_ok in H. destruct H as (consumed & s7 & _ & H).
  apply mbind_ok in H. destruct H as (fetch & s8 & _ & H).
  apply mbind_ok in H. destruct H as (c2 & s9 & _ & H).
  unfold ret in H. inversion H; subst k. cbn [k_group k_fallback k_retry_limit k_assign k_retry].
  do 5 (split; [reflexivity|]). exists wait. unfold lift in Hw. inversion Hw. reflexivity.
Qed.

(* a builder without calls reproduces the defaults / the configuration of the given client *)
Lemma to_millis_millis_dur m : 0 <= m <= i32_max -> to_millis_i32 (Consumer.millis_dur m) = Ok m.
Proof.
  intros H. unfold to_millis_i32, Consumer.millis_dur, u64_max, i32_max in *. cbn [fst snd].
  assert (E : Z.min (Z.min (m / 1000 * 1000) 18446744073709551615 + m mod 1000 * 1000000 / 1000000)
                    18446744073709551615 = m).
  { rewrite Z.div_mul by lia. lia. }
  rewrite E. destruct (2147483647 <? m) eqn:El; [lia|reflexivity].
Qed.

Theorem C16_consumer_defaults : forall hs,
  cfg_set_consumer (default_config hs) (cbuilder_new (inl hs)) DEFAULT_FETCH_MAX_WAIT_TIME_MILLIS = default_config hs
  /\ to_millis_i32 (cb_max_wait (cbuilder_new (inl hs))) = Ok DEFAULT_FETCH_MAX_WAIT_TIME_MILLIS.
Proof. intros hs. split; reflexivity. Qed.

Theorem C16_consumer_from_client : forall c,
  0 <= fetch_max_wait_time (cfg c) <= i32_max ->
  to_millis_i32 (cb_max_wait (cbuilder_new (inr c))) = Ok (fetch_max_wait_time (cfg c))
  /\ cfg_set_consumer (cfg c) (cbuilder_new (inr c)) (fetch_max_wait_time (cfg c)) = cfg c.
Proof.
  intros c H. split.
  - cbn [cbuilder_new cb_max_wait]. apply to_millis_millis_dur. exact H.
  - destruct c as [g s0 cn]. destruct g. reflexivity.
Qed.

(* ================================================================================== *)
(* 2. producer builder                                                                *)
(* ================================================================================== *)

Definition psets_compression (c : pbuilder_call) := match c with PWithCompression x => Some x | _ => None end.
Definition psets_ack_timeout (c : pbuilder_call) := match c with PWithAckTimeout x => Some x | _ => None end.
Definition psets_idle (c : pbuilder_call) := match c with PWithIdle x => Some x | _ => None end.
Definition psets_acks (c : pbuilder_call) := match c with PWithAcks x => Some x | _ => None end.
Definition psets_client_id (c : pbuilder_call) := match c with PWithClientId x => Some (Some x) | _ => None end.

(* PWithPartitioner sets none of the options, so it may stand at any position *)
Theorem C16_producer_last_wins : forall src,
  let init := pbuilder_new src in
  last_wins pbuilder_apply init pb_compression psets_compression
  /\ last_wins pbuilder_apply init pb_ack_timeout psets_ack_timeout
  /\ last_wins pbuilder_apply init pb_idle psets_idle
  /\ last_wins pbuilder_apply init pb_acks psets_acks
  /\ last_wins pbuilder_apply init pb_client_id psets_client_id.
Proof.
  intros src init. repeat split; apply last_wins_intro; intros b c; destruct c; reflexivity.
Qed.

Theorem C16_producer_one_option_per_call : forall c,
  (osome (psets_compression c) + osome (psets_ack_timeout c) + osome (psets_idle c) + osome (psets_acks c)
   + osome (psets_client_id c) = if match c with PWithPartitioner => true | _ => false end then 0 else 1)%nat.
Proof. destruct c; reflexivity. Qed.

Theorem C16_producer_partitioner_neutral : forall b, pbuilder_apply b PWithPartitioner = b.
Proof. reflexivity. Qed.

Theorem C16_producer_independent : forall b c,
  (psets_compression c = None -> pb_compression (pbuilder_apply b c) = pb_compression b)
  /\ (psets_ack_timeout c = None -> pb_ack_timeout (pbuilder_apply b c) = pb_ack_timeout b)
  /\ (psets_idle c = None -> pb_idle (pbuilder_apply b c) = pb_idle b)
  /\ (psets_acks c = None -> pb_acks (pbuilder_apply b c) = pb_acks b)
  /\ (psets_client_id c = None -> pb_client_id (pbuilder_apply b c) = pb_client_id b).
Proof. intros b c. destruct c; repeat split; intros H; try reflexivity; discriminate. Qed.

Example C16_producer_last_wins_ex :
  let b := fold_left pbuilder_apply
             [PWithAcks 0; PWithPartitioner; PWithCompression 1; PWithAckTimeout (1, 0); PWithClientId (tag "p");
              PWithAcks (-1); PWithIdle (3, 4); PWithCompression 2; PWithPartitioner]
             (pbuilder_new (inl [tag "h:9092"])) in
  (pb_compression b, pb_ack_timeout b, pb_idle b, pb_acks b, pb_client_id b)
  = (2, (1, 0), (3, 4), -1, Some (tag "p")).
Proof. vm_compute. reflexivity. Qed.

Theorem C16_producer_applied : forall g b,
  let g' := cfg_set_producer g b in
  compression g' = pb_compression b
  /\ idle_timeout g' = pb_idle b
  /\ client_id g' = match pb_client_id b with Some id => id | None => client_id g end
  /\ hosts g' = hosts g /\ fetch_max_wait_time g' = fetch_max_wait_time g
  /\ fetch_min_bytes g' = fetch_min_bytes g
  /\ fetch_max_bytes_per_partition g' = fetch_max_bytes_per_partition g
  /\ fetch_crc_validation g' = fetch_crc_validation g /\ offset_storage g' = offset_storage g
  /\ retry_backoff_time g' = retry_backoff_time g /\ retry_max_attempts g' = retry_max_attempts g.
Proof. intros g b g'. repeat split. Qed.

Definition producer_create_rest (src : list bytes + client) (b : pbuilder) (t : Z) : M producer :=
  let+ _ := (match src with inl _ => load_metadata_all | inr _ => ret tt end) in
  let+ c' := get_client in
  ret {| p_client := c'; p_parts := producer_state (cs c'); p_cntr := 0; p_ack_timeout := t;
         p_acks := pb_acks b |}.

Theorem C16_producer_create_config : forall src calls s t,
  let b := fold_left pbuilder_apply calls (pbuilder_new src) in
  to_millis_i32 (pb_ack_timeout b) = Ok t ->
  producer_create src calls s
  = producer_create_rest src b t
      (st_with_client s {| cfg := cfg_set_producer (cfg (cl s)) b; cs := cs (cl s); conns := conns (cl s) |}).
Proof.
  intros src calls s t b Ht. unfold producer_create. fold b. cbv zeta.
  cbv beta iota delta [mbind get_client set_client lift]. rewrite Ht. reflexivity.
Qed.

(* required acks and the ack time-out of the producer are the builder's *)
Theorem C16_producer_create_uses : forall src calls s p s',
  producer_create src calls s = (Ok p, s') ->
  let b := fold_left pbuilder_apply calls (pbuilder_new src) in
  p_acks p = pb_acks b /\ to_millis_i32 (pb_ack_timeout b) = Ok (p_ack_timeout p) /\ p_cntr p = 0.
Proof.
  intros src calls s p s' H b. unfold producer_create in H. fold b in H. cbv zeta in H.
  apply mbind_ok in H. destruct H as (c & s1 & _ & H).
  apply mbind_ok in H. destruct H as (u0 & s2 & _ & H).
  apply mbind_ok in H. destruct H as (t & s3 & Ht & H).
  apply mbind_ok in H. destruct H as (u1 & s4 & _ & H).
  apply mbind_ok in H. destruct H as (c' & s5 & _ & H).
  unfold ret in H. inversion H; subst p. cbn [p_acks p_ack_timeout p_cntr].
  unfold lift in Ht. inversion Ht. repeat split.
Qed.

Theorem C16_producer_defaults : forall hs,
  cfg_set_producer (default_config hs) (pbuilder_new (inl hs)) = default_config hs
  /\ to_millis_i32 (pb_ack_timeout (pbuilder_new (inl hs))) = Ok DEFAULT_ACK_TIMEOUT_MILLIS
  /\ pb_acks (pbuilder_new (inl hs)) = DEFAULT_REQUIRED_ACKS.
Proof. intros hs. repeat split. Qed.

(* ================================================================================== *)
(* 3. durations                                                                       *)
(* ================================================================================== *)

Theorem C16_duration : forall secs nanos m,
  0 <= secs <= u64_max -> 0 <= nanos < 1000000000 ->
  (to_millis_i32 (secs, nanos) = Ok m <->
   secs * 1000 + nanos / 1000000 <= 2147483647 /\ m = secs * 1000 + nanos / 1000000).
Proof.
  intros secs nanos m Hs Hn. unfold to_millis_i32, u64_max, i32_max in *. cbn [fst snd].
  assert (Hq : 0 <= nanos / 1000000 < 1000) by lia. set (q := nanos / 1000000) in *. clearbody q.
  destruct (2147483647 <? Z.min (Z.min (secs * 1000) 18446744073709551615 + q) 18446744073709551615) eqn:E.
  - split; [discriminate|]. lia.
  - split.
    + intros H. inversion H. lia.
    + intros [H1 H2]. f_equal. lia.
Qed.

Theorem C16_duration_invalid : forall secs nanos,
  0 <= secs <= u64_max -> 0 <= nanos < 1000000000 ->
  2147483647 < secs * 1000 + nanos / 1000000 ->
  to_millis_i32 (secs, nanos) = Err EInvalidDuration.
Proof.
  intros secs nanos Hs Hn Hbig. unfold to_millis_i32, u64_max, i32_max in *. cbn [fst snd].
  assert (Hq : 0 <= nanos / 1000000 < 1000) by lia. set (q := nanos / 1000000) in *. clearbody q.
  destruct (2147483647 <? Z.min (Z.min (secs * 1000) 18446744073709551615 + q) 18446744073709551615) eqn:E;
    [reflexivity|lia].
Qed.

(* to_millis_i32 has no third outcome *)
Theorem C16_duration_total : forall d, (exists m, to_millis_i32 d = Ok m) \/ to_millis_i32 d = Err EInvalidDuration.
Proof. intros d. unfold to_millis_i32. destruct (i32_max <? _); [right; reflexivity|left; eauto]. Qed.

Example C16_duration_ex :
  to_millis_i32 (2147483, 647999999) = Ok 2147483647      (* the largest that fits; sub-millisecond part dropped *)
  /\ to_millis_i32 (2147483, 648000000) = Err EInvalidDuration
  /\ to_millis_i32 (u64_max, 999999999) = Err EInvalidDuration   (* the saturating multiplication *)
  /\ to_millis_i32 (0, 999999) = Ok 0.
Proof. vm_compute. repeat split. Qed.

(* consumer: an unrepresentable max-wait fails create before anything is sent or changed *)
Theorem C16_consumer_create_invalid_duration : forall src calls s,
  let b := fold_left cbuilder_apply calls (cbuilder_new src) in
  cb_assign b <> [] -> to_millis_i32 (cb_max_wait b) = Err EInvalidDuration ->
  consumer_create src calls s = (Err EInvalidDuration, s).
Proof.
  intros src calls s b Ha Hw. unfold consumer_create. fold b. cbv zeta.
  destruct (cb_assign b) as [|a0 ar] eqn:Ea; [congruence|].
  cbv beta iota delta [mbind get_client lift]. rewrite Hw. reflexivity.
Qed.

(* producer: the configuration is already stored in the client when the ack time-out is
   converted; no I/O has happened (script and trace untouched) *)
Theorem C16_producer_create_invalid_duration : forall src calls s,
  let b := fold_left pbuilder_apply calls (pbuilder_new src) in
  to_millis_i32 (pb_ack_timeout b) = Err EInvalidDuration ->
  producer_create src calls s
  = (Err EInvalidDuration,
     st_with_client s {| cfg := cfg_set_producer (cfg (cl s)) b; cs := cs (cl s); conns := conns (cl s) |}).
Proof.
  intros src calls s b Ht. unfold producer_create. fold b. cbv zeta.
  cbv beta iota delta [mbind get_client set_client lift]. rewrite Ht. reflexivity.
Qed.

Example C16_invalid_duration_ex :
  let s := ex_st (client_new [tag "h:9092"]) in
  consumer_create (inl [tag "h:9092"]) [CWithMaxWait (2147484, 0); CWithTopic (tag "t")] s = (Err EInvalidDuration, s)
  /\ fst (producer_create (inl [tag "h:9092"]) [PWithAckTimeout (2147484, 0); PWithAcks 0] s) = Err EInvalidDuration
  /\ trace (snd (producer_create (inl [tag "h:9092"]) [PWithAckTimeout (2147484, 0); PWithAcks 0] s)) = [].
Proof. vm_compute. repeat split. Qed.

Print Assumptions C16_consumer_last_wins.
Print Assumptions C16_consumer_one_option_per_call.
Print Assumptions C16_consumer_independent.
Print Assumptions C16_consumer_applied.
Print Assumptions C16_consumer_create_config.
Print Assumptions C16_consumer_create_uses.
Print Assumptions C16_consumer_defaults.
Print Assumptions C16_consumer_from_client.
Print Assumptions C16_producer_last_wins.
Print Assumptions C16_producer_one_option_per_call.
Print Assumptions C16_producer_partitioner_neutral.
Print Assumptions C16_producer_independent.
Print Assumptions C16_producer_applied.
Print Assumptions C16_producer_create_config.
Print Assumptions C16_producer_create_uses.
Print Assumptions C16_producer_defaults.
Print Assumptions C16_duration.
Print Assumptions C16_duration_invalid.
Print Assumptions C16_duration_total.
Print Assumptions C16_consumer_create_invalid_duration.
Print Assumptions C16_producer_create_invalid_duration.
