(* C07: the consumer starts each assigned partition at the committed offset when that offset
   lies within [earliest, latest] of the partition, and at the fallback offset otherwise.

   Also holds the small shared facts about the consumer's tables that C19 / C16 / C08 reuse:
   tpkey_eqb, tk_get / tk_set, bytes_cmp Eq <-> equal, soundness of topic_ref (the binary
   search only ever answers with an index that holds the key), i64_op. *)
From KV Require Import Base.Prelude Gen.ErrorCodes Gen.Consts Model.Codecs Model.Requests Model.Responses
                       Model.ClientState Model.Net Model.Client Model.Consumer.
From KV Require Import Proofs.BytesFacts.
From Coq Require Import ZifyBool.
Ltac Zify.zify_post_hook ::= Z.div_mod_to_equations.

(* ================================================================================== *)
(* 0. shared facts                                                                    *)
(* ================================================================================== *)

Lemma bind_ok {A B} (r : res A) (f : A -> res B) b :
  bind r f = Ok b -> exists a, r = Ok a /\ f a = Ok b.
Proof. destruct r as [a|e|w]; cbn [bind]; intros H; [eauto|discriminate|discriminate]. Qed.

Lemma tpkey_eqb_eq (a b : tpkey) : tpkey_eqb a b = true <-> a = b.
Proof.
  destruct a as [a1 a2], b as [b1 b2]. unfold tpkey_eqb. cbn [fst snd]. split.
  - intros H. apply andb_true_iff in H. destruct H as [H1 H2].
    apply Z.eqb_eq in H1. apply Z.eqb_eq in H2. subst. reflexivity.
  - intros H. inversion H. subst. rewrite !Z.eqb_refl. reflexivity.
Qed.
Lemma tpkey_eqb_refl (a : tpkey) : tpkey_eqb a a = true.
Proof. apply tpkey_eqb_eq. reflexivity. Qed.
Lemma tpkey_eqb_neq (a b : tpkey) : tpkey_eqb a b = false <-> a <> b.
Proof.
  split.
  - intros H E. apply tpkey_eqb_eq in E. rewrite E in H. discriminate.
  - intros H. destruct (tpkey_eqb a b) eqn:E; [apply tpkey_eqb_eq in E; contradiction|reflexivity].
Qed.
Lemma tpkey_eq_dec (a b : tpkey) : {a = b} + {a <> b}.
Proof. destruct (tpkey_eqb a b) eqn:E; [left; apply tpkey_eqb_eq; exact E|right; apply tpkey_eqb_neq; exact E]. Qed.

Lemma tk_get_set_same {V} (key : tpkey) (v : V) m : tk_get key (tk_set key v m) = Some v.
Proof.
  induction m as [|[k' v'] m IH]; cbn [tk_set tk_get].
  - rewrite tpkey_eqb_refl. reflexivity.
  - destruct (tpkey_eqb k' key) eqn:E; cbn [tk_get]; rewrite E; [reflexivity|exact IH].
Qed.
Lemma tk_get_set_other {V} (key key' : tpkey) (v : V) m :
  key' <> key -> tk_get key' (tk_set key v m) = tk_get key' m.
Proof.
  intros Hn. induction m as [|[k' v'] m IH]; cbn [tk_set tk_get].
  - destruct (tpkey_eqb key key') eqn:E; [apply tpkey_eqb_eq in E; congruence|reflexivity].
  - destruct (tpkey_eqb k' key) eqn:E; cbn [tk_get].
    + apply tpkey_eqb_eq in E. subst k'.
      destruct (tpkey_eqb key key') eqn:E2; [apply tpkey_eqb_eq in E2; congruence|reflexivity].
    + destruct (tpkey_eqb k' key'); [reflexivity|exact IH].
Qed.

Lemma Zb_inj x y : Zb x = Zb y -> x = y.
Proof. intros H. rewrite <- (bZ_Zb x), <- (bZ_Zb y), H. reflexivity. Qed.

Lemma bytes_cmp_refl a : bytes_cmp a a = Eq.
Proof. induction a as [|x a IH]; cbn [bytes_cmp]; [reflexivity|]. rewrite Z.compare_refl. exact IH. Qed.
Lemma bytes_cmp_eq a : forall b, bytes_cmp a b = Eq <-> a = b.
Proof.
  induction a as [|x a IH]; intros [|y b]; cbn [bytes_cmp]; split; intros H;
    try reflexivity; try discriminate.
  - destruct (Zb x ?= Zb y) eqn:E; try discriminate.
    apply Z.compare_eq in E. apply Zb_inj in E. apply IH in H. subst. reflexivity.
  - inversion H; subst. rewrite Z.compare_refl. apply bytes_cmp_refl.
Qed.

Lemma nth_z_range {A} (l : list A) i a : nth_z l i = Some a -> 0 <= i < ulen l.
Proof. unfold nth_z. destruct ((i <? 0) || (ulen l <=? i)) eqn:E; [discriminate|]. intros _. lia. Qed.
Lemma nth_z_in_range {A} (l : list A) i : 0 <= i < ulen l -> exists a, nth_z l i = Some a.
Proof.
  intros H. unfold nth_z. destruct ((i <? 0) || (ulen l <=? i)) eqn:E; [lia|].
  destruct (nth_error l (Z.to_nat i)) as [a|] eqn:En; [eauto|].
  apply nth_error_None in En. unfold ulen in H. lia.
Qed.

(* the binary search only answers with an index at which the key is stored; this needs no
   order on the table *)
Lemma bsearch_some {V} (tbl : list (bytes * V)) key : forall fuel lo hi i,
  bsearch fuel tbl key lo hi = Some i -> lo <= i < hi /\ exists v, nth_z tbl i = Some (key, v).
Proof.
  induction fuel as [|f IH]; intros lo hi i H; cbn [bsearch] in H; [discriminate|].
  destruct (hi <=? lo) eqn:E; [discriminate|].
  remember (lo + (hi - lo) / 2) as mid eqn:Hm.
  assert (Hmid : lo <= mid < hi) by lia.
  destruct (nth_z tbl mid) as [[t v]|] eqn:En; [|discriminate].
  destruct (bytes_cmp t key) eqn:Ec.
  - inversion H; subst i. apply bytes_cmp_eq in Ec. subst t. split; [exact Hmid|eauto].
  - apply IH in H. destruct H as [H1 H2]. split; [lia|exact H2].
  - apply IH in H. destruct H as [H1 H2]. split; [lia|exact H2].
Qed.

Lemma topic_ref_some {V} (tbl : list (bytes * V)) key i :
  topic_ref tbl key = Some i -> exists v, nth_z tbl i = Some (key, v).
Proof. unfold topic_ref. intros H. apply bsearch_some in H. exact (proj2 H). Qed.

(* two names with the same reference are the same name *)
Lemma topic_ref_inj {V} (tbl : list (bytes * V)) t1 t2 r :
  topic_ref tbl t1 = Some r -> topic_ref tbl t2 = Some r -> t1 = t2.
Proof.
  intros H1 H2. apply topic_ref_some in H1. apply topic_ref_some in H2.
  destruct H1 as [v1 H1]. destruct H2 as [v2 H2]. rewrite H1 in H2. inversion H2. reflexivity.
Qed.

Lemma i64_op_in dbg z : i64_min <= z <= i64_max -> i64_op dbg z = Ok z.
Proof.
  intros H. unfold i64_op. destruct ((i64_min <=? z) && (z <=? i64_max)) eqn:E; [reflexivity|lia].
Qed.
Lemma i64_op_ok dbg z o : i64_op dbg z = Ok o ->
  (i64_min <= z <= i64_max /\ o = z) \/
  (dbg = false /\ ~ (i64_min <= z <= i64_max) /\ o = wrap_s 64 z).
Proof.
  unfold i64_op. destruct ((i64_min <=? z) && (z <=? i64_max)) eqn:E.
  - intros H. inversion H. left. split; [lia|reflexivity].
  - destruct dbg; [discriminate|]. intros H. inversion H. right. repeat split. lia.
Qed.
Lemma wrap_s_64_range z : i64_min <= wrap_s 64 z <= i64_max.
Proof. pose proof (wrap_s_range 64 z ltac:(lia)) as H. change (2 ^ (64 - 1)) with 9223372036854775808 in H.
  unfold i64_min, i64_max. lia. Qed.

(* ================================================================================== *)
(* 1. the per-partition decision                                                      *)
(* ================================================================================== *)

Theorem C07_start_valid : forall dbg fb c d e l,
  e <= c <= l -> i64_min < c <= i64_max ->
  start_offset dbg fb (Some (c - 1, d)) e l = Ok c.
Proof.
  intros dbg fb c d e l Hr Hc. unfold start_offset.
  replace (c - 1 + 1) with c by lia. rewrite i64_op_in by lia. cbn [bind].
  destruct ((e <=? c) && (c - 1 <? l)) eqn:E; [reflexivity|lia].
Qed.

Example C07_start_valid_ex :
  start_offset true FbEarliest (Some (42 - 1, false)) 10 100 = Ok 42
  /\ start_offset false FbLatest (Some (100 - 1, true)) 10 100 = Ok 100      (* c = latest: nothing to read yet *)
  /\ start_offset false (FbByTime 5) (Some (10 - 1, true)) 10 100 = Ok 10.   (* c = earliest *)
Proof. vm_compute. repeat split. Qed.

Theorem C07_start_invalid : forall dbg fb c d e l,
  (c < e \/ l < c) -> i64_min < c <= i64_max ->
  start_offset dbg fb (Some (c - 1, d)) e l =
  match fb with FbLatest => Ok l | FbEarliest => Ok e | FbByTime _ => Err (EKafka KC_Unknown) end.
Proof.
  intros dbg fb c d e l Hr Hc. unfold start_offset.
  replace (c - 1 + 1) with c by lia. rewrite i64_op_in by lia. cbn [bind].
  destruct ((e <=? c) && (c - 1 <? l)) eqn:E; [lia|reflexivity].
Qed.

Example C07_start_invalid_ex :
  start_offset true FbEarliest (Some (5 - 1, false)) 10 100 = Ok 10          (* log truncated below the commit *)
  /\ start_offset true FbLatest (Some (101 - 1, false)) 10 100 = Ok 100      (* commit beyond the log end *)
  /\ start_offset true (FbByTime 7) (Some (101 - 1, false)) 10 100 = Err (EKafka KC_Unknown).
Proof. vm_compute. repeat split. Qed.

Theorem C07_start_none : forall dbg fb e l,
  start_offset dbg fb None e l =
  match fb with FbLatest => Ok l | FbEarliest => Ok e | FbByTime _ => Err (EKafka KC_Unknown) end.
Proof. intros. reflexivity. Qed.

Example C07_start_none_ex :
  start_offset true FbEarliest None 10 100 = Ok 10 /\ start_offset true FbLatest None 10 100 = Ok 100.
Proof. vm_compute. split; reflexivity. Qed.

(* C07_never_elsewhere, as requested (no hypothesis on the numbers), is FALSE for the model:
   offsets are unbounded Z in the model, and a release build (dbg = false) wraps o + 1.  With a
   consumed offset of i64_max the wrapped i64_min is accepted when the (impossible for an i64)
   bounds e < i64_min and l > i64_max are supplied.  The witness needs values outside i64, so it
   is an artefact of the Z-typed model and not a behaviour of the Rust code. *)
Theorem C07_never_elsewhere_refuted : exists dbg fb co e l o,
  start_offset dbg fb co e l = Ok o /\
  ~ (o = e \/ o = l \/ (exists c d, co = Some (c - 1, d) /\ o = c /\ e <= c <= l)).
Proof.
  exists false, FbLatest, (Some (i64_max, false)), (i64_min - 5), (i64_max + 10), i64_min.
  split; [vm_compute; reflexivity|].
  intros [H|[H|(c & d & H1 & H2 & H3)]]; try (vm_compute in H; discriminate).
  inversion H1. unfold i64_max, i64_min in *. lia.
Qed.

(* the strongest true variant: whenever the stored mark and the latest offset are i64 values (as
   they are in the Rust code), or in a debug build, the start offset is the committed offset
   (= mark + 1) within [e, l], or e, or l - never anything else *)
Theorem C07_never_elsewhere_partial : forall dbg fb co e l o,
  (dbg = true \/ (l <= i64_max /\ forall m d, co = Some (m, d) -> i64_min <= m)) ->
  start_offset dbg fb co e l = Ok o ->
  o = e \/ o = l \/ (exists c d, co = Some (c - 1, d) /\ o = c /\ e <= c <= l).
Proof.
  intros dbg fb co e l o Hyp H. unfold start_offset in H.
  assert (Hfb : match fb with FbLatest => Ok l | FbEarliest => Ok e | FbByTime _ => Err (EKafka KC_Unknown) end
                = Ok o -> forall Q : Prop, o = e \/ o = l \/ Q).
  { destruct fb; intros Hx Q; inversion Hx; auto. }
  destruct co as [[m d]|]; [|apply Hfb; exact H].
  apply bind_ok in H. destruct H as (o1 & Hop & H).
  destruct ((e <=? o1) && (m <? l)) eqn:E; [|apply Hfb; exact H].
  inversion H; subst o1. clear H.
  apply i64_op_ok in Hop. destruct Hop as [[Hr Ho]|(Hd & Hr & Ho)].
  - right. right. exists (m + 1), d. replace (m + 1 - 1) with m by lia. repeat split; lia.
  - destruct Hyp as [Hyp|[Hl Hm]]; [congruence|]. specialize (Hm m d eq_refl). lia.
Qed.

Example C07_never_elsewhere_ex :
  start_offset false FbLatest (Some (41, true)) 10 100 = Ok 42 /\ 10 <= 42 <= 100.
Proof. split; [vm_compute; reflexivity|lia]. Qed.

(* ================================================================================== *)
(* 2. lifted to the assigned partitions: range_parts / range_states                   *)
(* ================================================================================== *)

Lemma range_parts_spec dbg fb consumed latest earliest maxb t r : forall ps acc res,
  range_parts dbg fb consumed latest earliest maxb t r ps acc = Ok res ->
  (forall p, In p ps -> exists off,
      start_offset dbg fb (tk_get (r, p) consumed) (lookup_off earliest t p) (lookup_off latest t p) = Ok off
      /\ tk_get (r, p) res = Some (off, maxb))
  /\ (forall key, (forall p, In p ps -> key <> (r, p)) -> tk_get key res = tk_get key acc).
Proof.
  induction ps as [|p rest IH]; intros acc res H; cbn [range_parts] in H.
  - inversion H; subst. split; [intros p []|reflexivity].
  - apply bind_ok in H. destruct H as (off & Hoff & H). apply IH in H. destruct H as [IH1 IH2]. split.
    + intros p0 Hin. destruct (in_dec Z.eq_dec p0 rest) as [Hr|Hr]; [apply IH1; exact Hr|].
      destruct Hin as [Hin|Hin]; [subst p0|contradiction].
      exists off. split; [exact Hoff|]. rewrite IH2.
      * apply tk_get_set_same.
      * intros q Hq E. inversion E. subst q. contradiction.
    + intros key Hk. rewrite IH2.
      * apply tk_get_set_other. apply Hk. left. reflexivity.
      * intros q Hq. apply Hk. right. exact Hq.
Qed.

(* every partition of the topic gets the start_offset of its own (committed, earliest, latest)
   triple; what the other partitions hold plays no role *)
Theorem C07_range_parts : forall dbg fb consumed latest earliest maxb t r ps acc res,
  range_parts dbg fb consumed latest earliest maxb t r ps acc = Ok res ->
  forall p, In p ps -> exists off,
    start_offset dbg fb (tk_get (r, p) consumed) (lookup_off earliest t p) (lookup_off latest t p) = Ok off
    /\ tk_get (r, p) res = Some (off, maxb).
Proof. intros. eapply range_parts_spec; eassumption. Qed.

Theorem C07_range_parts_others : forall dbg fb consumed latest earliest maxb t r ps acc res,
  range_parts dbg fb consumed latest earliest maxb t r ps acc = Ok res ->
  forall key, (forall p, In p ps -> key <> (r, p)) -> tk_get key res = tk_get key acc.
Proof. intros. eapply range_parts_spec; eassumption. Qed.

(* invariant of range_states: a key is either untouched (and then not subscribed) or holds the
   start offset computed from its own triple *)
Lemma range_states_inv dbg fb asg consumed latest earliest maxb : forall subs acc res,
  range_states dbg fb asg consumed latest earliest maxb subs acc = Ok res ->
  forall t r p, topic_ref asg t = Some r ->
    (tk_get (r, p) res = tk_get (r, p) acc /\ ~ (exists ps, In (t, ps) subs /\ In p ps))
    \/ (exists off,
          start_offset dbg fb (tk_get (r, p) consumed) (lookup_off earliest t p) (lookup_off latest t p) = Ok off
          /\ tk_get (r, p) res = Some (off, maxb)).
Proof.
  induction subs as [|[t0 ps0] rest IH]; intros acc res H t r p Hr; cbn [range_states] in H.
  - inversion H; subst. left. split; [reflexivity|]. intros (ps & [] & _).
  - destruct (topic_ref asg t0) as [r0|] eqn:Hr0; [|discriminate].
    apply bind_ok in H. destruct H as (acc' & Hp & H).
    destruct (IH _ _ H t r p Hr) as [[Hsame Hnot]|Hdone]; [|right; exact Hdone].
    pose proof (range_parts_spec _ _ _ _ _ _ _ _ _ _ _ Hp) as [Hp1 Hp2].
    destruct (Z.eq_dec r r0) as [Er|Er].
    + subst r0. assert (t = t0) by (eapply topic_ref_inj; eassumption). subst t0.
      destruct (in_dec Z.eq_dec p ps0) as [Hin|Hin].
      * right. destruct (Hp1 p Hin) as (off & Ho & Hg). exists off. split; [exact Ho|]. rewrite Hsame. exact Hg.
      * left. split.
        -- rewrite Hsame. apply Hp2. intros q Hq E. inversion E. subst q. contradiction.
        -- intros (ps & [Hh|Ht] & Hps); [inversion Hh; subst; contradiction|]. apply Hnot. eauto.
    + left. split.
      * rewrite Hsame. apply Hp2. intros q Hq E. inversion E. contradiction.
      * intros (ps & [Hh|Ht] & Hps); [inversion Hh; subst; congruence|]. apply Hnot. eauto.
Qed.

Theorem C07_range_states : forall dbg fb asg consumed latest earliest maxb subs acc res,
  range_states dbg fb asg consumed latest earliest maxb subs acc = Ok res ->
  forall t ps p, In (t, ps) subs -> In p ps ->
  exists r off,
    topic_ref asg t = Some r
    /\ start_offset dbg fb (tk_get (r, p) consumed) (lookup_off earliest t p) (lookup_off latest t p) = Ok off
    /\ tk_get (r, p) res = Some (off, maxb).
Proof.
  intros dbg fb asg consumed latest earliest maxb subs acc res H t ps p Hin Hp.
  assert (Hr : exists r, topic_ref asg t = Some r).
  { clear Hp. revert acc H. induction subs as [|[t0 ps0] rest IH]; intros acc H; [destruct Hin|].
    cbn [range_states] in H. destruct (topic_ref asg t0) as [r0|] eqn:Hr0; [|discriminate].
    destruct Hin as [Hh|Ht]; [inversion Hh; subst; eauto|].
    apply bind_ok in H. destruct H as (acc' & _ & H). eapply IH; eassumption. }
  destruct Hr as [r Hr]. exists r.
  destruct (range_states_inv _ _ _ _ _ _ _ _ _ _ H t r p Hr) as [[_ Hnot]|(off & Ho & Hg)].
  - exfalso. apply Hnot. eauto.
  - exists off. auto.
Qed.

(* keys that are not subscribed are left alone *)
Theorem C07_range_states_others : forall dbg fb asg consumed latest earliest maxb subs acc res,
  range_states dbg fb asg consumed latest earliest maxb subs acc = Ok res ->
  forall t r p, topic_ref asg t = Some r -> (forall ps, In (t, ps) subs -> ~ In p ps) ->
  tk_get (r, p) res = tk_get (r, p) acc.
Proof.
  intros dbg fb asg consumed latest earliest maxb subs.
  induction subs as [|[t0 ps0] rest IH]; intros acc res H t r p Hr Hno; cbn [range_states] in H.
  - inversion H. reflexivity.
  - destruct (topic_ref asg t0) as [r0|] eqn:Hr0; [|discriminate].
    apply bind_ok in H. destruct H as (acc' & Hp & H).
    rewrite (IH _ _ H t r p Hr) by (intros ps Hps; apply Hno; right; exact Hps).
    eapply C07_range_parts_others; [exact Hp|].
    intros q Hq E. inversion E. subst r0 q.
    assert (t = t0) by (eapply topic_ref_inj; eassumption). subst t0.
    apply (Hno ps0); [left; reflexivity|exact Hq].
Qed.

(* the valid-commit case end to end: a stored mark c - 1 with e <= c <= l makes (t, p) start at c *)
Corollary C07_range_states_valid : forall dbg fb asg consumed latest earliest maxb subs acc res,
  range_states dbg fb asg consumed latest earliest maxb subs acc = Ok res ->
  forall t ps p r c d, In (t, ps) subs -> In p ps -> topic_ref asg t = Some r ->
  tk_get (r, p) consumed = Some (c - 1, d) -> i64_min < c <= i64_max ->
  lookup_off earliest t p <= c <= lookup_off latest t p ->
  tk_get (r, p) res = Some (c, maxb).
Proof.
  intros dbg fb asg consumed latest earliest maxb subs acc res H t ps p r c d Hin Hp Hr Hc Hc64 Hrange.
  destruct (C07_range_states _ _ _ _ _ _ _ _ _ _ H t ps p Hin Hp) as (r' & off & Hr' & Ho & Hg).
  rewrite Hr in Hr'. inversion Hr'. subst r'. rewrite Hc in Ho.
  rewrite C07_start_valid in Ho by assumption. inversion Ho. subst off. exact Hg.
Qed.

Example C07_range_states_ex :
  let asg := [(tag "a", [0; 1]); (tag "b", [0])] in
  let consumed := [((0, 1), (4, false)); ((1, 0), (90, false))] in
  let latest := [(tag "a", [(0, 100); (1, 50)]); (tag "b", [(0, 7)])] in
  let earliest := [(tag "a", [(0, 0); (1, 2)]); (tag "b", [(0, 3)])] in
  range_states true FbEarliest asg consumed latest earliest 4096 asg []
  = Ok [((0, 0), (0, 4096));      (* a/0: nothing committed -> earliest *)
        ((0, 1), (5, 4096));      (* a/1: committed 5 within [2, 50] *)
        ((1, 0), (3, 4096))].     (* b/0: committed 91 beyond latest 7 -> fallback earliest 3 *)
Proof. vm_compute. reflexivity. Qed.

(* ================================================================================== *)
(* 3. nothing committed at all: fallback_states                                       *)
(* ================================================================================== *)

Lemma fold_tk_set_spec {V} (r : Z) (f : Z -> V) : forall ps acc,
  (forall p, In p ps -> tk_get (r, p) (fold_left (fun acc p => tk_set (r, p) (f p) acc) ps acc) = Some (f p))
  /\ (forall key, (forall p, In p ps -> key <> (r, p)) ->
        tk_get key (fold_left (fun acc p => tk_set (r, p) (f p) acc) ps acc) = tk_get key acc).
Proof.
  induction ps as [|p rest IH]; intros acc; cbn [fold_left].
  - split; [intros p []|reflexivity].
  - destruct (IH (tk_set (r, p) (f p) acc)) as [IH1 IH2]. split.
    + intros p0 Hin. destruct (in_dec Z.eq_dec p0 rest) as [Hr|Hr]; [apply IH1; exact Hr|].
      destruct Hin as [Hin|Hin]; [subst p0|contradiction].
      rewrite IH2; [apply tk_get_set_same|]. intros q Hq E. inversion E. subst q. contradiction.
    + intros key Hk. rewrite IH2.
      * apply tk_get_set_other. apply Hk. left. reflexivity.
      * intros q Hq. apply Hk. right. exact Hq.
Qed.

Definition reported_or_minus1 (p : Z) (offs : list (Z * Z)) : Z :=
  match assoc_z p offs with Some o => o | None => -1 end.

Lemma fallback_states_inv asg offsets maxb : forall subs acc res,
  fallback_states asg offsets maxb subs acc = Ok res ->
  forall t r p, topic_ref asg t = Some r ->
    (tk_get (r, p) res = tk_get (r, p) acc /\ ~ (exists ps, In (t, ps) subs /\ In p ps))
    \/ (exists offs, assoc_bytes t offsets = Some offs
                     /\ tk_get (r, p) res = Some (reported_or_minus1 p offs, maxb)).
Proof.
  induction subs as [|[t0 ps0] rest IH]; intros acc res H t r p Hr; cbn [fallback_states] in H.
  - inversion H; subst. left. split; [reflexivity|]. intros (ps & [] & _).
  - destruct (topic_ref asg t0) as [r0|] eqn:Hr0; [|discriminate].
    destruct (assoc_bytes t0 offsets) as [offs|] eqn:Ho; [|discriminate].
    destruct (IH _ _ H t r p Hr) as [[Hsame Hnot]|Hdone]; [|right; exact Hdone].
    destruct (fold_tk_set_spec r0 (fun p => (match assoc_z p offs with Some o => o | None => -1 end, maxb)) ps0 acc)
      as [Hp1 Hp2].
    destruct (Z.eq_dec r r0) as [Er|Er].
    + subst r0. assert (t = t0) by (eapply topic_ref_inj; eassumption). subst t0.
      destruct (in_dec Z.eq_dec p ps0) as [Hin|Hin].
      * right. exists offs. split; [exact Ho|]. rewrite Hsame. apply (Hp1 p Hin).
      * left. split.
        -- rewrite Hsame. apply Hp2. intros q Hq E. inversion E. subst q. contradiction.
        -- intros (ps & [Hh|Ht] & Hps); [inversion Hh; subst; contradiction|]. apply Hnot. eauto.
    + left. split.
      * rewrite Hsame. apply Hp2. intros q Hq E. inversion E. contradiction.
      * intros (ps & [Hh|Ht] & Hps); [inversion Hh; subst; congruence|]. apply Hnot. eauto.
Qed.

(* each subscribed partition starts at what the broker answered for the fallback position;
   a partition the broker did not report starts at -1 (finding F22: no error is raised) *)
Theorem C07_fallback_states : forall asg offsets maxb subs acc res,
  fallback_states asg offsets maxb subs acc = Ok res ->
  forall t ps p, In (t, ps) subs -> In p ps ->
  exists r offs,
    topic_ref asg t = Some r /\ assoc_bytes t offsets = Some offs
    /\ tk_get (r, p) res = Some (match assoc_z p offs with Some o => o | None => -1 end, maxb).
Proof.
  intros asg offsets maxb subs acc res H t ps p Hin Hp.
  assert (Hr : exists r, topic_ref asg t = Some r).
  { clear Hp. revert acc H. induction subs as [|[t0 ps0] rest IH]; intros acc H; [destruct Hin|].
    cbn [fallback_states] in H. destruct (topic_ref asg t0) as [r0|] eqn:Hr0; [|discriminate].
    destruct (assoc_bytes t0 offsets) as [offs|] eqn:Ho; [|discriminate].
    destruct Hin as [Hh|Ht]; [inversion Hh; subst; eauto|]. eapply IH; eassumption. }
  destruct Hr as [r Hr]. exists r.
  destruct (fallback_states_inv _ _ _ _ _ _ H t r p Hr) as [[_ Hnot]|(offs & Ho & Hg)].
  - exfalso. apply Hnot. eauto.
  - exists offs. auto.
Qed.

Corollary C07_fallback_unreported_is_minus1 : forall asg offsets maxb subs acc res,
  fallback_states asg offsets maxb subs acc = Ok res ->
  forall t ps p r offs, In (t, ps) subs -> In p ps -> topic_ref asg t = Some r ->
  assoc_bytes t offsets = Some offs -> assoc_z p offs = None ->
  tk_get (r, p) res = Some (-1, maxb).
Proof.
  intros asg offsets maxb subs acc res H t ps p r offs Hin Hp Hr Ho Hn.
  destruct (C07_fallback_states _ _ _ _ _ _ H t ps p Hin Hp) as (r' & offs' & Hr' & Ho' & Hg).
  rewrite Hr in Hr'. inversion Hr'. subst r'. rewrite Ho in Ho'. inversion Ho'. subst offs'.
  rewrite Hn in Hg. exact Hg.
Qed.

(* a topic without any reported offsets is an error, a partition without is not *)
Example C07_fallback_states_ex :
  let asg := [(tag "a", [0; 1]); (tag "b", [0])] in
  fallback_states asg [(tag "a", [(0, 17)]); (tag "b", [(0, 3)])] 4096 asg []
  = Ok [((0, 0), (17, 4096)); ((0, 1), (-1, 4096)); ((1, 0), (3, 4096))]
  /\ fallback_states asg [(tag "a", [(0, 17)])] 4096 asg [] = Err (EKafka KC_UnknownTopicOrPartition).
Proof. vm_compute. split; reflexivity. Qed.

Print Assumptions C07_start_valid.
Print Assumptions C07_start_invalid.
Print Assumptions C07_start_none.
Print Assumptions C07_never_elsewhere_refuted.
Print Assumptions C07_never_elsewhere_partial.
Print Assumptions C07_range_parts.
Print Assumptions C07_range_parts_others.
Print Assumptions C07_range_states.
Print Assumptions C07_range_states_others.
Print Assumptions C07_range_states_valid.
Print Assumptions C07_fallback_states.
Print Assumptions C07_fallback_unreported_is_minus1.
