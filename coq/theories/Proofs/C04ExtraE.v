(* C04, additional theorems, fourth pass (round-seven seed C04-7).

   Seed C04-7 (fetch.rs MessageSet::next_message / ProtocolMessage::from_slice: the checksum is compared only AFTER the
   message has been parsed, so a parse failure - UnsupportedProtocol for a damaged magic byte, UnexpectedEOF for a
   damaged key-/value-length, the latter swallowed by MessageSet::from_slice as "partial trailing message" - pre-empts
   the verdict) is ALREADY covered by Props/C04.v.  Confirmed on a scratch copy of the model with the mirrored change
   (Responses.protocol_message: parse first, compare afterwards; next_message and everything above unchanged) by
   proving, with concrete witnesses, the NEGATION of
   - C04_check_passes_iff  (field 00 00 00 00, covered = [01]: the mutant answers UnsupportedProtocol),
   - C04_single_bit        (the 20-byte message of C04Facts, bit 32 = lowest bit of the magic byte: UnsupportedProtocol),
   - C04_set_rejects_single_bit (same message behind one plain entry, bit 86 = bit 6 of the first value-length byte:
     the mutant DELIVERS Ok [the entry in front]; the damaged message and the intact one behind it are missing).
   On the mutant 38 of the 160 single-bit flips of that message are not answered with CorruptMessage (release build).
   All theorems of Props/C04.v that are stated through `protocol_message ... = CorruptMessage` as a HYPOTHESIS
   (C04_set_rejects and the C04_inner_rejects pair) stay provable on the mutant; the instances with a bit pattern do not.

   What this file adds (all about the UNCHANGED model):

   A. the ORDER made explicit above the message parser, with hypotheses that do not mention the parser at all: an entry
      whose four checksum bytes differ from the CRC-32 of the bytes behind them fails the fetch of the set with
      CorruptMessage WHATEVER those bytes are (wrong magic, lengths pointing beyond the end, trailing garbage, empty):
      C04_set_rejects_mismatch, C04_inner_rejects_mismatch_gzip / _snappy (inside a wrapper whose own checksum is intact),
      C04_response_mismatch_never_delivered (whole response), C04_fetch_messages_mismatch_never_delivered (whole call).
      These subsume the single-bit / double-bit / burst instances (each of them is proved by showing a mismatch).
   B. the CONVERSE at the set level, at any nesting depth, over ALL inputs: from_slice ends with CorruptMessage ONLY IF
      validation is on and some message the decoder gets to look at (`examined`: behind plain messages, or inside a
      gzip / snappy wrapper that it unpacks) has a checksum field that differs from the CRC-32 of the rest
      (C04_set_corrupt_inv); lifted to whole responses (C04_response_corrupt_inv) and, with
      C04_fetch_messages_corrupt_inv, to the whole call (C04_fetch_messages_corrupt_only_if_mismatch): CorruptMessage
      is never a false alarm and never stands for a parse error.
   C. HISTORIES of calls: KafkaClient::fetch_messages - delivered, rejected or failed in any other way - leaves the
      validation flag and the codecs as they were (C04_fetch_messages_keeps_validation, C04_fetch_history_keeps_validation
      for any number of calls), hence a damaged answer is rejected by a call made after any history of earlier calls
      (C04_fetch_messages_rejects_after_history), and a rejected call can be repeated: same verdict.
   D. an answer that does not decode (for whatever reason) from ANY broker of the call: never a delivery
      (C04_fetch_messages_undecodable_never_delivered; generalises C04_fetch_messages_never_delivered, whose hypothesis
      `= CorruptMessage` is not available for a whole response because an earlier partition may fail differently).

   Not done: `examined` does not say at which byte offset of the response the message sits; a converse for
   Consumer::poll (a poll reports CorruptMessage only if ...) is false as it stands, see C04ExtraB (a broker may put error
   code 2 into a partition header). *)
From Coq Require Import ZifyBool Relations.Relation_Operators.
From KV Require Import Base.Prelude Base.Crc32 Base.Snappy Gen.ErrorCodes Gen.Consts
                       Model.Codecs Model.Requests Model.Responses Model.ClientState Model.Net Model.Client.
From KV Require Import Proofs.BytesFacts Proofs.Crc32Facts Proofs.SnappyFacts Spec.MsgSetSpec Spec.RespGrammar.
From KV Require Import Proofs.NetFacts Proofs.C10Facts Proofs.C04Facts Proofs.C04Extra Proofs.C04ExtraB Proofs.C04ExtraC.

Local Notation corrupt := (Err (EKafka KC_CorruptMessage)).

(* ====================================================================================== *)
(* A. the verdict comes before any interpretation of the checksummed bytes                *)
(* ====================================================================================== *)

Lemma blen_app4 field covered : length field = 4%nat -> blen (field ++ covered) = 4 + blen covered.
Proof. intros H. unfold blen. rewrite app_length, H. lia. Qed.

(* a plain set: any well-formed plain entries, then an entry whose checksum field does not match - nothing at all is
   assumed about `covered` *)
Theorem C04_set_rejects_mismatch : forall comp cz d req pre off field covered post,
  Forall plain_wf pre -> in_i64 off -> 4 + blen covered <= i32_max ->
  length field = 4%nat -> be_dec_u field <> crc32 covered ->
  from_slice cz (S d) true req
    (ser comp pre ++ (enc_i64 off ++ enc_i32 (blen (field ++ covered)) ++ field ++ covered) ++ post) = corrupt.
Proof.
  intros comp cz d req pre off field covered post Hpre Ho Hm Hf Hne.
  apply C04_set_rejects; [exact Hpre|exact Ho| |].
  - rewrite blen_app4 by exact Hf. exact Hm.
  - apply check_passes_iff; assumption.
Qed.

Theorem C04_inner_rejects_mismatch_gzip :
  forall comp cz d req pre woff v post ipre off field covered ipost,
  Forall plain_wf pre -> in_i64 woff -> 4 + blen (ser_body COMPRESSION_GZIP None (Some v)) <= i32_max ->
  Forall plain_wf ipre -> in_i64 off -> 4 + blen covered <= i32_max ->
  length field = 4%nat -> be_dec_u field <> crc32 covered ->
  gz_decompress cz v =
    Some (ser comp ipre ++ (enc_i64 off ++ enc_i32 (blen (field ++ covered)) ++ field ++ covered) ++ ipost) ->
  from_slice cz (S (S d)) true req (ser comp pre ++ ser_message woff COMPRESSION_GZIP None (Some v) ++ post) = corrupt.
Proof.
  intros comp cz d req pre woff v post ipre off field covered ipost Hpre Hwo Hs Hipre Ho Hm Hf Hne Hz.
  apply (C04_inner_rejects_gzip comp cz d req pre woff v post ipre off (field ++ covered) ipost); try assumption.
  - rewrite blen_app4 by exact Hf. exact Hm.
  - apply check_passes_iff; assumption.
Qed.

Theorem C04_inner_rejects_mismatch_snappy :
  forall comp cz d req pre woff v post ipre off field covered ipost,
  Forall plain_wf pre -> in_i64 woff -> 4 + blen (ser_body COMPRESSION_SNAPPY None (Some v)) <= i32_max ->
  xerial_max_alloc v < alloc_limit ->
  Forall plain_wf ipre -> in_i64 off -> 4 + blen covered <= i32_max ->
  length field = 4%nat -> be_dec_u field <> crc32 covered ->
  xerial_read_to_end v =
    Ok (ser comp ipre ++ (enc_i64 off ++ enc_i32 (blen (field ++ covered)) ++ field ++ covered) ++ ipost) ->
  from_slice cz (S (S d)) true req (ser comp pre ++ ser_message woff COMPRESSION_SNAPPY None (Some v) ++ post) = corrupt.
Proof.
  intros comp cz d req pre woff v post ipre off field covered ipost Hpre Hwo Hs Ha Hipre Ho Hm Hf Hne Hz.
  apply (C04_inner_rejects_snappy comp cz d req pre woff v post ipre off (field ++ covered) ipost); try assumption.
  - rewrite blen_app4 by exact Hf. exact Hm.
  - apply check_passes_iff; assumption.
Qed.

(* a whole FetchResponse with such an entry in the set of ANY partition of ANY topic *)
Theorem C04_response_mismatch_never_delivered :
  forall comp cz d reqs r rest t p pre off field covered post,
  wf_fetch r -> In t (view_list (wr_topics r)) -> In p (view_list (wt_partitions t)) ->
  Forall plain_wf pre -> in_i64 off -> 4 + blen covered <= i32_max ->
  length field = 4%nat -> be_dec_u field <> crc32 covered ->
  wfe_message_set p = ser comp pre ++ (enc_i64 off ++ enc_i32 (blen (field ++ covered)) ++ field ++ covered) ++ post ->
  forall resp, fetch_from_vec cz (S d) true reqs (print_fetch r ++ rest) <> Ok resp.
Proof.
  intros comp cz d reqs r rest t p pre off field covered post Hwf Ht Hp Hpre Ho Hm Hf Hne Hset.
  apply (C04_response_never_delivered cz (S d) reqs r rest t p Hwf Ht Hp).
  unfold part_set. rewrite Hset. now apply C04_set_rejects_mismatch.
Qed.

(* ---- examples: the three kinds of structural damage of seed C04-7, and an exhaustive sweep ------------------- *)

(* the pattern with bits i .. i+len-1 set (an inverted burst), n bytes *)
Definition burst_at (n i len : nat) : bytes :=
  map (fun j => bZ (fold_left (fun acc b => if Nat.leb i (8 * j + b) && Nat.ltb (8 * j + b) (i + len)
                                            then acc + 2 ^ Z.of_nat b else acc) (seq 0 8) 0))
      (seq 0 n).

Definition setE (msg : bytes) : bytes := ser ex_comp ex_pre ++ ex_entry msg ++ ex_post.

(* magic byte 01 / value length 0x40000006 (beyond the end) / key length 0x7fffffff: `covered` is not a message body at
   all, the checksum field is the one of the intact message: rejected *)
Example C04_set_rejects_mismatch_ex :
  let field := enc_i32 (crc32 ex_cov) in
  let cov_magic := [x01] ++ skipn 1 ex_cov in
  let cov_vlen := firstn 6 ex_cov ++ [x40] ++ skipn 7 ex_cov in
  let cov_klen := firstn 2 ex_cov ++ [x7f] ++ skipn 3 ex_cov in
  (be_dec_u field <> crc32 cov_magic /\ be_dec_u field <> crc32 cov_vlen /\ be_dec_u field <> crc32 cov_klen) /\
  from_slice ex_cz 1 true 0 (setE (field ++ cov_magic)) = corrupt /\
  from_slice ex_cz 1 true 0 (setE (field ++ cov_vlen)) = corrupt /\
  from_slice ex_cz 1 true 0 (setE (field ++ cov_klen)) = corrupt /\
  (* with validation off the parser's own verdicts show: wrong error / the set silently cut off (3 of 5 messages) *)
  from_slice ex_cz 1 false 0 (setE (field ++ cov_magic)) = Err EUnsupportedProtocol /\
  option_map (@length message)
    (match from_slice ex_cz 1 false 0 (setE (field ++ cov_vlen)) with Ok l => Some l | _ => None end) = Some 3%nat.
Proof.
  cbv zeta.
  assert (H1 : be_dec_u (enc_i32 (crc32 ex_cov)) <> crc32 ([x01] ++ skipn 1 ex_cov)) by (vm_compute; discriminate).
  assert (H2 : be_dec_u (enc_i32 (crc32 ex_cov)) <> crc32 (firstn 6 ex_cov ++ [x40] ++ skipn 7 ex_cov))
    by (vm_compute; discriminate).
  assert (H3 : be_dec_u (enc_i32 (crc32 ex_cov)) <> crc32 (firstn 2 ex_cov ++ [x7f] ++ skipn 3 ex_cov))
    by (vm_compute; discriminate).
  split; [repeat split; assumption|].
  split; [|split; [|split; [|split; vm_compute; reflexivity]]];
    unfold setE, ex_entry;
    (apply (C04_set_rejects_mismatch ex_comp ex_cz 0 0 ex_pre 13 _ _ ex_post);
     [exact ex_pre_wf|vm_compute; split; discriminate|vm_compute; discriminate|reflexivity|assumption]).
Qed.

(* every one of the 160 single-bit flips of the 20-byte message, sitting in the middle of a five-entry set: the fetch of
   the SET fails with CorruptMessage (never Ok, never another error) - the sweep "every bit position" of the property,
   at the level where seed C04-7 shows (38 of these 160 are not rejected by the mutant) *)
Example C04_set_single_bit_all_160 :
  forallb (fun i => is_corrupt (from_slice ex_cz 1 true 0 (setE (xor_bytes ex_msg (flip_at 20 i))))) (seq 0 160) = true.
Proof. vm_compute. reflexivity. Qed.

(* every inverted burst of 8, 17 or 32 bits that lies within the checksummed bytes (bit 32 onwards), every start *)
Example C04_set_data_burst_all :
  forallb (fun len =>
    forallb (fun i => is_corrupt (from_slice ex_cz 1 true 0 (setE (xor_bytes ex_msg (burst_at 20 i len)))))
            (seq 32 (129 - len)))
    [8; 17; 32]%nat = true.
Proof. vm_compute. reflexivity. Qed.

(* ====================================================================================== *)
(* B. the converse: CorruptMessage only for a checksum mismatch in an examined message    *)
(* ====================================================================================== *)

(* `examined cz d bs msg`: decoding the message set `bs` with d levels of nesting left, the decoder gets to the message
   bytes `msg` - the message of the first entry, or of an entry behind plain messages that parse, or of an entry of the
   set inside a gzip / snappy wrapper that is reached in this way and unpacks *)
Inductive examined (cz : codecs) : nat -> bytes -> bytes -> Prop :=
| ex_here d bs off r1 msg r :
    zread_i64 bs = Ok (off, r1) -> zread_bytes r1 = Ok (msg, r) -> examined cz (S d) bs msg
| ex_plain d bs off attr k v r msg :
    next_message (debug_build cz) false bs = Ok (off, (attr, k, v), r) ->
    Z.land attr 7 = COMPRESSION_NONE -> examined cz (S d) r msg -> examined cz (S d) bs msg
| ex_gzip d bs off attr k v r data msg :
    next_message (debug_build cz) false bs = Ok (off, (attr, k, v), r) ->
    Z.land attr 7 = COMPRESSION_GZIP -> gz_decompress cz v = Some data ->
    examined cz d data msg -> examined cz (S d) bs msg
| ex_snappy d bs off attr k v r data msg :
    next_message (debug_build cz) false bs = Ok (off, (attr, k, v), r) ->
    Z.land attr 7 = COMPRESSION_SNAPPY -> xerial_max_alloc v < alloc_limit -> xerial_read_to_end v = Ok data ->
    examined cz d data msg -> examined cz (S d) bs msg.

(* the message bytes split into a 4-byte checksum field that differs from the CRC-32 of the rest *)
Definition mismatch (msg : bytes) : Prop :=
  exists field covered, msg = field ++ covered /\ length field = 4%nat /\ be_dec_u field <> crc32 covered.

Lemma protocol_message_corrupt_inv dbg validate msg :
  protocol_message dbg validate msg = corrupt -> validate = true /\ mismatch msg.
Proof.
  intros H. destruct validate; [|exfalso; exact (protocol_message_off_nk dbg msg _ H)].
  split; [reflexivity|].
  destruct (le_lt_dec 4 (length msg)) as [Hl|Hl].
  - exists (firstn 4 msg), (skipn 4 msg).
    assert (Hf : length (firstn 4 msg) = 4%nat) by (apply firstn_length_le; exact Hl).
    split; [symmetry; apply firstn_skipn|]. split; [exact Hf|].
    apply (check_passes_iff dbg _ _ Hf). rewrite firstn_skipn. exact H.
  - exfalso. unfold protocol_message, zread_i32 in H. rewrite zread_short in H by exact Hl. discriminate H.
Qed.

Lemma next_message_corrupt_inv dbg bs :
  next_message dbg true bs = corrupt ->
  exists off r1 msg r, zread_i64 bs = Ok (off, r1) /\ zread_bytes r1 = Ok (msg, r) /\ mismatch msg.
Proof.
  intros H. unfold next_message in H.
  destruct (zread_i64 bs) as [[off r1]|e|w] eqn:E1; cbn [bind] in H;
    [|exfalso; injection H as ->; exact (nk_zread_i64 bs _ E1)|discriminate H].
  destruct (zread_bytes r1) as [[msg r]|e|w] eqn:E2; cbn [bind] in H;
    [|exfalso; injection H as ->; exact (nk_zread_bytes r1 _ E2)|discriminate H].
  destruct (protocol_message dbg true msg) as [pm|e|w] eqn:E3; cbn [bind] in H; [discriminate H| |discriminate H].
  injection H as ->. exists off, r1, msg, r. split; [reflexivity|]. split; [exact E2|].
  exact (proj2 (protocol_message_corrupt_inv dbg true msg E3)).
Qed.

Lemma ms_loop_corrupt_inv cz d req :
  (forall bs, from_slice cz d true req bs = corrupt -> exists msg, examined cz d bs msg /\ mismatch msg) ->
  forall fuel bs acc,
  ms_loop (inner_of cz d true req) (debug_build cz) true req fuel bs acc = corrupt ->
  exists msg, examined cz (S d) bs msg /\ mismatch msg.
Proof.
  intros IHd. induction fuel as [|f IH]; intros bs acc H.
  - destruct bs; discriminate H.
  - destruct bs as [|b bs]; [discriminate H|]. rewrite ms_loop_step in H.
    destruct (next_message_on_off (debug_build cz) (b :: bs)) as [Hn|Hn].
    + destruct (next_message_corrupt_inv _ _ Hn) as (off & r1 & msg & r & E1 & E2 & Hm).
      exists msg. split; [exact (ex_here cz d _ _ _ _ _ E1 E2)|exact Hm].
    + rewrite Hn in H.
      destruct (next_message (debug_build cz) false (b :: bs)) as [[[off [[attr k] v]] r]|e|w] eqn:En.
      * cbv zeta in H. destruct (Z.land attr 7 =? COMPRESSION_NONE) eqn:Ec.
        { apply Z.eqb_eq in Ec. destruct (IH _ _ H) as (msg & Hx & Hm).
          exists msg. split; [exact (ex_plain cz d _ _ _ _ _ _ _ En Ec Hx)|exact Hm]. }
        destruct ((Z.land attr 7 =? COMPRESSION_GZIP) || (Z.land attr 7 =? COMPRESSION_SNAPPY)) eqn:Eg;
          [|discriminate H].
        unfold inner_of in H. destruct (Z.land attr 7 =? COMPRESSION_GZIP) eqn:Egz.
        { apply Z.eqb_eq in Egz. destruct (gz_decompress cz v) as [data|] eqn:Ed; [|discriminate H].
          destruct (IHd _ H) as (msg & Hx & Hm).
          exists msg. split; [exact (ex_gzip cz d _ _ _ _ _ _ _ _ En Egz Ed Hx)|exact Hm]. }
        cbn [orb] in Eg. apply Z.eqb_eq in Eg.
        destruct (alloc_limit <=? xerial_max_alloc v) eqn:Ea; [discriminate H|].
        apply Z.leb_gt in Ea.
        destruct (xerial_read_to_end v) as [data|e|w] eqn:Ed; cbn [bind] in H;
          [|exfalso; injection H as ->; exact (xerial_read_to_end_nk v _ Ed)|discriminate H].
        destruct (IHd _ H) as (msg & Hx & Hm).
        exists msg. split; [exact (ex_snappy cz d _ _ _ _ _ _ _ _ En Eg Ea Ed Hx)|exact Hm].
      * exfalso. destruct e; try discriminate H. injection H as ->.
        exact (next_message_off_nk (debug_build cz) (b :: bs) _ En).
      * discriminate H.
Qed.

(* MessageSet::from_slice, any bytes, any depth, any requested offset: CorruptMessage ONLY IF validation is on and an
   examined message has a checksum mismatch.  (No parse error, no decompression failure, no depth exhaustion is ever
   reported as CorruptMessage; seed C04-7 keeps this direction, C04_set_rejects_mismatch is the one it breaks.) *)
Theorem C04_set_corrupt_inv : forall cz d validate req bs,
  from_slice cz d validate req bs = corrupt ->
  validate = true /\ exists msg, examined cz d bs msg /\ mismatch msg.
Proof.
  intros cz d validate req bs H.
  destruct validate; [|exfalso; exact (C04_off_never_corrupt_set cz d req bs _ H)].
  split; [reflexivity|]. revert bs H. induction d as [|d IHd]; intros bs H; [discriminate H|].
  rewrite from_slice_S in H. exact (ms_loop_corrupt_inv cz d req IHd _ _ _ H).
Qed.

(* non-vacuity: the set of C04Facts.C04_inner_rejects_gzip_ex (a plain entry, then a gzip wrapper with intact checksum
   holding the damaged message behind two intact ones): rejected, and the damaged message is the examined one.
   A message whose checksum MATCHES but which does not parse is reported with the parser's error, not CorruptMessage. *)
Example C04_set_corrupt_inv_ex :
  from_slice ex_cz 2 true 0 ex_wrapped = corrupt /\ examined ex_cz 2 ex_wrapped ex_bad /\ mismatch ex_bad /\
  from_slice ex_cz 1 true 0 (setE (enc_i32 (crc32 [x01]) ++ [x01])) = Err EUnsupportedProtocol.
Proof.
  split; [exact (proj1 (proj2 (proj2 (proj2 C04_inner_rejects_gzip_ex))))|]. split; [|split].
  - eapply ex_plain; [vm_compute; reflexivity|reflexivity|].
    eapply ex_gzip; [vm_compute; reflexivity|reflexivity|vm_compute; reflexivity|].
    eapply ex_plain; [vm_compute; reflexivity|reflexivity|].
    eapply ex_plain; [vm_compute; reflexivity|reflexivity|].
    eapply ex_here; vm_compute; reflexivity.
  - exists (firstn 4 ex_bad), (skipn 4 ex_bad). split; [reflexivity|]. split; [reflexivity|]. vm_compute. discriminate.
  - vm_compute. reflexivity.
Qed.

(* ---- whole responses and the whole call ------------------------------------------------------------------ *)
Lemma bind_corrupt_inv {A B} (x : res A) (f : A -> res B) :
  bind x f = corrupt -> x = corrupt \/ exists a, x = Ok a /\ f a = corrupt.
Proof.
  destruct x as [a|e|w]; cbn [bind]; intros H; [right; exists a; split; [reflexivity|exact H]| |discriminate H].
  left. injection H as ->. reflexivity.
Qed.

Lemma zread_many_corrupt_inv {A} (d : bytes -> res (A * bytes)) (P : Prop) :
  (forall bs, d bs = corrupt -> P) -> forall fuel count bs, zread_many d fuel count bs = corrupt -> P.
Proof.
  intros Hd. induction fuel as [|f IH]; intros count bs H; cbn [zread_many] in H;
    (destruct (count <=? 0); [discriminate H|]); [discriminate H|].
  apply bind_corrupt_inv in H. destruct H as [H|([x r] & _ & H)]; [exact (Hd _ H)|].
  apply bind_corrupt_inv in H. destruct H as [H|([xs r'] & _ & H)]; [exact (IH _ _ H)|discriminate H].
Qed.

Lemma zread_array_corrupt_inv {A} sz (d : bytes -> res (A * bytes)) (P : Prop) :
  (forall bs, d bs = corrupt -> P) -> forall bs, zread_array sz d bs = corrupt -> P.
Proof.
  intros Hd bs H. unfold zread_array in H. apply bind_corrupt_inv in H. destruct H as [H|([n r] & _ & H)].
  - exfalso. unfold zread_array_len in H. apply bind_corrupt_inv in H.
    destruct H as [H|([len r] & _ & H)]; [exact (nk_zread_i32 bs _ H)|discriminate H].
  - exact (zread_many_corrupt_inv d P Hd _ _ _ H).
Qed.

Lemma read_partition_corrupt_inv cz d validate preqs bs :
  read_partition cz d validate preqs bs = corrupt -> exists req ms, from_slice cz d validate req ms = corrupt.
Proof.
  intros H. unfold read_partition in H.
  apply bind_corrupt_inv in H. destruct H as [H|([p r] & _ & H)]; [exfalso; exact (nk_zread_i32 bs _ H)|].
  cbv zeta in H.
  apply bind_corrupt_inv in H. destruct H as [H|([e r1] & _ & H)]; [exfalso; exact (nk_zread_i16 r _ H)|].
  apply bind_corrupt_inv in H. destruct H as [H|([hw r2] & _ & H)]; [exfalso; exact (nk_zread_i64 r1 _ H)|].
  apply bind_corrupt_inv in H. destruct H as [H|([ms r3] & _ & H)]; [exfalso; exact (nk_zread_bytes r2 _ H)|].
  apply bind_corrupt_inv in H. destruct H as [H|(msgs & _ & H)]; [|discriminate H].
  eexists. exists ms. exact H.
Qed.

(* Response::from_vec, any bytes: CorruptMessage ONLY IF validation is on and, in the message set `ms` of some partition,
   an examined message has a checksum mismatch *)
Theorem C04_response_corrupt_inv : forall cz d validate reqs bs,
  fetch_from_vec cz d validate reqs bs = corrupt ->
  validate = true /\ exists ms msg, examined cz d ms msg /\ mismatch msg.
Proof.
  intros cz d validate reqs bs H.
  assert (HP : exists req ms, from_slice cz d validate req ms = corrupt).
  { unfold fetch_from_vec in H.
    apply bind_corrupt_inv in H. destruct H as [H|([c r] & _ & H)]; [exfalso; exact (nk_zread_i32 bs _ H)|].
    apply bind_corrupt_inv in H. destruct H as [H|([ts r'] & _ & H)]; [|discriminate H].
    revert H. apply zread_array_corrupt_inv. intros bs1 H. unfold read_topic in H.
    apply bind_corrupt_inv in H. destruct H as [H|([name r1] & _ & H)]; [exfalso; exact (nk_zread_str bs1 _ H)|].
    apply bind_corrupt_inv in H. destruct H as [H|([ps r2] & _ & H)]; [|discriminate H].
    revert H. apply zread_array_corrupt_inv. intros bs2 H. exact (read_partition_corrupt_inv _ _ _ _ _ H). }
  destruct HP as (req & ms & Hs). destruct (C04_set_corrupt_inv _ _ _ _ _ Hs) as (Hv & msg & Hx & Hm).
  split; [exact Hv|]. exists ms, msg. split; assumption.
Qed.

(* KafkaClient::fetch_messages: Err(Kafka(CorruptMessage)) ONLY IF validation is configured on, some broker of the call
   answered (b), the decoder said CorruptMessage for that answer, and in a message set it decoded a message it examined
   has a checksum field that differs from the CRC-32 of the rest of the message *)
Theorem C04_fetch_messages_corrupt_only_if_mismatch : forall input s s',
  fetch_messages input s = (corrupt, s') ->
  fetch_crc_validation (cfg (cl s)) = true /\
  exists corr h tps s1 b ms msg,
    fetch_io corr h tps s1 = (Ok b, s') /\
    fetch_from_vec (env s) decode_depth true tps b = corrupt /\
    examined (env s) decode_depth ms msg /\ mismatch msg.
Proof.
  intros input s s' H.
  destruct (C04_fetch_messages_corrupt_inv _ _ _ H)
    as (Hv & corr & sa & pre & h & tps & post & sb & l & s1 & b & _ & _ & _ & Hio & Hbad).
  split; [exact Hv|].
  destruct (C04_response_corrupt_inv _ _ _ _ _ Hbad) as (_ & ms & msg & Hx & Hm).
  exists corr, h, tps, s1, b, ms, msg. repeat split; assumption.
Qed.

Example C04_fetch_messages_corrupt_only_if_mismatch_ex :
  exists s', fetch_messages x_in (x_st true) = (corrupt, s').
Proof. eexists. exact (proj1 (proj2 (proj2 (proj2 (proj2 (proj2 (proj2 C04_fetch_messages_rejects_ex))))))). Qed.

(* ====================================================================================== *)
(* C. histories of calls                                                                  *)
(* ====================================================================================== *)

Lemma keeps_fetch_messages input : keeps cfgenv (fetch_messages input).
Proof.
  pose proof preorder_cfgenv as P. unfold fetch_messages.
  apply keeps_bind; [exact P|apply keeps_next_corr|]. intros corr.
  apply keeps_bind; [exact P|apply keeps_get_client; exact P|]. intros c.
  apply keeps_bind; [exact P|apply keeps_ordered|]. intros reqs. apply keeps_fetch_exchange.
Qed.

(* whatever a call of KafkaClient::fetch_messages ends with - delivery, CorruptMessage, an I/O error, a panic of the
   model - the validation flag and the codecs it leaves behind for the next call are the ones it found *)
Theorem C04_fetch_messages_keeps_validation : forall input s r s',
  fetch_messages input s = (r, s') ->
  fetch_crc_validation (cfg (cl s')) = fetch_crc_validation (cfg (cl s)) /\ env s' = env s.
Proof.
  intros input s r s' H. destruct (keeps_fetch_messages input s r s' H) as [E C]. rewrite C. split; [reflexivity|exact E].
Qed.

(* one call, any input, any outcome *)
Definition fetch_step (s s' : st) : Prop := exists input r, fetch_messages input s = (r, s').

Theorem C04_fetch_history_keeps_validation : forall s s',
  clos_refl_trans_1n st fetch_step s s' ->
  fetch_crc_validation (cfg (cl s')) = fetch_crc_validation (cfg (cl s)) /\ env s' = env s.
Proof.
  induction 1 as [s|s s1 s' (input & r & Hstep) _ IH]; [split; reflexivity|].
  destruct (C04_fetch_messages_keeps_validation _ _ _ _ Hstep) as [A B]. destruct IH as [C D].
  split; congruence.
Qed.

(* a client with validation on, after ANY history of fetch_messages calls (delivered, rejected, failed): a broker's
   answer that the decoder rejects fails the call with CorruptMessage *)
Theorem C04_fetch_messages_rejects_after_history :
  forall s0 input s corr sa pre h tps post sb acc1 s1 b s2,
  fetch_crc_validation (cfg (cl s0)) = true ->
  clos_refl_trans_1n st fetch_step s0 s ->
  next_corr s = (Ok corr, sa) ->
  ordered (fetch_reqs (cl sa) input) sa = (Ok (pre ++ (h, tps) :: post), sb) ->
  fetch_exchange corr pre [] sb = (Ok acc1, s1) ->
  fetch_io corr h tps s1 = (Ok b, s2) ->
  fetch_from_vec (env s0) decode_depth true tps b = corrupt ->
  fetch_messages input s = (corrupt, s2) /\ fetch_crc_validation (cfg (cl s2)) = true.
Proof.
  intros s0 input s corr sa pre h tps post sb acc1 s1 b s2 Hv Hist Hc Ho Hpre Hio Hbad.
  destruct (C04_fetch_history_keeps_validation _ _ Hist) as [A B].
  assert (Hv' : fetch_crc_validation (cfg (cl s)) = true) by congruence.
  assert (Hr : fetch_messages input s = (corrupt, s2)).
  { rewrite <- B in Hbad.
    exact (C04_fetch_messages_rejects input s corr sa pre h tps post sb acc1 s1 b s2 Hv' Hc Ho Hpre Hio Hbad). }
  split; [exact Hr|]. destruct (C04_fetch_messages_keeps_validation _ _ _ _ Hr) as [C _]. congruence.
Qed.

(* two calls on one connection; the broker serves the damaged set twice: rejected, and rejected again *)
Definition x_st2 : st :=
  {| script := [OConn true; OWrote 1000; OData (p_i32 (Z.of_nat (length x_payload))); OData x_payload;
                OWrote 1000; OData (p_i32 (Z.of_nat (length x_payload))); OData x_payload];
     trace := []; anyq := []; hostq := []; fetchq := []; entryq := []; cl := x_client true; env := ex_cz |}.

Example C04_fetch_messages_rejects_after_history_ex :
  let s := snd (fetch_messages x_in x_st2) in
  fetch_crc_validation (cfg (cl x_st2)) = true /\
  clos_refl_trans_1n st fetch_step x_st2 s /\
  fst (fetch_messages x_in x_st2) = corrupt /\
  fst (fetch_messages x_in s) = corrupt /\
  fetch_crc_validation (cfg (cl (snd (fetch_messages x_in s)))) = true.
Proof.
  cbv zeta. split; [reflexivity|]. split; [|split; [|split]].
  - eapply rt1n_trans; [|apply rt1n_refl]. exists x_in. eexists. apply surjective_pairing.
  - vm_compute. reflexivity.
  - vm_compute. reflexivity.
  - vm_compute. reflexivity.
Qed.

(* ====================================================================================== *)
(* D. an answer that does not decode, from any broker of the call: never a delivery       *)
(* ====================================================================================== *)

Theorem C04_fetch_messages_undecodable_never_delivered :
  forall input s corr sa pre h tps post sb bs s1 b s2,
  next_corr s = (Ok corr, sa) ->
  ordered (fetch_reqs (cl sa) input) sa = (Ok (pre ++ (h, tps) :: post), sb) ->
  fx_io corr pre sb bs s1 ->
  fetch_io corr h tps s1 = (Ok b, s2) ->
  (forall resp, fetch_from_vec (env s) decode_depth (fetch_crc_validation (cfg (cl s))) tps b <> Ok resp) ->
  forall resps s', fetch_messages input s <> (Ok resps, s').
Proof.
  intros input s corr sa pre h tps post sb bs s1 b s2 Hc Ho Hpre Hio Hbad resps s' H.
  destruct (C04_fetch_messages_ok_inv _ _ _ _ _ _ _ _ Hc Ho H) as (l & Hl & _).
  destruct (fx_ok_split _ _ _ _ _ _ _ _ _ _ Hl _ _ _ _ Hpre Hio) as [resp Hr].
  exact (Hbad resp Hr).
Qed.

(* the whole call, the shape of the damage spelled out: validation on; broker h - any broker of the call, whatever the
   brokers asked before it answered - answers with a FetchResponse in which the set of some partition holds, behind plain
   messages, an entry whose checksum field differs from the CRC-32 of the bytes behind it (whatever these bytes are):
   KafkaClient::fetch_messages never delivers *)
Theorem C04_fetch_messages_mismatch_never_delivered :
  forall comp input s corr sa pre h tps post sb bs s1 s2 r rest t p epre off field covered epost,
  fetch_crc_validation (cfg (cl s)) = true ->
  next_corr s = (Ok corr, sa) ->
  ordered (fetch_reqs (cl sa) input) sa = (Ok (pre ++ (h, tps) :: post), sb) ->
  fx_io corr pre sb bs s1 ->
  fetch_io corr h tps s1 = (Ok (print_fetch r ++ rest), s2) ->
  wf_fetch r -> In t (view_list (wr_topics r)) -> In p (view_list (wt_partitions t)) ->
  Forall plain_wf epre -> in_i64 off -> 4 + blen covered <= i32_max ->
  length field = 4%nat -> be_dec_u field <> crc32 covered ->
  wfe_message_set p = ser comp epre ++ (enc_i64 off ++ enc_i32 (blen (field ++ covered)) ++ field ++ covered) ++ epost ->
  forall resps s', fetch_messages input s <> (Ok resps, s').
Proof.
  intros comp input s corr sa pre h tps post sb bs s1 s2 r rest t p epre off field covered epost
         Hv Hc Ho Hpre Hio Hwf Ht Hp Hepre Hoff Hm Hf Hne Hset.
  apply (C04_fetch_messages_undecodable_never_delivered input s corr sa pre h tps post sb bs s1 _ s2 Hc Ho Hpre Hio).
  rewrite Hv. unfold decode_depth.
  exact (C04_response_mismatch_never_delivered comp (env s) _ tps r rest t p epre off field covered epost
           Hwf Ht Hp Hepre Hoff Hm Hf Hne Hset).
Qed.

(* ====================================================================================== *)
(* examples for A (inside wrappers, whole response) and D (whole call)                    *)
(* ====================================================================================== *)

(* the intact checksum field in front of a body whose magic byte / value length was damaged (seed C04-7's two cases) *)
Definition e_field : bytes := enc_i32 (crc32 ex_cov).
Definition e_cov_magic : bytes := [x01] ++ skipn 1 ex_cov.
Definition e_cov_vlen : bytes := firstn 6 ex_cov ++ [x40] ++ skipn 7 ex_cov.

Example C04_inner_rejects_mismatch_ex :
  be_dec_u e_field <> crc32 e_cov_magic /\ be_dec_u e_field <> crc32 e_cov_vlen /\
  from_slice ex_cz 2 true 0 (z_set_gzip (e_field ++ e_cov_magic)) = corrupt /\
  from_slice ex_cz 2 true 0 (z_set_gzip (e_field ++ e_cov_vlen)) = corrupt /\
  from_slice ex_cz 2 true 0 (z_set_snappy (e_field ++ e_cov_magic)) = corrupt /\
  from_slice ex_cz 2 true 0 (z_set_snappy (e_field ++ e_cov_vlen)) = corrupt /\
  (* validation off: what the parser alone makes of them *)
  from_slice ex_cz 2 false 0 (z_set_gzip (e_field ++ e_cov_magic)) = Err EUnsupportedProtocol /\
  offsets_of (from_slice ex_cz 2 false 0 (z_set_snappy (e_field ++ e_cov_vlen))) = Some [2].
Proof.
  assert (H1 : be_dec_u e_field <> crc32 e_cov_magic) by (vm_compute; discriminate).
  assert (H2 : be_dec_u e_field <> crc32 e_cov_vlen) by (vm_compute; discriminate).
  split; [exact H1|]. split; [exact H2|]. split; [|split; [|split; [|split; [|conc]]]].
  - apply (C04_inner_rejects_mismatch_gzip ex_comp ex_cz 0 0 z_pre 4 (z_inner (e_field ++ e_cov_magic)) [] z_ipre 3
             e_field e_cov_magic z_ipost);
      [exact z_pre_wf|conc|conc|exact z_ipre_wf|conc|conc|reflexivity|exact H1|reflexivity].
  - apply (C04_inner_rejects_mismatch_gzip ex_comp ex_cz 0 0 z_pre 4 (z_inner (e_field ++ e_cov_vlen)) [] z_ipre 3
             e_field e_cov_vlen z_ipost);
      [exact z_pre_wf|conc|conc|exact z_ipre_wf|conc|conc|reflexivity|exact H2|reflexivity].
  - apply (C04_inner_rejects_mismatch_snappy ex_comp ex_cz 0 0 z_pre 4 (z_xerial (e_field ++ e_cov_magic)) [] z_ipre 3
             e_field e_cov_magic z_ipost);
      [exact z_pre_wf|conc|conc|conc|exact z_ipre_wf|conc|conc|reflexivity|exact H1|vm_compute; reflexivity].
  - apply (C04_inner_rejects_mismatch_snappy ex_comp ex_cz 0 0 z_pre 4 (z_xerial (e_field ++ e_cov_vlen)) [] z_ipre 3
             e_field e_cov_vlen z_ipost);
      [exact z_pre_wf|conc|conc|conc|exact z_ipre_wf|conc|conc|reflexivity|exact H2|vm_compute; reflexivity].
Qed.

(* the response of C04Extra (two topics, three partitions) with the value-length damage in partition 1 of topic "t",
   served by the scripted broker to a client with validation on / off *)
Definition v_set : bytes := setE (e_field ++ e_cov_vlen).
Definition v_payload : bytes := print_fetch (xr v_set).
Definition v_st (crc : bool) : st :=
  {| script := [OConn true; OWrote 1000; OData (p_i32 (Z.of_nat (length v_payload))); OData v_payload];
     trace := []; anyq := []; hostq := []; fetchq := []; entryq := []; cl := x_client crc; env := ex_cz |}.

Example C04_response_mismatch_never_delivered_ex :
  (forall resp, fetch_from_vec ex_cz 1 true xreqs (print_fetch (xr v_set) ++ [x09]) <> Ok resp) /\
  fetch_from_vec ex_cz 1 true xreqs (print_fetch (xr v_set) ++ [x09]) = corrupt /\
  (exists ms msg, examined ex_cz 1 ms msg /\ mismatch msg).
Proof.
  assert (Hwf : wf_fetch (xr v_set)) by (apply xr_wf; vm_compute; reflexivity).
  assert (Hc : fetch_from_vec ex_cz 1 true xreqs (print_fetch (xr v_set) ++ [x09]) = corrupt) by (vm_compute; reflexivity).
  split; [|split; [exact Hc|exact (proj2 (C04_response_corrupt_inv _ _ _ _ _ Hc))]].
  eapply (C04_response_mismatch_never_delivered ex_comp ex_cz 0 xreqs (xr v_set) [x09] _ _ ex_pre 13 e_field e_cov_vlen
            ex_post Hwf).
  - left; reflexivity.
  - right; left; reflexivity.
  - exact ex_pre_wf.
  - vm_compute; split; discriminate.
  - vm_compute; discriminate.
  - reflexivity.
  - vm_compute; discriminate.
  - reflexivity.
Qed.

Example C04_fetch_messages_mismatch_never_delivered_ex :
  (forall resps s', fetch_messages x_in (v_st true) <> (Ok resps, s')) /\
  fst (fetch_messages x_in (v_st true)) = corrupt /\
  (* the same answer, validation configured off: delivered - the damaged message of partition 1 and the message at
     offset 14 behind it are silently missing (what seed C04-7 does WITH validation on) *)
  option_map (map (fun r => map (fun t => map (fun p => match fp_data p with inl (_, l) => length l | inr _ => 99%nat end)
                                              (ft_partitions t)) (fr_topics r)))
    (match fst (fetch_messages x_in (v_st false)) with Ok r => Some r | _ => None end) = Some [[[5%nat; 0%nat]; [99%nat]]].
Proof.
  split; [|split; vm_compute; reflexivity].
  assert (Hwf : wf_fetch (xr v_set)) by (apply xr_wf; vm_compute; reflexivity).
  set (s := v_st true). set (sa := snd (next_corr s)).
  set (sb := snd (ordered (fetch_reqs (cl sa) x_in) sa)).
  assert (H2 : next_corr s = (Ok 1, sa)) by (vm_compute; reflexivity).
  assert (H3 : ordered (fetch_reqs (cl sa) x_in) sa = (Ok ([] ++ (x_h, x_tps) :: []), sb)) by (vm_compute; reflexivity).
  assert (H5 : fetch_io 1 x_h x_tps sb = (Ok (print_fetch (xr v_set) ++ []), snd (fetch_io 1 x_h x_tps sb)))
    by (vm_compute; reflexivity).
  eapply (C04_fetch_messages_mismatch_never_delivered ex_comp x_in s 1 sa [] x_h x_tps [] sb [] sb _ (xr v_set) [] _ _
            ex_pre 13 e_field e_cov_vlen ex_post eq_refl H2 H3 (fi_nil 1 sb) H5 Hwf).
  - left; reflexivity.
  - right; left; reflexivity.
  - exact ex_pre_wf.
  - vm_compute; split; discriminate.
  - vm_compute; discriminate.
  - reflexivity.
  - vm_compute; discriminate.
  - reflexivity.
Qed.

(* ---------------------------------------------------------------------------------------- *)
Print Assumptions C04_set_rejects_mismatch.
Print Assumptions C04_inner_rejects_mismatch_gzip.
Print Assumptions C04_inner_rejects_mismatch_snappy.
Print Assumptions C04_response_mismatch_never_delivered.
Print Assumptions C04_set_corrupt_inv.
Print Assumptions C04_response_corrupt_inv.
Print Assumptions C04_fetch_messages_corrupt_only_if_mismatch.
Print Assumptions C04_fetch_messages_keeps_validation.
Print Assumptions C04_fetch_history_keeps_validation.
Print Assumptions C04_fetch_messages_rejects_after_history.
Print Assumptions C04_fetch_messages_undecodable_never_delivered.
Print Assumptions C04_fetch_messages_mismatch_never_delivered.
