(* C08: commit persists last-consumed + 1 for the changed partitions; a restart resumes there.
   - consume_message only moves marks forward and sets the dirty flag exactly when a mark moves;
   - the commit request holds exactly the dirty entries, each with offset mark + 1;
   - dirty flags are cleared only by a successful commit, marks are never touched by it;
   - what load_consumed_offsets stores for a committed offset c makes start_offset answer c. *)
From KV Require Import Base.Prelude Gen.ErrorCodes Gen.Consts Model.Codecs Model.Requests Model.Responses
                       Model.ClientState Model.Net Model.Client Model.Consumer.
From KV Require Import Proofs.BytesFacts Proofs.C07Facts Proofs.C19Facts.
From Coq Require Import ZifyBool Permutation.
Ltac Zify.zify_post_hook ::= Z.div_mod_to_equations.

(* the last consumed offset ("mark") and the dirty flag of a (topic reference, partition) key *)
Definition mark (k : consumer) (key : tpkey) : option Z := option_map fst (tk_get key (k_consumed k)).
Definition dirty (k : consumer) (key : tpkey) : option bool := option_map snd (tk_get key (k_consumed k)).

(* None (nothing consumed yet) is below every mark *)
Definition mark_le (a b : option Z) : Prop :=
  match a, b with
  | None, _ => True
  | Some x, Some y => x <= y
  | Some _, None => False
  end.

Lemma mark_le_refl a : mark_le a a.
Proof. destruct a; cbn [mark_le]; [lia|exact I]. Qed.

(* ================================================================================== *)
(* 1. consume_message                                                                 *)
(* ================================================================================== *)

Lemma consume_spec k t p off k' :
  consume_message k t p off = Ok k' ->
  exists r,
    topic_ref (k_assign k) t = Some r
    /\ k_assign k' = k_assign k
    /\ (forall key, key <> (r, p) -> tk_get key (k_consumed k') = tk_get key (k_consumed k))
    /\ match tk_get (r, p) (k_consumed k) with
       | None => k_consumed k' = tk_set (r, p) (off, true) (k_consumed k)
       | Some (o, d) => if o <? off then k_consumed k' = tk_set (r, p) (off, true) (k_consumed k) else k' = k
       end.
Proof.
  intros H. pose proof (C19_consume_assigned _ _ _ _ _ H) as (r & Hr & _ & Hoth & _ & Ha & _).
  exists r. split; [exact Hr|]. split; [exact Ha|]. split; [exact Hoth|].
  unfold consume_message in H. rewrite Hr in H.
  destruct (tk_get (r, p) (k_fetch k)) as [v|]; [|discriminate].
  destruct (tk_get (r, p) (k_consumed k)) as [[o d]|].
  - destruct (o <? off); inversion H; reflexivity.
  - inversion H; reflexivity.
Qed.

(* marks never move backwards; the mark of (t, p) becomes max(old, off) *)
Theorem C08_monotone : forall k t p off k',
  consume_message k t p off = Ok k' ->
  (forall key, mark_le (mark k key) (mark k' key))
  /\ exists r, topic_ref (k_assign k) t = Some r
               /\ mark k' (r, p) = Some (match mark k (r, p) with None => off | Some o => Z.max o off end).
Proof.
  intros k t p off k' H. destruct (consume_spec _ _ _ _ _ H) as (r & Hr & _ & Hoth & Hkey).
  assert (Hnew : mark k' (r, p) = Some (match mark k (r, p) with None => off | Some o => Z.max o off end)).
  { unfold mark in *. destruct (tk_get (r, p) (k_consumed k)) as [[o d]|] eqn:Ec; cbn [option_map fst].
    - destruct (o <? off) eqn:El.
      + rewrite Hkey, tk_get_set_same. cbn [option_map fst]. f_equal. lia.
      + subst k'. rewrite Ec. cbn [option_map fst]. f_equal. lia.
    - rewrite Hkey, tk_get_set_same. reflexivity. }
  split; [|exists r; auto].
  intros key. destruct (tpkey_eq_dec key (r, p)) as [E|E].
  - subst key. rewrite Hnew. destruct (mark k (r, p)); cbn [mark_le]; [lia|exact I].
  - unfold mark. rewrite (Hoth key E). apply mark_le_refl.
Qed.

(* the dirty flag is set exactly when the mark strictly increases or is new; never cleared *)
Theorem C08_dirty_set : forall k t p off k',
  consume_message k t p off = Ok k' ->
  exists r, topic_ref (k_assign k) t = Some r
    /\ (forall key, dirty k key = Some true -> dirty k' key = Some true)
    /\ (forall key, key <> (r, p) -> dirty k' key = dirty k key)
    /\ ((mark k (r, p) = None \/ exists o, mark k (r, p) = Some o /\ o < off) -> dirty k' (r, p) = Some true)
    /\ ((exists o, mark k (r, p) = Some o /\ off <= o) -> k' = k).
Proof.
  intros k t p off k' H. destruct (consume_spec _ _ _ _ _ H) as (r & Hr & _ & Hoth & Hkey).
  exists r. split; [exact Hr|].
  assert (Hup : (mark k (r, p) = None \/ exists o, mark k (r, p) = Some o /\ o < off) -> dirty k' (r, p) = Some true).
  { unfold mark, dirty. destruct (tk_get (r, p) (k_consumed k)) as [[o d]|] eqn:Ec; cbn [option_map fst].
    - intros [Hn|(o' & Ho & Hlt)]; [discriminate|]. inversion Ho; subst o'.
      destruct (o <? off) eqn:El; [|lia]. rewrite Hkey, tk_get_set_same. reflexivity.
    - intros _. rewrite Hkey, tk_get_set_same. reflexivity. }
  assert (Hsame : (exists o, mark k (r, p) = Some o /\ off <= o) -> k' = k).
  { unfold mark. destruct (tk_get (r, p) (k_consumed k)) as [[o d]|] eqn:Ec; cbn [option_map fst].
    - intros (o' & Ho & Hle). inversion Ho; subst o'. destruct (o <? off) eqn:El; [lia|exact Hkey].
    - intros (o' & Ho & _). discriminate. }
  split; [|split; [|split; [exact Hup|exact Hsame]]].
  - intros key Hd. destruct (tpkey_eq_dec key (r, p)) as [E|E].
    + subst key. destruct (mark k (r, p)) as [o|] eqn:Em.
      * destruct (Z_lt_le_dec o off) as [Hlt|Hle].
        -- apply Hup. right. eauto.
        -- rewrite (Hsame (ex_intro _ o (conj eq_refl Hle))). exact Hd.
      * apply Hup. left. reflexivity.
    + unfold dirty in *. rewrite (Hoth key E). exact Hd.
  - intros key E. unfold dirty. rewrite (Hoth key E). reflexivity.
Qed.

Example C08_consume_ex :
  option_map k_consumed (match consume_message ex_consumer (tag "a") 1 25 with Ok k => Some k | _ => None end)
  = Some [((0, 1), (25, true))]                                        (* 19 -> 25, dirty *)
  /\ consume_message ex_consumer (tag "a") 1 19 = Ok ex_consumer         (* not beyond the mark: no change *)
  /\ consume_message ex_consumer (tag "a") 1 7 = Ok ex_consumer
  /\ option_map k_consumed (match consume_message ex_consumer (tag "a") 0 3 with Ok k => Some k | _ => None end)
     = Some [((0, 1), (19, false)); ((0, 0), (3, true))].               (* new mark, dirty *)
Proof. vm_compute. repeat split. Qed.

(* ================================================================================== *)
(* 2. what a commit sends                                                             *)
(* ================================================================================== *)

Theorem C08_dirty_entries : forall k,
  dirty_entries k
  = map (fun e => (topic_name k (fst (fst e)), snd (fst e), fst (snd e)))
        (filter (fun e => snd (snd e)) (k_consumed k)).
Proof.
  intros k. unfold dirty_entries. induction (k_consumed k) as [|[[r p] [o d]] l IH]; [reflexivity|].
  cbn [flat_map filter fst snd]. rewrite IH. destruct d; reflexivity.
Qed.

Theorem C08_commit_entries : forall dbg es,
  Forall (fun e => i64_min <= snd e < i64_max) es ->
  commit_entries dbg es
  = Ok (map (fun e => {| co_topic := fst (fst e); co_partition := snd (fst e); co_offset := snd e + 1 |}) es).
Proof.
  intros dbg es H. induction H as [|[[t p] o] es Ho Hes IH]; [reflexivity|].
  cbn [commit_entries map fst snd] in *. rewrite i64_op_in by lia. cbn [bind]. rewrite IH. reflexivity.
Qed.

Theorem C08_commit_content : forall dbg k,
  (forall key o d, In (key, (o, d)) (k_consumed k) -> i64_min <= o < i64_max) ->
  commit_entries dbg (dirty_entries k)
  = Ok (map (fun e => {| co_topic := topic_name k (fst (fst e)); co_partition := snd (fst e);
                         co_offset := fst (snd e) + 1 |})
            (filter (fun e => snd (snd e)) (k_consumed k))).
Proof.
  intros dbg k Hr. rewrite C08_dirty_entries, C08_commit_entries.
  - rewrite map_map. reflexivity.
  - apply Forall_forall. intros e He. apply in_map_iff in He. destruct He as ([key [o d]] & E & Hin).
    subst e. cbn [fst snd]. apply filter_In in Hin. destruct Hin as [Hin _]. eapply Hr. exact Hin.
Qed.

(* the order of the entries on the wire is a HashMap iteration order supplied by the oracle: the
   reordering is a permutation, nothing is added or lost *)
Lemma take_entry_perm key : forall l x r, take_entry key l = Some (x, r) -> Permutation l (x :: r).
Proof.
  induction l as [|[[t p] o] l IH]; intros x r H; cbn [take_entry] in H; [discriminate|].
  destruct (bytes_eqb t (fst key) && (p =? snd key)).
  - inversion H; subst. apply Permutation_refl.
  - destruct (take_entry key l) as [[x' r']|] eqn:E; [|discriminate]. inversion H; subst.
    eapply Permutation_trans; [apply perm_skip; apply IH; reflexivity|apply perm_swap].
Qed.

Theorem C08_reorder_perm : forall order l, Permutation (reorder_entries order l) l.
Proof.
  induction order as [|key ks IH]; intros l; cbn [reorder_entries]; [apply Permutation_refl|].
  destruct (take_entry key l) as [[x r]|] eqn:E; [|apply IH].
  eapply Permutation_trans; [apply perm_skip; apply IH|]. symmetry. eapply take_entry_perm. exact E.
Qed.

(* mark = i64_max: a debug build panics, a release build commits i64_min *)
Example C08_commit_ex :
  dirty_entries (match consume_message ex_consumer (tag "b") 0 31 with Ok k => k | _ => ex_consumer end)
  = [(tag "b", 0, 31)]
  /\ commit_entries true [(tag "b", 0, 31); (tag "a", 1, 19)]
     = Ok [{| co_topic := tag "b"; co_partition := 0; co_offset := 32 |};
           {| co_topic := tag "a"; co_partition := 1; co_offset := 20 |}]
  /\ is_panic (commit_entries true [(tag "b", 0, i64_max)]) = true
  /\ commit_entries false [(tag "b", 0, i64_max)]
     = Ok [{| co_topic := tag "b"; co_partition := 0; co_offset := i64_min |}].
Proof. vm_compute. repeat split. Qed.

(* ================================================================================== *)
(* 3. commit_consumed                                                                 *)
(* ================================================================================== *)

Lemma mbind_ok {A B} (m : M A) (f : A -> M B) s b s' :
  mbind m f s = (Ok b, s') -> exists a s1, m s = (Ok a, s1) /\ f a s1 = (Ok b, s').
Proof. unfold mbind. destruct (m s) as [[a|e|w] s1]; intros H; [eauto|discriminate|discriminate]. Qed.

Lemma tk_get_map_clear key (m : list (tpkey * (Z * bool))) :
  tk_get key (map (fun '(key, (o, _)) => (key, (o, false))) m)
  = option_map (fun v => (fst v, false)) (tk_get key m).
Proof.
  induction m as [|[k0 [o d]] m IH]; [reflexivity|]. cbn [map tk_get].
  destruct (tpkey_eqb k0 key); [reflexivity|exact IH].
Qed.

Lemma commit_consumed_ok k s k' s' :
  commit_consumed k s = (Ok k', s') ->
  k_consumed k' = map (fun '(key, (o, _)) => (key, (o, false))) (k_consumed k)
  /\ k_fetch k' = k_fetch k /\ k_assign k' = k_assign k /\ k_group k' = k_group k /\ k_retry k' = k_retry k
  /\ k_fallback k' = k_fallback k /\ k_retry_limit k' = k_retry_limit k /\ k_client k' = cl s'.
Proof.
  intros H. unfold commit_consumed in H. destruct (k_group k) as [|g0 g] eqn:Eg; [discriminate|].
  apply mbind_ok in H. destruct H as (e & s1 & _ & H).
  apply mbind_ok in H. destruct H as (order & s2 & _ & H).
  apply mbind_ok in H. destruct H as (os & s3 & _ & H).
  apply mbind_ok in H. destruct H as (u & s4 & _ & H).
  apply mbind_ok in H. destruct H as (c & s5 & Hc & H).
  unfold ret in H. inversion H; subst k' s5. unfold get_client in Hc. inversion Hc; subst c s4.
  unfold consumer_with, consumer_with_client.
  cbn [k_consumed k_fetch k_assign k_group k_retry k_fallback k_retry_limit k_client]. rewrite Eg. repeat split.
Qed.

(* a successful commit clears every dirty flag and changes no mark, no fetch position *)
Theorem C08_commit_clears_only_on_success : forall k s k' s',
  commit_consumed k s = (Ok k', s') ->
  (forall key, mark k' key = mark k key)
  /\ (forall key, dirty k' key = option_map (fun _ => false) (dirty k key))
  /\ dirty_entries k' = []
  /\ k_fetch k' = k_fetch k /\ k_assign k' = k_assign k /\ k_group k' = k_group k.
Proof.
  intros k s k' s' H. destruct (commit_consumed_ok _ _ _ _ H) as (Hc & Hf & Ha & Hg & _).
  split; [|split; [|split; [|auto]]].
  - intros key. unfold mark. rewrite Hc, tk_get_map_clear. destruct (tk_get key (k_consumed k)); reflexivity.
  - intros key. unfold dirty. rewrite Hc, tk_get_map_clear. destruct (tk_get key (k_consumed k)); reflexivity.
  - unfold dirty_entries. rewrite Hc. clear. induction (k_consumed k) as [|[[r p] [o d]] l IH]; [reflexivity|exact IH].
Qed.

(* A failed commit returns no consumer at all (the result type carries one only under Ok): the
   caller goes on with k, whose marks and dirty flags are untouched.  What follows for the next
   commit: every entry that was dirty is still dirty after any further consume_message, with an
   offset that is the same or larger - the next request is a superset. *)
Lemma tk_set_in_pres {V} (key0 : tpkey) (v0 : V) : forall m key v,
  In (key, v) m -> In (key, v) (tk_set key0 v0 m) \/ (key = key0 /\ tk_get key0 m = Some v).
Proof.
  induction m as [|[k1 v1] m IH]; intros key v Hin; [destruct Hin|].
  cbn [tk_set tk_get]. destruct (tpkey_eqb k1 key0) eqn:E.
  - destruct Hin as [Hh|Ht].
    + inversion Hh; subst. apply tpkey_eqb_eq in E. right. auto.
    + left. right. exact Ht.
  - destruct Hin as [Hh|Ht]; [left; left; exact Hh|].
    destruct (IH key v Ht) as [Hl|Hr]; [left; right; exact Hl|right; exact Hr].
Qed.
Lemma tk_set_in_new {V} (key0 : tpkey) (v0 : V) : forall m, In (key0, v0) (tk_set key0 v0 m).
Proof.
  induction m as [|[k1 v1] m IH]; cbn [tk_set]; [left; reflexivity|].
  destruct (tpkey_eqb k1 key0) eqn:E; [apply tpkey_eqb_eq in E; subst; left; reflexivity|right; exact IH].
Qed.

Lemma dirty_entries_in k t p o :
  In (t, p, o) (dirty_entries k) <-> exists r, In ((r, p), (o, true)) (k_consumed k) /\ t = topic_name k r.
Proof.
  unfold dirty_entries. rewrite in_flat_map. split.
  - intros ([[r p'] [o' d]] & Hin & Hx). destruct d; [|destruct Hx].
    destruct Hx as [Hx|[]]. inversion Hx; subst. exists r. auto.
  - intros (r & Hin & Ht). exists ((r, p), (o, true)). split; [exact Hin|]. left. subst t. reflexivity.
Qed.

Theorem C08_dirty_persists : forall k t p off k2,
  consume_message k t p off = Ok k2 ->
  forall t' p' o, In (t', p', o) (dirty_entries k) ->
  exists o', o <= o' /\ In (t', p', o') (dirty_entries k2).
Proof.
  intros k t p off k2 H t' p' o Hin. destruct (consume_spec _ _ _ _ _ H) as (r & Hr & Ha & _ & Hkey).
  apply dirty_entries_in in Hin. destruct Hin as (r' & Hin & Ht').
  assert (Hname : topic_name k2 r' = topic_name k r') by (unfold topic_name; rewrite Ha; reflexivity).
  assert (Hset : k_consumed k2 = tk_set (r, p) (off, true) (k_consumed k) ->
                 (tk_get (r, p) (k_consumed k) = Some (o, true) -> o <= off) ->
                 exists o', o <= o' /\ In (t', p', o') (dirty_entries k2)).
  { intros Hc Hle. destruct (tk_set_in_pres (r, p) (off, true) _ _ _ Hin) as [Hl|[Hk Hg]].
    - exists o. split; [lia|]. apply dirty_entries_in. exists r'. rewrite Hc, Hname. auto.
    - inversion Hk; subst r' p'. exists off. split; [apply Hle; exact Hg|].
      apply dirty_entries_in. exists r. rewrite Hc, Hname. split; [apply tk_set_in_new|exact Ht']. }
  destruct (tk_get (r, p) (k_consumed k)) as [[o0 d0]|] eqn:Ec.
  - destruct (o0 <? off) eqn:El.
    + apply Hset; [exact Hkey|]. intros E. inversion E. lia.
    + subst k2. exists o. split; [lia|]. apply dirty_entries_in. eauto.
  - apply Hset; [exact Hkey|]. intros E. discriminate.
Qed.

(* without a group nothing is sent *)
Theorem C08_commit_needs_group : forall k s, k_group k = [] -> commit_consumed k s = (Err EUnsetGroupId, s).
Proof. intros k s H. unfold commit_consumed. rewrite H. reflexivity. Qed.

(* without an offset storage nothing is sent either *)
Theorem C08_commit_needs_storage : forall g os s,
  offset_storage (cfg (cl s)) < 0 -> commit_offsets g os s = (Err EUnsetOffsetStorage, s).
Proof.
  intros g os s H. unfold commit_offsets. cbv beta iota delta [mbind get_client].
  destruct (offset_storage (cfg (cl s)) <? 0) eqn:E; [reflexivity|lia].
Qed.

Example C08_commit_consumed_ex :
  let k := match consume_message ex_consumer (tag "b") 0 31 with Ok k => k | _ => ex_consumer end in
  (* the client of ex_consumer has no offset storage configured: the commit fails, nothing is sent *)
  fst (commit_consumed k (ex_st (k_client k))) = Err EUnsetOffsetStorage
  /\ trace (snd (commit_consumed k (ex_st (k_client k)))) = []
  /\ dirty_entries k = [(tag "b", 0, 31)].
Proof. vm_compute. repeat split. Qed.

(* ================================================================================== *)
(* 4. restart: what was committed is where the next consumer starts                    *)
(* ================================================================================== *)

(* load_consumed_offsets stores committed - 1 *)
Theorem C08_load_stores : forall dbg r p c,
  c <> -1 -> i64_min < c <= i64_max ->
  consumed_parts dbg r [(p, c)] [] = Ok [((r, p), (c - 1, false))].
Proof.
  intros dbg r p c Hc Hr. cbn [consumed_parts]. destruct (c =? -1) eqn:E; [lia|].
  rewrite i64_op_in by lia. reflexivity.
Qed.

(* a committed offset of -1 is the broker's "nothing committed": no mark is stored *)
Theorem C08_load_skips_minus1 : forall dbg r p, consumed_parts dbg r [(p, -1)] [] = Ok [].
Proof. reflexivity. Qed.

Theorem C08_load_topics : forall dbg asg t r p c,
  topic_ref asg t = Some r -> c <> -1 -> i64_min < c <= i64_max ->
  consumed_topics dbg asg [(t, [(p, c)])] [] = Ok [((r, p), (c - 1, false))].
Proof.
  intros dbg asg t r p c Hr Hc Hc64. cbn [consumed_topics forallb]. destruct (c =? -1) eqn:E; [lia|].
  cbn [andb]. rewrite Hr, C08_load_stores by assumption. reflexivity.
Qed.

(* the round trip: the committing consumer's mark, +1 on the wire, -1 when loaded, +1 again by
   start_offset: the re-created consumer starts (t, p) at exactly mark + 1 *)
Theorem C08_load_roundtrip : forall dbg dbg' fb t p r mk e l os m,
  i64_min <= mk < i64_max -> mk <> -2 -> e <= mk + 1 <= l ->
  commit_entries dbg [(t, p, mk)] = Ok os ->
  consumed_parts dbg' r (map (fun o => (co_partition o, co_offset o)) os) [] = Ok m ->
  os = [{| co_topic := t; co_partition := p; co_offset := mk + 1 |}]
  /\ m = [((r, p), (mk, false))]
  /\ start_offset dbg' fb (tk_get (r, p) m) e l = Ok (mk + 1).
Proof.
  intros dbg dbg' fb t p r mk e l os m Hmk Hm2 Hel Hos Hm.
  rewrite C08_commit_entries in Hos by (repeat constructor; cbn [snd]; lia).
  inversion Hos; subst os. clear Hos. cbn [map fst snd co_partition co_offset] in Hm.
  rewrite C08_load_stores in Hm by lia. inversion Hm; subst m. clear Hm.
  replace (mk + 1 - 1) with mk by lia.
  split; [reflexivity|]. split; [reflexivity|].
  cbn [tk_get]. rewrite tpkey_eqb_refl.
  replace mk with (mk + 1 - 1) at 1 by lia. apply C07_start_valid; lia.
Qed.

Example C08_load_roundtrip_ex :
  commit_entries true [(tag "a", 1, 19)] = Ok [{| co_topic := tag "a"; co_partition := 1; co_offset := 20 |}]
  /\ consumed_topics true (k_assign ex_consumer) [(tag "a", [(1, 20)])] [] = Ok [((0, 1), (19, false))]
  /\ start_offset true FbLatest (tk_get (0, 1) [((0, 1), (19, false))]) 0 100 = Ok 20.
Proof. vm_compute. repeat split. Qed.

(* a mark of -2 (not an offset a broker hands out) would be committed as -1 and read back as
   "nothing committed" *)
Example C08_mark_minus2_ex :
  commit_entries true [(tag "a", 1, -2)] = Ok [{| co_topic := tag "a"; co_partition := 1; co_offset := -1 |}]
  /\ consumed_parts true 0 [(1, -1)] [] = Ok [].
Proof. vm_compute. split; reflexivity. Qed.

(* ================================================================================== *)
(* 5. API versions by offset storage                                                  *)
(* ================================================================================== *)

Theorem C08_version :
  commit_version 0 = OFFSET_COMMIT_V0 /\ fetch_version 0 = OFFSET_FETCH_V0       (* Zookeeper *)
  /\ commit_version 1 = OFFSET_COMMIT_V1 /\ fetch_version 1 = OFFSET_FETCH_V1    (* Kafka *)
  /\ OFFSET_COMMIT_V0 = 0 /\ OFFSET_FETCH_V0 = 0 /\ OFFSET_COMMIT_V1 = 1 /\ OFFSET_FETCH_V1 = 1.
Proof. repeat split. Qed.

(* the builder's storage choice is what selects the version *)
Theorem C08_version_from_builder : forall b g wait x,
  x = 0 \/ x = 1 ->
  offset_storage (cfg_set_consumer g (cbuilder_apply b (CWithStorage x)) wait) = x
  /\ commit_version x = x /\ fetch_version x = x.
Proof. intros b g wait x [H|H]; subst x; repeat split. Qed.

Print Assumptions C08_monotone.
Print Assumptions C08_dirty_set.
Print Assumptions C08_dirty_entries.
Print Assumptions C08_commit_entries.
Print Assumptions C08_commit_content.
Print Assumptions C08_reorder_perm.
Print Assumptions C08_commit_clears_only_on_success.
Print Assumptions C08_dirty_persists.
Print Assumptions C08_commit_needs_group.
Print Assumptions C08_commit_needs_storage.
Print Assumptions C08_load_stores.
Print Assumptions C08_load_skips_minus1.
Print Assumptions C08_load_topics.
Print Assumptions C08_load_roundtrip.
Print Assumptions C08_version.
Print Assumptions C08_version_from_builder.
