(* C02, additional theorems, second mutation-adequacy pass (round-four seed C02-4).

   Seed C02-4 (ZReader::read_i8/i16/i32/i64 return Error::Io(UnexpectedEof) instead of
   Error::UnexpectedEOF when the data runs out) mirrored in Base/Prelude.v (zread_i8..zread_i64)
   is ALREADY caught by Props/C02.v: C02_plain_prefix, C02_wrapper_cut, C02_chain, C02_safe_always and
   C02_fetch_end_to_end quantify over every cut k, and the cuts inside the 8-byte offset / 4-byte size
   field of an entry then give Err (EIo IoUnexpectedEof) instead of Ok.  (The proof of C02Lemmas.
   next_message_cut stops in its first case, k < 8.)

   What is added here:
   (1) the clause of the seed in its sharpest form: the tail behind the complete entries may be ANY
       0..15 bytes (not only the beginning of a well-formed entry, which is all Props/C02.v speaks of):
       fewer than 16 bytes can never be an entry, they are dropped silently.  Also the converse side:
       16 or more bytes of garbage are NOT in general dropped silently (witness).
   (2) non-emptiness along a chain of head wrappers of any depth (C02_nonempty_* had depth <= 1).
   (3) the forward direction up to the public entry point: when the pooled connection accepts the
       request and the stream delivers one frame holding a conforming fetch response (in reads of at
       most 64 KiB, as read_exact_alloc asks for them), `fetch_round` - one round of the loop of
       KafkaClient::fetch_messages - and `fetch_messages` itself SUCCEED and return exactly the view of
       that response, decoded with the client's own CRC setting, the nesting depth the model follows,
       and the offsets of the request kept for that broker.
   Everything is about the unchanged model. *)
From KV Require Import Base.Prelude Base.Crc32 Base.Snappy Gen.ErrorCodes Gen.Consts
                       Model.Codecs Model.Requests Model.Responses
                       Model.ClientState Model.Net Model.Client
                       Spec.MsgSetSpec Spec.RespGrammar
                       Proofs.BytesFacts Proofs.C10Facts Proofs.C02Lemmas Proofs.C02Facts Proofs.C02Extra.
From Coq Require Import ZifyBool.

(* ====================================================================== *)
(* (1) fewer than 16 bytes are never an entry                              *)
(* ====================================================================== *)

(* MessageSet::next_message on ANY 0..15 bytes: "not enough data" - Error::UnexpectedEOF, the one
   error the loop of MessageSet::from_slice takes as "partial final entry".  Below 12 bytes the
   offset/size header is incomplete; with 12..15 bytes whatever size the header announces, the
   message cannot hold its 4-byte CRC. *)
Lemma C02_next_message_short : forall dbg validate bs,
  (length bs < 16)%nat -> next_message dbg validate bs = Err EUnexpectedEOF.
Proof.
  intros dbg validate bs H. unfold next_message, zread_i64.
  rewrite zread_unfold. destruct (Nat.ltb (length bs) 8) eqn:E8; [reflexivity|].
  apply Nat.ltb_ge in E8. cbn [bind]. rewrite zread_bytes_unfold. unfold zread_i32 at 1.
  rewrite zread_unfold. rewrite skipn_length.
  destruct (Nat.ltb (length bs - 8) 4) eqn:E4; [reflexivity|].
  apply Nat.ltb_ge in E4. cbn [bind].
  set (len := be_dec_s (firstn 4 (skipn 8 bs))).
  set (r := skipn 4 (skipn 8 bs)).
  assert (Hr : (length r < 4)%nat) by (unfold r; rewrite !skipn_length; lia).
  assert (Hpm : forall msg, (length msg < 4)%nat -> protocol_message dbg validate msg = Err EUnexpectedEOF).
  { intros msg Hm. unfold protocol_message, zread_i32. rewrite zread_short by exact Hm. reflexivity. }
  destruct (len <=? 0) eqn:E0.
  - cbn [bind]. rewrite Hpm by (cbn [length]; lia). reflexivity.
  - destruct (Z.of_nat (length r) <? len) eqn:E1; [reflexivity|].
    rewrite zread_unfold.
    destruct (Nat.ltb (length r) (Z.to_nat len)) eqn:E2; [reflexivity|].
    cbn [bind]. rewrite Hpm; [reflexivity|]. rewrite firstn_length. lia.
Qed.

Section ShortTail.
  Variable comp : Z -> bytes -> bytes.

  Lemma ms_loop_plain_tail inner dbg validate req : forall es fuel acc tail,
    all_plain es -> wf_entries comp es -> (length tail < 16)%nat ->
    (length (ser comp es ++ tail) < fuel)%nat ->
    ms_loop inner dbg validate req fuel (ser comp es ++ tail) acc
    = Ok (rev acc ++ map msg_of (filter (qual req) (flatten es))).
  Proof.
    induction es as [|e r IH]; intros fuel acc tail Hp Hwf Ht Hfuel.
    - unfold ser. cbn [flat_map app flatten filter map]. rewrite app_nil_r.
      destruct fuel as [|f]; [lia|].
      apply ms_loop_eof. apply C02_next_message_short. exact Ht.
    - apply all_plain_cons in Hp. destruct Hp as [[o [key [v ->]]] Hpr].
      inversion Hwf as [|x l Hwe Hwr]; subst. destruct Hwe as [Ho Hf].
      destruct fuel as [|f]; [lia|].
      rewrite ser_cons, <- app_assoc in *. rewrite app_length in Hfuel.
      rewrite (ms_loop_plain_step inner dbg validate req f _ acc o (view_opt key) (view_opt v)
                 (ser comp r ++ tail)).
      2:{ apply ser_entry_nonempty. }
      2:{ rewrite ser_entry_plain. apply next_message_complete; try assumption. unfold in_i8. lia. }
      pose proof (ser_entry_length_pos comp (Plain o key v)) as Hpos.
      rewrite IH; try assumption; [|lia].
      rewrite flatten_cons. cbn [flatten_entry app filter].
      change (qual req (o, view_opt key, view_opt v)) with (req <=? o).
      destruct (req <=? o).
      + cbn [rev map]. rewrite <- app_assoc. reflexivity.
      + reflexivity.
  Qed.

  (* Any number of complete uncompressed entries followed by ANY 0..15 bytes (the beginning of a
     plain entry, of a gzip/snappy batch, of anything): no error, the tail is dropped silently and
     ALL complete messages at or above the requested offset are exposed.  Both values of the debug
     flag and of CRC validation.  (Seed C02-4: with the mirrored change every such tail of 1..11 bytes
     gives Err (EIo IoUnexpectedEof).) *)
  Theorem C02_short_tail_dropped : forall cz d validate req es tail,
    all_plain es -> wf_entries comp es -> (length tail < 16)%nat ->
    from_slice cz (S d) validate req (ser comp es ++ tail)
    = Ok (map msg_of (filter (fun x => req <=? fst (fst x)) (flatten es))).
  Proof.
    intros cz d validate req es tail Hp Hwf Ht.
    rewrite from_slice_S, (ms_loop_plain_tail _ _ _ _ es _ [] tail) by (try assumption; lia).
    reflexivity.
  Qed.

End ShortTail.

(* the special case the seed's second scenario is about: a set that is nothing but 0..15 bytes *)
Corollary C02_lone_short_tail : forall cz d validate req tail,
  (length tail < 16)%nat -> from_slice cz (S d) validate req tail = Ok [].
Proof.
  intros cz d validate req tail Ht.
  apply (C02_short_tail_dropped (fun _ x => x) cz d validate req [] tail);
    [apply all_plain_nil|constructor|exact Ht].
Qed.

(* non-vacuity: es3 (3 entries, 82 bytes) followed by 0..15 bytes 0xff (a header announcing a message
   of -1 bytes) resp. 0x01 (a header announcing 16,843,009 bytes), and the first 7 bytes of a batch *)
Example C02_short_tail_dropped_ex :
  forallb (fun n => match from_slice (wcz true) 1 true 1 (ser wcomp es3 ++ repeat xff n) with
                    | Ok l => match l with [a; b] => true | _ => false end
                    | _ => false end) (seq 0 16) = true
  /\ from_slice (wcz true) 1 true 1 (ser wcomp es3 ++ repeat xff 11) = Ok [m1; m2]
  /\ from_slice (wcz true) 1 true 1 (ser wcomp es3 ++ repeat x01 15) = Ok [m1; m2]
  /\ from_slice (wcz false) 1 false 0 (firstn 7 (ser wcomp es_gz)) = Ok [].
Proof. vm_compute. repeat split; reflexivity. Qed.

(* the bound 16 is sharp: 16 bytes of garbage behind the complete entries can be an error (a header
   announcing a 4-byte message whose "CRC" does not match, CRC validation on: CorruptMessage) - beyond 15
   bytes "dropped silently" is a promise about truncated CONFORMING data only (C02_plain_prefix etc.) *)
Example C02_short_tail_sharp :
  from_slice (wcz true) 1 true 0
             (ser wcomp es3 ++ [x00;x00;x00;x00;x00;x00;x00;x09; x00;x00;x00;x04; x00;x00;x00;x01])
  = Err (EKafka KC_CorruptMessage).
Proof. vm_compute. reflexivity. Qed.

(* ====================================================================== *)
(* (2) non-emptiness along a chain of head wrappers, any depth             *)
(* ====================================================================== *)

Theorem C02_nonempty_chain : forall comp cz fuel validate req es k x,
  codec_ok cz comp -> first_chain es -> wf_entries comp es -> (depth es < fuel)%nat ->
  In x (chain_msgs comp es k) -> req <= fst (fst x) ->
  exists m ms, from_slice cz fuel validate req (firstn k (ser comp es)) = Ok (m :: ms).
Proof.
  intros comp cz fuel validate req es k x Hc Hfc Hwf Hd Hin Hq.
  rewrite (C02_chain comp cz fuel validate req es k Hc Hfc Hwf Hd).
  destruct (C02Facts.filter_nonempty (fun x => req <=? fst (fst x)) _ x Hin) as [y [ys E]]; [lia|].
  rewrite E. cbn [map]. eauto.
Qed.

Example C02_nonempty_chain_ex :
  first_chain es_nest /\ wf_entries wcomp es_nest /\ (depth es_nest < 3)%nat
  /\ In (1, [x6b], [x62; x62]) (chain_msgs wcomp es_nest 157)
  /\ from_slice (wcz true) 3 true 1 (firstn 157 (ser wcomp es_nest)) = Ok [m1; m2].
Proof.
  split; [apply es_nest_chain|]. split; [apply es_nest_wf|]. vm_compute.
  split; [lia|]. split; [auto|reflexivity].
Qed.

(* ====================================================================== *)
(* (3) forward direction: the stream delivers the frame => the call succeeds *)
(* ====================================================================== *)

(* one round of the loop of KafkaClient::__fetch_messages (fetch_exchange): the body for one broker *)
Definition fetch_round (corr : Z) (h : bytes) (tps : fetch_tps) : M fetch_resp :=
  let+ c := get_client in
  let+ e := get_env in
  let+ fo := get_fetch_order h in
  let tps' := match fo with Some o => order_fetch o tps | None => tps end in
  let+ _ := get_conn h in
  let+ _ := send_request h (enc_fetch_req corr (client_id (cfg c)) (fetch_max_wait_time (cfg c))
                                          (fetch_min_bytes (cfg c)) tps') in
  let+ b := get_response_bytes h in
  lift (fetch_from_vec e decode_depth (fetch_crc_validation (cfg c)) tps b).

Lemma fetch_exchange_round corr h tps r acc s :
  fetch_exchange corr ((h, tps) :: r) acc s =
  mbind (fetch_round corr h tps) (fun resp => fetch_exchange corr r (acc ++ [resp])) s.
Proof.
  cbn [fetch_exchange]. unfold fetch_round, mbind, get_client, get_env, get_fetch_order, lift.
  destruct (get_conn h s) as [[u|e|w] s1]; try reflexivity.
  destruct (send_request h _ s1) as [[z|e|w] s2]; try reflexivity.
  destruct (get_response_bytes h s2) as [[b|e|w] s3]; try reflexivity.
Qed.

(* everything but script and trace is untouched *)
Definition only_io (s s' : st) : Prop :=
  anyq s' = anyq s /\ hostq s' = hostq s /\ fetchq s' = fetchq s /\ entryq s' = entryq s /\
  cl s' = cl s /\ env s' = env s.

Lemma only_io_refl s : only_io s s.
Proof. unfold only_io. tauto. Qed.
Lemma only_io_trans s s1 s2 : only_io s s1 -> only_io s1 s2 -> only_io s s2.
Proof. unfold only_io. intuition congruence. Qed.
Lemma only_io_st_with s sc tr : only_io s (st_with s sc tr).
Proof. unfold only_io, st_with. cbn. tauto. Qed.

(* Connections::get_conn for a pooled connection that has not idled out: no I/O at all *)
Lemma get_conn_pooled h s :
  in_pool h (conns (cl s)) = true -> idle_expired (cfg (cl s)) = false -> get_conn h s = (Ok tt, s).
Proof.
  intros Hp Hi. unfold get_conn, mbind, get_client. rewrite Hp, Hi. reflexivity.
Qed.

Lemma frame_cons p : exists b l, frame p = b :: l.
Proof. unfold frame, enc_i32. cbn [be_enc app]. eauto. Qed.

Lemma frame_ulen_pos p : 0 < ulen (frame p).
Proof. destruct (frame_cons p) as [b [l E]]. rewrite E. unfold ulen. cbn [length]. lia. Qed.

(* __send_request when the stream takes the whole frame in one write *)
Lemma send_request_one_write h p s tail :
  script s = OWrote (ulen (frame p)) :: tail ->
  exists s', send_request h (Ok p) s = (Ok (ulen (frame p)), s') /\ script s' = tail /\ only_io s s'.
Proof.
  intros Hs. exists (st_with s tail (EWrite h (frame p) :: trace s)).
  split; [|split; [reflexivity|apply only_io_st_with]].
  unfold send_request, lift, mbind at 1. unfold send, mbind at 1, with_fuel.
  rewrite Hs. cbn [length].
  pose proof (frame_ulen_pos p) as Hpos.
  destruct (frame_cons p) as [b [l E]].
  assert (W : write_all (S (S (length tail))) h (frame p) s
              = (Ok tt, st_with s tail (EWrite h (frame p) :: trace s))).
  { rewrite E at 1. cbn [write_all]. rewrite <- E. unfold mbind at 1, io. rewrite Hs.
    destruct (ulen (frame p) <=? 0) eqn:E0; [lia|].
    unfold ulen. rewrite Nat2Z.id, skipn_all. reflexivity. }
  rewrite W. reflexivity.
Qed.

(* read_exact when one read returns exactly what was asked for *)
Lemma read_exact_one f h n acc s bs tail :
  0 < n -> script s = OData bs :: tail -> ulen bs = n ->
  read_exact (S f) h n acc s = (Ok (acc ++ bs), st_with s tail (ERead h n :: trace s)).
Proof.
  intros Hn Hs Hb. cbn [read_exact]. destruct (n <=? 0) eqn:E0; [lia|].
  unfold mbind at 1, io. rewrite Hs.
  destruct bs as [|b0 bs]; [unfold ulen in Hb; cbn [length] in Hb; lia|].
  assert (E1 : n - ulen (b0 :: bs) <=? 0 = true) by lia.
  destruct f as [|f]; cbn [read_exact]; rewrite E1; reflexivity.
Qed.

(* the reads read_exact_alloc asks for: 64 KiB at a time, the rest in the last one *)
Definition chunk_nat : nat := Z.to_nat read_chunk.
Fixpoint chunk_list (fuel : nat) (b : bytes) : list bytes :=
  match fuel with
  | O => []
  | S f => match b with [] => [] | _ :: _ => firstn chunk_nat b :: chunk_list f (skipn chunk_nat b) end
  end.

Lemma chunk_nat_pos : (0 < chunk_nat)%nat.
Proof. unfold chunk_nat, read_chunk. lia. Qed.

Lemma read_chunks_delivered h : forall cf b fuel acc s tail,
  (length b <= cf)%nat ->
  script s = map OData (chunk_list cf b) ++ tail ->
  (length (chunk_list cf b) < fuel)%nat ->
  exists s', read_chunks fuel h (ulen b) acc s = (Ok (acc ++ b), s') /\ script s' = tail /\ only_io s s'.
Proof.
  induction cf as [|c IH]; intros b fuel acc s tail Hb Hs Hfuel.
  - destruct b; [|cbn [length] in Hb; lia]. cbn [chunk_list map app] in Hs.
    exists s. rewrite app_nil_r. split; [|split; [exact Hs|apply only_io_refl]].
    destruct fuel; reflexivity.
  - destruct b as [|x b].
    + cbn [chunk_list map app] in Hs.
      exists s. rewrite app_nil_r. split; [|split; [exact Hs|apply only_io_refl]].
      destruct fuel; reflexivity.
    + remember (x :: b) as B eqn:EB.
      assert (HB : (0 < length B)%nat) by (subst B; cbn [length]; lia).
      assert (EC : chunk_list (S c) B = firstn chunk_nat B :: chunk_list c (skipn chunk_nat B))
        by (subst B; reflexivity).
      rewrite EC in *. cbn [map app length] in *.
      destruct fuel as [|f]; [lia|].
      pose proof chunk_nat_pos as Hcp.
      assert (Hrc : Z.of_nat chunk_nat = read_chunk) by (unfold chunk_nat, read_chunk; lia).
      cbn [read_chunks]. destruct (ulen B <=? 0) eqn:E0; [unfold ulen in E0; lia|].
      cbv zeta. unfold mbind at 1, with_fuel.
      assert (Hlen1 : ulen (firstn chunk_nat B) = Z.min (ulen B) read_chunk).
      { unfold ulen. rewrite firstn_length. lia. }
      rewrite (read_exact_one _ h (Z.min (ulen B) read_chunk) [] s (firstn chunk_nat B)
                 (map OData (chunk_list c (skipn chunk_nat B)) ++ tail));
        [|unfold ulen, read_chunk; lia|exact Hs|exact Hlen1].
      cbn [app].
      set (s1 := st_with s _ _).
      assert (Hrem : ulen B - Z.min (ulen B) read_chunk = ulen (skipn chunk_nat B)).
      { unfold ulen. rewrite skipn_length. lia. }
      rewrite Hrem.
      destruct (IH (skipn chunk_nat B) f (acc ++ firstn chunk_nat B) s1 tail) as [s' [H1 [H2 H3]]].
      * rewrite skipn_length. lia.
      * reflexivity.
      * lia.
      * exists s'. rewrite H1, <- app_assoc, firstn_skipn. split; [reflexivity|]. split; [exact H2|].
        eapply only_io_trans; [|exact H3]. apply only_io_st_with.
Qed.

Lemma be_dec_p_i32 z : in_i32 z -> be_dec_s (p_i32 z) = z.
Proof. intros H. apply (dec_enc_i32 z H). Qed.

(* __get_response_size + read_exact_alloc: the 4-byte size in one read, then the payload in the
   reads read_exact_alloc asks for; `tail` (what follows in the script) is not touched *)
Lemma get_response_bytes_delivered h b s tail :
  ulen b <= i32_max ->
  script s = OData (p_i32 (ulen b)) :: map OData (chunk_list (length b) b) ++ tail ->
  exists s', get_response_bytes h s = (Ok b, s') /\ script s' = tail /\ only_io s s'.
Proof.
  intros Hmax Hs.
  assert (Hin : in_i32 (ulen b)) by (unfold in_i32, ulen, i32_max in *; lia).
  unfold get_response_bytes, mbind at 1. unfold get_response_size, mbind at 1, with_fuel.
  rewrite (read_exact_one _ h 4 [] s (p_i32 (ulen b)) (map OData (chunk_list (length b) b) ++ tail));
    [|lia|exact Hs|unfold ulen; rewrite p_i32_length; reflexivity].
  cbn [app]. cbv zeta. rewrite be_dec_p_i32 by exact Hin.
  destruct (ulen b <? 0) eqn:E0; [unfold ulen in E0; lia|].
  unfold ret. set (s1 := st_with s _ _).
  unfold read_exact_alloc, with_fuel.
  destruct (read_chunks_delivered h (length b) b (S (length (script s1))) [] s1 tail) as [s' [H1 [H2 H3]]].
  - lia.
  - reflexivity.
  - unfold s1. cbn [script st_with]. rewrite app_length, map_length. lia.
  - exists s'. split; [exact H1|]. split; [exact H2|].
    eapply only_io_trans; [|exact H3]. apply only_io_st_with.
Qed.

(* One round for broker h.  Hypotheses: the connection to h is pooled and has not idled out; the
   request for h encodes (names fit an i16 length); the stream takes the frame in one write and then
   delivers ONE frame: size, then `print_fetch r ++ extra` in the reads asked for, where r is any
   well-formed fetch response (any number of topics / partitions) each of whose message sets is a
   conforming set cut at any byte, nested less deep than the model follows, and the broker's
   compressor is one the client's decompressors invert.
   Conclusion: the round SUCCEEDS with exactly the view of r - decoded with the client's CRC setting,
   with `tps` (the request kept for h, not its wire-order copy) as the source of the requested
   offsets - and leaves the rest of the script, the client, the order hints alone. *)
Theorem C02_fetch_round_delivered : forall comp corr h tps s p r extra tail,
  in_pool h (conns (cl s)) = true -> idle_expired (cfg (cl s)) = false ->
  enc_fetch_req corr (client_id (cfg (cl s))) (fetch_max_wait_time (cfg (cl s))) (fetch_min_bytes (cfg (cl s)))
                (match assoc_bytes h (fetchq s) with Some o => order_fetch o tps | None => tps end) = Ok p ->
  ulen (print_fetch r ++ extra) <= i32_max ->
  script s = OWrote (ulen (frame p)) :: OData (p_i32 (ulen (print_fetch r ++ extra)))
             :: map OData (chunk_list (length (print_fetch r ++ extra)) (print_fetch r ++ extra)) ++ tail ->
  codec_ok (env s) comp -> wf_fetch r ->
  (forall t q, In t (view_list (wr_topics r)) -> In q (view_list (wt_partitions t)) ->
     exists es k, wfe_message_set q = firstn k (ser comp es) /\ wf_entries comp es /\ (depth es < decode_depth)%nat) ->
  exists s',
    fetch_round corr h tps s
    = (Ok (view_fresp (env s) decode_depth (fetch_crc_validation (cfg (cl s))) tps r), s')
    /\ script s' = tail /\ only_io s s'.
Proof.
  intros comp corr h tps s p r extra tail Hpool Hidle Henc Hmax Hs Hc Hwf Hsets.
  unfold fetch_round.
  unfold mbind at 1, get_client. unfold mbind at 1, get_env. unfold mbind at 1, get_fetch_order.
  cbv zeta. unfold mbind at 1. rewrite (get_conn_pooled h s Hpool Hidle).
  unfold mbind at 1. rewrite Henc.
  destruct (send_request_one_write h p s _ Hs) as [s1 [W1 [W2 W3]]]. rewrite W1.
  unfold mbind at 1.
  destruct (get_response_bytes_delivered h (print_fetch r ++ extra) s1 tail Hmax W2) as [s2 [R1 [R2 R3]]].
  rewrite R1. unfold lift.
  exists s2. split; [|split; [exact R2|eapply only_io_trans; eassumption]].
  f_equal.
  apply C02_response; [exact Hwf|]. intros t q Ht Hq.
  destruct (Hsets t q Ht Hq) as [es [k [E [Hwe Hd]]]]. unfold exposed. rewrite E.
  destruct (C02_safe_always comp (env s) (fetch_crc_validation (cfg (cl s)))
              (req_lookup tps (view_str (wt_name t)) (wfe_partition q)) Hc decode_depth es k Hwe Hd)
    as [ms [H1 _]].
  eauto.
Qed.

(* the rounds of one fetch_messages call, broker after broker *)
Inductive rounds (corr : Z) : list (bytes * fetch_tps) -> st -> list fetch_resp -> st -> Prop :=
| rounds_nil s : rounds corr [] s [] s
| rounds_cons h tps reqs s resp s1 resps s2 :
    fetch_round corr h tps s = (Ok resp, s1) ->
    rounds corr reqs s1 resps s2 ->
    rounds corr ((h, tps) :: reqs) s (resp :: resps) s2.

Lemma fetch_exchange_rounds corr reqs s resps s' :
  rounds corr reqs s resps s' ->
  forall acc, fetch_exchange corr reqs acc s = (Ok (acc ++ resps), s').
Proof.
  intros Hex. induction Hex as [s|h tps reqs s resp s1 resps s2 H1 _ IH]; intros acc.
  - cbn [fetch_exchange]. rewrite app_nil_r. reflexivity.
  - rewrite fetch_exchange_round. unfold mbind. rewrite H1, IH, <- app_assoc. reflexivity.
Qed.

(* KafkaClient::fetch_messages: when every round succeeds, the call succeeds with one decoded
   response per broker asked, in the order asked *)
Theorem C02_fetch_messages_rounds : forall input s corr s0 reqs s1 resps s',
  next_corr s = (Ok corr, s0) ->
  ordered (fetch_reqs (cl s0) input) s0 = (Ok reqs, s1) ->
  rounds corr reqs s1 resps s' ->
  fetch_messages input s = (Ok resps, s').
Proof.
  intros input s corr s0 reqs s1 resps s' Hc Ho Hex.
  unfold fetch_messages. unfold mbind at 1. rewrite Hc.
  unfold mbind at 1, get_client. unfold mbind at 1. rewrite Ho.
  apply (fetch_exchange_rounds corr reqs s1 resps s' Hex []).
Qed.

(* ---- the whole call, all partitions asked for led by one broker -------------------------------- *)

(* what fetch_messages hands to FetchRequest::add for one input element (max_bytes <= 0: the
   client's default) *)
Definition ask_mb (c : config) (q : fetch_partition) : fetch_ask :=
  (fq_topic q, fq_partition q, fq_offset q,
   if 0 <? fq_max_bytes q then fq_max_bytes q else fetch_max_bytes_per_partition c).

Lemma asked_ask_mb c input : forall t p d,
  asked (map (ask_mb c) input) t p d = asked (map ask_of input) t p d.
Proof.
  induction input as [|q r IH]; intros t p d; [reflexivity|].
  cbn [map]. unfold ask_mb at 1, ask_of at 1. cbn [asked]. apply IH.
Qed.

Lemma fetch_reqs_one_host c h : forall input tps,
  (forall q, In q input -> find_broker (cs c) (fq_topic q) (fq_partition q) = Some h) ->
  fold_left (fun reqs q =>
               match find_broker (cs c) (fq_topic q) (fq_partition q) with
               | None => reqs
               | Some host =>
                   fhost_add reqs host (fq_topic q) (fq_partition q) (fq_offset q)
                             (if 0 <? fq_max_bytes q then fq_max_bytes q
                              else fetch_max_bytes_per_partition (cfg c))
               end) input [(h, tps)]
  = [(h, fold_left (fun tps (a : fetch_ask) => let '(t, p, off, mb) := a in fetch_add tps t p off mb)
                   (map (ask_mb (cfg c)) input) tps)].
Proof.
  induction input as [|q r IH]; intros tps Hall; [reflexivity|].
  cbn [fold_left map]. rewrite (Hall q (or_introl eq_refl)).
  cbn [fhost_add]. rewrite bytes_eqb_refl. unfold ask_mb at 2.
  apply IH. intros q' Hq'. apply Hall. right. exact Hq'.
Qed.

Lemma fetch_reqs_one_broker c h input :
  input <> [] ->
  (forall q, In q input -> find_broker (cs c) (fq_topic q) (fq_partition q) = Some h) ->
  fetch_reqs c input = [(h, build_reqs (map (ask_mb (cfg c)) input))].
Proof.
  intros Hne Hall. destruct input as [|q r]; [congruence|].
  unfold fetch_reqs, build_reqs. cbn [fold_left map]. rewrite (Hall q (or_introl eq_refl)).
  cbn [fhost_add]. unfold ask_mb at 2.
  apply fetch_reqs_one_host. intros q' Hq'. apply Hall. right. exact Hq'.
Qed.

Lemma reorder_nil {V} o : @reorder V o [] = [].
Proof. induction o as [|k ks IH]; [reflexivity|]. cbn [reorder take_key]. exact IH. Qed.

Lemma reorder_single {V} o (h : bytes) (v : V) : reorder o [(h, v)] = [(h, v)].
Proof.
  induction o as [|k ks IH]; [reflexivity|]. cbn [reorder take_key].
  destruct (bytes_eqb h k); [rewrite reorder_nil; reflexivity|exact IH].
Qed.

(* KafkaClient::fetch_messages(input), every partition of `input` led by broker h (any number of
   topics and partitions, any order, repeats allowed), under the hypotheses of
   C02_fetch_round_delivered for the request the call builds.  The call SUCCEEDS with one response:
   the view of r; and partition (i, j) of it carries the id and high-watermark sent and the
   complete messages at or above the offset given in `input` for that topic/partition (last
   mention counts; 0 if the broker answers for a partition not asked for), exactly as in
   C02_fetch_end_to_end. *)
Theorem C02_fetch_messages_one_broker : forall comp input s h p r extra tail,
  input <> [] ->
  (forall q, In q input -> find_broker (cs (cl s)) (fq_topic q) (fq_partition q) = Some h) ->
  in_pool h (conns (cl s)) = true -> idle_expired (cfg (cl s)) = false ->
  let corr := fst (next_correlation_id (cs (cl s))) in
  let adds := map (ask_mb (cfg (cl s))) input in
  enc_fetch_req corr (client_id (cfg (cl s))) (fetch_max_wait_time (cfg (cl s))) (fetch_min_bytes (cfg (cl s)))
                (match assoc_bytes h (fetchq s) with
                 | Some o => order_fetch o (build_reqs adds) | None => build_reqs adds end) = Ok p ->
  ulen (print_fetch r ++ extra) <= i32_max ->
  script s = OWrote (ulen (frame p)) :: OData (p_i32 (ulen (print_fetch r ++ extra)))
             :: map OData (chunk_list (length (print_fetch r ++ extra)) (print_fetch r ++ extra)) ++ tail ->
  codec_ok (env s) comp -> wf_fetch r ->
  (forall t q, In t (view_list (wr_topics r)) -> In q (view_list (wt_partitions t)) ->
     exists es k, wfe_message_set q = firstn k (ser comp es) /\ wf_entries comp es /\ (depth es < decode_depth)%nat) ->
  let resp := view_fresp (env s) decode_depth (fetch_crc_validation (cfg (cl s))) (build_reqs adds) r in
  (exists s', fetch_messages input s = (Ok [resp], s') /\ script s' = tail)
  /\ forall i j t q es k,
       nth_error (view_list (wr_topics r)) i = Some t ->
       nth_error (view_list (wt_partitions t)) j = Some q ->
       wfe_error q = 0 ->
       wfe_message_set q = firstn k (ser comp es) -> wf_entries comp es -> (depth es < decode_depth)%nat ->
       exists ft fp ms,
         nth_error (fr_topics resp) i = Some ft /\
         ft_topic ft = view_str (wt_name t) /\
         nth_error (ft_partitions ft) j = Some fp /\
         fp_partition fp = wfe_partition q /\
         fp_data fp = inl (wfe_highwater q, map msg_of ms) /\
         subseq ms (filter (fun x => asked (map ask_of input) (view_str (wt_name t)) (wfe_partition q) 0 <=? fst (fst x))
                           (flatten (complete_prefix comp es k))) /\
         (~ Known es ->
          ms = filter (fun x => asked (map ask_of input) (view_str (wt_name t)) (wfe_partition q) 0 <=? fst (fst x))
                      (chain_msgs comp es k)).
Proof.
  intros comp input s h p r extra tail Hne Hall Hpool Hidle corr adds Henc Hmax Hs Hc Hwf Hsets resp.
  split.
  - unfold fetch_messages, next_corr.
    unfold mbind at 1. unfold mbind at 1, get_client at 1.
    destruct (next_correlation_id (cs (cl s))) as [n cs'] eqn:En.
    assert (Ecs : cs' = snd (next_correlation_id (cs (cl s)))) by (try rewrite En; reflexivity).
    assert (En' : n = corr) by (unfold corr; try rewrite En; reflexivity).
    unfold set_cs, mbind at 1, get_client at 1, set_client, ret. cbn [cl cfg cs conns].
    unfold mbind at 1. cbn [cl].
    set (c0 := {| cfg := cfg (cl s); cs := cs'; conns := conns (cl s) |}).
    assert (Er : fetch_reqs c0 input = [(h, build_reqs adds)]).
    { apply (fetch_reqs_one_broker c0 h input Hne). intros q Hq.
      unfold c0. cbn [cs]. rewrite Ecs. exact (Hall q Hq). }
    unfold mbind at 1, get_client at 1. cbn [cl]. rewrite Er. unfold ordered, mbind at 1, pop_hosts. cbn [hostq].
    assert (G : forall s1, script s1 = script s -> fetchq s1 = fetchq s -> env s1 = env s -> cl s1 = c0 ->
                exists s', fetch_exchange n [(h, build_reqs adds)] [] s1 = (Ok [resp], s') /\ script s' = tail).
    { intros s1 G1 G2 G3 G4.
      destruct (C02_fetch_round_delivered comp n h (build_reqs adds) s1 p r extra tail) as [s' [F1 [F2 _]]].
      - rewrite G4. exact Hpool.
      - rewrite G4. exact Hidle.
      - rewrite G4, G2, En'. exact Henc.
      - exact Hmax.
      - rewrite G1. exact Hs.
      - rewrite G3. exact Hc.
      - exact Hwf.
      - exact Hsets.
      - exists s'. split; [|exact F2].
        rewrite fetch_exchange_round. unfold mbind. rewrite F1. cbn [fetch_exchange app ret].
        rewrite G3, G4. reflexivity. }
    destruct (hostq s) as [|o hq]; unfold mbind, ret; cbn [hostq]; rewrite ?reorder_single; apply G; reflexivity.
  - intros i j t q es k Ht Hq He E Hwe Hd.
    destruct (C02_fetch_end_to_end comp (env s) decode_depth (fetch_crc_validation (cfg (cl s))) adds r []
                Hc Hwf Hsets) as [_ H2].
    destruct (H2 i j t q es k Ht Hq He E Hwe Hd) as [ft [fp [ms H3]]].
    exists ft, fp, ms. unfold adds in H3. rewrite !asked_ask_mb in H3. exact H3.
Qed.

(* ---- non-vacuity: the layout of C02Extra.ex_resp (topic "t": partition 0 plain, partition 2 a gzip
   batch + a plain message, partition 1 a snappy batch cut one byte short; a second topic with null
   name and null partition array), all led by broker b1 whose connection is pooled; the request is
   built from the input order 0, 2, 1; one byte of the next frame follows in the stream ---------- *)
Definition exb_h : bytes := tag "b1:9092".
Definition exb_cs : cstate :=
  {| correlation := 0; brokers := [ {| b_node := 1; b_host := exb_h |} ];
     topic_partitions := [ ([x74], [0; 0; 0]) ]; group_coordinators := [] |}.
Definition exb_input : list fetch_partition :=
  [ {| fq_topic := [x74]; fq_partition := 0; fq_offset := 1; fq_max_bytes := 0 |};
    {| fq_topic := [x74]; fq_partition := 2; fq_offset := 2; fq_max_bytes := 200 |};
    {| fq_topic := [x74]; fq_partition := 1; fq_offset := 1; fq_max_bytes := 130 |} ].
Definition exb_client : client := {| cfg := default_config []; cs := exb_cs; conns := [exb_h] |}.
Definition exb_adds : list fetch_ask := map (ask_mb (cfg exb_client)) exb_input.
Definition exb_p : bytes :=
  match enc_fetch_req 1 [] (fetch_max_wait_time (cfg exb_client)) (fetch_min_bytes (cfg exb_client))
                      (build_reqs exb_adds) with Ok p => p | _ => [] end.
Definition exb_payload : bytes := print_fetch ex_resp ++ [].
Definition exb_st : st :=
  {| script := OWrote (ulen (frame exb_p)) :: OData (p_i32 (ulen exb_payload))
               :: map OData (chunk_list (length exb_payload) exb_payload) ++ [OData [x09]];
     trace := []; anyq := []; hostq := []; fetchq := []; entryq := [];
     cl := exb_client; env := wcz true |}.

Example exb_sets : forall t p, In t (view_list (wr_topics ex_resp)) -> In p (view_list (wt_partitions t)) ->
  exists es k, wfe_message_set p = firstn k (ser wcomp es) /\ wf_entries wcomp es /\ (depth es < decode_depth)%nat.
Proof.
  intros t p Ht Hp. destruct (ex_resp_sets t p Ht Hp) as [es [k [H1 [H2 H3]]]].
  exists es, k. unfold decode_depth, MAX_COMPRESSION_DEPTH. repeat split; [exact H1|exact H2|lia].
Qed.

Example C02_fetch_messages_one_broker_hyps :
  exb_input <> []
  /\ (forall q, In q exb_input -> find_broker (cs (cl exb_st)) (fq_topic q) (fq_partition q) = Some exb_h)
  /\ in_pool exb_h (conns (cl exb_st)) = true /\ idle_expired (cfg (cl exb_st)) = false
  /\ enc_fetch_req (fst (next_correlation_id (cs (cl exb_st)))) (client_id (cfg (cl exb_st)))
                   (fetch_max_wait_time (cfg (cl exb_st))) (fetch_min_bytes (cfg (cl exb_st)))
                   (match assoc_bytes exb_h (fetchq exb_st) with
                    | Some o => order_fetch o (build_reqs exb_adds) | None => build_reqs exb_adds end) = Ok exb_p
  /\ ulen (print_fetch ex_resp ++ []) <= i32_max
  /\ script exb_st = OWrote (ulen (frame exb_p)) :: OData (p_i32 (ulen (print_fetch ex_resp ++ [])))
                     :: map OData (chunk_list (length (print_fetch ex_resp ++ [])) (print_fetch ex_resp ++ []))
                        ++ [OData [x09]]
  /\ codec_ok (env exb_st) wcomp /\ wf_fetch ex_resp.
Proof.
  split; [discriminate|].
  split; [intros q [<-|[<-|[<-|[]]]]; vm_compute; reflexivity|].
  split; [vm_compute; reflexivity|]. split; [vm_compute; reflexivity|].
  split; [vm_compute; reflexivity|]. split; [vm_compute; discriminate|].
  split; [reflexivity|]. split; [apply wcomp_codec_ok|apply ex_resp_wf].
Qed.

(* and what the theorem then promises, computed: the call succeeds; partition 0 asked @1 -> [m1; m2],
   partition 2 asked @2 -> [m2] (the batch only), partition 1 (cut batch) -> nothing, no error; ids
   and high-watermarks as sent; the byte of the next frame is still in the stream *)
Example C02_fetch_messages_one_broker_ex :
  fst (fetch_messages exb_input exb_st)
  = Ok [ {| fr_corr := 7;
            fr_topics := [ {| ft_topic := [x74];
                              ft_partitions := [ {| fp_partition := 0; fp_data := inl (3, [m1; m2]) |};
                                                 {| fp_partition := 2; fp_data := inl (4, [m2]) |};
                                                 {| fp_partition := 1; fp_data := inl (9, []) |} ] |};
                           {| ft_topic := []; ft_partitions := [] |} ] |} ]
  /\ script (snd (fetch_messages exb_input exb_st)) = [OData [x09]]
  /\ length (chunk_list (length exb_payload) exb_payload) = 1%nat.
Proof. vm_compute. repeat split; reflexivity. Qed.

(* the reads of a 70,000-byte payload: one of 64 KiB and the rest *)
Example chunk_list_ex :
  map (@ulen byte) (chunk_list 3 (repeat x00 (Z.to_nat 70000))) = [65536; 4464].
Proof. vm_compute. reflexivity. Qed.

(* Not done / not proved here:
   - the forward theorems ask for the frame to be taken in ONE write and delivered in exactly the reads
     read_exact_alloc asks for (size in one read, payload in 64 KiB pieces).  Short reads/writes and
     interrupted ones also succeed in the model (NetFacts has the inversion lemmas) but a forward statement
     over every chopping of the stream is not proved.
   - C02_fetch_messages_one_broker is for ONE broker; for several brokers compose
     C02_fetch_round_delivered round by round with C02_fetch_messages_rounds (the state hypotheses of the
     next round follow from `only_io`); no single closed statement is given for that.
   - a connection that is not pooled yet (Connect event first) or has idled out is not covered. *)

Print Assumptions C02_next_message_short.
Print Assumptions C02_short_tail_dropped.
Print Assumptions C02_lone_short_tail.
Print Assumptions C02_nonempty_chain.
Print Assumptions C02_fetch_round_delivered.
Print Assumptions C02_fetch_messages_rounds.
Print Assumptions C02_fetch_messages_one_broker.
