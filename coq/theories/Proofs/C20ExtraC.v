(* C20, additional theorems (C): the PRODUCER and CONSUMER front ends.

   Third adequacy pass.  Both new seeds are already covered by Props/C20.v (checked in scratch copies of the
   development with the mirrored change made to Model/Client.v):

   * Seed C20-5 (`ClientState::known_partitions_for` zips the unfiltered topic names with the filtered partition
     vectors; used by fetch_offsets / list_offsets).  Mirrored in Model.Client.offset_reqs
     (fold over `combine topics (filter_map partitions_for topics)`).  Falsifies C20_offsets_known (and
     C20_offsets_leader, C20_offsets_silent, hence the wire theorem C20_wire_names_only_known): on the mutant
       ~ (forall s topics time host tps t ps p x, In (host,tps) (offset_reqs s topics time) -> In (t,ps) tps ->
            In (p,x) ps -> known s t p /\ In t topics)
     is proved with the witness c20_state, topics ["nope";"t2";"t1"]: the request for h1:9092 is
     [("nope",[(0,-1)]); ("t2",[(2,-1)])] - the unknown topic "nope" and the out-of-range partition t2:2.
   * Seed C20-6 (`fetch_group_topic_offset` re-expressed through `fetch_group_offsets` with the flattened
     partition list).  Mirrored in Model.Client.fetch_group_topic_offset.  Falsifies C20_group_topic (its `None`
     branch): on the mutant the negation is proved with the witness (tag "g", tag "nope", c20_st 1); the call
     there returns Panic "available connection" (c20_st has no open connection - the side effect the seed's
     README mentions) instead of Err UnknownTopicOrPartition.  The wire theorems do NOT see this seed (the
     requests sent name no topic); C20_group_topic is the only theorem that does.

   What this file adds (item (3) of the "Not done" list of C20ExtraB.v): the property says "no request sent by the
   client, PRODUCER or CONSUMER ..."; so far every theorem was about Model.Client.  Here the wire statement is
   lifted to the calls of Model.Producer (send_all, send) and Model.Consumer (poll, commit_consumed), and the
   local-failure clause is stated for the producer:

   Part 1  send_all_reqs (the producer's own grouping loop, which runs the partitioner): every entry built is
           addressed to the current leader of a loaded partition (C20_send_all_known); a record for a topic that is
           not loaded, or with an explicit partition that is not loaded, makes the whole call fail locally with
           UnknownTopicOrPartition, nothing sent (C20_send_all_local_fail, C20_producer_send_all_local_fail,
           C20_producer_send_local_fail).
   Part 2  C20_front_wire_names_only_known: for send_all / send / poll / commit_consumed, any script, any outcome:
           the events performed are non-writes and whole frames (plus re-offered tails) of data requests whose
           entries are all in the metadata loaded when the call was made.  Corollaries as for the client.
   Part 3  after a reset (or a failed load_metadata_all) the front ends name nothing; after any history of
           metadata calls they name only what the replayed history says is loaded.

   Not done: Builder::create of both front ends with a host list (it performs an explicit load_metadata_all first,
   so the set of loaded partitions changes in the middle of the call); consumer creation from an existing client
   (several client calls in a row with the coordinator cache changing in between: needs C20Extra2's invariance
   threaded through; not attempted for lack of time). *)
From Coq Require Import ZifyBool Sorting.Permutation.
From KV Require Import Base.Prelude Gen.Consts Model.Codecs Model.Requests Model.Responses
                       Model.ClientState Model.Net Model.Client Model.Producer Model.Consumer.
From KV Require Import Proofs.BytesFacts Proofs.NetFacts.
From KV Require Import Proofs.C20Facts Proofs.C20Extra Proofs.C20Extra2 Proofs.C20ExtraB.

(* ================================================================================================== *)
(* Part 1: the producer's request builder                                                               *)
(* ================================================================================================== *)
Lemma send_all_reqs_inv s parts : forall recs cntr acc reqs cntr',
  all3 (produce_inv s) acc -> send_all_reqs s parts cntr recs acc = (Some reqs, cntr') -> all3 (produce_inv s) reqs.
Proof.
  induction recs as [|r rest IH]; intros cntr acc reqs cntr' Hacc; cbn [send_all_reqs].
  - intros H. injection H as <- _. exact Hacc.
  - destruct (partition parts cntr (r_topic r) (r_partition r) (to_option (r_key r))) as [p c1].
    destruct (find_broker s (r_topic r) p) as [host|] eqn:E; [|discriminate].
    apply IH. apply phost_add_all3; [exact Hacc| |].
    + intros ms [H1 H2]. split; [exact H1|]. cbn [snd]. intros Hx. apply app_eq_nil in Hx.
      destruct Hx as [_ Hx]. discriminate Hx.
    + split; [exact E|]. cbn [snd]. discriminate.
Qed.

(* whatever the partitioner chose: every message set of every request the producer builds is addressed to the
   current leader of its partition, which therefore is loaded *)
Theorem C20_send_all_known : forall s parts cntr recs reqs cntr',
  send_all_reqs s parts cntr recs [] = (Some reqs, cntr') ->
  forall host tps t ps p ms, In (host, tps) reqs -> In (t, ps) tps -> In (p, ms) ps ->
    find_broker s t p = Some host /\ known s t p /\ ms <> [].
Proof.
  intros s parts cntr recs reqs cntr' H host tps t ps p ms H1 H2 H3.
  destruct (send_all_reqs_inv s parts recs cntr [] reqs cntr' (all3_nil _) H host tps t ps (p, ms) H1 H2 H3)
    as [Ha Hb].
  cbn [fst snd] in Ha, Hb. split; [exact Ha|]. split; [|exact Hb]. apply find_broker_known in Ha. exact Ha.
Qed.

(* a record the loaded metadata cannot place: its topic is not loaded, or it names a partition that is not *)
Definition unplaceable (s : cstate) (r : record) : Prop :=
  partitions_for s (r_topic r) = None \/ (0 <= r_partition r /\ ~ known s (r_topic r) (r_partition r)).

Lemma unplaceable_no_leader s parts cntr r :
  unplaceable s r ->
  find_broker s (r_topic r) (fst (partition parts cntr (r_topic r) (r_partition r) (to_option (r_key r)))) = None.
Proof.
  intros [H|[H1 H2]].
  - unfold find_broker. rewrite H. reflexivity.
  - unfold partition. destruct (0 <=? r_partition r) eqn:E; [|lia]. cbn [fst].
    apply unknown_find_broker_None. exact H2.
Qed.

Theorem C20_send_all_local_fail : forall s parts recs cntr acc,
  (exists r, In r recs /\ unplaceable s r) -> fst (send_all_reqs s parts cntr recs acc) = None.
Proof.
  induction recs as [|r0 rest IH]; intros cntr acc [r [Hin Hr]]; [destruct Hin|].
  cbn [send_all_reqs].
  destruct (partition parts cntr (r_topic r0) (r_partition r0) (to_option (r_key r0))) as [p c1] eqn:Ep.
  destruct Hin as [->|Hin].
  - pose proof (unplaceable_no_leader s parts cntr r Hr) as Hn. rewrite Ep in Hn. cbn [fst] in Hn.
    rewrite Hn. reflexivity.
  - destruct (find_broker s (r_topic r0) p) as [host|]; [|reflexivity].
    apply IH. exists r. split; assumption.
Qed.

Lemma unplaceable_bump s r : unplaceable (snd (next_correlation_id s)) r <-> unplaceable s r.
Proof. unfold unplaceable, known. reflexivity. Qed.

(* Producer::send_all: fails locally, before anything is sent; only the correlation counter moved *)
Theorem C20_producer_send_all_local_fail : forall p recs x,
  (exists r, In r recs /\ unplaceable (cs (cl x)) r) ->
  producer_send_all p recs x = (Err (EKafka KC_UnknownTopicOrPartition), bump_corr x).
Proof.
  intros p recs x [r [Hin Hr]]. unfold producer_send_all.
  rewrite (mbind_run _ _ _ _ _ (next_corr_run x)).
  rewrite (mbind_run _ _ _ _ _ (get_client_run (bump_corr x))).
  change (cs (cl (bump_corr x))) with (snd (next_correlation_id (cs (cl x)))).
  assert (Hf : fst (send_all_reqs (snd (next_correlation_id (cs (cl x)))) (p_parts p) (p_cntr p) recs []) = None).
  { apply C20_send_all_local_fail. exists r. split; [exact Hin|]. apply unplaceable_bump. exact Hr. }
  destruct (send_all_reqs (snd (next_correlation_id (cs (cl x)))) (p_parts p) (p_cntr p) recs []) as [oreqs c1].
  cbn [fst] in Hf. subst oreqs. reflexivity.
Qed.

Corollary C20_producer_send_local_fail : forall p r x,
  unplaceable (cs (cl x)) r ->
  producer_send p r x = (Err (EKafka KC_UnknownTopicOrPartition), bump_corr x).
Proof.
  intros p r x Hr. unfold producer_send.
  assert (H : producer_send_all p [r] x = (Err (EKafka KC_UnknownTopicOrPartition), bump_corr x)).
  { apply C20_producer_send_all_local_fail. exists r. split; [left; reflexivity|exact Hr]. }
  unfold mbind at 1. rewrite H. reflexivity.
Qed.

(* ================================================================================================== *)
(* Part 2: the wire, for the front-end calls                                                            *)
(* ================================================================================================== *)
Lemma wire_known_refl x : wire_known x x x.
Proof. apply (proj1 (preorder_wire_rel _)). Qed.

Lemma wire_known_trans x s1 s2 s3 : wire_known x s1 s2 -> wire_known x s2 s3 -> wire_known x s1 s3.
Proof. apply (proj2 (preorder_wire_rel _)). Qed.

(* a call made from a state that differs from x only in the order hints (and has performed nothing since) *)
Lemma wire_known_shift x s1 x' :
  cl s1 = cl x -> script s1 = script x -> trace s1 = trace x -> wire_known s1 s1 x' -> wire_known x x x'.
Proof.
  unfold wire_known. intros Hc Hs Ht H. rewrite Hc in H.
  eapply (proj2 (preorder_wire_rel _)); [|exact H]. apply quiet_ops; assumption.
Qed.

(* first a call that is fine from x, then anything that keeps the relation *)
Lemma wire_then {A B} x (m : M A) (f : A -> M B) r x' :
  (forall r1 x1, m x = (r1, x1) -> wire_known x x x1) -> (forall a, keeps (wire_known x) (f a)) ->
  mbind m f x = (r, x') -> wire_known x x x'.
Proof.
  intros Hm Hf H. bind_inv H a s1 H1 H2.
  - eapply wire_known_trans; [apply (Hm _ _ H1)|apply (Hf a _ _ _ H2)].
  - apply (Hm _ _ H1).
  - apply (Hm _ _ H1).
Qed.

Lemma wire_mtry {A} x (m : M A) r x' :
  (forall r1 x1, m x = (r1, x1) -> wire_known x x x1) -> mtry m x = (r, x') -> wire_known x x x'.
Proof.
  intros Hm H. unfold mtry in H. destruct (m x) as [r0 s1] eqn:E. specialize (Hm r0 s1 eq_refl).
  destruct r0 as [a|e|w]; inversion H; subst; exact Hm.
Qed.

(* ---- Producer::send_all / send ------------------------------------------------------------------------ *)
Lemma wire_producer_send_all p recs x r x' :
  producer_send_all p recs x = (r, x') -> wire_known x x x'.
Proof.
  intros H. unfold producer_send_all in H.
  rewrite (mbind_run _ _ _ _ _ (next_corr_run x)) in H.
  rewrite (mbind_run _ _ _ _ _ (get_client_run (bump_corr x))) in H.
  apply after_bump.
  destruct (send_all_reqs (cs (cl (bump_corr x))) (p_parts p) (p_cntr p) recs []) as [[reqs0|] c1] eqn:E.
  - revert H. apply wk_ordered_then. intros reqs Hin.
    apply keeps_bind; [apply preorder_wire_rel| |intros cf; apply keeps_ret; apply preorder_wire_rel].
    apply wk_produce_exchange. intros h tps Hq t ps [q ms] Ht He.
    destruct (C20_send_all_known _ _ _ _ _ _ E h tps t ps q ms (Hin _ Hq) Ht He) as (_ & Hk & _).
    exact Hk.
  - injection H as _ <-. apply (proj1 (preorder_wire_rel _)).
Qed.

Lemma wire_producer_send p rc x r x' :
  producer_send p rc x = (r, x') -> wire_known x x x'.
Proof.
  unfold producer_send. apply wire_then.
  - intros r1 x1. apply wire_producer_send_all.
  - intros [cf p']. pose proof (preorder_wire_rel (data_request (known (cs (cl x))))) as HR.
    destruct (p_acks p =? 0); [apply keeps_ret; exact HR|].
    destruct cf as [|[t0 pcs] [|c2 cf']]; try (apply keeps_mpanic; exact HR).
    destruct pcs as [|[q0 [v|code]] [|pc2 pcs']]; try (apply keeps_mpanic; exact HR).
    + apply keeps_ret; exact HR.
    + apply keeps_fail; exact HR.
Qed.

(* ---- Consumer::poll ------------------------------------------------------------------------------------- *)
Lemma wire_consumer_fetch k x r x' :
  consumer_fetch k x = (r, x') -> wire_known x x x'.
Proof.
  pose proof (preorder_wire_rel (data_request (known (cs (cl x))))) as HR.
  unfold consumer_fetch. destruct (k_retry k) as [|tp rest].
  - apply wire_then; [|intros a; apply keeps_ret; exact HR].
    intros r1 x1. apply wire_mtry. intros r2 x2. apply wire_fetch_messages.
  - destruct (tk_get tp (k_fetch k)) as [[off maxb]|].
    + apply wire_then; [|intros a; apply keeps_ret; exact HR].
      intros r1 x1. apply wire_mtry. intros r2 x2. apply wire_fetch_messages.
    + intros H. injection H as _ <-. apply wire_known_refl.
Qed.

Lemma wire_consumer_poll k x r x' :
  consumer_poll k x = (r, x') -> wire_known x x x'.
Proof.
  pose proof (preorder_wire_rel (data_request (known (cs (cl x))))) as HR.
  unfold consumer_poll. apply wire_then.
  - intros r1 x1. apply wire_consumer_fetch.
  - intros [[n r0] k']. apply keeps_bind; [exact HR|apply keeps_get_client; exact HR|]. intros c.
    apply keeps_bind; [exact HR|apply keeps_get_env; exact HR|]. intros e.
    destruct r0 as [resps|er|w]; [apply keeps_ret|apply keeps_ret|apply keeps_mpanic]; exact HR.
Qed.

(* ---- Consumer::commit_consumed -------------------------------------------------------------------------- *)
Lemma pop_order_quiet {E} (l : list E) x r s1 :
  (match l with [] => ret [] | _ => pop_entries end) x = (r, s1) ->
  cl s1 = cl x /\ script s1 = script x /\ trace s1 = trace x.
Proof.
  destruct l as [|e l'].
  - intros H. injection H as _ <-. repeat split.
  - unfold pop_entries. destruct (entryq x) as [|h q]; intros H; injection H as _ <-; repeat split.
Qed.

Lemma wire_commit_consumed k x r x' :
  commit_consumed k x = (r, x') -> wire_known x x x'.
Proof.
  pose proof (preorder_wire_rel (data_request (known (cs (cl x))))) as HR.
  unfold commit_consumed. destruct (k_group k) as [|g0 g].
  - intros H. injection H as _ <-. apply wire_known_refl.
  - intros H.
    rewrite (mbind_run _ _ _ _ _ (eq_refl : get_env x = (Ok (env x), x))) in H.
    bind_inv H order s1 H1 H2.
    + destruct (pop_order_quiet _ _ _ _ H1) as (Hc & Hs & Ht).
      apply (wire_known_shift x s1 x' Hc Hs Ht).
      pose proof (preorder_wire_rel (data_request (known (cs (cl s1))))) as HR1.
      bind_inv H2 os s2 H2a H2b.
      * unfold lift in H2a. injection H2a as _ <-. revert H2b. apply wire_then.
        -- intros r3 x3. apply wire_commit_offsets.
        -- intros _. apply keeps_bind; [exact HR1|apply keeps_get_client; exact HR1|]. intros c.
           apply keeps_ret; exact HR1.
      * unfold lift in H2a. injection H2a as _ <-. apply wire_known_refl.
      * unfold lift in H2a. injection H2a as _ <-. apply wire_known_refl.
    + destruct (pop_order_quiet _ _ _ _ H1) as (Hc & Hs & Ht). apply quiet_ops; assumption.
    + destruct (pop_order_quiet _ _ _ _ H1) as (Hc & Hs & Ht). apply quiet_ops; assumption.
Qed.

(* ---- THE statement for the front ends ----------------------------------------------------------------- *)
(* the calls of the producer and of the consumer that talk to brokers (everything else - seek, consume_message,
   last_consumed_message, subscriptions - is a pure function of the consumer value, see Model.Consumer) *)
Inductive fop :=
| FSendAll (p : producer) (recs : list record)
| FSend (p : producer) (r : record)
| FPoll (k : consumer)
| FCommitConsumed (k : consumer).

Definition run_fop (o : fop) : M unit :=
  match o with
  | FSendAll p recs => let+ _ := producer_send_all p recs in ret tt
  | FSend p r => let+ _ := producer_send p r in ret tt
  | FPoll k => let+ _ := consumer_poll k in ret tt
  | FCommitConsumed k => let+ _ := commit_consumed k in ret tt
  end.

(* Whatever producer / consumer VALUE the call is made with (its partition table, round-robin counter, assignment,
   fetch states, retry queue, consumed offsets may be arbitrary, e.g. stale with respect to the client's metadata),
   on whatever script and however the call ends: every buffer handed to a connection is (a tail of) the frame of a
   Produce / Fetch / OffsetCommit / GroupCoordinator request all of whose topic-partition entries are in the
   metadata the client holds when the call is made. *)
Theorem C20_front_wire_names_only_known : forall (o : fop) (x : st) (r : res unit) (x' : st),
  run_fop o x = (r, x') ->
  ext x x' /\ wire_ok (known (cs (cl x))) (performed x x').
Proof.
  intros o x r x' H. change (wire_known x x x').
  pose proof (preorder_wire_rel (data_request (known (cs (cl x))))) as HR.
  destruct o; cbn [run_fop] in H; revert H; apply wire_then;
    try (intros a; apply keeps_ret; exact HR); intros r1 x1.
  - apply wire_producer_send_all.
  - apply wire_producer_send.
  - apply wire_consumer_poll.
  - apply wire_commit_consumed.
Qed.

Corollary C20_front_wire_every_write : forall o x r x' h b,
  run_fop o x = (r, x') -> In (EWrite h b) (performed x x') ->
  exists p pre, data_request (known (cs (cl x))) p /\ frame p = pre ++ b.
Proof.
  intros o x r x' h b H Hin. destruct (C20_front_wire_names_only_known o x r x' H) as [_ Hall].
  apply (sends_writes _ _ Hall h b Hin).
Qed.

(* no front-end call sends a Metadata request on its own (which, naming a topic, could create it) *)
Corollary C20_front_wire_no_metadata_lookup : forall o x r x' pre e h corr cid topics pm rest,
  run_fop o x = (r, x') -> enc_metadata_req corr cid topics = Ok pm ->
  performed x x' = pre ++ e :: EWrite h (frame pm) :: rest -> not_write e -> False.
Proof.
  intros o x r x' pre e h corr cid topics pm rest H Hm Heq He.
  destruct (C20_front_wire_names_only_known o x r x' H) as [_ Hall].
  destruct (sends_after_non_write _ _ Hall pre e h (frame pm) rest Heq He) as (p & Hp & Hf).
  apply frame_inj in Hf. subst p. apply (C20_data_request_not_metadata _ _ _ _ _ Hp Hm).
Qed.

(* ================================================================================================== *)
(* Part 3: after a reset; after a history of metadata calls                                             *)
(* ================================================================================================== *)
(* after reset_metadata (or a load_metadata_all that failed): a producer / consumer created earlier still holds its
   partition table / fetch states, yet whatever it writes has not a single partition entry *)
Theorem C20_front_wire_after_reset : forall o x s r x',
  cs (cl x) = clear_metadata s -> run_fop o x = (r, x') ->
  wire_ok (fun _ _ => False) (performed x x').
Proof.
  intros o x s r x' Hs H. destruct (C20_front_wire_names_only_known o x r x' H) as [_ Hall].
  eapply sends_mono; [|exact Hall]. intros p Hp.
  eapply data_request_mono; [|exact Hp]. intros t q Hk. rewrite Hs in Hk. apply (C20_after_reset s t q Hk).
Qed.

(* ... and a send after a reset fails locally, whatever the (non-empty) batch and whatever the producer remembers *)
Theorem C20_producer_send_all_after_reset : forall p r recs x s,
  cs (cl x) = clear_metadata s ->
  producer_send_all p (r :: recs) x = (Err (EKafka KC_UnknownTopicOrPartition), bump_corr x).
Proof.
  intros p r recs x s Hs. apply C20_producer_send_all_local_fail. exists r. split; [left; reflexivity|].
  left. rewrite Hs. reflexivity.
Qed.

Theorem C20_front_wire_history : forall (calls : list mcall) (x0 : st) (o : fop) (r : res unit) (x' : st),
  run_fop o (run_mcalls calls x0) = (r, x') ->
  exists opss, Forall2 mcall_ops calls opss /\
    wire_ok (fun t p => in_count (spec_count (concat opss) (loaded_count (cs (cl x0))) t) p)
            (performed (run_mcalls calls x0) x').
Proof.
  intros calls x0 o r x' H. destruct (C20_mcalls_history calls x0) as (opss & HF & Hk).
  exists opss. split; [exact HF|].
  destruct (C20_front_wire_names_only_known o _ r x' H) as [_ Hall].
  eapply sends_mono; [|exact Hall]. intros p Hp.
  eapply data_request_mono; [|exact Hp]. intros t q Hq. apply Hk. exact Hq.
Qed.

(* ================================================================================================== *)
(* Examples (non-vacuity)                                                                               *)
(* ================================================================================================== *)
(* c20_state: t1 = [h0; no leader; h1; h0], t2 = [h1; h0], "empty" has no partition, "nope" is not loaded *)
Definition c20_producer : producer :=
  {| p_client := c20_client 1; p_parts := producer_state c20_state; p_cntr := 0; p_ack_timeout := 1000; p_acks := 1 |}.
Definition c20_rec t p v := {| r_topic := t; r_partition := p; r_key := []; r_value := v |}.

(* the partitioner runs (partition -1: round robin over the partitions WITH a leader), explicit partitions are kept *)
Example C20_send_all_known_ex :
  send_all_reqs c20_state (p_parts c20_producer) 0
                [c20_rec (tag "t2") (-1) (tag "v"); c20_rec (tag "t1") (-1) (tag "w"); c20_rec (tag "t1") 2 (tag "u")] []
  = (Some [(tag "h1:9092", [(tag "t2", [(0, [(None, Some (tag "v"))])]);
                            (tag "t1", [(2, [(None, Some (tag "w")); (None, Some (tag "u"))])])])], 2).
Proof. vm_compute. reflexivity. Qed.

(* unknown topic / out-of-range explicit partition / explicit partition without leader is NOT `unplaceable` but
   still fails (no leader) / negative partition of a topic without any available partition *)
Example C20_send_all_local_fail_ex :
  unplaceable c20_state (c20_rec (tag "nope") (-1) (tag "v"))
  /\ unplaceable c20_state (c20_rec (tag "t1") 4 (tag "v"))
  /\ fst (send_all_reqs c20_state (p_parts c20_producer) 0
            [c20_rec (tag "t2") (-1) (tag "v"); c20_rec (tag "nope") (-1) (tag "v")] []) = None
  /\ fst (send_all_reqs c20_state (p_parts c20_producer) 0 [c20_rec (tag "t1") 4 (tag "v")] []) = None
  /\ fst (send_all_reqs c20_state (p_parts c20_producer) 0 [c20_rec (tag "t1") 1 (tag "v")] []) = None
  /\ fst (send_all_reqs c20_state (p_parts c20_producer) 0 [c20_rec (tag "empty") (-1) (tag "v")] []) = None.
Proof.
  split; [left; vm_compute; reflexivity|]. split.
  - right. split; [cbn; lia|]. apply not_known_iff. vm_compute. reflexivity.
  - repeat split; vm_compute; reflexivity.
Qed.

Example C20_producer_send_local_fail_ex :
  let x := c20_st 1 in
  let y := producer_send c20_producer (c20_rec (tag "nope") (-1) (tag "v")) x in
  fst y = Err (EKafka KC_UnknownTopicOrPartition) /\ performed x (snd y) = [] /\ script (snd y) = script x.
Proof. vm_compute. repeat split; reflexivity. Qed.

(* a send_all that goes out: ONE Produce request, to h1:9092, naming t2/0 and t1/2 *)
Example C20_front_wire_producer_ex :
  let x := c20_st 1 in
  let o := FSendAll c20_producer [c20_rec (tag "t2") (-1) (tag "v"); c20_rec (tag "t1") (-1) (tag "w")] in
  exists p, enc_produce_req c20_env 8 (tag "cid") 1 1000 0
              [(tag "t2", [(0, [(None, Some (tag "v"))])]); (tag "t1", [(2, [(None, Some (tag "w"))])])] = Ok p
            /\ fst (run_fop o x) = Err EOutOfScript
            /\ performed x (snd (run_fop o x))
               = [EConnect (tag "h1:9092"); EWrite (tag "h1:9092") (frame p); ERead (tag "h1:9092") 4].
Proof. cbv zeta. eexists. split; [vm_compute; reflexivity|]. split; vm_compute; reflexivity. Qed.

(* a consumer whose fetch states are stale: it still lists t1/7, which the client's metadata does not have.
   poll leaves that entry out: the Fetch request for h0:9092 names t1/0 only *)
Definition c20_consumer : consumer :=
  {| k_client := c20_client 1; k_group := tag "g"; k_fallback := FbLatest; k_retry_limit := 0;
     k_assign := [(tag "t1", [0; 7]); (tag "t2", [0])];
     k_fetch := [((0, 0), (5, 1000)); ((0, 7), (6, 1000)); ((1, 0), (7, 1000))]; k_retry := [];
     k_consumed := [((0, 0), (4, true)); ((1, 0), (6, false)); ((0, 3), (9, true))] |}.

Example C20_front_wire_poll_ex :
  let x := c20_st 1 in
  exists p, enc_fetch_req 8 (tag "cid") 100 4096 [(tag "t1", [(0, (5, 1000))])] = Ok p
            /\ ~ known (cs (cl x)) (tag "t1") 7
            /\ performed x (snd (run_fop (FPoll c20_consumer) x))
               = [EConnect (tag "h0:9092"); EWrite (tag "h0:9092") (frame p); ERead (tag "h0:9092") 4].
Proof.
  cbv zeta. eexists. split; [vm_compute; reflexivity|]. split.
  - apply not_known_iff. vm_compute. reflexivity.
  - vm_compute. reflexivity.
Qed.

(* commit_consumed with the coordinator of "g" cached (h0:9092): one OffsetCommit naming t1/0 and t1/3 (the dirty
   entries); with a dirty entry for t1/7 (not loaded) the call fails locally *)
Definition c20_state_g : cstate :=
  {| correlation := 7; brokers := brokers c20_state; topic_partitions := topic_partitions c20_state;
     group_coordinators := [(tag "g", 0)] |}.
Definition c20_st_g : st :=
  {| script := [OConn true; OWrote 1000]; trace := [EShutdown (tag "earlier")]; anyq := []; hostq := [];
     fetchq := []; entryq := []; cl := {| cfg := c20_cfg 1; cs := c20_state_g; conns := [] |}; env := c20_env |}.

Example C20_front_wire_commit_ex :
  let x := c20_st_g in
  exists p, enc_offset_commit_req 8 (tag "cid") (tag "g") (commit_version 1) [(tag "t1", [(0, 5); (3, 10)])] = Ok p
            /\ performed x (snd (run_fop (FCommitConsumed c20_consumer) x))
               = [EConnect (tag "h0:9092"); EWrite (tag "h0:9092") (frame p); ERead (tag "h0:9092") 4].
Proof. cbv zeta. eexists. split; [vm_compute; reflexivity|]. vm_compute. reflexivity. Qed.

Example C20_front_commit_stale_ex :
  let x := c20_st_g in
  let k := consumer_with c20_consumer (k_fetch c20_consumer) [] [((0, 7), (4, true))] in
  fst (run_fop (FCommitConsumed k) x) = Err (EKafka KC_UnknownTopicOrPartition)
  /\ performed x (snd (run_fop (FCommitConsumed k) x)) = [].
Proof. vm_compute. split; reflexivity. Qed.

Check C20_send_all_known.
Check C20_send_all_local_fail.
Check C20_producer_send_all_local_fail.
Check C20_producer_send_local_fail.
Check C20_front_wire_names_only_known.
Check C20_front_wire_every_write.
Check C20_front_wire_no_metadata_lookup.
Check C20_front_wire_after_reset.
Check C20_producer_send_all_after_reset.
Check C20_front_wire_history.

Print Assumptions C20_send_all_known.
Print Assumptions C20_send_all_local_fail.
Print Assumptions C20_producer_send_all_local_fail.
Print Assumptions C20_producer_send_local_fail.
Print Assumptions C20_front_wire_names_only_known.
Print Assumptions C20_front_wire_every_write.
Print Assumptions C20_front_wire_no_metadata_lookup.
Print Assumptions C20_front_wire_after_reset.
Print Assumptions C20_producer_send_all_after_reset.
Print Assumptions C20_front_wire_history.
