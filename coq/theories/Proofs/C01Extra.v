(* C01, additional theorems (mutation adequacy).  New file; nothing existing is edited.

   PROVED HERE (all Qed, no axioms):
   A. the error path of the second pass of Consumer::process_fetch_responses
      - C01_failed_poll_reasons       : a poll's post-processing fails only with a broker-reported partition
                                        error, or with MessageSizeTooLarge on a ONE-partition request (n = 1);
      - C01_failed_poll_skips_nothing : if a one-partition request is answered with at most one listed partition,
                                        EVERY failing post-processing returns the consumer unchanged (fetch offsets,
                                        max_bytes, retry queue): "a failed poll skips nothing", also for the
                                        mid-loop MessageSizeTooLarge return (seeded change C01);
      - C01_many_partitions_never_too_large : with n <> 1 and no broker-reported error the post-processing succeeds
                                        or panics, it never returns an error.
   B. Consumer::poll as a whole
      - C01_poll_success              : a poll whose fetch succeeds is process_fetch_responses of exactly the
                                        responses, with n = number of partitions requested, on the consumer whose
                                        retry queue lost its head;
      - C01_poll_failure_skips_nothing: whatever makes a poll return Err (I/O, broker error code, oversized
                                        message, retry partition unknown), no fetch offset moves and nothing but the
                                        head of the retry queue is dropped;
      - C01_next_request_after_delivery : after a successful poll, the next (non-retry) poll asks every partition
                                        that delivered messages for (last delivered offset + 1) under its own topic
                                        name, and it asks for that partition only once.
   C. the client's I/O layer under a fetch (seeded change C01-3)
      - C01_fetch_exchange_step, C01_fetch_exchange_failure, C01_fetch_exchange_in_turn : the per-broker exchanges
        of one fetch are carried out strictly one after the other; when the fetch fails, every broker before the
        failing one has had its request written AND its reply read in full, every event after that concerns the
        failing broker only, and the brokers behind it were not touched
        (C01_fetch_failure_no_abandoned_reply: the same for KafkaClient::fetch_messages).
   D. "from the start (or last seek) offset onward"
      - C01_from_slice_lower_bound, C01_decoded_from_requested_offset, C01_fetch_exchange_offsets : whatever bytes
        a connection delivers, the messages decoded for a partition are at or above the offset that THIS call's
        request to that broker carried for that topic and partition (0 for a partition it did not mention).
   NOT PROVED HERE: that the per-broker request built by fetch_reqs (fhost_add / fetch_add / fp_insert) carries,
   for each (topic, partition), exactly the consumer's fetch offset (needs distinct (topic, partition) pairs);
   so D is stated against the per-broker request, not against k_fetch.
   MUTATION CHECKS (scratch copies under _mut/, the real model untouched): with the seeded change C01 mirrored in
   process_partition all ten statements of Props/C01.v remain provable while C01_failed_poll_skips_nothing and
   C01_many_partitions_never_too_large are refuted; with C01-2 mirrored in `iterate`, C01_empty_flag and
   C01_iterate_complete are refuted; with C01-3 mirrored in fetch_exchange, Props/C01.v compiles unchanged while
   C01_fetch_exchange_failure is refuted. *)
From Coq Require Import ZifyBool.
From KV Require Import Base.Prelude Gen.Consts Model.Codecs Model.Requests Model.Responses
                       Model.ClientState Model.Net Model.Client Model.Consumer.
From KV Require Import Proofs.BytesFacts Proofs.NetFacts Proofs.C01Facts.

(* ======================================================================================================= *)
(* A. the error path of the second pass                                                                     *)
(* ======================================================================================================= *)

Lemma first_part_error_app a b :
  first_part_error (a ++ b) = None -> first_part_error a = None /\ first_part_error b = None.
Proof.
  induction a as [|p a IH]; cbn [app first_part_error]; intros H; [auto|].
  destruct (fp_data p) as [d|c]; [auto|discriminate].
Qed.

(* one partition: an error leaves the state as it was, and can only be the oversized-message report of a
   one-partition request (broker-reported codes are the business of the first pass) *)
Lemma process_partition_err dbg single n cm limit r p s e s' :
  process_partition dbg single n cm limit r p s = PErr e s' ->
  s' = s /\ ((exists c, fp_data p = inr c /\ e = EKafka c) \/
             (n = 1 /\ e = EKafka KC_MessageSizeTooLarge /\ exists hw, fp_data p = inl (hw, []))).
Proof.
  intros H. destruct (fp_data p) as [[hw msgs]|c] eqn:Hd.
  2:{ unfold process_partition in H. cbv zeta in H. rewrite Hd in H. inversion H; subst. split; eauto. }
  destruct (tk_get (r, fp_partition p) (ps_fetch s)) as [[off maxb]|] eqn:Hg.
  2:{ unfold process_partition in H. cbv zeta in H. rewrite Hd, Hg in H. discriminate. }
  rewrite (process_partition_data _ _ _ _ _ _ _ _ _ _ _ _ Hd Hg) in H.
  destruct msgs as [|m0 l].
  - rewrite last_msg_nil in H.
    destruct (off <? hw); [|discriminate]. destruct (maxb <? limit); [discriminate|].
    destruct (n =? 1) eqn:En; [|discriminate]. inversion H; subst. split; [reflexivity|].
    right. split; [lia|]. split; [reflexivity|]. exists hw. reflexivity.
  - destruct (last_msg_cons m0 l) as [m Hl]. rewrite Hl in H.
    destruct (i64_op dbg (m_offset m + 1)) as [o|e1|w] eqn:Ei; try discriminate.
    exfalso. exact (i64_op_not_err _ _ _ Ei).
Qed.

Lemma process_parts_err dbg single n cm limit r ps : forall s e s',
  process_parts dbg single n cm limit r ps s = PErr e s' -> first_part_error ps = None ->
  n = 1 /\ e = EKafka KC_MessageSizeTooLarge /\ (1 <= length ps)%nat /\ ((length ps <= 1)%nat -> s' = s).
Proof.
  induction ps as [|p ps IH]; intros s e s' H Hf; cbn [process_parts] in H; [discriminate|].
  cbn [first_part_error] in Hf. destruct (fp_data p) as [d|c] eqn:Hd; [|discriminate].
  destruct (process_partition dbg single n cm limit r p s) as [s1|e1 s1|w] eqn:Ep; try discriminate.
  - destruct (IH _ _ _ H Hf) as (Hn & He & Hlen & _). cbn [length]. repeat split; auto; lia.
  - inversion H; subst e1 s1. destruct (process_partition_err _ _ _ _ _ _ _ _ _ _ Ep) as [Hs [(c & Hc & _)|(Hn & He & _)]].
    + rewrite Hd in Hc. discriminate.
    + cbn [length]. repeat split; auto; lia.
Qed.

Lemma process_parts_nil_state dbg single n cm limit r s : process_parts dbg single n cm limit r [] s = POk s.
Proof. reflexivity. Qed.

Lemma process_topics_err dbg single n cm limit asg ts : forall s e s',
  process_topics dbg single n cm limit asg ts s = PErr e s' ->
  first_part_error (flat_map ft_partitions ts) = None ->
  n = 1 /\ e = EKafka KC_MessageSizeTooLarge /\ (1 <= length (flat_map ft_partitions ts))%nat /\
  ((length (flat_map ft_partitions ts) <= 1)%nat -> s' = s).
Proof.
  induction ts as [|t ts IH]; intros s e s' H Hf; cbn [process_topics] in H; [discriminate|].
  cbn [flat_map] in *. apply first_part_error_app in Hf. destruct Hf as [Hf1 Hf2].
  destruct (topic_ref asg (ft_topic t)) as [r|]; [|discriminate].
  destruct (process_parts dbg single n cm limit r (ft_partitions t) s) as [s1|e1 s1|w] eqn:Ep; try discriminate.
  - destruct (IH _ _ _ H Hf2) as (Hn & He & Hlen & Hsame). rewrite app_length.
    repeat split; auto; [lia|]. intros Hle.
    assert (Hnil : ft_partitions t = []) by (destruct (ft_partitions t); [reflexivity|cbn [length] in Hle; lia]).
    rewrite Hnil in Ep. cbn [process_parts] in Ep. inversion Ep; subst s1. apply Hsame. rewrite Hnil in Hle. exact Hle.
  - inversion H; subst e1 s1. destruct (process_parts_err _ _ _ _ _ _ _ _ _ _ Ep Hf1) as (Hn & He & Hlen & Hsame).
    rewrite app_length. repeat split; auto; [lia|]. intros Hle. apply Hsame. lia.
Qed.

Lemma resp_entries_length resps :
  length (resp_entries resps) = length (flat_map ft_partitions (flat_map fr_topics resps)).
Proof.
  unfold resp_entries. induction (flat_map fr_topics resps) as [|ft l IH]; cbn [flat_map]; [reflexivity|].
  rewrite !app_length, map_length, IH. reflexivity.
Qed.

Lemma consumer_with_same k : consumer_with k (k_fetch k) (k_retry k) (k_consumed k) = k.
Proof. destruct k. reflexivity. Qed.

(* why the post-processing of a poll can fail at all *)
Theorem C01_failed_poll_reasons : forall dbg k n resps e k',
  process_fetch_responses dbg k n resps = (Err e, k') ->
  (exists c, first_error resps = Some c /\ e = EKafka c /\ k' = k) \/
  (first_error resps = None /\ n = 1 /\ e = EKafka KC_MessageSizeTooLarge /\ (1 <= length (resp_entries resps))%nat).
Proof.
  intros dbg k n resps e k' H. unfold process_fetch_responses in H.
  destruct (first_error resps) as [c|] eqn:Ef.
  - inversion H; subst. left. eauto.
  - right. cbv zeta in H.
    match type of H with context [process_topics ?a ?b ?c ?d ?e0 ?f ?g ?h] =>
      destruct (process_topics a b c d e0 f g h) as [s1|e1 s1|w] eqn:Ep end; try discriminate.
    inversion H; subst e1. destruct (process_topics_err _ _ _ _ _ _ _ _ _ _ Ep Ef) as (Hn & He & Hlen & _).
    rewrite resp_entries_length. auto.
Qed.

(* the clause "a failed poll skips nothing" for EVERY error of the post-processing *)
Theorem C01_failed_poll_skips_nothing : forall dbg k n resps e k',
  (n = 1 -> (length (resp_entries resps) <= 1)%nat) ->
  process_fetch_responses dbg k n resps = (Err e, k') -> k' = k.
Proof.
  intros dbg k n resps e k' Hone H. unfold process_fetch_responses in H.
  destruct (first_error resps) as [c|] eqn:Ef; [inversion H; reflexivity|]. cbv zeta in H.
  match type of H with context [process_topics ?a ?b ?c ?d ?e0 ?f ?g ?h] =>
    destruct (process_topics a b c d e0 f g h) as [s1|e1 s1|w] eqn:Ep end; try discriminate.
  inversion H; subst e1. destruct (process_topics_err _ _ _ _ _ _ _ _ _ _ Ep Ef) as (Hn & He & Hlen & Hsame).
  rewrite <- resp_entries_length in Hsame. rewrite (Hsame (Hone Hn)). cbn [ps_fetch ps_retry].
  apply consumer_with_same.
Qed.

(* with more than one partition requested and no broker-reported error there is no error outcome at all:
   the oversized partition is queued for a fetch on its own instead *)
Theorem C01_many_partitions_never_too_large : forall dbg k n resps e k',
  n <> 1 -> first_error resps = None -> process_fetch_responses dbg k n resps <> (Err e, k').
Proof.
  intros dbg k n resps e k' Hn Hf H. destruct (C01_failed_poll_reasons _ _ _ _ _ _ H) as [(c & Hc & _)|(_ & H1 & _)].
  - rewrite Hf in Hc. discriminate.
  - contradiction.
Qed.

(* non-vacuity: the retry fetch of the oversized t:0 alone (n = 1, one entry) fails and returns the consumer
   as it was; the same oversized partition listed behind a delivering one in a two-partition poll (n = 2)
   does not fail the poll, t:1 is delivered and t:0 queued *)
Definition exx_resps_one : list fetch_resp :=
  [ {| fr_corr := 1;
       fr_topics := [ {| ft_topic := tag "t";
                         ft_partitions := [ {| fp_partition := 0; fp_data := inl (6, []) |} ] |} ] |} ].

Example C01_failed_poll_skips_nothing_ex :
  process_fetch_responses true ex_k 1 exx_resps_one = (Err (EKafka KC_MessageSizeTooLarge), ex_k) /\
  first_error exx_resps_one = None /\ length (resp_entries exx_resps_one) = 1%nat /\
  (exists ms k', process_fetch_responses true ex_k 2 ex_resps_extra = (Ok ms, k') /\
     iterate ms = [(tag "t", 1, [ex_msg 7; ex_msg 8; ex_msg 9])] /\
     tk_get (0, 1) (k_fetch k') = Some (10, 32768) /\ tk_get (0, 0) (k_fetch k') = Some (5, 32768) /\
     k_retry k' = [(0, 0)]).
Proof.
  split; [vm_compute; reflexivity|]. split; [reflexivity|]. split; [reflexivity|].
  eexists. eexists. vm_compute. repeat split.
Qed.

(* ======================================================================================================= *)
(* B. Consumer::poll as a whole                                                                             *)
(* ======================================================================================================= *)

(* the consumer the post-processing of a poll starts from: the head of the retry queue is gone, the client is
   the one the fetch left behind *)
Definition polled (k : consumer) (c : client) : consumer :=
  consumer_with_client (consumer_with k (k_fetch k) (tl (k_retry k)) (k_consumed k)) c.

Lemma poll_requests_length k reqs :
  poll_requests k = Some reqs -> ulen reqs = match k_retry k with [] => ulen (k_fetch k) | _ => 1 end.
Proof.
  unfold poll_requests. destruct (k_retry k) as [|tp rest].
  - intros H. inversion H; subst. unfold ulen. rewrite map_length. reflexivity.
  - destruct (tk_get tp (k_fetch k)) as [[off maxb]|]; [|discriminate]. intros H. inversion H; subst. reflexivity.
Qed.

Theorem C01_poll_success : forall k reqs s resps s',
  poll_requests k = Some reqs -> fetch_messages reqs s = (Ok resps, s') ->
  consumer_poll k s =
    (Ok (process_fetch_responses (debug_build (env s')) (polled k (cl s')) (ulen reqs) resps), s').
Proof.
  intros k reqs s resps s' Hreq Hf. rewrite (poll_requests_length _ _ Hreq).
  unfold poll_requests in Hreq. unfold polled, consumer_poll, consumer_fetch.
  destruct (k_retry k) as [|tp rest] eqn:Er.
  - inversion Hreq; subst reqs. clear Hreq.
    rewrite <- Er, consumer_with_retry_nil by exact Er.
    unfold mbind, mtry, ret, get_client, get_env. cbv beta. rewrite Hf. reflexivity.
  - destruct (tk_get tp (k_fetch k)) as [[off maxb]|] eqn:Hg; [|discriminate].
    inversion Hreq; subst reqs. clear Hreq. cbn [tl].
    unfold mbind, mtry, ret, get_client, get_env. cbv beta. rewrite Hf. reflexivity.
Qed.

(* the queued retry partition is not in the fetch table: nothing is sent, the poll is an error *)
Lemma poll_no_request k s :
  poll_requests k = None ->
  consumer_poll k s = (Ok (Err (EKafka KC_UnknownTopicOrPartition), polled k (cl s)), s).
Proof.
  unfold poll_requests, polled, consumer_poll, consumer_fetch. destruct (k_retry k) as [|tp rest]; [discriminate|].
  destruct (tk_get tp (k_fetch k)) as [[off maxb]|]; [discriminate|]. intros _. reflexivity.
Qed.

Lemma poll_panic k reqs s w s' :
  poll_requests k = Some reqs -> fetch_messages reqs s = (Panic w, s') -> consumer_poll k s = (Panic w, s').
Proof.
  intros Hreq Hf. unfold poll_requests in Hreq. unfold consumer_poll, consumer_fetch.
  destruct (k_retry k) as [|tp rest] eqn:Er.
  - inversion Hreq; subst reqs. unfold mbind, mtry. rewrite Hf. reflexivity.
  - destruct (tk_get tp (k_fetch k)) as [[off maxb]|] eqn:Hg; [|discriminate].
    inversion Hreq; subst reqs. unfold mbind, mtry. rewrite Hf. reflexivity.
Qed.

(* EVERY failed poll: no fetch offset (nor max_bytes) moves, no mark moves, the retry queue only loses the
   head it had.  The hypothesis is about the broker: asked for one partition it lists at most one. *)
Theorem C01_poll_failure_skips_nothing : forall k s e k1 s',
  (forall reqs resps s1, poll_requests k = Some reqs -> fetch_messages reqs s = (Ok resps, s1) ->
                         ulen reqs = 1 -> (length (resp_entries resps) <= 1)%nat) ->
  consumer_poll k s = (Ok (Err e, k1), s') ->
  k1 = polled k (cl s') /\
  k_fetch k1 = k_fetch k /\ k_retry k1 = tl (k_retry k) /\ k_consumed k1 = k_consumed k /\
  k_assign k1 = k_assign k /\ k_group k1 = k_group k.
Proof.
  intros k s e k1 s' Hbroker H.
  assert (Hgoal : k1 = polled k (cl s')); [|subst k1; unfold polled; cbn; auto 10].
  destruct (poll_requests k) as [reqs|] eqn:Hreq.
  - destruct (fetch_messages reqs s) as [[resps|er|w] s1] eqn:Hf.
    + rewrite (C01_poll_success _ _ _ _ _ Hreq Hf) in H. inversion H as [[Hp Hs]]. subst s1.
      apply (C01_failed_poll_skips_nothing _ _ _ _ _ _ (Hbroker _ _ _ eq_refl Hf) Hp).
    + destruct (C01_fetch_failure _ _ _ _ _ Hreq Hf) as [Hpoll _]. rewrite Hpoll in H.
      inversion H; subst. reflexivity.
    + rewrite (poll_panic _ _ _ _ _ Hreq Hf) in H. discriminate.
  - rewrite (poll_no_request _ _ Hreq) in H. inversion H; subst. reflexivity.
Qed.

Lemma tk_get_in {V} key (v : V) m : tk_get key m = Some v -> In (key, v) m.
Proof.
  induction m as [|[k' v'] m IH]; cbn [tk_get]; [discriminate|].
  destruct (tpkey_eqb k' key) eqn:E.
  - intros H. inversion H; subst. apply tpkey_eqb_eq in E. subst. left. reflexivity.
  - intros H. right. auto.
Qed.

Lemma tk_set_keys {V} key (v : V) m :
  tk_get key m <> None -> map fst (tk_set key v m) = map fst m.
Proof.
  induction m as [|[k' v'] m IH]; cbn [tk_get tk_set map]; [congruence|].
  destruct (tpkey_eqb k' key) eqn:E; cbn [map fst]; [reflexivity|]. intros H. rewrite IH by exact H. reflexivity.
Qed.

Lemma tk_get_unique {V} key (v w : V) m :
  NoDup (map fst m) -> tk_get key m = Some v -> In (key, w) m -> w = v.
Proof.
  induction m as [|[k' v'] m IH]; cbn [tk_get map fst In]; [intros _ _ []|].
  intros Hnd Hg Hin. inversion Hnd as [|? ? Hnot Hnd']; subst.
  destruct (tpkey_eqb k' key) eqn:E.
  - apply tpkey_eqb_eq in E. subst k'. inversion Hg; subst v'.
    destruct Hin as [Heq|Hin]; [inversion Heq; reflexivity|].
    exfalso. apply Hnot. apply in_map_iff. exists (key, w). split; [reflexivity|exact Hin].
  - destruct Hin as [Heq|Hin].
    + inversion Heq; subst. rewrite tpkey_eqb_refl in E. discriminate.
    + eauto.
Qed.

(* the keys of the fetch table are never changed by the post-processing of a poll *)
Lemma process_partition_keyset dbg single n cm limit r p s s' :
  process_partition dbg single n cm limit r p s = POk s' -> map fst (ps_fetch s') = map fst (ps_fetch s).
Proof.
  intros H. destruct (fp_data p) as [[hw msgs]|c] eqn:Hd.
  2:{ unfold process_partition in H. cbv zeta in H. rewrite Hd in H. discriminate. }
  destruct (tk_get (r, fp_partition p) (ps_fetch s)) as [[off maxb]|] eqn:Hg.
  2:{ unfold process_partition in H. cbv zeta in H. rewrite Hd, Hg in H. discriminate. }
  assert (Hpres : tk_get (r, fp_partition p) (ps_fetch s) <> None) by congruence.
  rewrite (process_partition_data _ _ _ _ _ _ _ _ _ _ _ _ Hd Hg) in H.
  destruct (last_msg msgs) as [m|].
  - destruct (i64_op dbg (m_offset m + 1)) as [o|e|w]; try discriminate.
    inversion H; subst s'. cbn [ps_fetch]. apply tk_set_keys. exact Hpres.
  - destruct (off <? hw).
    + destruct (maxb <? limit).
      * inversion H; subst s'. cbn [ps_fetch]. apply tk_set_keys. exact Hpres.
      * destruct (n =? 1); [discriminate|]. inversion H; subst s'. reflexivity.
    + inversion H; subst s'. reflexivity.
Qed.

Lemma process_entries_keyset dbg single n cm limit es : forall s s',
  process_entries dbg single n cm limit es s = POk s' -> map fst (ps_fetch s') = map fst (ps_fetch s).
Proof.
  induction es as [|e es IH]; intros s s' H; cbn [process_entries] in H.
  - inversion H; subst. reflexivity.
  - destruct (process_partition dbg single n cm limit (snd (fst e)) (snd e) s) as [s1|e1 s1|w] eqn:Ep;
      try discriminate.
    rewrite (IH _ _ H). apply (process_partition_keyset _ _ _ _ _ _ _ _ _ Ep).
Qed.

Theorem C01_fetch_keys_stable : forall dbg k n resps ms k',
  process_fetch_responses dbg k n resps = (Ok ms, k') -> map fst (k_fetch k') = map fst (k_fetch k).
Proof.
  intros dbg k n resps ms k' H.
  destruct (pfr_ok _ _ _ _ _ _ H) as [_ [_ [es [s' [_ [Hes [_ Hk']]]]]]]. subst k'. cbn [consumer_with k_fetch].
  apply (process_entries_keyset _ _ _ _ _ _ _ _ Hes).
Qed.

(* composition over two polls: what was delivered last decides what is asked next.  For every partition that
   handed out messages in a successful poll, the next poll (if it is not a single-partition retry) carries a
   request for that partition, under the topic's own name, at (last delivered offset + 1); and, the fetch table
   having distinct keys, every request of that poll for this (topic_ref, partition) asks for that offset. *)
Theorem C01_next_request_after_delivery : forall dbg k n resps ms k' reqs,
  sane k resps -> process_fetch_responses dbg k n resps = (Ok ms, k') ->
  k_retry k' = [] -> poll_requests k' = Some reqs ->
  forall rs ft fp hw msgs m r,
    In rs resps -> In ft (fr_topics rs) -> In fp (ft_partitions ft) ->
    topic_ref (k_assign k) (ft_topic ft) = Some r ->
    fp_data fp = inl (hw, msgs) -> last_msg msgs = Some m ->
    In {| fq_topic := ft_topic ft; fq_partition := fp_partition fp; fq_offset := m_offset m + 1;
          fq_max_bytes := fetch_max_bytes_per_partition (cfg (k_client k)) |} reqs /\
    (NoDup (map fst (k_fetch k)) ->
     forall off maxb, In ((r, fp_partition fp), (off, maxb)) (k_fetch k') -> off = m_offset m + 1).
Proof.
  intros dbg k n resps ms k' reqs Hs H Hretry Hreq rs ft fp hw msgs m r Hrs Hft Hfp Hr Hd Hl.
  assert (Hf : first_error resps = None) by (destruct (pfr_ok _ _ _ _ _ _ H) as [Hf _]; exact Hf).
  destruct (C01_offsets_advance _ _ _ _ _ _ Hs Hf H r (fp_partition fp)) as [Hadv _].
  pose proof (Hadv rs ft fp hw msgs m Hrs Hft Hfp Hr eq_refl Hd Hl) as Hget.
  split.
  - unfold poll_requests in Hreq. rewrite Hretry in Hreq. inversion Hreq; subst reqs.
    apply in_map_iff. exists ((r, fp_partition fp), (m_offset m + 1, fetch_max_bytes_per_partition (cfg (k_client k)))).
    split; [|apply tk_get_in; exact Hget].
    f_equal. unfold topic_name.
    destruct (C01_consumed_untouched _ _ _ _ _ _ H) as (_ & Ha & _). rewrite Ha.
    destruct (topic_ref_name _ _ _ Hr) as [v Hv]. rewrite Hv. reflexivity.
  - intros Hnd off maxb Hin.
    assert (Hnd' : NoDup (map fst (k_fetch k'))) by (rewrite (C01_fetch_keys_stable _ _ _ _ _ _ H); exact Hnd).
    pose proof (tk_get_unique _ _ (off, maxb) _ Hnd' Hget Hin) as Heq. inversion Heq. reflexivity.
Qed.

Example C01_next_request_after_delivery_ex :
  exists ms k', process_fetch_responses true ex_k 2 ex_resps = (Ok ms, k') /\ k_retry k' = [] /\
    NoDup (map fst (k_fetch ex_k)) /\
    poll_requests k' = Some [ {| fq_topic := tag "t"; fq_partition := 0; fq_offset := 5; fq_max_bytes := 32768 |};
                              {| fq_topic := tag "t"; fq_partition := 1; fq_offset := 10; fq_max_bytes := 32768 |} ].
Proof.
  eexists. eexists. split; [vm_compute; reflexivity|]. split; [reflexivity|]. split; [|reflexivity].
  vm_compute. repeat constructor; cbn [In]; intuition discriminate.
Qed.

(* poll-level non-vacuity, over a scripted connection (one broker h:9092 leading t:0 and t:1):
   (1) the retry poll of t:0 alone is answered with an empty set and high watermark 6: the poll fails with
       MessageSizeTooLarge, the broker listed one partition, nothing but the head of the retry queue changes;
   (2) a two-partition poll is answered with t:0 empty (hw 6 > 5) listed BEFORE t:1 carrying offsets 10, 11:
       the poll succeeds, hands out t:1, moves t:1 to 12, leaves t:0 at 5 and queues it *)
Definition exx_body_one : bytes :=
  enc_i32 1 ++ enc_i32 1 ++ enc_i16 1 ++ tag "t" ++ enc_i32 1 ++
  enc_i32 0 ++ enc_i16 0 ++ enc_i64 6 ++ enc_i32 0.
Definition exx_script_one : list ev_out :=
  [OConn true; OWrote 1000; OData (enc_i32 (ulen exx_body_one)); OData exx_body_one].
Definition exx_k (fetch : list (tpkey * (Z * Z))) (retry : list tpkey) : consumer :=
  {| k_client := ex_client2; k_group := tag "g"; k_fallback := FbEarliest; k_retry_limit := 0;
     k_assign := [(tag "t", [0; 1])]; k_fetch := fetch; k_retry := retry; k_consumed := [((0, 1), (9, true))] |}.

(* a plain v0 message: offset, size, crc, magic 0, attributes 0, key -1, value *)
Definition exx_wire_msg (off : Z) (v : bytes) : bytes :=
  let body := [x00; x00] ++ enc_i32 (-1) ++ enc_i32 (ulen v) ++ v in
  enc_i64 off ++ enc_i32 (ulen body + 4) ++ enc_i32 (wrap_s 32 (Crc32.crc32 body)) ++ body.
Definition exx_set : bytes := exx_wire_msg 10 (tag "a") ++ exx_wire_msg 11 (tag "b").
Definition exx_body_two : bytes :=
  enc_i32 1 ++ enc_i32 1 ++ enc_i16 1 ++ tag "t" ++ enc_i32 2 ++
  enc_i32 0 ++ enc_i16 0 ++ enc_i64 6 ++ enc_i32 0 ++
  enc_i32 1 ++ enc_i16 0 ++ enc_i64 12 ++ enc_i32 (ulen exx_set) ++ exx_set.
Definition exx_script_two : list ev_out :=
  [OConn true; OWrote 1000; OData (enc_i32 (ulen exx_body_two)); OData exx_body_two].

Example C01_poll_failure_skips_nothing_ex :
  let k := exx_k [((0, 0), (5, 32768)); ((0, 1), (10, 32768))] [(0, 0)] in
  poll_requests k = Some [{| fq_topic := tag "t"; fq_partition := 0; fq_offset := 5; fq_max_bytes := 32768 |}] /\
  exists s',
    fetch_messages [{| fq_topic := tag "t"; fq_partition := 0; fq_offset := 5; fq_max_bytes := 32768 |}]
                   (ex_st exx_script_one) = (Ok exx_resps_one, s') /\
    length (resp_entries exx_resps_one) = 1%nat /\
    consumer_poll k (ex_st exx_script_one) = (Ok (Err (EKafka KC_MessageSizeTooLarge), polled k (cl s')), s') /\
    k_fetch (polled k (cl s')) = k_fetch k /\ k_retry (polled k (cl s')) = [].
Proof. cbv zeta. split; [reflexivity|]. eexists. split; [vm_compute; reflexivity|]. vm_compute. repeat split. Qed.

Example C01_poll_success_ex :
  let k := exx_k [((0, 0), (5, 32768)); ((0, 1), (10, 32768))] [] in
  exists reqs resps s' ms k1,
    poll_requests k = Some reqs /\ ulen reqs = 2 /\
    fetch_messages reqs (ex_st exx_script_two) = (Ok resps, s') /\
    consumer_poll k (ex_st exx_script_two) = (Ok (Ok ms, k1), s') /\
    process_fetch_responses (debug_build (env s')) (polled k (cl s')) 2 resps = (Ok ms, k1) /\
    iterate ms = [(tag "t", 1, [ {| m_offset := 10; m_key := []; m_value := tag "a" |};
                                 {| m_offset := 11; m_key := []; m_value := tag "b" |} ])] /\
    k_fetch k1 = [((0, 0), (5, 32768)); ((0, 1), (12, 32768))] /\ k_retry k1 = [(0, 0)].
Proof.
  cbv zeta. eexists. eexists. eexists. eexists. eexists.
  split; [reflexivity|]. split; [reflexivity|]. split; [vm_compute; reflexivity|]. vm_compute. repeat split.
Qed.

(* ======================================================================================================= *)
(* C. the per-broker exchanges of one fetch (client/mod.rs: __fetch_messages)                               *)
(* ======================================================================================================= *)

(* one iteration of the loop of __fetch_messages: connection, request out, reply in, reply decoded *)
Definition fetch_one (corr : Z) (h : bytes) (tps : fetch_tps) : M fetch_resp :=
  let+ c := get_client in
  let+ e := get_env in
  let+ fo := get_fetch_order h in
  let tps' := match fo with Some o => order_fetch o tps | None => tps end in
  let+ _ := get_conn h in
  let+ _ := send_request h (enc_fetch_req corr (client_id (cfg c)) (fetch_max_wait_time (cfg c))
                                          (fetch_min_bytes (cfg c)) tps') in
  let+ b := get_response_bytes h in
  lift (fetch_from_vec e decode_depth (fetch_crc_validation (cfg c)) tps b).

(* the loop is: this broker's exchange to the end, THEN the remaining brokers *)
Theorem C01_fetch_exchange_step : forall corr h tps r acc s,
  fetch_exchange corr ((h, tps) :: r) acc s =
  mbind (fetch_one corr h tps) (fun resp => fetch_exchange corr r (acc ++ [resp])) s.
Proof.
  intros corr h tps r acc s. cbn [fetch_exchange]. unfold fetch_one.
  unfold mbind, get_client, get_env, get_fetch_order, lift.
  destruct (get_conn h s) as [[u|e|w] s1]; [|reflexivity|reflexivity].
  destruct (send_request h _ s1) as [[z|e|w] s2]; [|reflexivity|reflexivity].
  destruct (get_response_bytes h s2) as [[b|e|w] s3]; [|reflexivity|reflexivity].
  destruct (fetch_from_vec _ _ _ _ _) as [resp|e|w]; reflexivity.
Qed.

Lemma on_host_conn h e : conn_event h e -> on_host h e.
Proof. intros [H|H]; subst e; reflexivity. Qed.
Lemma on_host_read h e : read_event h e -> on_host h e.
Proof. intros [n H]; subst e; reflexivity. Qed.

(* everything one exchange does on the wire concerns its own broker *)
Lemma ops_fetch_one corr h tps : keeps (ops_in (on_host h)) (fetch_one corr h tps).
Proof.
  pose proof (preorder_ops_in (on_host h)) as HP. unfold fetch_one.
  apply keeps_bind; [exact HP|apply keeps_get_client; exact HP|]. intros c.
  apply keeps_bind; [exact HP|apply keeps_get_env; exact HP|]. intros e.
  apply keeps_bind; [exact HP|apply keeps_get_fetch_order; exact HP|]. intros fo. cbv zeta.
  apply keeps_bind; [exact HP| |].
  { eapply keeps_weaken; [|apply ops_get_conn]. intros s s'. apply ops_in_weaken. apply on_host_conn. }
  intros _. apply keeps_bind; [exact HP| |].
  { apply (keepsR_send_request _ HP h); intros; try (apply keeps_io_ops; reflexivity). }
  intros _. apply keeps_bind; [exact HP| |].
  { eapply keeps_weaken; [|apply ops_get_response_bytes]. intros s s'. apply ops_in_weaken. apply on_host_read. }
  intros b. apply keeps_lift. exact HP.
Qed.

(* a successful exchange: the request went out whole and the reply was read whole, from that broker *)
Lemma fetch_one_ok corr h tps s resp s' :
  fetch_one corr h tps s = (Ok resp, s') ->
  exists s1 s2 s3 z b tps',
    get_conn h s = (Ok tt, s1) /\
    send_request h (enc_fetch_req corr (client_id (cfg (cl s))) (fetch_max_wait_time (cfg (cl s)))
                                  (fetch_min_bytes (cfg (cl s))) tps') s1 = (Ok z, s2) /\
    get_response_bytes h s2 = (Ok b, s3) /\ s' = s3 /\
    fetch_from_vec (env s) decode_depth (fetch_crc_validation (cfg (cl s))) tps b = Ok resp.
Proof.
  unfold fetch_one. unfold mbind at 1 2 3. unfold get_client, get_env, get_fetch_order. cbv zeta. intros H.
  bind_inv H u s1 H1 H2; try discriminate. destruct u.
  bind_inv H2 z s2 H3 H4; try discriminate.
  bind_inv H4 b s3 H5 H6; try discriminate.
  unfold lift in H6. inversion H6; subst.
  eexists s1, s2, s', z, b, _. repeat split; eauto.
Qed.

(* seeded change C01-3.  When the fetch fails, the brokers split into: those done (request written, reply
   read and decoded: nothing of theirs is left on the wire), the one the failure happened at (every event
   from then on is an event of that broker), and those not yet touched. *)
Theorem C01_fetch_exchange_failure : forall corr reqs acc s e s',
  fetch_exchange corr reqs acc s = (Err e, s') ->
  exists done h tps rest resps s1,
    reqs = done ++ (h, tps) :: rest /\
    fetch_exchange corr done acc s = (Ok (acc ++ resps), s1) /\ length resps = length done /\
    fetch_one corr h tps s1 = (Err e, s') /\
    ops_in (on_host h) s1 s'.
Proof.
  intros corr reqs. induction reqs as [|[h tps] r IH]; intros acc s e s' H.
  - cbn [fetch_exchange] in H. discriminate.
  - rewrite C01_fetch_exchange_step in H. bind_inv H resp s1 H1 H2.
    + destruct (IH _ _ _ _ H2) as (done & h' & tps' & rest & resps & s2 & Hreqs & Hdone & Hlen & Hone & Hops).
      exists ((h, tps) :: done), h', tps', rest, (resp :: resps), s2.
      split; [|split; [|split; [|split]]]; [| | |exact Hone|exact Hops].
      * rewrite Hreqs. reflexivity.
      * rewrite C01_fetch_exchange_step, (mbind_ok _ _ _ _ _ H1), Hdone, <- app_assoc. reflexivity.
      * cbn [length]. rewrite Hlen. reflexivity.
    + inversion H2; subst resp. exists [], h, tps, r, [], s.
      split; [|split; [|split; [|split]]]; [reflexivity| |reflexivity|exact H1|].
      * cbn [fetch_exchange]. rewrite app_nil_r. reflexivity.
      * apply (ops_fetch_one _ _ _ _ _ _ H1).
    + discriminate.
Qed.

(* and on success the wire shows the brokers strictly in turn *)
Fixpoint in_turn (hs : list bytes) (s s' : st) : Prop :=
  match hs with
  | [] => s' = s
  | h :: r => exists s1, ops_in (on_host h) s s1 /\ in_turn r s1 s'
  end.

Theorem C01_fetch_exchange_in_turn : forall corr reqs acc s out s',
  fetch_exchange corr reqs acc s = (Ok out, s') ->
  in_turn (map fst reqs) s s' /\ exists resps, out = acc ++ resps /\ length resps = length reqs.
Proof.
  intros corr reqs. induction reqs as [|[h tps] r IH]; intros acc s out s' H.
  - cbn [fetch_exchange] in H. inversion H; subst. split; [reflexivity|]. exists []. rewrite app_nil_r. auto.
  - rewrite C01_fetch_exchange_step in H. bind_inv H resp s1 H1 H2; try discriminate.
    destruct (IH _ _ _ _ H2) as [Hturn (resps & Hout & Hlen)]. split.
    + cbn [map fst in_turn]. exists s1. split; [apply (ops_fetch_one _ _ _ _ _ _ H1)|exact Hturn].
    + exists (resp :: resps). rewrite Hout, <- app_assoc. cbn [length]. auto.
Qed.

Lemma take_key_in {V} k (l : list (bytes * V)) : forall x r,
  take_key k l = Some (x, r) -> forall y, In y (x :: r) -> In y l.
Proof.
  induction l as [|[k' v] l IH]; intros x r; cbn [take_key]; [discriminate|].
  destruct (bytes_eqb k' k).
  - intros H. inversion H; subst. auto.
  - destruct (take_key k l) as [[x' r']|] eqn:E; [|discriminate]. intros H. inversion H; subst.
    intros y [Hy|[Hy|Hy]].
    + subst. right. apply (IH _ _ eq_refl). left. reflexivity.
    + left. auto.
    + right. apply (IH _ _ eq_refl). right. exact Hy.
Qed.

Lemma reorder_in {V} o : forall (l : list (bytes * V)) y, In y (reorder o l) -> In y l.
Proof.
  induction o as [|k ks IH]; intros l y; cbn [reorder]; [auto|].
  destruct (take_key k l) as [[x r]|] eqn:E; [|apply IH].
  intros [Hy|Hy]; apply (take_key_in _ _ _ _ E); [left; exact Hy|right; apply IH; exact Hy].
Qed.

(* KafkaClient::fetch_messages is that loop, started without having touched the wire *)
Lemma fetch_messages_is_exchange input s :
  exists corr reqs s0,
    fetch_messages input s = fetch_exchange corr reqs [] s0 /\
    trace s0 = trace s /\ script s0 = script s /\ conns (cl s0) = conns (cl s) /\
    (forall h tps, In (h, tps) reqs -> exists tps0, In (h, tps0) (fetch_reqs (cl s0) input)) .
Proof.
  unfold fetch_messages, next_corr. unfold mbind at 1 2. unfold get_client at 1.
  destruct (next_correlation_id (cs (cl s))) as [n cs'] eqn:En.
  unfold set_cs, mbind, get_client, set_client, ret. cbn [cl cfg cs conns].
  set (c0 := {| cfg := cfg (cl s); cs := cs'; conns := conns (cl s) |}).
  unfold ordered.
  destruct (fetch_reqs c0 input) as [|rq rqs] eqn:Er.
  - unfold ret. eexists n, [], _. split; [reflexivity|]. cbn. repeat split. intros h tps [].
  - unfold pop_hosts, mbind, ret. destruct (hostq s) as [|o hq]; cbn [hostq].
    + eexists n, _, _. split; [reflexivity|]. cbn [trace script cl conns]. repeat split.
      intros h tps Hin. cbn [reorder] in Hin. subst c0. cbn [cl]. rewrite Er. eauto.
    + eexists n, _, _. split; [reflexivity|]. cbn [trace script cl conns]. repeat split.
      intros h tps Hin. subst c0. cbn [cl]. rewrite Er. apply reorder_in in Hin. eauto.
Qed.

(* the same for KafkaClient::fetch_messages, i.e. for the fetch of a poll: a failing fetch leaves no broker
   with a request that was written and a reply that was not read, other than (possibly) the failing one *)
Theorem C01_fetch_failure_no_abandoned_reply : forall input s e s',
  fetch_messages input s = (Err e, s') ->
  exists corr s0 done h tps rest resps s1,
    trace s0 = trace s /\ script s0 = script s /\
    fetch_messages input s = fetch_exchange corr (done ++ (h, tps) :: rest) [] s0 /\
    fetch_exchange corr done [] s0 = (Ok resps, s1) /\ length resps = length done /\
    in_turn (map fst done) s0 s1 /\
    fetch_one corr h tps s1 = (Err e, s') /\ ops_in (on_host h) s1 s'.
Proof.
  intros input s e s' H.
  destruct (fetch_messages_is_exchange input s) as (corr & reqs & s0 & Heq & Htr & Hsc & _ & _).
  rewrite Heq in H.
  destruct (C01_fetch_exchange_failure _ _ _ _ _ _ H) as (done & h & tps & rest & resps & s1 & Hreqs & Hdone & Hlen & Hone & Hops).
  cbn [app] in Hdone. subst reqs.
  exists corr, s0, done, h, tps, rest, resps, s1.
  split; [exact Htr|]. split; [exact Hsc|]. split; [exact Heq|]. split; [exact Hdone|]. split; [exact Hlen|].
  split; [|split; [exact Hone|exact Hops]].
  apply (C01_fetch_exchange_in_turn _ _ _ _ _ _ Hdone).
Qed.

(* non-vacuity: two brokers, b1 leads t:0 and b2 leads t:1.  b1 is asked first and answers; the write to b2
   fails.  The fetch fails; on the wire: connect/write/read/read on b1, then connect/write on b2 -- b1's reply
   was consumed before b2 was touched. *)
Definition exx_cs2 : cstate :=
  {| correlation := 0; brokers := [ {| b_node := 1; b_host := tag "b1:9092" |}; {| b_node := 2; b_host := tag "b2:9092" |} ];
     topic_partitions := [ (tag "t", [0; 1]) ]; group_coordinators := [] |}.
Definition exx_st2 (script : list ev_out) : st :=
  {| script := script; trace := []; anyq := []; hostq := []; fetchq := []; entryq := [];
     cl := {| cfg := default_config [tag "b1:9092"]; cs := exx_cs2; conns := [] |}; env := ex_env |}.
Definition exx_body_b1 : bytes :=
  enc_i32 1 ++ enc_i32 1 ++ enc_i16 1 ++ tag "t" ++ enc_i32 1 ++
  enc_i32 0 ++ enc_i16 0 ++ enc_i64 12 ++ enc_i32 (ulen exx_set) ++ exx_set.
Definition exx_script_b2_fails : list ev_out :=
  [OConn true; OWrote 1000; OData (enc_i32 (ulen exx_body_b1)); OData exx_body_b1; OConn true; OWriteFail IoOther].
Definition op_kind (e : ev_op) : Z * bytes :=
  match e with EConnect h => (0, h) | EWrite h _ => (1, h) | ERead h _ => (2, h) | EShutdown h => (3, h) end.
Definition exx_input2 : list fetch_partition :=
  [ {| fq_topic := tag "t"; fq_partition := 0; fq_offset := 10; fq_max_bytes := 32768 |};
    {| fq_topic := tag "t"; fq_partition := 1; fq_offset := 3; fq_max_bytes := 32768 |} ].

Example C01_fetch_failure_no_abandoned_reply_ex :
  exists s', fetch_messages exx_input2 (exx_st2 exx_script_b2_fails) = (Err (EIo IoOther), s') /\
    map op_kind (rev (trace s')) =
      [ (0, tag "b1:9092"); (1, tag "b1:9092"); (2, tag "b1:9092"); (2, tag "b1:9092");
        (0, tag "b2:9092"); (1, tag "b2:9092") ] /\
    script s' = [] /\ conns (cl s') = [tag "b1:9092"; tag "b2:9092"].
Proof. eexists. vm_compute. repeat split. Qed.

(* non-vacuity of the success case: both brokers answer; b1's four events, then b2's four events *)
Definition exx_body_b2 : bytes :=
  enc_i32 1 ++ enc_i32 1 ++ enc_i16 1 ++ tag "t" ++ enc_i32 1 ++
  enc_i32 1 ++ enc_i16 0 ++ enc_i64 3 ++ enc_i32 0.
Definition exx_script_both : list ev_out :=
  [OConn true; OWrote 1000; OData (enc_i32 (ulen exx_body_b1)); OData exx_body_b1;
   OConn true; OWrote 1000; OData (enc_i32 (ulen exx_body_b2)); OData exx_body_b2].

Example C01_fetch_exchange_in_turn_ex :
  exists out s', fetch_messages exx_input2 (exx_st2 exx_script_both) = (Ok out, s') /\ length out = 2%nat /\
    map op_kind (rev (trace s')) =
      [ (0, tag "b1:9092"); (1, tag "b1:9092"); (2, tag "b1:9092"); (2, tag "b1:9092");
        (0, tag "b2:9092"); (1, tag "b2:9092"); (2, tag "b2:9092"); (2, tag "b2:9092") ].
Proof. eexists. eexists. vm_compute. repeat split. Qed.

(* ======================================================================================================= *)
(* D. "from the consumer's start (or last seek) offset onward": nothing below the offset that was asked for *)
(*    (protocol/fetch.rs: the request is handed to the response parser; MessageSet::from_slice drops the    *)
(*    messages below the requested offset, at every nesting level)                                          *)
(* ======================================================================================================= *)

Lemma bind_ok_inv {A B} (r : res A) (f : A -> res B) b : bind r f = Ok b -> exists a, r = Ok a /\ f a = Ok b.
Proof. destruct r as [a|e|w]; cbn [bind]; intros H; [eauto|discriminate|discriminate]. Qed.

Lemma ms_loop_lower_bound inner dbg validate req :
  (forall c v out, inner c v = Ok out -> Forall (fun m => req <= m_offset m) out) ->
  forall fuel bs acc out,
    Forall (fun m => req <= m_offset m) acc ->
    ms_loop inner dbg validate req fuel bs acc = Ok out -> Forall (fun m => req <= m_offset m) out.
Proof.
  intros Hinner. induction fuel as [|f IH]; intros bs acc out Hacc H.
  - destruct bs; cbn [ms_loop] in H; [|discriminate]. inversion H; subst. apply Forall_rev. exact Hacc.
  - destruct bs as [|b0 bs']; cbn [ms_loop] in H.
    + inversion H; subst. apply Forall_rev. exact Hacc.
    + destruct (next_message dbg validate (b0 :: bs')) as [[[off [[attr k] v]] r]|e|w]; [| |discriminate].
      * cbv zeta in H. destruct (Z.land attr 7 =? COMPRESSION_NONE).
        -- eapply IH; [|exact H].
           destruct (req <=? off) eqn:Eo; [constructor; [cbn [m_offset]; lia|exact Hacc]|exact Hacc].
        -- destruct ((Z.land attr 7 =? COMPRESSION_GZIP) || (Z.land attr 7 =? COMPRESSION_SNAPPY)); [|discriminate].
           apply (Hinner _ _ _ H).
      * destruct e; try discriminate. inversion H; subst. apply Forall_rev. exact Hacc.
Qed.

Theorem C01_from_slice_lower_bound : forall cz depth validate req bs out,
  from_slice cz depth validate req bs = Ok out -> Forall (fun m => req <= m_offset m) out.
Proof.
  intros cz depth. induction depth as [|d IH]; intros validate req bs out H; cbn [from_slice] in H; [discriminate|].
  eapply ms_loop_lower_bound; [|constructor|exact H].
  intros c v out' Hin. cbv beta in Hin. destruct (c =? COMPRESSION_GZIP).
  - destruct (gz_decompress cz v) as [data|]; [|discriminate]. apply (IH _ _ _ _ Hin).
  - destruct (alloc_limit <=? Snappy.xerial_max_alloc v); [discriminate|].
    apply bind_ok_inv in Hin. destruct Hin as (data & _ & Hin). apply (IH _ _ _ _ Hin).
Qed.

(* the offset the request `reqs` (topic -> partition -> (offset, max_bytes)) carries for a partition; 0 for a
   partition the request does not mention *)
Definition requested_offset (reqs : fetch_tps) (t : bytes) (p : Z) : Z :=
  match assoc_bytes t reqs with
  | Some ps => match assoc_z p ps with Some (off, _) => off | None => 0 end
  | None => 0
  end.

Definition part_from (req_of : Z -> Z) (fp : fetch_part) : Prop :=
  forall hw msgs, fp_data fp = inl (hw, msgs) -> Forall (fun m => req_of (fp_partition fp) <= m_offset m) msgs.

Lemma read_partition_lower_bound cz depth validate preqs bs fp rest :
  read_partition cz depth validate preqs bs = Ok (fp, rest) ->
  part_from (fun p => match preqs with
                      | Some ps => match assoc_z p ps with Some (off, _) => off | None => 0 end
                      | None => 0 end) fp.
Proof.
  unfold read_partition. intros H.
  apply bind_ok_inv in H. destruct H as ([p r1] & _ & H). cbv zeta in H.
  apply bind_ok_inv in H. destruct H as ([e r2] & _ & H).
  apply bind_ok_inv in H. destruct H as ([hw r3] & _ & H).
  apply bind_ok_inv in H. destruct H as ([ms r4] & _ & H).
  apply bind_ok_inv in H. destruct H as (msgs & Hfs & H).
  inversion H; subst. intros hw' msgs' Hd. cbn [fp_data fp_partition] in *.
  destruct (from_protocol e); [discriminate|]. inversion Hd; subst.
  apply (C01_from_slice_lower_bound _ _ _ _ _ _ Hfs).
Qed.

Lemma zread_many_all {A} (d : bytes -> res (A * bytes)) (Q : A -> Prop) :
  (forall bs x r, d bs = Ok (x, r) -> Q x) ->
  forall fuel count bs xs r, zread_many d fuel count bs = Ok (xs, r) -> Forall Q xs.
Proof.
  intros Hd. induction fuel as [|f IH]; intros count bs xs r H; cbn [zread_many] in H.
  - destruct (count <=? 0); [|discriminate]. inversion H; subst. constructor.
  - destruct (count <=? 0); [inversion H; subst; constructor|].
    apply bind_ok_inv in H. destruct H as ([x r1] & Hx & H).
    apply bind_ok_inv in H. destruct H as ([xs' r2] & Hxs & H). inversion H; subst.
    constructor; [apply (Hd _ _ _ Hx)|apply (IH _ _ _ _ Hxs)].
Qed.

Lemma zread_array_all {A} sz (d : bytes -> res (A * bytes)) (Q : A -> Prop) :
  (forall bs x r, d bs = Ok (x, r) -> Q x) ->
  forall bs xs r, zread_array sz d bs = Ok (xs, r) -> Forall Q xs.
Proof.
  intros Hd bs xs r H. unfold zread_array in H.
  apply bind_ok_inv in H. destruct H as ([n r1] & _ & H). apply (zread_many_all d Q Hd _ _ _ _ _ H).
Qed.

(* every message the decoder exposes for a partition is at or above the offset the request of THIS exchange
   carried for that topic and partition -- whatever bytes the connection delivered *)
Theorem C01_decoded_from_requested_offset : forall cz depth validate reqs bs resp,
  fetch_from_vec cz depth validate reqs bs = Ok resp ->
  forall ft fp hw msgs m,
    In ft (fr_topics resp) -> In fp (ft_partitions ft) -> fp_data fp = inl (hw, msgs) -> In m msgs ->
    requested_offset reqs (ft_topic ft) (fp_partition fp) <= m_offset m.
Proof.
  intros cz depth validate reqs bs resp H ft fp hw msgs m Hft Hfp Hd Hm.
  unfold fetch_from_vec in H.
  apply bind_ok_inv in H. destruct H as ([c r1] & _ & H).
  apply bind_ok_inv in H. destruct H as ([ts r2] & Hts & H). inversion H; subst resp. cbn [fr_topics] in Hft.
  assert (Hall : Forall (fun ft => forall fp, In fp (ft_partitions ft) ->
                           part_from (requested_offset reqs (ft_topic ft)) fp) ts).
  { apply (zread_array_all _ _ _) with (2 := Hts). intros bs0 ft0 r0 Hrt. unfold read_topic in Hrt.
    apply bind_ok_inv in Hrt. destruct Hrt as ([name r3] & _ & Hrt).
    apply bind_ok_inv in Hrt. destruct Hrt as ([ps r4] & Hps & Hrt). inversion Hrt; subst ft0.
    cbn [ft_partitions ft_topic].
    assert (Hps' : Forall (part_from (requested_offset reqs name)) ps).
    { apply (zread_array_all _ _ _) with (2 := Hps). intros bs1 fp1 r5 Hrp.
      apply read_partition_lower_bound in Hrp. unfold requested_offset. exact Hrp. }
    intros fp0 Hin. rewrite Forall_forall in Hps'. apply Hps'. exact Hin. }
  rewrite Forall_forall in Hall. pose proof (Hall ft Hft fp Hfp hw msgs Hd) as Hmsgs.
  rewrite Forall_forall in Hmsgs. apply Hmsgs. exact Hm.
Qed.

Definition resp_from (tps : fetch_tps) (resp : fetch_resp) : Prop :=
  forall ft fp hw msgs m,
    In ft (fr_topics resp) -> In fp (ft_partitions ft) -> fp_data fp = inl (hw, msgs) -> In m msgs ->
    requested_offset tps (ft_topic ft) (fp_partition fp) <= m_offset m.

(* ... in particular for the fetch of a poll: the i-th response was decoded against the i-th broker's OWN request
   of this very call (not against anything remembered from an earlier call) *)
Theorem C01_fetch_exchange_offsets : forall corr reqs acc s out s',
  fetch_exchange corr reqs acc s = (Ok out, s') ->
  exists resps, out = acc ++ resps /\ Forall2 (fun rq resp => resp_from (snd rq) resp) reqs resps.
Proof.
  intros corr reqs. induction reqs as [|[h tps] r IH]; intros acc s out s' H.
  - cbn [fetch_exchange] in H. inversion H; subst. exists []. rewrite app_nil_r. split; [reflexivity|constructor].
  - rewrite C01_fetch_exchange_step in H. bind_inv H resp s1 H1 H2; try discriminate.
    destruct (IH _ _ _ _ H2) as (resps & Hout & Hall).
    exists (resp :: resps). split; [rewrite Hout, <- app_assoc; reflexivity|]. constructor; [|exact Hall].
    destruct (fetch_one_ok _ _ _ _ _ _ H1) as (sa & sb & sc & z & b & tps' & _ & _ & _ & _ & Hdec).
    cbn [snd]. intros ft fp hw msgs m. apply (C01_decoded_from_requested_offset _ _ _ _ _ _ Hdec).
Qed.

(* non-vacuity: the broker sends offsets 10 and 11 although 11 was asked for: only 11 comes out *)
Example C01_decoded_from_requested_offset_ex :
  let reqs : fetch_tps := [(tag "t", [(0, (5, 32768)); (1, (11, 32768))])] in
  requested_offset reqs (tag "t") 1 = 11 /\
  fetch_from_vec ex_env decode_depth true reqs exx_body_two =
    Ok {| fr_corr := 1;
          fr_topics := [ {| ft_topic := tag "t";
                            ft_partitions := [ {| fp_partition := 0; fp_data := inl (6, []) |};
                                               {| fp_partition := 1;
                                                  fp_data := inl (12, [ {| m_offset := 11; m_key := []; m_value := tag "b" |} ]) |} ] |} ] |}.
Proof. cbv zeta. split; vm_compute; reflexivity. Qed.

Print Assumptions C01_failed_poll_reasons.
Print Assumptions C01_failed_poll_skips_nothing.
Print Assumptions C01_many_partitions_never_too_large.
Print Assumptions C01_poll_success.
Print Assumptions C01_poll_failure_skips_nothing.
Print Assumptions C01_fetch_keys_stable.
Print Assumptions C01_next_request_after_delivery.
Print Assumptions C01_fetch_exchange_step.
Print Assumptions C01_fetch_exchange_failure.
Print Assumptions C01_fetch_exchange_in_turn.
Print Assumptions C01_fetch_failure_no_abandoned_reply.
Print Assumptions C01_from_slice_lower_bound.
Print Assumptions C01_decoded_from_requested_offset.
Print Assumptions C01_fetch_exchange_offsets.
