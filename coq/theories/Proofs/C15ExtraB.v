(* C15, second adequacy pass.
   Seed C15-4 (KafkaConnection::send retries a timed-out write_all from byte 0) is already
   refuted by C15_push_complete / C15_exchange_complete (success => the events of the send are
   one wsteps run over the frame, which contains no failed write).  This file adds, about the
   UNCHANGED model:
   1. the sender, all outcomes, in terms of the bytes the STREAM accepted (`accepted`, a plain
      function of the events and their answers, independent of wsteps): whatever the stream
      does, what it accepted during send_request is a PREFIX of the frame; success iff that
      prefix is the whole frame; otherwise an error, the rest is non-empty, and the first
      answer that is not a good write is the LAST answer consumed (no write after a fault);
   2. the exchange and HISTORIES of exchanges (chain) stream-side: per host, the bytes accepted
      are the concatenation of the frames sent to it, the bytes delivered by reads are the
      replies, one per request, in order, and the i-th result is decoded from the i-th reply;
   3. the two APIs whose exchange is written out inline and had no C15 theorem: metadata
      (fetch_metadata_hosts, which goes on to the next host after a failed send) and the group
      coordinator lookup (group_lookup_attempt);
   4. the forward direction: when the stream accepts the frame (in any pieces) and delivers the
      size prefix and the body (in any pieces), the exchange succeeds with the decoded body. *)
From KV Require Import Base.Prelude Gen.Consts Model.Codecs Model.Requests Model.Responses
                       Model.ClientState Model.Net Model.Client.
From KV Require Proofs.C14Facts.
From KV Require Import Proofs.BytesFacts Proofs.NetFacts Proofs.C15Facts Proofs.C15Extra.
From Coq Require Import ZifyBool.

(* ================================================================================== *)
(* 0. what the stream of host h accepted / delivered, as functions of the events      *)
(* ================================================================================== *)

Definition taken (h : bytes) (p : ev_op * ev_out) : bytes :=
  match p with
  | (EWrite h' b, OWrote k) => if bytes_eqb h' h then firstn (Z.to_nat k) b else []
  | _ => []
  end.
(* the bytes accepted by the stream of host h, in order *)
Definition accepted (h : bytes) (ops : list ev_op) (outs : list ev_out) : bytes :=
  flat_map (taken h) (combine ops outs).

Definition given (h : bytes) (p : ev_op * ev_out) : bytes :=
  match p with
  | (ERead h' _, OData bs) => if bytes_eqb h' h then bs else []
  | _ => []
  end.
(* the bytes handed to reads on host h, in order *)
Definition delivered (h : bytes) (ops : list ev_op) (outs : list ev_out) : bytes :=
  flat_map (given h) (combine ops outs).

Lemma accepted_app h o1 u1 o2 u2 : length o1 = length u1 ->
  accepted h (o1 ++ o2) (u1 ++ u2) = accepted h o1 u1 ++ accepted h o2 u2.
Proof. intros L. unfold accepted. rewrite combine_app by exact L. apply flat_map_app. Qed.
Lemma delivered_app h o1 u1 o2 u2 : length o1 = length u1 ->
  delivered h (o1 ++ o2) (u1 ++ u2) = delivered h o1 u1 ++ delivered h o2 u2.
Proof. intros L. unfold delivered. rewrite combine_app by exact L. apply flat_map_app. Qed.

Lemma accepted_snoc_op h ops outs op : length ops = length outs ->
  accepted h (ops ++ [op]) outs = accepted h ops outs.
Proof.
  intros L. rewrite <- (app_nil_r outs) at 1. rewrite accepted_app by exact L.
  unfold accepted at 2. cbn [combine flat_map]. apply app_nil_r.
Qed.

Lemma accepted_none h ops outs : Forall not_write ops -> accepted h ops outs = [].
Proof.
  intros F. revert outs. induction F as [|op ops Hop _ IH]; intros [|o outs]; try reflexivity.
  unfold accepted. cbn [combine flat_map]. fold (accepted h ops outs). rewrite IH.
  destruct op; try reflexivity. contradiction.
Qed.
Lemma delivered_none h ops outs : Forall not_read ops -> delivered h ops outs = [].
Proof.
  intros F. revert outs. induction F as [|op ops Hop _ IH]; intros [|o outs]; try reflexivity.
  unfold delivered. cbn [combine flat_map]. fold (delivered h ops outs). rewrite IH.
  destruct op; try reflexivity. contradiction.
Qed.
(* events on another host contribute nothing *)
Lemma accepted_other h h' ops outs : h' <> h -> Forall (on_host h') ops -> accepted h ops outs = [].
Proof.
  intros N F. revert outs. induction F as [|op ops Hop _ IH]; intros [|o outs]; try reflexivity.
  unfold accepted. cbn [combine flat_map]. fold (accepted h ops outs). rewrite IH.
  destruct op; try reflexivity. destruct o; try reflexivity. cbn [on_host] in Hop. subst h0. cbn [taken].
  destruct (bytes_eqb h' h) eqn:E; [apply bytes_eqb_eq in E; contradiction|reflexivity].
Qed.
Lemma delivered_other h h' ops outs : h' <> h -> Forall (on_host h') ops -> delivered h ops outs = [].
Proof.
  intros N F. revert outs. induction F as [|op ops Hop _ IH]; intros [|o outs]; try reflexivity.
  unfold delivered. cbn [combine flat_map]. fold (delivered h ops outs). rewrite IH.
  destruct op; try reflexivity. destruct o; try reflexivity. cbn [on_host] in Hop. subst h0. cbn [given].
  destruct (bytes_eqb h' h) eqn:E; [apply bytes_eqb_eq in E; contradiction|reflexivity].
Qed.

(* a wsteps run: exactly its chunks were accepted *)
Lemma wsteps_accepted h b ops outs chunks b' :
  wsteps h b ops outs chunks b' -> accepted h ops outs = concat chunks.
Proof.
  induction 1 as [b|b k ops outs chunks b' Hne Hk Hw IH|b ops outs chunks b' Hne Hw IH]; [reflexivity| |].
  - unfold accepted. cbn [combine flat_map taken concat]. rewrite bytes_eqb_refl.
    fold (accepted h ops outs). rewrite IH. reflexivity.
  - unfold accepted. cbn [combine flat_map taken app]. exact IH.
Qed.
Lemma wsteps_not_read h b ops outs chunks b' : wsteps h b ops outs chunks b' -> Forall not_read ops.
Proof. induction 1; constructor; try assumption; exact I. Qed.

(* a run of reads on h: the payloads of the answers were delivered *)
Lemma reads_delivered h ops outs data : reads h ops outs data -> delivered h ops outs = data.
Proof.
  intros (L & F & _ & <-). revert outs L. induction F as [|op ops [n [-> Hn]] _ IH]; intros [|o outs] L;
    cbn [length] in L; try discriminate; [reflexivity|].
  unfold delivered. cbn [combine flat_map given]. fold (delivered h ops outs). rewrite IH by lia.
  cbn [payloads flat_map]. fold (payloads outs). rewrite bytes_eqb_refl. destruct o; reflexivity.
Qed.
Lemma reads_not_write h ops outs data : reads h ops outs data -> Forall not_write ops.
Proof.
  intros (_ & F & _). eapply Forall_impl; [|exact F]. intros e [n [-> _]]. exact I.
Qed.

(* ================================================================================== *)
(* 1. the sender: all outcomes, in terms of the bytes accepted (seed C15-4)           *)
(* ================================================================================== *)

Lemma send_run h msg s r s' : send h msg s = (r, s') ->
  exists ops outs chunks b', wsteps h msg ops outs chunks b' /\
    ((r = Ok (ulen msg) /\ b' = [] /\ seg s s' outs ops)
     \/ (exists o e, b' <> [] /\ r = Err e /\ write_bad o (Err e) /\
                     seg s s' (outs ++ [o]) (ops ++ [EWrite h b']))
     \/ (b' <> [] /\ r = Err EOutOfScript /\ script s' = [] /\ seg s s' outs (ops ++ [EWrite h b']))).
Proof.
  intros H. unfold send in H. bind_inv H u s1 H1 H2.
  - inversion H2; subst. destruct u. unfold with_fuel in H1.
    destruct (write_all_run _ _ _ _ _ _ H1) as [_ (ops & outs & chunks & b' & Hw & He)].
    exists ops, outs, chunks, b'. split; [exact Hw|].
    destruct He as [Hr Hb Hs|o Hb Hbad Hs|Hb Hr Hd Hs|Hb Hr Hfu Hs]; try discriminate.
    + left. repeat split; try assumption; apply Hs.
    + exfalso. exact (write_bad_not_ok _ _ Hbad eq_refl).
  - subst r. pose proof (nofuel_write_all_wf _ _ _ _ _ H1) as Nf. unfold with_fuel in H1.
    destruct (write_all_run _ _ _ _ _ _ H1) as [_ (ops & outs & chunks & b' & Hw & He)].
    exists ops, outs, chunks, b'. split; [exact Hw|].
    destruct He as [Hr Hb Hs|o Hb Hbad Hs|Hb Hr Hd Hs|Hb Hr Hfu Hs]; try discriminate.
    + right; left. exists o, u. split; [exact Hb|]. split; [reflexivity|]. split; [exact Hbad|exact Hs].
    + right; right. inversion Hr; subst. repeat split; try assumption; apply Hs.
    + contradiction.
  - exfalso. eapply nopanic_with_fuel; [intros g; apply nopanic_write_all|exact H1|reflexivity].
Qed.

(* For EVERY behaviour of the stream: what the stream accepted during send_request is a prefix
   of the frame (frame p = accepted ++ b'); the call reports success exactly when that prefix is
   the whole frame, every answer consumed being a good write; otherwise it reports an error, the
   part b' never handed over is not empty, it is what the last write offered, and the answer
   that was not a good write is the last one consumed (or the script ran dry). *)
Theorem C15_send_outcomes : forall h p s r s',
  send_request h (Ok p) s = (r, s') ->
  exists b', frame p = accepted h (performed s s') (consumed s s') ++ b' /\
    ((r = Ok (ulen (frame p)) /\ b' = [] /\ forallb good_write (consumed s s') = true /\
      length (performed s s') = length (consumed s s'))
     \/ (exists pre o e opre, b' <> [] /\ r = Err e /\ consumed s s' = pre ++ [o] /\
           forallb good_write pre = true /\ write_bad o (Err e) /\
           performed s s' = opre ++ [EWrite h b'] /\ length opre = length pre)
     \/ (exists opre, b' <> [] /\ r = Err EOutOfScript /\ script s' = [] /\
           forallb good_write (consumed s s') = true /\
           performed s s' = opre ++ [EWrite h b'] /\ length opre = length (consumed s s'))).
Proof.
  intros h p s r s' H. unfold send_request in H. unfold mbind at 1 in H. unfold lift in H.
  destruct (send_run _ _ _ _ _ H) as (ops & outs & chunks & b' & Hw & C).
  pose proof (wsteps_concat _ _ _ _ _ _ Hw) as Hc. pose proof (wsteps_accepted _ _ _ _ _ _ Hw) as Ha.
  pose proof (wsteps_length _ _ _ _ _ _ Hw) as L. pose proof (wsteps_good _ _ _ _ _ _ Hw) as G.
  exists b'. destruct C as [(Hr & Hb & Hs)|[(o & e & Hb & Hr & Hbad & Hs)|(Hb & Hr & Hd & Hs)]];
    rewrite (seg_performed _ _ _ _ Hs), (seg_consumed _ _ _ _ Hs).
  - split; [rewrite Ha; exact Hc|]. left. repeat split; assumption.
  - split.
    + rewrite accepted_app by exact L. unfold accepted at 2. cbn [combine flat_map taken].
      destruct o; try rewrite bytes_eqb_refl; cbn [write_bad] in Hbad;
        try (rewrite !app_nil_r, Ha; exact Hc).
      destruct Hbad as [Hk _]. replace (Z.to_nat k) with O by lia. cbn [firstn]. rewrite !app_nil_r, Ha. exact Hc.
    + right; left. exists outs, o, e, ops. repeat split; assumption.
  - split; [rewrite accepted_snoc_op by exact L; rewrite Ha; exact Hc|].
    right; right. exists ops. repeat split; assumption.
Qed.

(* a payload that did not encode: its outcome is the result and NOTHING happens on the stream *)
Theorem C15_send_bad_payload : forall h (payload : res bytes) s r s',
  (forall p, payload <> Ok p) -> send_request h payload s = (r, s') ->
  s' = s /\ failed_as payload r.
Proof.
  intros h payload s r s' N H. unfold send_request in H. unfold mbind at 1 in H. unfold lift in H.
  destruct payload as [p|e|w]; [exfalso; exact (N p eq_refl)| |]; inversion H; subst; (split; [reflexivity|]).
  - left. exists e. split; reflexivity.
  - right. exists w. split; reflexivity.
Qed.

(* The "fails, does not go on" clause for every fault at every write index: an answer that is not
   a good write (a failed write such as a time-out, a write of 0 bytes, a foreign answer) is the
   LAST answer the send consumes, and the call returns the matching error.  In particular no
   byte is offered to the stream after a timed-out write (seed C15-4). *)
Theorem C15_send_fault_stops : forall h p s r s' o,
  send_request h (Ok p) s = (r, s') -> In o (consumed s s') -> good_write o = false ->
  exists pre e, consumed s s' = pre ++ [o] /\ forallb good_write pre = true /\
                r = Err e /\ write_bad o (Err e).
Proof.
  intros h p s r s' o H Hin Hbad.
  assert (K : forall l, forallb good_write l = true -> In o l -> False).
  { intros l Hl Hi. rewrite forallb_forall in Hl. rewrite (Hl _ Hi) in Hbad. discriminate. }
  destruct (C15_send_outcomes _ _ _ _ _ H) as (b' & _ & [(_ & _ & G & _)|[(pre & o' & e & opre & _ & Hr & Hc & G & Hb & _)|(opre & _ & _ & _ & G & _)]]).
  - exfalso. exact (K _ G Hin).
  - rewrite Hc in Hin. apply in_app_or in Hin. destruct Hin as [Hi|[<-|[]]]; [exfalso; exact (K _ G Hi)|].
    exists pre, e. repeat split; assumption.
  - exfalso. exact (K _ G Hin).
Qed.

Theorem C15_send_write_error_is_result : forall h p s r s' e,
  send_request h (Ok p) s = (r, s') -> In (OWriteFail e) (consumed s s') ->
  r = Err (EIo e) /\ exists pre, consumed s s' = pre ++ [OWriteFail e] /\ forallb good_write pre = true.
Proof.
  intros h p s r s' e H Hin.
  destruct (C15_send_fault_stops _ _ _ _ _ _ H Hin eq_refl) as (pre & e0 & Hc & G & Hr & Hb).
  cbn [write_bad] in Hb. inversion Hb; subst. split; [reflexivity|]. exists pre. split; assumption.
Qed.

(* the stream accepts 30 bytes of a frame, then the write times out, then it would accept
   everything again: the call fails with the time-out, the last answer stays unconsumed, and
   what the stream got is the first 30 bytes - once *)
Definition req1 : bytes := tag "a-request-payload-of-some-length-0123456789".
Example C15_send_outcomes_ex :
  let s := mkst [OWrote 30; OWriteFail IoTimedOut; OWrote 1000] cl1 in
  let '(r, s') := send_request h1 (Ok req1) s in
  r = Err (EIo IoTimedOut) /\ script s' = [OWrote 1000] /\
  accepted h1 (performed s s') (consumed s s') = firstn 30 (frame req1) /\
  performed s s' = [EWrite h1 (frame req1); EWrite h1 (skipn 30 (frame req1))].
Proof. vm_compute. repeat split. Qed.
Example C15_send_outcomes_ok_ex :
  let s := mkst [OWrote 30; OWriteIntr; OWrote 5; OWrote 1000; OWrote 7] cl1 in
  let '(r, s') := send_request h1 (Ok req1) s in
  r = Ok (ulen (frame req1)) /\ script s' = [OWrote 7] /\
  accepted h1 (performed s s') (consumed s s') = frame req1.
Proof. vm_compute. repeat split. Qed.

(* ================================================================================== *)
(* 2. the exchange and histories of exchanges, stream-side                            *)
(* ================================================================================== *)

Lemma full_lists s s' : full s s' -> length (performed s s') = length (consumed s s').
Proof. intros [outs [ops [Hs L]]]. rewrite (seg_performed _ _ _ _ Hs), (seg_consumed _ _ _ _ Hs). exact L. Qed.

Lemma conn_event_not_write h ops : Forall (conn_event h) ops -> Forall not_write ops.
Proof. intros F. eapply Forall_impl; [|exact F]. intros e [->| ->]; exact I. Qed.
Lemma conn_event_not_read h ops : Forall (conn_event h) ops -> Forall not_read ops.
Proof. intros F. eapply Forall_impl; [|exact F]. intros e [->| ->]; exact I. Qed.

(* a reply as it lies on the stream: size prefix, body *)
Definition is_reply {A} (d : dec A) (a : A) (hdr body : bytes) : Prop :=
  4 <= ulen hdr /\ 0 <= be_dec_s hdr /\ be_dec_s hdr <= ulen body /\ exists rest, d body = Ok (a, rest).

(* A successful exchange, seen from the stream of its host: the bytes accepted during the call
   are exactly the request frame; the bytes delivered are one size prefix and one body, from
   which the result is decoded; when no read returns more than asked, the prefix has 4 bytes and
   the body exactly the announced size. *)
Theorem C15_exchange_streams : forall A (d : dec A) h p s s' a,
  send_receive d h (Ok p) s = (Ok a, s') ->
  accepted h (performed s s') (consumed s s') = frame p /\
  exists hdr body, delivered h (performed s s') (consumed s s') = hdr ++ body /\
    is_reply d a hdr body /\
    (reads_bounded s s' -> ulen hdr = 4 /\ ulen body = be_dec_s hdr).
Proof.
  intros A d h p s s' a H.
  destruct (C15_exchange_complete _ d h _ p s s' a eq_refl H)
    as (s1 & s2 & chunks & hdr & body & rest & _ & F1 & F2 & F3 & Hp & Hc & Fc & Hw & Hcc & Hr & L4 & Hnn & Hle & Hd & Hb).
  pose proof (full_lists _ _ F1) as L1. pose proof (full_lists _ _ F2) as L2.
  rewrite Hp, Hc. split.
  - rewrite !accepted_app by assumption.
    rewrite (accepted_none _ _ _ (conn_event_not_write _ _ Fc)), (accepted_none _ _ _ (reads_not_write _ _ _ _ Hr)).
    rewrite (wsteps_accepted _ _ _ _ _ _ Hw), app_nil_r. exact Hcc.
  - exists hdr, body. split.
    + rewrite !delivered_app by assumption.
      rewrite (delivered_none _ _ _ (conn_event_not_read _ _ Fc)), (delivered_none _ _ _ (wsteps_not_read _ _ _ _ _ _ Hw)).
      apply (reads_delivered _ _ _ _ Hr).
    + split; [repeat split; try assumption; exists rest; exact Hd|].
      intros B. destruct (Hb B) as (B1 & B2 & _). split; assumption.
Qed.

Lemma send_receive_ok_payload {A} (d : dec A) h payload s a s' :
  send_receive d h payload s = (Ok a, s') -> exists p, payload = Ok p.
Proof.
  intros H. unfold send_receive in H. bind_inv H u s1 H1 H2; try discriminate.
  bind_inv H2 z s2 H3 H4; try discriminate.
  unfold send_request in H3. unfold mbind at 1 in H3. unfold lift in H3.
  destruct payload as [p|e|w]; try discriminate. exists p. reflexivity.
Qed.

(* the frames a list of (host, payload) pairs sends to host h, concatenated in order *)
Definition frames_to (h : bytes) (pl : list (bytes * res bytes)) : bytes :=
  flat_map (fun x => if bytes_eqb (fst x) h then match snd x with Ok p => frame p | _ => [] end else []) pl.

(* the replies host h gave to the requests of pl addressed to it, in order: `replies d h pl als data`
   says that data is the concatenation of one (prefix, body) pair per request sent to h, and
   that the result in als at the position of that request is decoded from that very body *)
Inductive replies {A} (d : dec A) (h : bytes) : list (bytes * res bytes) -> list A -> bytes -> Prop :=
| replies_nil : replies d h [] [] []
| replies_here p rest a als hdr body data :
    is_reply d a hdr body -> ulen hdr = 4 -> ulen body = be_dec_s hdr ->
    replies d h rest als data -> replies d h ((h, p) :: rest) (a :: als) (hdr ++ body ++ data)
| replies_other h' p rest a als data :
    h' <> h -> replies d h rest als data -> replies d h ((h', p) :: rest) (a :: als) data.

Lemma reads_bounded_prefix s s1 s' : full s s1 -> ext s1 s' -> reads_bounded s s' -> reads_bounded s s1.
Proof.
  intros Hf He Hb. unfold reads_bounded in *.
  rewrite (performed_app _ _ _ (full_ext _ _ Hf) He), (consumed_app _ _ _ (full_ext _ _ Hf) He) in Hb.
  rewrite combine_app in Hb by (apply full_lists; exact Hf). apply Forall_app in Hb. apply Hb.
Qed.

(* A HISTORY of successful exchanges (any hosts, any number; this is what the multi-broker calls
   and sequences of calls on one client are made of - C15_offsets_chain, C15_produce_acked_chain):
   for every host, the stream accepted exactly the frames addressed to it, one after the other,
   nothing else and nothing twice ... *)
Theorem C15_chain_accepted : forall A (d : dec A) pl s als s',
  chain d pl s als s' -> forall h, accepted h (performed s s') (consumed s s') = frames_to h pl.
Proof.
  intros A d pl s als s' C h. induction C as [s|h' p rest s a s1 als s' H1 C IH].
  - rewrite performed_refl, consumed_refl. reflexivity.
  - pose proof (stepsR_ok_full _ _ _ (tracks_send_receive d h' p _ _ _ H1)) as F1.
    pose proof (chain_full _ _ _ _ _ C) as F2.
    rewrite (performed_app _ _ _ (full_ext _ _ F1) (full_ext _ _ F2)),
            (consumed_app _ _ _ (full_ext _ _ F1) (full_ext _ _ F2)).
    rewrite accepted_app by (apply full_lists; exact F1). rewrite IH.
    unfold frames_to at 2. cbn [flat_map fst snd]. fold (frames_to h rest). f_equal.
    destruct (send_receive_ok_payload _ _ _ _ _ _ H1) as [p0 ->].
    destruct (bytes_eqb h' h) eqn:E.
    + apply bytes_eqb_eq in E. subst h'. apply (C15_exchange_streams _ _ _ _ _ _ _ H1).
    + apply (accepted_other h h'); [intros ->; rewrite bytes_eqb_refl in E; discriminate|].
      apply (ops_send_receive _ _ _ _ _ _ _ H1).
Qed.

(* ... and (no read returning more than asked) the reads on that host were handed exactly one
   reply per request sent to it, in the order of the requests; the i-th result is decoded from
   the body of the i-th reply - never from bytes answering another request of the history. *)
Theorem C15_chain_delivered : forall A (d : dec A) pl s als s',
  chain d pl s als s' -> reads_bounded s s' ->
  forall h, replies d h pl als (delivered h (performed s s') (consumed s s')).
Proof.
  intros A d pl s als s' C B h. induction C as [s|h' p rest s a s1 als s' H1 C IH].
  - rewrite performed_refl, consumed_refl. constructor.
  - pose proof (stepsR_ok_full _ _ _ (tracks_send_receive d h' p _ _ _ H1)) as F1.
    pose proof (chain_full _ _ _ _ _ C) as F2.
    pose proof (reads_bounded_prefix _ _ _ F1 (full_ext _ _ F2) B) as B1.
    pose proof (reads_bounded_suffix _ _ _ F1 (full_ext _ _ F2) B) as B2.
    specialize (IH B2).
    rewrite (performed_app _ _ _ (full_ext _ _ F1) (full_ext _ _ F2)),
            (consumed_app _ _ _ (full_ext _ _ F1) (full_ext _ _ F2)).
    rewrite delivered_app by (apply full_lists; exact F1).
    destruct (send_receive_ok_payload _ _ _ _ _ _ H1) as [p0 ->].
    destruct (bytes_eqb h' h) eqn:E.
    + apply bytes_eqb_eq in E. subst h'.
      destruct (C15_exchange_streams _ _ _ _ _ _ _ H1) as (_ & hdr & body & -> & Hrep & Hb).
      destruct (Hb B1) as [L4 Lb]. rewrite <- app_assoc. apply replies_here; assumption.
    + assert (N : h' <> h) by (intros ->; rewrite bytes_eqb_refl in E; discriminate).
      rewrite (delivered_other h h' _ _ N (proj2 (ops_send_receive _ _ _ _ _ _ _ H1))).
      cbn [app]. apply replies_other; assumption.
Qed.

(* three exchanges on two hosts (h1, h2, h1), requests and replies arriving in pieces: per host
   the stream accepted its frames and delivered its replies, in order *)
Definition dx : dec bytes := fun b => Ok (b, []).
Definition rA : bytes := tag "reply-A".
Definition rB : bytes := tag "reply-BB".
Definition rC : bytes := tag "reply-CCC".
Example C15_chain_streams_ex :
  let s := mkst [OWrote 3; OWrote 100; OData [x00; x00]; OData [x00; x07]; OData (firstn 2 rA); OData (skipn 2 rA);
                 OWrote 100; OData (enc_i32 8); OData rB;
                 OWriteIntr; OWrote 100; OData (enc_i32 9); OReadIntr; OData rC; OData (tag "next")] cl2 in
  let pl := [(h1, Ok (tag "AAAA")); (h2, Ok (tag "BB")); (h1, Ok (tag "C"))] in
  exists s', chain dx pl s [rA; rB; rC] s' /\ reads_bounded s s' /\ script s' = [OData (tag "next")] /\
    accepted h1 (performed s s') (consumed s s') = frame (tag "AAAA") ++ frame (tag "C") /\
    accepted h2 (performed s s') (consumed s s') = frame (tag "BB") /\
    delivered h1 (performed s s') (consumed s s') = enc_i32 7 ++ rA ++ enc_i32 9 ++ rC /\
    delivered h2 (performed s s') (consumed s s') = enc_i32 8 ++ rB.
Proof.
  cbv zeta. eexists. split.
  - eapply chain_cons; [vm_compute; reflexivity|]. eapply chain_cons; [vm_compute; reflexivity|].
    eapply chain_cons; [vm_compute; reflexivity|]. apply chain_nil.
  - vm_compute. split; [repeat constructor; discriminate|]. repeat split.
Qed.

(* ================================================================================== *)
(* 3. the APIs with an inline exchange: metadata, group coordinator lookup            *)
(* ================================================================================== *)

(* send_request then get_response on the same host, both successful - the exchange as it is
   written out in fetch_metadata, __get_group_coordinator and fetch_messages - stream-side *)
Theorem C15_inline_exchange_streams : forall A (d : dec A) h req s1 z s2 a s',
  send_request h req s1 = (Ok z, s2) -> get_response d h s2 = (Ok a, s') ->
  exists p, req = Ok p /\ full s1 s' /\
    accepted h (performed s1 s') (consumed s1 s') = frame p /\
    exists hdr body, delivered h (performed s1 s') (consumed s1 s') = hdr ++ body /\
      is_reply d a hdr body /\
      Forall not_read (performed s1 s2) /\ reads h (performed s2 s') (consumed s2 s') (hdr ++ body) /\
      (reads_bounded s1 s' -> ulen hdr = 4 /\ ulen body = be_dec_s hdr).
Proof.
  intros A d h req s1 z s2 a s' H1 H2.
  destruct (C15_push_complete _ _ _ _ _ H1) as (p & chunks & -> & _ & Hw & Hcc).
  pose proof (stepsR_ok_full _ _ _ (tracks_send_request h _ _ _ _ H1)) as F1.
  pose proof (stepsR_ok_full _ _ _ (tracks_get_response d h _ _ _ H2)) as F2.
  destruct (get_response_inv _ _ _ _ _ H2) as [[b [Hb Hr]]|[e [_ Hr]]]; [|discriminate].
  destruct (d b) as [[a' rest]|e|w] eqn:Ed; inversion Hr; subst a'.
  destruct (get_response_bytes_ok _ _ _ _ Hb) as (rops & routs & b0 & Hrs & Hreads & L4 & Hnn & Hle & Hbd).
  pose proof (full_lists _ _ F1) as L1.
  exists p. split; [reflexivity|]. split; [eapply full_trans; eassumption|].
  rewrite (performed_app _ _ _ (full_ext _ _ F1) (full_ext _ _ F2)), (consumed_app _ _ _ (full_ext _ _ F1) (full_ext _ _ F2)).
  rewrite (seg_performed _ _ _ _ Hrs), (seg_consumed _ _ _ _ Hrs).
  split.
  - rewrite accepted_app by exact L1. rewrite (accepted_none _ _ _ (reads_not_write _ _ _ _ Hreads)).
    rewrite (wsteps_accepted _ _ _ _ _ _ Hw), app_nil_r. exact Hcc.
  - exists b0, b. split.
    + rewrite delivered_app by exact L1. rewrite (delivered_none _ _ _ (wsteps_not_read _ _ _ _ _ _ Hw)).
      apply (reads_delivered _ _ _ _ Hreads).
    + split; [repeat split; try assumption; exists rest; exact Ed|].
      split; [exact (wsteps_not_read _ _ _ _ _ _ Hw)|]. split; [exact Hreads|].
      intros B. apply Hbd. pose proof (reads_bounded_suffix _ _ _ F1 (full_ext _ _ F2) B) as B2.
      unfold reads_bounded in B2. rewrite (seg_performed _ _ _ _ Hrs), (seg_consumed _ _ _ _ Hrs) in B2. exact B2.
Qed.

(* ---- metadata ------------------------------------------------------------------------- *)
Definition md_payload (corr : Z) (topics : list bytes) (s : st) : res bytes :=
  enc_metadata_req corr (client_id (cfg (cl s))) topics.

(* hosts that were tried in vain: the connection could not be had, or the request could not be
   sent (whatever part of it the stream accepted); the loop goes on with the next host *)
Inductive md_skipped (corr : Z) (topics : list bytes) : list bytes -> st -> st -> Prop :=
| mds_nil s : md_skipped corr topics [] s s
| mds_conn h rest s e s1 s' :
    get_conn h s = (Err e, s1) -> md_skipped corr topics rest s1 s' -> md_skipped corr topics (h :: rest) s s'
| mds_send h rest s s1 e s2 s' :
    get_conn h s = (Ok tt, s1) -> send_request h (md_payload corr topics s) s1 = (Err e, s2) ->
    md_skipped corr topics rest s2 s' -> md_skipped corr topics (h :: rest) s s'.

Lemma send_request_no_read h payload : keeps (ops_in not_read) (send_request h payload).
Proof. apply (keepsR_send_request _ (preorder_ops_in _) h); intros; apply keeps_io_ops; exact I. Qed.
Lemma get_conn_no_read h : keeps (ops_in not_read) (get_conn h).
Proof.
  intros s r s' H. destruct (ops_get_conn _ _ _ _ H) as [E F]. split; [exact E|]. eapply conn_event_not_read; exact F.
Qed.

(* no read is performed for a host that is skipped, and the configuration stays *)
Lemma md_skipped_quiet corr topics hs s s' : md_skipped corr topics hs s s' ->
  ops_in not_read s s' /\ cfg (cl s') = cfg (cl s).
Proof.
  induction 1 as [s|h rest s e s1 s' H1 _ [IH1 IH2]|h rest s s1 e s2 s' H1 H2 _ [IH1 IH2]].
  - split; [apply preorder_ops_in|reflexivity].
  - split; [eapply (proj2 (preorder_ops_in _)); [eapply get_conn_no_read; exact H1|exact IH1]|].
    rewrite IH2. apply (frame_get_conn _ _ _ _ H1).
  - split.
    + eapply (proj2 (preorder_ops_in _)); [eapply get_conn_no_read; exact H1|].
      eapply (proj2 (preorder_ops_in _)); [eapply send_request_no_read; exact H2|exact IH1].
    + rewrite IH2. destruct (frame_send_request _ _ _ _ _ H2) as (_ & _ & _ & _ & -> & _).
      apply (frame_get_conn _ _ _ _ H1).
Qed.

(* fetch_metadata, for EVERY behaviour of the streams, all outcomes: some hosts are skipped (no
   read there); then either one host h got the WHOLE request (send_request = Ok) and the result
   of the call IS the outcome of reading its reply - success or failure, no further host is
   tried after a request went out completely -, or no host is left (NoHostReachable), or the
   encoded request was a panic. *)
Theorem C15_metadata_run : forall corr topics hs s r s',
  fetch_metadata_hosts corr topics hs s = (r, s') ->
  (exists pre h post sk s1 z s2, hs = pre ++ h :: post /\ md_skipped corr topics pre s sk /\
      get_conn h sk = (Ok tt, s1) /\ send_request h (md_payload corr topics sk) s1 = (Ok z, s2) /\
      get_response dec_metadata_resp h s2 = (r, s'))
  \/ (r = Err ENoHostReachable /\ md_skipped corr topics hs s s')
  \/ (exists pre h post sk s1 w, hs = pre ++ h :: post /\ md_skipped corr topics pre s sk /\
        get_conn h sk = (Ok tt, s1) /\ send_request h (md_payload corr topics sk) s1 = (Panic w, s') /\
        r = Panic w).
Proof.
  intros corr topics hs. induction hs as [|h rest IH]; intros s r s' H; cbn [fetch_metadata_hosts] in H.
  - inversion H; subst. right; left. split; [reflexivity|constructor].
  - rewrite bind_get_client in H. unfold mbind at 1 in H. unfold mtry at 1 in H.
    destruct (get_conn h s) as [[[]|e|w] s1] eqn:E1.
    + unfold mbind at 1 in H. unfold mtry at 1 in H. fold (md_payload corr topics s) in H.
      destruct (send_request h (md_payload corr topics s) s1) as [[z|e|w] s2] eqn:E2.
      * left. exists [], h, rest, s, s1, z, s2. split; [reflexivity|]. split; [constructor|].
        split; [exact E1|]. split; [exact E2|exact H].
      * destruct (IH _ _ _ H) as [(pre & h' & post & sk & sa & z & sb & Hhs & Hsk & Ha & Hb & Hc)
                                 |[(Hr & Hsk)|(pre & h' & post & sk & sa & w & Hhs & Hsk & Ha & Hb & Hr)]].
        -- left. exists (h :: pre), h', post, sk, sa, z, sb. split; [rewrite Hhs; reflexivity|].
           split; [eapply mds_send; eassumption|]. repeat split; assumption.
        -- right; left. split; [exact Hr|eapply mds_send; eassumption].
        -- right; right. exists (h :: pre), h', post, sk, sa, w. split; [rewrite Hhs; reflexivity|].
           split; [eapply mds_send; eassumption|]. repeat split; assumption.
      * inversion H; subst. right; right. exists [], h, rest, s, s1, w. split; [reflexivity|].
        split; [constructor|]. repeat split; assumption.
    + destruct (IH _ _ _ H) as [(pre & h' & post & sk & sa & z & sb & Hhs & Hsk & Ha & Hb & Hc)
                               |[(Hr & Hsk)|(pre & h' & post & sk & sa & w & Hhs & Hsk & Ha & Hb & Hr)]].
      * left. exists (h :: pre), h', post, sk, sa, z, sb. split; [rewrite Hhs; reflexivity|].
        split; [eapply mds_conn; eassumption|]. repeat split; assumption.
      * right; left. split; [exact Hr|eapply mds_conn; eassumption].
      * right; right. exists (h :: pre), h', post, sk, sa, w. split; [rewrite Hhs; reflexivity|].
        split; [eapply mds_conn; eassumption|]. repeat split; assumption.
    + exfalso. exact (nopanic_get_conn _ _ _ _ _ E1 eq_refl).
Qed.

(* success of the metadata call, stream-side: before the host h that answered, nothing was read
   from any stream; h accepted exactly the request frame of this call; then the reads on h
   delivered one size prefix and one body; the metadata returned is decoded from that body; and
   these are all the events of the call. *)
Theorem C15_metadata_ok_own_exchange : forall corr topics hs s md s',
  fetch_metadata_hosts corr topics hs s = (Ok md, s') ->
  exists h sk s1 p hdr body,
    In h hs /\ ops_in not_read s sk /\ get_conn h sk = (Ok tt, s1) /\ full s1 s' /\
    enc_metadata_req corr (client_id (cfg (cl s))) topics = Ok p /\
    accepted h (performed s1 s') (consumed s1 s') = frame p /\
    delivered h (performed s1 s') (consumed s1 s') = hdr ++ body /\
    is_reply dec_metadata_resp md hdr body /\
    (reads_bounded s1 s' -> ulen hdr = 4 /\ ulen body = be_dec_s hdr).
Proof.
  intros corr topics hs s md s' H.
  destruct (C15_metadata_run _ _ _ _ _ _ H) as [(pre & h & post & sk & s1 & z & s2 & Hhs & Hsk & Ha & Hb & Hc)
                                               |[(Hr & _)|(pre & h & post & sk & s1 & w & _ & _ & _ & _ & Hr)]];
    try discriminate.
  destruct (md_skipped_quiet _ _ _ _ _ Hsk) as [Q Hcfg].
  destruct (C15_inline_exchange_streams _ _ _ _ _ _ _ _ _ Hb Hc) as (p & Hp & F & Hacc & hdr & body & Hd & Hrep & _ & _ & Hbd).
  exists h, sk, s1, p, hdr, body. split; [rewrite Hhs; apply in_or_app; right; left; reflexivity|].
  split; [exact Q|]. split; [exact Ha|]. split; [exact F|].
  split; [unfold md_payload in Hp; rewrite Hcfg in Hp; exact Hp|].
  split; [exact Hacc|]. split; [exact Hd|]. split; [exact Hrep|exact Hbd].
Qed.

(* two bootstrap hosts; the first accepts 10 bytes of the request and then fails: the call goes
   on to the second host, writes the whole request there, reads one reply and succeeds *)
Definition cl_md : client := {| cfg := default_config [h1; h2]; cs := cs1; conns := [h1; h2] |}.
Definition md_reply : bytes := enc_i32 1 ++ enc_i32 0 ++ enc_i32 0.   (* corr 1, no brokers, no topics *)
Example C15_metadata_run_ex :
  let s := mkst [OWrote 10; OWriteFail IoOther; OWrote 1000; OData (enc_i32 (ulen md_reply)); OData md_reply;
                 OData (tag "next")] cl_md in
  let '(r, s') := fetch_metadata [] s in
  is_ok r = true /\ script s' = [OData (tag "next")] /\
  map (fun e => match e with EWrite h _ => (1, h) | ERead h _ => (2, h) | _ => (0, []) end) (performed s s')
  = [(1, h1); (1, h1); (1, h2); (2, h2); (2, h2)] /\
  delivered h1 (performed s s') (consumed s s') = [] /\
  delivered h2 (performed s s') (consumed s s') = enc_i32 (ulen md_reply) ++ md_reply /\
  (* the connection to h1 stays pooled although 10 bytes of a request frame lie on it *)
  conns (cl s') = [h1; h2] /\ ulen (accepted h1 (performed s s') (consumed s s')) = 10.
Proof. vm_compute. repeat split. Qed.

(* ---- group coordinator lookup ------------------------------------------------------------ *)
Lemma get_conn_any_no_read : keeps (ops_in not_read) get_conn_any.
Proof.
  apply keepsR_get_conn_any; [apply preorder_ops_in| | |apply keeps_pop_any_ops];
    intros h; apply keeps_io_ops; exact I.
Qed.

(* one attempt of the lookup, all outcomes that are not a panic of its own: a connection is
   picked without a byte being read; then the result is that of writing the WHOLE request to it
   and reading ONE reply from it.  On success, stream-side: *)
Theorem C15_group_lookup_own_exchange : forall req s resp s',
  group_lookup_attempt req s = (Ok resp, s') ->
  exists h s1 p hdr body,
    get_conn_any s = (Ok (Some h), s1) /\ ops_in not_read s s1 /\ ops_in not_write s s1 /\ full s1 s' /\
    req = Ok p /\
    accepted h (performed s1 s') (consumed s1 s') = frame p /\
    delivered h (performed s1 s') (consumed s1 s') = hdr ++ body /\
    is_reply dec_coordinator_resp resp hdr body /\
    (reads_bounded s1 s' -> ulen hdr = 4 /\ ulen body = be_dec_s hdr).
Proof.
  intros req s resp s' H. unfold group_lookup_attempt in H. bind_inv H oh s1 H1 H2; try discriminate.
  destruct oh as [h|]; [|discriminate]. bind_inv H2 z s2 H3 H4; try discriminate.
  destruct (C15_inline_exchange_streams _ _ _ _ _ _ _ _ _ H3 H4) as (p & Hp & F & Hacc & hdr & body & Hd & Hrep & _ & _ & Hbd).
  exists h, s1, p, hdr, body. split; [exact H1|]. split; [exact (get_conn_any_no_read _ _ _ H1)|].
  split; [exact (ops_get_conn_any _ _ _ H1)|]. split; [exact F|]. split; [exact Hp|].
  split; [exact Hacc|]. split; [exact Hd|]. split; [exact Hrep|exact Hbd].
Qed.

(* failure of an attempt is the failure of its send or of its read - nothing is retried inside *)
Theorem C15_group_lookup_failure : forall req s e s',
  group_lookup_attempt req s = (Err e, s') ->
  (get_conn_any s = (Err e, s'))
  \/ exists h s1, get_conn_any s = (Ok (Some h), s1) /\
       (send_request h req s1 = (Err e, s')
        \/ exists z s2, send_request h req s1 = (Ok z, s2) /\ get_response dec_coordinator_resp h s2 = (Err e, s')).
Proof.
  intros req s e s' H. unfold group_lookup_attempt in H. bind_inv H oh s1 H1 H2; try discriminate.
  - destruct oh as [h|]; [|discriminate]. right. exists h, s1. split; [exact H1|].
    bind_inv H2 z s2 H3 H4; try discriminate.
    + right. exists z, s2. split; assumption.
    + left. inversion H4; subst. exact H3.
  - left. inversion H2; subst. exact H1.
Qed.

Definition gc_reply : bytes := enc_i32 1 ++ enc_i16 0 ++ enc_i32 1 ++ enc_i16 7 ++ tag "b1:9092" ++ enc_i32 9092.
Example C15_group_lookup_own_exchange_ex :
  let s := mkst [OWrote 5; OWrote 1000; OData (enc_i32 (ulen gc_reply)); OData (firstn 3 gc_reply);
                 OData (skipn 3 gc_reply); OData (tag "next")] cl1 in
  let req := enc_group_coordinator_req 1 [] (tag "g") in
  let '(r, s') := group_lookup_attempt req s in
  is_ok r = true /\ script s' = [OData (tag "next")] /\
  Ok (accepted h1 (performed s s') (consumed s s')) = (let* p := req in Ok (frame p)) /\
  delivered h1 (performed s s') (consumed s s') = enc_i32 (ulen gc_reply) ++ gc_reply.
Proof. vm_compute. repeat split. Qed.

(* ================================================================================== *)
(* 4. the forward direction: a stream that takes the frame and gives the reply        *)
(* ================================================================================== *)

(* `wcovers n outs`: the answers are good writes or interruptions, each given while bytes remain
   to be written, and together they accept the n bytes (the last one may claim more) *)
Fixpoint wcovers (n : Z) (outs : list ev_out) : bool :=
  match outs with
  | [] => n <=? 0
  | OWrote k :: r => (0 <? k) && (0 <? n) && wcovers (n - k) r
  | OWriteIntr :: r => (0 <? n) && wcovers n r
  | _ => false
  end.
(* the same for reads that deliver n bytes; an empty OData is end of stream and not allowed *)
Fixpoint rcovers (n : Z) (outs : list ev_out) : bool :=
  match outs with
  | [] => n <=? 0
  | OData (b0 :: bs) :: r => (0 <? n) && rcovers (n - ulen (b0 :: bs)) r
  | OReadIntr :: r => (0 <? n) && rcovers n r
  | _ => false
  end.

Lemma wcovers_done n outs : n <= 0 -> wcovers n outs = true -> outs = [].
Proof. intros Hn H. destruct outs as [|[]]; cbn [wcovers] in H; try reflexivity; try discriminate; lia. Qed.
Lemma rcovers_done n outs : n <= 0 -> rcovers n outs = true -> outs = [].
Proof.
  intros Hn H. destruct outs as [|[ | | | |[|]| | | ]]; cbn [rcovers] in H; try reflexivity; try discriminate; lia.
Qed.

Lemma io_next op s o r : script s = o :: r -> io op s = (Ok o, st_with s r (op :: trace s)).
Proof. intros E. unfold io. rewrite E. reflexivity. Qed.

Lemma write_all_forward h : forall outs b fuel s rest,
  wcovers (ulen b) outs = true -> script s = outs ++ rest -> (length outs < fuel)%nat ->
  exists s', write_all fuel h b s = (Ok tt, s') /\ script s' = rest /\ cl s' = cl s.
Proof.
  induction outs as [|o outs IH]; intros b fuel s rest Hc Hs Hf.
  - cbn [wcovers] in Hc. destruct b as [|b0 b]; [|unfold ulen in Hc; cbn [length] in Hc; lia].
    exists s. destruct fuel; cbn [write_all]; repeat split; exact Hs.
  - destruct fuel as [|f]; [cbn [length] in Hf; lia|]. cbn [length] in Hf.
    destruct b as [|b0 b]; [destruct o; cbn [wcovers] in Hc; unfold ulen in Hc; cbn [length] in Hc; try discriminate; lia|].
    set (bb := b0 :: b) in *. cbn [app] in Hs.
    assert (Hw : write_all (S f) h bb s =
                 mbind (io (EWrite h bb)) (fun o => match o with
                   | OWrote k => if k <=? 0 then fail (EIo IoWriteZero) else write_all f h (skipn (Z.to_nat k) bb)
                   | OWriteIntr => write_all f h bb
                   | OWriteFail e => fail (EIo e)
                   | _ => fail EOutOfScript end) s) by reflexivity.
    rewrite Hw. rewrite (mbind_ok _ _ _ _ _ (io_next (EWrite h bb) s o (outs ++ rest) Hs)).
    destruct o; cbn [wcovers] in Hc; try discriminate.
    + apply andb_true_iff in Hc. destruct Hc as [Hc Hr]. apply andb_true_iff in Hc. destruct Hc as [Hk Hn].
      destruct (k <=? 0) eqn:Ek; [lia|].
      assert (Hr' : wcovers (ulen (skipn (Z.to_nat k) bb)) outs = true).
      { destruct (Z_le_gt_dec (ulen bb) k) as [Hle|Hgt].
        - assert (Hz : ulen bb - k <= 0) by lia. rewrite (wcovers_done _ _ Hz Hr). cbn [wcovers]. unfold ulen in *. rewrite skipn_length. lia.
        - replace (ulen (skipn (Z.to_nat k) bb)) with (ulen bb - k); [exact Hr|].
          unfold ulen in *. rewrite skipn_length. lia. }
      destruct (IH _ f (st_with s (outs ++ rest) (EWrite h bb :: trace s)) rest Hr' eq_refl ltac:(lia)) as (s' & H1 & H2 & H3).
      exists s'. repeat split; assumption.
    + apply andb_true_iff in Hc. destruct Hc as [Hn Hr].
      destruct (IH _ f (st_with s (outs ++ rest) (EWrite h bb :: trace s)) rest Hr eq_refl ltac:(lia)) as (s' & H1 & H2 & H3).
      exists s'. repeat split; assumption.
Qed.

Lemma read_exact_forward_ok h : forall outs n acc fuel s rest,
  rcovers n outs = true -> script s = outs ++ rest -> (length outs < fuel)%nat ->
  exists s', read_exact fuel h n acc s = (Ok (acc ++ payloads outs), s') /\ script s' = rest /\ cl s' = cl s.
Proof.
  induction outs as [|o outs IH]; intros n acc fuel s rest Hc Hs Hf.
  - cbn [rcovers] in Hc. exists s. cbn [payloads flat_map]. rewrite app_nil_r.
    destruct fuel; cbn [read_exact]; rewrite Hc; repeat split; exact Hs.
  - destruct fuel as [|f]; [cbn [length] in Hf; lia|]. cbn [length] in Hf. cbn [app] in Hs.
    assert (Hn : 0 < n).
    { destruct o as [ | | | |[|]| | | ]; cbn [rcovers] in Hc; try discriminate;
        apply andb_true_iff in Hc; destruct Hc as [Hn _]; lia. }
    cbn [read_exact]. destruct (n <=? 0) eqn:En; [lia|].
    rewrite (mbind_ok _ _ _ _ _ (io_next (ERead h n) s o (outs ++ rest) Hs)).
    destruct o as [ | | | |[|b0 bs]| | | ]; cbn [rcovers] in Hc; try discriminate;
      apply andb_true_iff in Hc; destruct Hc as [_ Hr].
    + destruct (IH _ (acc ++ b0 :: bs) f (st_with s (outs ++ rest) (ERead h n :: trace s)) rest Hr eq_refl ltac:(lia))
        as (s' & H1 & H2 & H3).
      exists s'. cbn [payloads flat_map]. fold (payloads outs). rewrite app_assoc. repeat split; assumption.
    + destruct (IH _ acc f (st_with s (outs ++ rest) (ERead h n :: trace s)) rest Hr eq_refl ltac:(lia))
        as (s' & H1 & H2 & H3).
      exists s'. cbn [payloads flat_map]. fold (payloads outs). repeat split; assumption.
Qed.

(* the sender succeeds whenever the stream takes the frame, in whatever pieces and with
   whatever interruptions *)
Theorem C15_send_forward : forall h p s wouts rest,
  script s = wouts ++ rest -> wcovers (ulen (frame p)) wouts = true ->
  exists s', send_request h (Ok p) s = (Ok (ulen (frame p)), s') /\ script s' = rest /\ cl s' = cl s.
Proof.
  intros h p s wouts rest Hs Hc.
  destruct (write_all_forward h wouts (frame p) (S (length (script s))) s rest Hc Hs) as (s' & H1 & H2 & H3).
  { rewrite Hs, app_length. lia. }
  exists s'. split; [|split; assumption].
  unfold send_request, lift. unfold mbind at 1. unfold send.
  rewrite (mbind_ok _ _ s tt s'); [reflexivity|]. unfold with_fuel. exact H1.
Qed.

(* The exchange succeeds, with the value decoded from the body, whenever: the connection is
   pooled and not idle-expired (no connection event then), the stream takes the frame (wouts),
   delivers a size prefix (houts: the 4 bytes in any pieces) announcing a size >= 0 of at most one
   64 KiB allocation step, and delivers the body (bouts, any pieces), and the decoder accepts
   the body.  What follows in the script (rest) is left untouched. *)
Theorem C15_exchange_forward : forall A (d : dec A) h p s wouts houts bouts rest a tl,
  in_pool h (conns (cl s)) = true -> idle_expired (cfg (cl s)) = false ->
  script s = wouts ++ houts ++ bouts ++ rest ->
  wcovers (ulen (frame p)) wouts = true ->
  rcovers 4 houts = true ->
  0 <= be_dec_s (payloads houts) <= read_chunk ->
  rcovers (be_dec_s (payloads houts)) bouts = true ->
  d (payloads bouts) = Ok (a, tl) ->
  exists s', send_receive d h (Ok p) s = (Ok a, s') /\ script s' = rest.
Proof.
  intros A d h p s wouts houts bouts rest a tl Hpool Hidle Hs Hw Hh Hsz Hb Hd.
  destruct (C15_send_forward h p s wouts (houts ++ bouts ++ rest) Hs Hw) as (s2 & H2 & Hs2 & Hc2).
  destruct (read_exact_forward_ok h houts 4 [] (S (length (script s2))) s2 (bouts ++ rest) Hh Hs2) as (s3 & H3 & Hs3 & Hc3).
  { rewrite Hs2, app_length. lia. }
  cbn [app] in H3. set (size := be_dec_s (payloads houts)) in *.
  assert (Hbytes : exists s', read_exact_alloc h size s3 = (Ok (payloads bouts), s') /\ script s' = rest).
  { unfold read_exact_alloc, with_fuel. cbn [read_chunks]. destruct (size <=? 0) eqn:Ez.
    - assert (Hz : size <= 0) by lia. rewrite (rcovers_done _ _ Hz Hb) in *. exists s3. split; [reflexivity|exact Hs3].
    - cbv zeta. replace (Z.min size read_chunk) with size by lia.
      destruct (read_exact_forward_ok h bouts size [] (S (length (script s3))) s3 rest Hb Hs3) as (s4 & H4 & Hs4 & Hc4).
      { rewrite Hs3, app_length. lia. }
      cbn [app] in H4. exists s4. split; [|exact Hs4].
      rewrite (mbind_ok _ _ s3 (payloads bouts) s4); [|unfold with_fuel; exact H4].
      replace (size - size) with 0 by lia. destruct (length (script s3)); reflexivity. }
  destruct Hbytes as (s' & H4 & Hs').
  exists s'. split; [|exact Hs'].
  unfold send_receive.
  assert (Hg : get_conn h s = (Ok tt, s)).
  { unfold get_conn. rewrite bind_get_client, Hpool, Hidle. reflexivity. }
  rewrite (mbind_ok _ _ _ _ _ Hg). rewrite (mbind_ok _ _ _ _ _ H2).
  unfold get_response, get_response_bytes, get_response_size.
  assert (Hsize : (let+ b := with_fuel (fun f => read_exact f h 4 []) in
                   let size := be_dec_s b in if size <? 0 then fail ECodec else ret size) s2 = (Ok size, s3)).
  { rewrite (mbind_ok _ _ s2 (payloads houts) s3); [|unfold with_fuel; exact H3].
    cbv zeta. fold size. destruct (size <? 0) eqn:En; [lia|reflexivity]. }
  rewrite (mbind_ok _ _ s2 (payloads bouts) s').
  - unfold mbind, lift. rewrite Hd. reflexivity.
  - rewrite (mbind_ok _ _ _ _ _ Hsize). exact H4.
Qed.

(* the request taken in three pieces with an interruption, the prefix in two reads, the body in
   three with an interruption *)
Example C15_exchange_forward_ex :
  let wouts := [OWrote 3; OWriteIntr; OWrote 4; OWrote 1000] in
  let houts := [OData [x00; x00]; OData [x00; x11]] in
  let bouts := [OData (firstn 5 ex_reply); OReadIntr; OData (skipn 5 ex_reply)] in
  let s := mkst (wouts ++ houts ++ bouts ++ [OData (tag "next")]) cl1 in
  in_pool h1 (conns (cl s)) = true /\ idle_expired (cfg (cl s)) = false /\
  wcovers (ulen (frame (tag "REQUEST"))) wouts = true /\ rcovers 4 houts = true /\
  be_dec_s (payloads houts) = 17 /\ rcovers 17 bouts = true /\
  dec_offset_resp (payloads bouts) = Ok (7, [(tag "abc", [])], []) /\
  fst (send_receive dec_offset_resp h1 (Ok (tag "REQUEST")) s) = Ok (7, [(tag "abc", [])]).
Proof. vm_compute. repeat split. Qed.

(* Not done / not proved here:
   - C15_exchange_forward only for a body of at most one 64 KiB allocation step (a longer body is a
     sequence of read_exact runs, one per step; the statement needs the script cut per step), and
     only for a pooled, not idle-expired connection (otherwise connection events come first);
   - the stream-side statements are given for send_receive, chains of send_receive, the inline
     exchange, fetch_metadata_hosts and group_lookup_attempt; they are not composed further through
     next_corr / ordered up to fetch_offsets, produce_messages, fetch_messages (C15_offsets_chain,
     C15_produce_acked_chain give the chain, C15_chain_accepted / C15_chain_delivered apply to it;
     C15_fetch_chain's steps are inline exchanges, C15_inline_exchange_streams applies to each),
     nor through the retry loop group_lookup_loop;
   - nothing is said about the bytes a connection holds from EARLIER failed calls: a failed send
     leaves a strict prefix of a frame on a connection that stays pooled (C15_metadata_run_ex), and
     a later, "complete" exchange on it is preceded on the wire by that prefix. *)

Print Assumptions C15_send_outcomes.
Print Assumptions C15_send_bad_payload.
Print Assumptions C15_send_fault_stops.
Print Assumptions C15_send_write_error_is_result.
Print Assumptions C15_exchange_streams.
Print Assumptions C15_chain_accepted.
Print Assumptions C15_chain_delivered.
Print Assumptions C15_inline_exchange_streams.
Print Assumptions C15_metadata_run.
Print Assumptions C15_metadata_ok_own_exchange.
Print Assumptions C15_group_lookup_own_exchange.
Print Assumptions C15_group_lookup_failure.
Print Assumptions C15_send_forward.
Print Assumptions C15_exchange_forward.
