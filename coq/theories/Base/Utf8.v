(* UTF-8 validity exactly as Rust's core::str::from_utf8 decides it
   (Unicode Table 3-7: no overlongs, no surrogates, nothing above U+10FFFF). *)
From KV Require Import Base.Prelude.

Definition inr (lo hi x : Z) : bool := (lo <=? x) && (x <=? hi).

Fixpoint utf8_go (fuel : nat) (bs : bytes) : bool :=
  match fuel with
  | O => match bs with [] => true | _ => false end
  | S f =>
    match bs with
    | [] => true
    | b0 :: r =>
      let x := Zb b0 in
      if x <? 128 then utf8_go f r
      else if inr 194 223 x then
        match r with b1 :: r' => inr 128 191 (Zb b1) && utf8_go f r' | _ => false end
      else if inr 224 239 x then
        match r with
        | b1 :: b2 :: r' =>
            (if x =? 224 then inr 160 191 (Zb b1)
             else if x =? 237 then inr 128 159 (Zb b1)
             else inr 128 191 (Zb b1))
            && inr 128 191 (Zb b2) && utf8_go f r'
        | _ => false end
      else if inr 240 244 x then
        match r with
        | b1 :: b2 :: b3 :: r' =>
            (if x =? 240 then inr 144 191 (Zb b1)
             else if x =? 244 then inr 128 143 (Zb b1)
             else inr 128 191 (Zb b1))
            && inr 128 191 (Zb b2) && inr 128 191 (Zb b3) && utf8_go f r'
        | _ => false end
      else false
    end
  end.

Definition utf8_valid (bs : bytes) : bool := utf8_go (length bs) bs.

Example utf8_ok1 : utf8_valid [x68; xc3; xa9; xe2; x82; xac; xf0; x9f; x98; x80] = true. Proof. reflexivity. Qed.
Example utf8_bad1 : utf8_valid [xc0; x80] = false. Proof. reflexivity. Qed.
Example utf8_bad2 : utf8_valid [xed; xa0; x80] = false. Proof. reflexivity. Qed.
Example utf8_bad3 : utf8_valid [xf4; x90; x80; x80] = false. Proof. reflexivity. Qed.
Example utf8_bad4 : utf8_valid [xe2; x82] = false. Proof. reflexivity. Qed.
