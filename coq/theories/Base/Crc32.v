(* CRC-32 (ISO-HDLC, the zlib / Kafka MessageSet CRC): bitwise reflected
   reference definition.  Polynomial 0x04C11DB7 reflected = 0xEDB88320,
   init 0xFFFFFFFF, final xor 0xFFFFFFFF, bits of each byte least significant
   first.  Definitions and the few basic facts only; the theorems are in
   Proofs/Crc32Facts.v. *)
From KV Require Import Base.Prelude.

Definition poly : N := 0xEDB88320%N.

(* zero-input step of the reflected shift register *)
Definition T (c : N) : N :=
  N.lxor (N.shiftr c 1) (if N.testbit c 0 then poly else 0%N).

Definition step_bit (c : N) (b : bool) : N := T (N.lxor c (N.b2n b)).

(* 8 bits, least significant first *)
Definition bits_of_byte (b : byte) : list bool :=
  map (N.testbit (Byte.to_N b)) [0; 1; 2; 3; 4; 5; 6; 7]%N.

Definition bits_of_bytes (bs : bytes) : list bool := flat_map bits_of_byte bs.

Definition crc_update (c : N) (bs : bytes) : N :=
  fold_left step_bit (bits_of_bytes bs) c.

Definition crc32 (bs : bytes) : Z :=
  Z.of_N (N.lxor (crc_update 0xFFFFFFFF%N bs) 0xFFFFFFFF%N).

(* the standard check value: CRC-32 of the ASCII string "123456789" *)
Example crc32_check :
  crc32 [x31; x32; x33; x34; x35; x36; x37; x38; x39] = 0xCBF43926.
Proof. vm_compute. reflexivity. Qed.

(* ---- byte-wise xor (error patterns) ----------------------------------- *)

Definition xor_byte (x y : byte) : byte := bZ (Z.lxor (Zb x) (Zb y)).

(* pointwise, truncating to the shorter argument *)
Fixpoint xor_bytes (a b : bytes) : bytes :=
  match a, b with
  | x :: a', y :: b' => xor_byte x y :: xor_bytes a' b'
  | _, _ => []
  end.

(* ---- range ------------------------------------------------------------ *)

Lemma N_lxor_lt_pow2 (a b n : N) :
  (a < 2 ^ n -> b < 2 ^ n -> N.lxor a b < 2 ^ n)%N.
Proof.
  intros Ha Hb.
  destruct (N.eq_dec a 0) as [->|Ha0]; [now rewrite N.lxor_0_l|].
  destruct (N.eq_dec b 0) as [->|Hb0]; [now rewrite N.lxor_0_r|].
  destruct (N.eq_dec (N.lxor a b) 0) as [->|Hx0]; [lia|].
  apply N.log2_lt_pow2; [lia|].
  apply N.log2_lt_pow2 in Ha; [|lia].
  apply N.log2_lt_pow2 in Hb; [|lia].
  pose proof (N.log2_lxor a b). lia.
Qed.

Lemma T_bounded (c : N) : (c < 2 ^ 32 -> T c < 2 ^ 32)%N.
Proof.
  intros H. unfold T. apply N_lxor_lt_pow2.
  - rewrite N.shiftr_div_pow2. eapply N.le_lt_trans; [|exact H].
    apply N.div_le_upper_bound; [discriminate|]. change (2 ^ 1)%N with 2%N. lia.
  - destruct (N.testbit c 0); reflexivity.
Qed.

Lemma step_bit_bounded (c : N) (b : bool) :
  (c < 2 ^ 32 -> step_bit c b < 2 ^ 32)%N.
Proof.
  intros H. unfold step_bit. apply T_bounded, N_lxor_lt_pow2; [exact H|].
  destruct b; reflexivity.
Qed.

Lemma crc_bits_bounded (w : list bool) :
  forall c, (c < 2 ^ 32 -> fold_left step_bit w c < 2 ^ 32)%N.
Proof.
  induction w as [|b w IH]; intros c H; cbn [fold_left]; [exact H|].
  apply IH, step_bit_bounded, H.
Qed.

Lemma crc_update_bounded (c : N) (bs : bytes) :
  (c < 2 ^ 32 -> crc_update c bs < 2 ^ 32)%N.
Proof. apply crc_bits_bounded. Qed.

Lemma crc32_range (bs : bytes) : 0 <= crc32 bs < 2 ^ 32.
Proof.
  unfold crc32. split; [apply N2Z.is_nonneg|].
  change (2 ^ 32) with (Z.of_N (2 ^ 32)%N). apply N2Z.inj_lt.
  apply N_lxor_lt_pow2; [|reflexivity].
  apply crc_update_bounded. reflexivity.
Qed.
