(* Base conventions of the kafka-rust model: bytes, fixed-width integers,
   outcomes (Ok / Err / Panic), slice readers.  Definitions only, plus the few
   arithmetic facts everything else needs. *)
From Coq Require Export List ZArith NArith Lia Bool.
From Coq Require Export Init.Byte Strings.Byte.
From Coq Require Strings.String.
Export Coq.Strings.String.StringSyntax.
Export ListNotations.
Open Scope Z_scope.

Definition bytes := list byte.

Definition Zb (b : byte) : Z := Z.of_N (Byte.to_N b).
Definition bZ (z : Z) : byte :=
  match Byte.of_N (Z.to_N (z mod 256)) with Some b => b | None => x00 end.

Definition tag (s : String.string) : bytes := String.list_byte_of_string s.
Arguments tag s%string_scope.

(* ---- fixed width integers ------------------------------------------- *)

(* two's complement wrap of z into [-2^(bits-1), 2^(bits-1)) *)
Definition wrap_s (bits : Z) (z : Z) : Z :=
  let m := z mod 2 ^ bits in if m <? 2 ^ (bits - 1) then m else m - 2 ^ bits.
Definition wrap_u (bits : Z) (z : Z) : Z := z mod 2 ^ bits.

Definition in_i8 z := -128 <= z <= 127.
Definition in_i16 z := -32768 <= z <= 32767.
Definition in_i32 z := -2147483648 <= z <= 2147483647.
Definition in_i64 z := -9223372036854775808 <= z <= 9223372036854775807.
Definition i16_max := 32767.
Definition i32_max := 2147483647.
Definition i32_min := -2147483648.
Definition i64_max := 9223372036854775807.
Definition i64_min := -9223372036854775808.

(* big-endian, n bytes, of z mod 2^(8n) *)
Fixpoint be_enc (n : nat) (z : Z) : bytes :=
  match n with
  | O => []
  | S k => bZ (z / 2 ^ (8 * Z.of_nat k)) :: be_enc k z
  end.

Fixpoint be_dec_acc (bs : bytes) (acc : Z) : Z :=
  match bs with [] => acc | b :: r => be_dec_acc r (acc * 256 + Zb b) end.
Definition be_dec_u (bs : bytes) : Z := be_dec_acc bs 0.
Definition be_dec_s (bs : bytes) : Z := wrap_s (8 * Z.of_nat (length bs)) (be_dec_u bs).

Definition enc_i8 z := be_enc 1 z.
Definition enc_i16 z := be_enc 2 z.
Definition enc_i32 z := be_enc 4 z.
Definition enc_i64 z := be_enc 8 z.

(* ---- outcomes -------------------------------------------------------- *)

Inductive ioerr :=
| IoUnexpectedEof      (* read_exact hit end of stream *)
| IoWriteZero
| IoTimedOut
| IoConnRefused
| IoOther.

(* kafka::Error, canonical; the KafkaCode is carried by its discriminant *)
Inductive err :=
| EIo (k : ioerr)
| EInvalidSnappy
| EKafka (code : Z)
| ETopicPartition (topic : bytes) (partition : Z) (code : Z)
| EUnsupportedProtocol
| EUnsupportedCompression
| EUnexpectedEOF
| ECodec
| EStringDecode
| ENoHostReachable
| ENoTopicsAssigned
| EInvalidDuration
| EUnsetOffsetStorage
| EUnsetGroupId
| EOutOfScript          (* model only: the I/O script of the case is exhausted *)
| EOutOfFuel.           (* model only: recursion fuel exhausted *)

Inductive res (A : Type) :=
| Ok (a : A)
| Err (e : err)
| Panic (what : bytes).
Arguments Ok {A} a.
Arguments Err {A} e.
Arguments Panic {A} what.

Definition bind {A B} (r : res A) (f : A -> res B) : res B :=
  match r with Ok a => f a | Err e => Err e | Panic w => Panic w end.
Notation "'let*' x ':=' r 'in' k" := (bind r (fun x => k))
  (at level 200, x name, r at level 100, k at level 200, right associativity).
Notation "'let*' ' p ':=' r 'in' k" := (bind r (fun x => match x with p => k end))
  (at level 200, p strict pattern, r at level 100, k at level 200, right associativity).

Definition is_ok {A} (r : res A) : bool := match r with Ok _ => true | _ => false end.
Definition is_panic {A} (r : res A) : bool := match r with Panic _ => true | _ => false end.

(* ---- list helpers ------------------------------------------------------ *)

Definition take (n : nat) (bs : bytes) := firstn n bs.
Definition drop (n : nat) (bs : bytes) := skipn n bs.

Fixpoint bytes_eqb (a b : bytes) : bool :=
  match a, b with
  | [], [] => true
  | x :: a', y :: b' => Byte.eqb x y && bytes_eqb a' b'
  | _, _ => false
  end.

(* Rust `str`/`[u8]` ordering: lexicographic on unsigned bytes *)
Fixpoint bytes_cmp (a b : bytes) : comparison :=
  match a, b with
  | [], [] => Eq
  | [], _ => Lt
  | _, [] => Gt
  | x :: a', y :: b' =>
      match Z.compare (Zb x) (Zb y) with Eq => bytes_cmp a' b' | c => c end
  end.
Definition bytes_ltb a b := match bytes_cmp a b with Lt => true | _ => false end.
Definition bytes_leb a b := match bytes_cmp a b with Gt => false | _ => true end.

(* ---- slice reader (ZReader) ------------------------------------------- *)
(* ZReader::read: all or nothing; on failure the reader does not advance *)
Definition zread (n : nat) (bs : bytes) : res (bytes * bytes) :=
  if Nat.ltb (length (firstn n bs)) n then Err EUnexpectedEOF else Ok (firstn n bs, skipn n bs).

Definition zread_i8 bs := let* '(x, r) := zread 1 bs in Ok (be_dec_s x, r).
Definition zread_i16 bs := let* '(x, r) := zread 2 bs in Ok (be_dec_s x, r).
Definition zread_i32 bs := let* '(x, r) := zread 4 bs in Ok (be_dec_s x, r).
Definition zread_i64 bs := let* '(x, r) := zread 8 bs in Ok (be_dec_s x, r).

(* [has_at_least l k]: k <= length l, without computing the whole length *)
Fixpoint has_at_least {A} (l : list A) (k : Z) : bool :=
  if k <=? 0 then true
  else match l with [] => false | _ :: t => has_at_least t (k - 1) end.

(* ZReader::read_bytes: len <= 0 -> empty slice *)
Definition zread_bytes bs : res (bytes * bytes) :=
  let* '(len, r) := zread_i32 bs in
  if len <=? 0 then Ok ([], r)
  else if negb (has_at_least r len) then Err EUnexpectedEOF   (* compare before converting: len may be 2^31-1 *)
  else zread (Z.to_nat len) r.

Definition zread_array_len bs : res (Z * bytes) :=
  let* '(len, r) := zread_i32 bs in
  Ok (if len <? 0 then 0 else len, r).
