(* Executable model of the snappy decompression path of kafka-rust:

     src/compression/snappy.rs   uncompress_to, validate_stream,
                                 SnappyReader::new, SnappyReader::_read_to_end
     snap 1.1.2                  raw::decompress_len, raw::Decoder::decompress

   as used by the fetch decoder:
     SnappyReader::new(value)?.read_to_end(&mut v)?

   Only Ok / Err / Panic behaviour and the produced bytes are modelled, not the
   kind of snap::Error.  Lengths announced by the input (varint header, literal
   length, copy offset, chunk size) live in Z and are only ever compared with
   lengths of lists that really exist; nothing of announced size is built.
   A 64 bit usize is assumed (off + min_len never wraps).

   Facts and examples: theories/Proofs/SnappyFacts.v *)
From KV Require Import Base.Prelude.
Import Coq.Strings.String.StringSyntax.   (* string literals only; no `length` shadowing *)
Local Delimit Scope string_scope with str.

(* ====================================================================== *)
(* raw snappy                                                             *)
(* ====================================================================== *)

Definition u32_max : Z := 4294967295.

(* bytes::read_varu64 as far as Header::read lets it through: the terminating
   byte (< 0x80) must be among the first 5 bytes.  With at most 5 bytes the
   shifts are <= 28, so checked_shl never fails and no bit is lost; `|` on
   disjoint bit ranges is `+`.  No terminator at all, or one at index >= 5
   (header_len > 5, or (0,0) from checked_shl): Error::Header. *)
Fixpoint varint_go (fuel : nat) (shift acc : Z) (src : bytes) : option (Z * bytes) :=
  match fuel, src with
  | S f, b :: r =>
      let v := Zb b in
      if v <? 128 then Some (acc + v * 2 ^ shift, r)
      else varint_go f (shift + 7) (acc + (v - 128) * 2 ^ shift) r
  | _, _ => None
  end.

(* Header::read: (decompress_len, input after the header) *)
Definition snappy_header (src : bytes) : option (Z * bytes) :=
  match varint_go 5 0 0 src with
  | Some (v, r) => if v >? u32_max then None (* Error::TooBig *) else Some (v, r)
  | None => None
  end.

(* snap::raw::decompress_len, the announced length kept in Z (0 .. 2^32-1) *)
Definition snappy_decompress_len_Z (src : bytes) : option Z :=
  match src with
  | [] => Some 0
  | _ => match snappy_header src with Some (v, _) => Some v | None => None end
  end.

(* The same as a nat.  CAUTION: do not evaluate this on inputs whose header
   announces a huge length (a unary nat of that size would be built); every
   other definition of this file goes through snappy_decompress_len_Z. *)
Definition snappy_decompress_len (src : bytes) : option nat :=
  option_map Z.to_nat (snappy_decompress_len_Z src).

(* little endian value of a few bytes *)
Fixpoint le_dec (bs : bytes) : Z :=
  match bs with [] => 0 | b :: r => Zb b + 256 * le_dec r end.

(* exactly n bytes off the front, None if there are fewer (n is 1..4 here) *)
Fixpoint split_exact (n : nat) (l : bytes) : option (bytes * bytes) :=
  match n with
  | O => Some ([], l)
  | S k => match l with
           | [] => None
           | b :: r => match split_exact k r with
                       | Some (a, r') => Some (b :: a, r')
                       | None => None
                       end
           end
  end.

(* move exactly n bytes (n : Z, possibly absurdly large) from the front of l,
   reversed, onto acc; None if l is shorter than n.  Cost: min(n, |l|). *)
Fixpoint take_rev (l : bytes) (n : Z) (acc : bytes) : option (bytes * bytes) :=
  if n <=? 0 then Some (acc, l)
  else match l with
       | [] => None
       | b :: r => take_rev r (n - 1) (b :: acc)
       end.

(* The output written so far is kept REVERSED (`rout`, newest byte first), so
   the byte `off` positions back from the write position is nth (off-1) rout. *)

(* copy of n bytes from `off` back, one byte at a time (the defining, "slow"
   loop of read_copy; handles overlapping copies, off < n) *)
Fixpoint copy_slow (n off : nat) (rout : bytes) : bytes :=
  match n with
  | O => rout
  | S k => copy_slow k off (nth (off - 1) rout x00 :: rout)
  end.

(* same result (Lemma copy_back_slow), but one pass when source and target do
   not overlap *)
Definition copy_back (n off : nat) (rout : bytes) : bytes :=
  if Nat.leb n off then firstn n (skipn (off - n) rout) ++ rout
  else copy_slow n off rout.

(* literal tag: (length of the literal, input after the length bytes).
   Tag values 60..63 (len 61..64) carry 1..4 little endian bytes of len-1. *)
Definition lit_len (tz : Z) (r : bytes) : option (Z * bytes) :=
  let l0 := tz / 4 + 1 in
  if l0 <=? 60 then Some (l0, r)
  else match split_exact (Z.to_nat (l0 - 60)) r with
       | Some (lb, r') => Some (le_dec lb + 1, r')
       | None => None (* Error::Literal: length bytes run past the input *)
       end.

(* copy tag: (number of trailing offset bytes, copy length, high offset bits);
   build.rs tag_entry *)
Definition copy_params (tz : Z) : nat * Z * Z :=
  let k := tz mod 4 in
  if k =? 1 then (1%nat, 4 + (tz / 4) mod 8, (tz / 32) * 256)
  else if k =? 2 then (2%nat, 1 + tz / 4, 0)
  else (4%nat, 1 + tz / 4, 0).

(* one element (tag byte t already taken off, r = input after it).
   dlen = announced output length = dst.len(); d = bytes written so far.
   Result: (remaining input, new reversed output, new d).
   Errors, exactly as Decompress::read_literal / read_copy / TagEntry::offset:
     - literal: length bytes or literal bytes run past the input; literal runs
       past dlen
     - copy: offset bytes run past the input; offset = 0; offset > d; copy runs
       past dlen
   (the 16-byte fast paths of the real code are only taken when nothing can
   fail and write the same first `len` bytes) *)
Definition decode_step (dlen : Z) (t : byte) (r rout : bytes) (d : Z)
  : option (bytes * bytes * Z) :=
  let tz := Zb t in
  if tz mod 4 =? 0 then
    match lit_len tz r with
    | None => None
    | Some (len, r1) =>
        if dlen - d <? len then None
        else match take_rev r1 len rout with
             | None => None
             | Some (rout', r2) => Some (r2, rout', d + len)
             end
    end
  else
    let '(ntb, len, hi) := copy_params tz in
    match split_exact ntb r with
    | None => None
    | Some (tb, r1) =>
        let off := hi + le_dec tb in
        if (off =? 0) || (d <? off) || (dlen - d <? len) then None
        else Some (r1, copy_back (Z.to_nat len) (Z.to_nat off) rout, d + len)
    end.

(* Decompress::decompress: elements until the input is used up, then
   d = dst.len() is required (Error::HeaderMismatch otherwise).
   fuel: every step consumes at least the tag byte; |src| is enough. *)
Fixpoint decode_tags (fuel : nat) (dlen : Z) (src rout : bytes) (d : Z) : option bytes :=
  match src with
  | [] => if d =? dlen then Some (rev rout) else None
  | t :: r =>
      match fuel with
      | O => None
      | S f => match decode_step dlen t r rout d with
               | None => None
               | Some (r', rout', d') => decode_tags f dlen r' rout' d'
               end
      end
  end.

(* snap::raw::Decoder::decompress(src, buf) with buf.len() = decompress_len(src).
   Empty input is Error::Empty. *)
Definition snappy_raw_decompress (src : bytes) : option bytes :=
  match src with
  | [] => None
  | _ => match snappy_header src with
         | None => None
         | Some (dlen, body) => decode_tags (length body) dlen body [] 0
         end
  end.

(* ====================================================================== *)
(* kafka-rust: uncompress_to                                              *)
(* ====================================================================== *)

(* Appends to dst.  NB: when the header announces 0 the rest of src is not
   looked at at all (and an empty src is fine, too). *)
Definition uncompress_to (src dst : bytes) : option bytes :=
  match snappy_decompress_len_Z src with
  | None => None
  | Some n =>
      if n >? 0 then
        match snappy_raw_decompress src with
        | Some o => Some (dst ++ o)
        | None => None
        end
      else Some dst
  end.

(* new length requested by `dst.resize(off + min_len, 0)`; 0 when resize is not
   reached.  The request is made before the tags are looked at. *)
Definition uncompress_alloc (src dst : bytes) : Z :=
  match snappy_decompress_len_Z src with
  | Some n => if n >? 0 then Z.of_nat (length dst) + n else 0
  | None => 0
  end.

(* ====================================================================== *)
(* xerial framing: SnappyReader                                           *)
(* ====================================================================== *)

Definition xerial_magic : bytes := [x82; x53; x4e; x41; x50; x50; x59; x00].

(* SnappyReader::new = validate_stream.  Its errors reach the fetch decoder
   directly (`SnappyReader::new(value)?`), they do NOT pass to_io_error!. *)
Definition validate_stream (s : bytes) : res bytes :=
  if Nat.ltb (length s) 8 then Err EUnexpectedEOF
  else if negb (bytes_eqb (firstn 8 s) xerial_magic) then Err EInvalidSnappy
  else
    let* '(version, s1) := zread_i32 (skipn 8 s) in
    if negb (version =? 1) then Err EInvalidSnappy
    else
      let* '(compat, s2) := zread_i32 s1 in
      if negb (compat =? 1) then Err EInvalidSnappy
      else Ok s2.

(* every error of _read_to_end is wrapped by to_io_error! into
   io::ErrorKind::Other and becomes Error::Io in the caller *)
Definition io_other {A} : res A := Err (EIo IoOther).

Definition split_at_panic : bytes := tag "snappy split_at"%str.

(* _read_to_end on a fresh reader (uncompressed_chunk empty) and with
   buf = out.  Also tracks the largest `dst.resize` request seen.
   fuel: every round consumes at least 5 bytes; |data| is enough
   (Lemma xerial_loop_no_fuel). *)
Fixpoint xerial_loop (fuel : nat) (data out : bytes) (mx : Z) : res bytes * Z :=
  match data with
  | [] => (Ok out, mx)
  | _ :: _ =>
      match fuel with
      | O => (Err EOutOfFuel, mx)
      | S f =>
          match zread_i32 data with
          | Ok (cs, r) =>
              if cs <=? 0 then (io_other, mx)          (* UnsupportedChunkLength *)
              else if Z.of_nat (length r) <? cs
              then (io_other, mx)                      (* chunk beyond the data: UnexpectedEOF (was a split_at panic) *)
              else
                let n := Z.to_nat cs in
                let c1 := firstn n r in
                let mx' := Z.max mx (uncompress_alloc c1 out) in
                match uncompress_to c1 out with
                | Some out' => xerial_loop f (skipn n r) out' mx'
                | None => (io_other, mx')
                end
          | _ => (io_other, mx)                        (* next_i32!: UnexpectedEOF *)
          end
      end
  end.

Definition xerial_run (stream : bytes) : res bytes * Z :=
  match validate_stream stream with
  | Ok data => xerial_loop (length data) data [] 0
  | Err e => (Err e, 0)
  | Panic w => (Panic w, 0)
  end.

(* SnappyReader::new(stream)?.read_to_end(&mut v)?  with v = Vec::new() *)
Definition xerial_read_to_end (stream : bytes) : res bytes := fst (xerial_run stream).

(* largest single allocation request of the path, in bytes *)
Definition xerial_max_alloc (stream : bytes) : Z := snd (xerial_run stream).

(* ====================================================================== *)
(* encoders (for tests and examples only; kafka-rust's compress is not     *)
(* modelled)                                                              *)
(* ====================================================================== *)

(* write_varu64; fuel 5 covers 0 .. 2^35-1 *)
Fixpoint varint_enc (fuel : nat) (n : Z) : bytes :=
  match fuel with
  | O => []
  | S f => if n <? 128 then [bZ n] else bZ (n mod 128 + 128) :: varint_enc f (n / 128)
  end.

(* literal elements of at most 60 bytes each (one tag byte per element) *)
Fixpoint lit_chunks (fuel : nat) (src : bytes) : bytes :=
  match fuel with
  | O => []
  | S f =>
      match src with
      | [] => []
      | _ :: _ =>
          let c := firstn 60 src in
          bZ ((Z.of_nat (length c) - 1) * 4) :: c ++ lit_chunks f (skipn 60 src)
      end
  end.

Definition snappy_lit_compress (src : bytes) : bytes :=
  varint_enc 5 (Z.of_nat (length src)) ++ lit_chunks (length src) src.

Definition xerial_header : bytes := xerial_magic ++ enc_i32 1 ++ enc_i32 1.

Definition xerial_frame (chunks : list bytes) : bytes :=
  xerial_header ++ flat_map (fun c => enc_i32 (Z.of_nat (length c)) ++ c) chunks.
