(* XXH32 as defined by the xxHash specification (all arithmetic modulo 2^32). *)
From KV Require Import Base.Prelude.

Definition m32 (z : Z) : Z := z mod 4294967296.
Definition P1 : Z := 2654435761.
Definition P2 : Z := 2246822519.
Definition P3 : Z := 3266489917.
Definition P4 : Z := 668265263.
Definition P5 : Z := 374761393.

Definition rotl (x r : Z) : Z := m32 (Z.lor (Z.shiftl x r) (Z.shiftr x (32 - r))).

Definition le32 (b0 b1 b2 b3 : byte) : Z :=
  Zb b0 + 256 * Zb b1 + 65536 * Zb b2 + 16777216 * Zb b3.

Definition round (acc input : Z) : Z := m32 (rotl (m32 (acc + input * P2)) 13 * P1).

(* 16-byte stripes *)
Fixpoint stripes (fuel : nat) (bs : bytes) (v : Z * Z * Z * Z) : (Z * Z * Z * Z) * bytes :=
  match fuel with
  | O => (v, bs)
  | S f =>
    match bs with
    | a0 :: a1 :: a2 :: a3 :: b0 :: b1 :: b2 :: b3 :: c0 :: c1 :: c2 :: c3 :: d0 :: d1 :: d2 :: d3 :: r =>
        let '(v1, v2, v3, v4) := v in
        stripes f r (round v1 (le32 a0 a1 a2 a3), round v2 (le32 b0 b1 b2 b3),
                     round v3 (le32 c0 c1 c2 c3), round v4 (le32 d0 d1 d2 d3))
    | _ => (v, bs)
    end
  end.

Fixpoint tail4 (fuel : nat) (bs : bytes) (h : Z) : Z * bytes :=
  match fuel with
  | O => (h, bs)
  | S f =>
    match bs with
    | b0 :: b1 :: b2 :: b3 :: r => tail4 f r (m32 (rotl (m32 (h + le32 b0 b1 b2 b3 * P3)) 17 * P4))
    | _ => (h, bs)
    end
  end.

Fixpoint tail1 (bs : bytes) (h : Z) : Z :=
  match bs with
  | [] => h
  | b :: r => tail1 r (m32 (rotl (m32 (h + Zb b * P5)) 11 * P1))
  end.

Definition avalanche (h : Z) : Z :=
  let h := Z.lxor h (Z.shiftr h 15) in
  let h := m32 (h * P2) in
  let h := Z.lxor h (Z.shiftr h 13) in
  let h := m32 (h * P3) in
  Z.lxor h (Z.shiftr h 16).

Definition xxh32 (seed : Z) (bs : bytes) : Z :=
  let n := length bs in
  let '(h, rest) :=
      if Nat.leb 16 n then
        let '((v1, v2, v3, v4), rest) :=
            stripes n bs (m32 (seed + P1 + P2), m32 (seed + P2), m32 seed, m32 (seed - P1)) in
        (m32 (rotl v1 1 + rotl v2 7 + rotl v3 12 + rotl v4 18), rest)
      else (m32 (seed + P5), bs) in
  let h := m32 (h + Z.of_nat n) in
  let '(h, rest) := tail4 n rest h in
  avalanche (tail1 rest h).

(* published test vectors *)
Example xxh32_empty : xxh32 0 [] = 0x02CC5D05. Proof. vm_compute. reflexivity. Qed.
Example xxh32_a : xxh32 0 (tag "a") = 0x550D7456. Proof. vm_compute. reflexivity. Qed.
Example xxh32_abc : xxh32 0 (tag "abc") = 0x32D153FF. Proof. vm_compute. reflexivity. Qed.
Example xxh32_spam : xxh32 0 (tag "Nobody inspects the spammish repetition") = 0xE2293B2F.
Proof. vm_compute. reflexivity. Qed.
