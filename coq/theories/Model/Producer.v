(* Model of src/producer.rs: DefaultPartitioner, State::new, Builder, send_all, send. *)
From KV Require Import Base.Prelude Base.Xxh32 Gen.Consts Model.Codecs Model.Requests Model.Responses
                       Model.ClientState Model.Net Model.Client.

Record record := { r_topic : bytes; r_partition : Z; r_key : bytes; r_value : bytes }.

(* producer::Partitions: available ids and the total partition count, captured at creation *)
Record pparts := { available_ids : list Z; num_all : Z }.

Record producer := {
  p_client : client;
  p_parts : list (bytes * pparts);
  p_cntr : Z;                       (* DefaultPartitioner::cntr, u32 *)
  p_ack_timeout : Z;
  p_acks : Z;
}.

Definition producer_with_client (p : producer) (c : client) : producer :=
  {| p_client := c; p_parts := p_parts p; p_cntr := p_cntr p; p_ack_timeout := p_ack_timeout p;
     p_acks := p_acks p |}.
Definition producer_set_cntr (p : producer) (n : Z) : producer :=
  {| p_client := p_client p; p_parts := p_parts p; p_cntr := n; p_ack_timeout := p_ack_timeout p;
     p_acks := p_acks p |}.

(* to_option: empty means absent *)
Definition to_option (b : bytes) : option bytes := match b with [] => None | _ => Some b end.

(* DefaultPartitioner::partition: returns the partition and the new counter *)
Definition partition (parts : list (bytes * pparts)) (cntr : Z) (topic : bytes) (p : Z) (key : option bytes)
  : Z * Z :=
  if 0 <=? p then (p, cntr)
  else match assoc_bytes topic parts with
       | None => (p, cntr)
       | Some ps =>
           match key with
           | Some k =>
               if num_all ps =? 0 then (p, cntr)
               else (wrap_s 32 (xxh32 0 k mod num_all ps), cntr)
           | None =>
               match available_ids ps with
               | [] => (p, cntr)
               | (a :: _) as av =>
                   (nth (Z.to_nat (cntr mod ulen av)) av a, (cntr + 1) mod 4294967296)
               end
           end
       end.

(* State::new: from client.topics() *)
Definition producer_state (s : cstate) : list (bytes * pparts) :=
  map (fun '(t, ps) => (t, {| available_ids := map fst (leaders_from s ps 0); num_all := ulen ps |}))
      (topic_partitions s).

(* send_all: records are turned into messages lazily, while the client groups them by
   broker; the first unknown destination aborts (the counter keeps what it counted so far) *)
Fixpoint send_all_reqs (s : cstate) (parts : list (bytes * pparts)) (cntr : Z) (recs : list record)
         (reqs : list (bytes * produce_tps)) : option (list (bytes * produce_tps)) * Z :=
  match recs with
  | [] => (Some reqs, cntr)
  | r :: rest =>
      let key := to_option (r_key r) in
      let '(p, cntr') := partition parts cntr (r_topic r) (r_partition r) key in
      match find_broker s (r_topic r) p with
      | None => (None, cntr')
      | Some host => send_all_reqs s parts cntr' rest
                                   (phost_add reqs host (r_topic r) p (key, to_option (r_value r)))
      end
  end.

Definition producer_send_all (p : producer) (recs : list record) : M (list confirm * producer) :=
  let+ corr := next_corr in
  let+ c := get_client in
  let '(oreqs, cntr') := send_all_reqs (cs c) (p_parts p) (p_cntr p) recs [] in
  let p' := producer_set_cntr p cntr' in
  (* the counter is part of the producer, which survives a failed call *)
  match oreqs with
  | None => fun s => (Err (EKafka KC_UnknownTopicOrPartition), s)
  | Some reqs =>
      let+ reqs' := ordered reqs in
      let+ cf := produce_exchange corr (p_acks p) (p_ack_timeout p) reqs' [] in
      ret (cf, p')
  end.

(* the counter after a send_all that failed locally or during I/O *)
Definition cntr_after (p : producer) (c : client) (recs : list record) : Z :=
  snd (send_all_reqs (cs c) (p_parts p) (p_cntr p) recs []).

Definition producer_send (p : producer) (r : record) : M producer :=
  let+ '(cf, p') := producer_send_all p [r] in
  if p_acks p =? 0 then ret p'
  else match cf with
       | [(_, pcs)] =>
           match pcs with
           | [(_, inl _)] => ret p'
           | [(_, inr code)] => fail (EKafka code)
           | _ => mpanic (tag "assertion failed: partition_confirms.len() == 1")
           end
       | _ => mpanic (tag "assertion failed: rs.len() == 1")
       end.

(* ---- Builder ------------------------------------------------------------------------ *)
Inductive pbuilder_call :=
| PWithCompression (c : Z)
| PWithAckTimeout (d : Z * Z)
| PWithIdle (d : Z * Z)
| PWithAcks (a : Z)
| PWithClientId (id : bytes)
| PWithPartitioner.

Record pbuilder := {
  pb_compression : Z;
  pb_ack_timeout : Z * Z;
  pb_idle : Z * Z;
  pb_acks : Z;
  pb_client_id : option bytes;
}.

Definition millis_dur (m : Z) : Z * Z := (m / 1000, (m mod 1000) * 1000000).

Definition pbuilder_new (src : list bytes + client) : pbuilder :=
  {| pb_compression := match src with inr c => compression (cfg c) | inl _ => DEFAULT_COMPRESSION end;
     pb_ack_timeout := millis_dur DEFAULT_ACK_TIMEOUT_MILLIS;
     pb_idle := match src with
                | inr c => idle_timeout (cfg c)
                | inl _ => millis_dur DEFAULT_CONNECTION_IDLE_TIMEOUT_MILLIS end;
     pb_acks := DEFAULT_REQUIRED_ACKS;
     pb_client_id := None |}.

Definition pbuilder_apply (b : pbuilder) (c : pbuilder_call) : pbuilder :=
  match c with
  | PWithCompression x => {| pb_compression := x; pb_ack_timeout := pb_ack_timeout b; pb_idle := pb_idle b;
                             pb_acks := pb_acks b; pb_client_id := pb_client_id b |}
  | PWithAckTimeout d => {| pb_compression := pb_compression b; pb_ack_timeout := d; pb_idle := pb_idle b;
                            pb_acks := pb_acks b; pb_client_id := pb_client_id b |}
  | PWithIdle d => {| pb_compression := pb_compression b; pb_ack_timeout := pb_ack_timeout b; pb_idle := d;
                      pb_acks := pb_acks b; pb_client_id := pb_client_id b |}
  | PWithAcks a => {| pb_compression := pb_compression b; pb_ack_timeout := pb_ack_timeout b; pb_idle := pb_idle b;
                      pb_acks := a; pb_client_id := pb_client_id b |}
  | PWithClientId id => {| pb_compression := pb_compression b; pb_ack_timeout := pb_ack_timeout b;
                           pb_idle := pb_idle b; pb_acks := pb_acks b; pb_client_id := Some id |}
  | PWithPartitioner => b     (* with_partitioner carries every other option over *)
  end.

Definition cfg_set_producer (g : config) (b : pbuilder) : config :=
  {| client_id := match pb_client_id b with Some id => id | None => client_id g end;
     hosts := hosts g; compression := pb_compression b;
     fetch_max_wait_time := fetch_max_wait_time g; fetch_min_bytes := fetch_min_bytes g;
     fetch_max_bytes_per_partition := fetch_max_bytes_per_partition g;
     fetch_crc_validation := fetch_crc_validation g; offset_storage := offset_storage g;
     retry_backoff_time := retry_backoff_time g; retry_max_attempts := retry_max_attempts g;
     idle_timeout := pb_idle b |}.

(* Builder::create; the monad's client is the one the producer is built around *)
Definition producer_create (src : list bytes + client) (calls : list pbuilder_call) : M producer :=
  let b := fold_left pbuilder_apply calls (pbuilder_new src) in
  let+ c := get_client in
  let+ _ := set_client {| cfg := cfg_set_producer (cfg c) b; cs := cs c; conns := conns c |} in
  let+ t := lift (to_millis_i32 (pb_ack_timeout b)) in
  let+ _ := (match src with inl _ => load_metadata_all | inr _ => ret tt end) in
  let+ c' := get_client in
  ret {| p_client := c'; p_parts := producer_state (cs c'); p_cntr := 0; p_ack_timeout := t;
         p_acks := pb_acks b |}.
