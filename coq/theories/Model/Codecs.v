(* Model of src/codecs.rs: ToByte encoders and the Cursor-based FromByte decoders. *)
From KV Require Import Base.Prelude Base.Utf8.

Definition ulen {A} (l : list A) : Z := Z.of_nat (length l).

(* ---- ToByte --------------------------------------------------------- *)
(* try_usize_to_int!(len, i16/i32): lengths that do not fit are a CodecError *)
Definition enc_str (s : bytes) : res bytes :=
  if ulen s <=? i16_max then Ok (enc_i16 (ulen s) ++ s) else Err ECodec.

Definition enc_bytes (b : bytes) : res bytes :=
  if ulen b <=? i32_max then Ok (enc_i32 (ulen b) ++ b) else Err ECodec.

(* impl ToByte for Option<&[u8]> (produce.rs) *)
Definition enc_opt_bytes (o : option bytes) : res bytes :=
  match o with Some b => enc_bytes b | None => Ok (enc_i32 (-1)) end.

Fixpoint enc_all {A} (f : A -> res bytes) (xs : list A) : res bytes :=
  match xs with
  | [] => Ok []
  | x :: r => let* a := f x in let* b := enc_all f r in Ok (a ++ b)
  end.

(* encode_as_array *)
Definition enc_array {A} (f : A -> res bytes) (xs : list A) : res bytes :=
  if ulen xs <=? i32_max
  then let* body := enc_all f xs in Ok (enc_i32 (ulen xs) ++ body)
  else Err ECodec.

(* `(xs.len() as i32).encode(..)` followed by a loop: the unchecked variant *)
Definition enc_array_unchecked {A} (f : A -> res bytes) (xs : list A) : res bytes :=
  let* body := enc_all f xs in Ok (enc_i32 (ulen xs) ++ body).

(* ---- FromByte over a Cursor ------------------------------------------ *)
(* byteorder's read_iNN use read_exact: short input is io::ErrorKind::UnexpectedEof *)
Definition dec (A : Type) := bytes -> res (A * bytes).

Definition cread (n : nat) : dec bytes := fun bs =>
  if Nat.ltb (length (firstn n bs)) n then Err (EIo IoUnexpectedEof) else Ok (firstn n bs, skipn n bs).

Definition dec_i8 : dec Z := fun bs => let* '(x, r) := cread 1 bs in Ok (be_dec_s x, r).
Definition dec_i16 : dec Z := fun bs => let* '(x, r) := cread 2 bs in Ok (be_dec_s x, r).
Definition dec_i32 : dec Z := fun bs => let* '(x, r) := cread 4 bs in Ok (be_dec_s x, r).
Definition dec_i64 : dec Z := fun bs => let* '(x, r) := cread 8 bs in Ok (be_dec_s x, r).

(* impl FromByte for String: take(length).read_to_string; a short read or
   invalid UTF-8 (error ignored, nothing appended) both end in UnexpectedEOF *)
Definition dec_string : dec bytes := fun bs =>
  let* '(len, r) := dec_i16 bs in
  if len <=? 0 then Ok ([], r)
  else
    let n := Z.to_nat len in
    let s := firstn n r in
    if Nat.eqb (length s) n && utf8_valid s then Ok (s, skipn n r) else Err EUnexpectedEOF.

(* The allocation a decoder asks for before it has seen the data.  A request of
   1 GiB or more is reported as an outcome of its own. *)
Definition alloc_limit : Z := 2 ^ 30.
Definition alloc_panic {A} : res A := Panic (tag "alloc").

Fixpoint dec_many {A} (d : dec A) (fuel : nat) (count : Z) (bs : bytes) : res (list A * bytes) :=
  if count <=? 0 then Ok ([], bs)
  else match fuel with
       | O => Err EOutOfFuel
       | S f =>
           let* '(x, r) := d bs in
           let* '(xs, r') := dec_many d f (count - 1) r in
           Ok (x :: xs, r')
       end.

(* impl FromByte for Vec<V>: reserve(min(length, 1024)) then `length` element decodes.
   (elem_size = size_of::<V>() on the 64-bit target; the reservation is at most
   1024 * elem_size bytes, far below the allocation limit.) *)
Definition dec_vec {A} (elem_size : Z) (d : dec A) : dec (list A) := fun bs =>
  let* '(len, r) := dec_i32 bs in
  if len <=? 0 then Ok ([], r)
  else dec_many d (S (length r)) len r.

(* impl FromByte for Vec<u8> *)
Definition dec_bytes : dec bytes := fun bs =>
  let* '(len, r) := dec_i32 bs in
  if len <=? 0 then Ok ([], r)
  else
    if negb (has_at_least r len) then Err EUnexpectedEOF
    else let n := Z.to_nat len in Ok (firstn n r, skipn n r).

(* size_of of the element types, x86_64 *)
Definition sz_i32 : Z := 4.
Definition sz_i64 : Z := 8.
