(* Model of src/consumer/{assignment,builder,state,mod}.rs *)
From KV Require Import Base.Prelude Gen.Consts Model.Codecs Model.Requests Model.Responses
                       Model.ClientState Model.Net Model.Client.

Inductive fallback := FbEarliest | FbLatest | FbByTime (t : Z).
Definition fallback_time (f : fallback) : Z :=
  match f with FbEarliest => FETCH_OFFSET_EARLIEST | FbLatest => FETCH_OFFSET_LATEST | FbByTime t => t end.

Definition tpkey := (Z * Z)%type.          (* (topic_ref, partition) *)
Definition tpkey_eqb (a b : tpkey) : bool := (fst a =? fst b) && (snd a =? snd b).

Record consumer := {
  k_client : client;
  k_group : bytes;
  k_fallback : fallback;
  k_retry_limit : Z;
  k_assign : list (bytes * list Z);               (* Assignments: sorted by topic, partitions sorted + dedup *)
  k_fetch : list (tpkey * (Z * Z));               (* fetch_offsets: (offset, max_bytes) *)
  k_retry : list tpkey;                           (* retry_partitions (VecDeque) *)
  k_consumed : list (tpkey * (Z * bool));         (* consumed_offsets: (offset, dirty) *)
}.

Definition consumer_with_client (k : consumer) (c : client) : consumer :=
  {| k_client := c; k_group := k_group k; k_fallback := k_fallback k; k_retry_limit := k_retry_limit k;
     k_assign := k_assign k; k_fetch := k_fetch k; k_retry := k_retry k; k_consumed := k_consumed k |}.
Definition consumer_with (k : consumer) fetch retry consumed : consumer :=
  {| k_client := k_client k; k_group := k_group k; k_fallback := k_fallback k; k_retry_limit := k_retry_limit k;
     k_assign := k_assign k; k_fetch := fetch; k_retry := retry; k_consumed := consumed |}.

(* ---- assignment.rs ---------------------------------------------------------------- *)
Fixpoint insert_z (x : Z) (l : list Z) : list Z :=
  match l with
  | [] => [x]
  | y :: r => if x <? y then x :: l else if x =? y then l else y :: insert_z x r
  end.
(* sort_unstable + dedup *)
Definition sort_dedup (l : list Z) : list Z := fold_left (fun acc x => insert_z x acc) l [].

Fixpoint insert_topic {V} (x : bytes * V) (l : list (bytes * V)) : list (bytes * V) :=
  match l with
  | [] => [x]
  | y :: r => if bytes_ltb (fst x) (fst y) then x :: l else y :: insert_topic x r
  end.
(* from_map: the source is a HashMap, keys are distinct *)
Definition from_map (m : list (bytes * list Z)) : list (bytes * list Z) :=
  fold_left (fun acc '(t, ps) => insert_topic (t, sort_dedup ps) acc) m [].

(* slice::binary_search_by(|x| x.topic.cmp(topic)) *)
Fixpoint bsearch {V} (fuel : nat) (tbl : list (bytes * V)) (key : bytes) (lo hi : Z) : option Z :=
  match fuel with
  | O => None
  | S f =>
      if hi <=? lo then None
      else
        let mid := lo + (hi - lo) / 2 in
        match nth_z tbl mid with
        | None => None
        | Some (t, _) =>
            match bytes_cmp t key with
            | Eq => Some mid
            | Lt => bsearch f tbl key (mid + 1) hi
            | Gt => bsearch f tbl key lo mid
            end
        end
  end.
Definition topic_ref {V} (tbl : list (bytes * V)) (key : bytes) : option Z :=
  bsearch (S (length tbl)) tbl key 0 (ulen tbl).

Definition topic_name (k : consumer) (r : Z) : bytes :=
  match nth_z (k_assign k) r with Some (t, _) => t | None => [] end.

(* ---- generic small maps keyed by (topic_ref, partition) ----------------------------- *)
Fixpoint tk_get {V} (key : tpkey) (m : list (tpkey * V)) : option V :=
  match m with [] => None | (k', v) :: r => if tpkey_eqb k' key then Some v else tk_get key r end.
Fixpoint tk_set {V} (key : tpkey) (v : V) (m : list (tpkey * V)) : list (tpkey * V) :=
  match m with
  | [] => [(key, v)]
  | (k', v') :: r => if tpkey_eqb k' key then (k', v) :: r else (k', v') :: tk_set key v r
  end.

(* ---- builder.rs ------------------------------------------------------------------------ *)
Inductive cbuilder_call :=
| CWithGroup (g : bytes)
| CWithTopic (t : bytes)
| CWithTopicPartitions (t : bytes) (ps : list Z)
| CWithFallback (f : fallback)
| CWithMaxWait (d : Z * Z)
| CWithMinBytes (n : Z)
| CWithMaxBytes (n : Z)
| CWithCrc (b : bool)
| CWithStorage (s : Z)
| CWithRetryLimit (n : Z)
| CWithIdle (d : Z * Z)
| CWithClientId (id : bytes).

Record cbuilder := {
  cb_group : bytes;
  cb_assign : list (bytes * list Z);
  cb_fallback : fallback;
  cb_max_wait : Z * Z;
  cb_min_bytes : Z;
  cb_max_bytes : Z;
  cb_retry_limit : Z;
  cb_crc : bool;
  cb_storage : Z;
  cb_idle : Z * Z;
  cb_client_id : option bytes;
}.

Definition millis_dur (m : Z) : Z * Z := (m / 1000, (m mod 1000) * 1000000).

Definition default_fallback : fallback :=
  if DEFAULT_FALLBACK_OFFSET =? FETCH_OFFSET_EARLIEST then FbEarliest else FbLatest.

Definition cbuilder_new (src : list bytes + client) : cbuilder :=
  match src with
  | inl _ =>
      {| cb_group := []; cb_assign := []; cb_fallback := default_fallback;
         cb_max_wait := millis_dur DEFAULT_FETCH_MAX_WAIT_TIME_MILLIS;
         cb_min_bytes := DEFAULT_FETCH_MIN_BYTES; cb_max_bytes := DEFAULT_FETCH_MAX_BYTES_PER_PARTITION;
         cb_retry_limit := DEFAULT_RETRY_MAX_BYTES_LIMIT; cb_crc := DEFAULT_FETCH_CRC_VALIDATION;
         cb_storage := -1; cb_idle := millis_dur DEFAULT_CONNECTION_IDLE_TIMEOUT_MILLIS;
         cb_client_id := None |}
  | inr c =>
      {| cb_group := []; cb_assign := []; cb_fallback := default_fallback;
         cb_max_wait := millis_dur (fetch_max_wait_time (cfg c));
         cb_min_bytes := fetch_min_bytes (cfg c); cb_max_bytes := fetch_max_bytes_per_partition (cfg c);
         cb_retry_limit := DEFAULT_RETRY_MAX_BYTES_LIMIT; cb_crc := fetch_crc_validation (cfg c);
         cb_storage := offset_storage (cfg c); cb_idle := idle_timeout (cfg c);
         cb_client_id := None |}
  end.

Definition cb_upd (b : cbuilder) g a f w mn mx rl crc st idl cid : cbuilder :=
  {| cb_group := g; cb_assign := a; cb_fallback := f; cb_max_wait := w; cb_min_bytes := mn; cb_max_bytes := mx;
     cb_retry_limit := rl; cb_crc := crc; cb_storage := st; cb_idle := idl; cb_client_id := cid |}.

Definition cbuilder_apply (b : cbuilder) (c : cbuilder_call) : cbuilder :=
  let '(g, a, f, w, mn, mx, rl, crc, st, idl, cid) :=
      (cb_group b, cb_assign b, cb_fallback b, cb_max_wait b, cb_min_bytes b, cb_max_bytes b,
       cb_retry_limit b, cb_crc b, cb_storage b, cb_idle b, cb_client_id b) in
  match c with
  | CWithGroup x => cb_upd b x a f w mn mx rl crc st idl cid
  | CWithTopic t => cb_upd b g (map_insert a t []) f w mn mx rl crc st idl cid
  | CWithTopicPartitions t ps => cb_upd b g (map_insert a t ps) f w mn mx rl crc st idl cid
  | CWithFallback x => cb_upd b g a x w mn mx rl crc st idl cid
  | CWithMaxWait x => cb_upd b g a f x mn mx rl crc st idl cid
  | CWithMinBytes x => cb_upd b g a f w x mx rl crc st idl cid
  | CWithMaxBytes x => cb_upd b g a f w mn x rl crc st idl cid
  | CWithCrc x => cb_upd b g a f w mn mx rl x st idl cid
  | CWithStorage x => cb_upd b g a f w mn mx rl crc (if (x =? 0) || (x =? 1) then x else -1) idl cid
  | CWithRetryLimit x => cb_upd b g a f w mn mx x crc st idl cid
  | CWithIdle x => cb_upd b g a f w mn mx rl crc st x cid
  | CWithClientId x => cb_upd b g a f w mn mx rl crc st idl (Some x)
  end.

Definition cfg_set_consumer (g : config) (b : cbuilder) (wait : Z) : config :=
  {| client_id := match cb_client_id b with Some id => id | None => client_id g end;
     hosts := hosts g; compression := compression g;
     fetch_max_wait_time := wait; fetch_min_bytes := cb_min_bytes b;
     fetch_max_bytes_per_partition := cb_max_bytes b;
     fetch_crc_validation := cb_crc b; offset_storage := cb_storage b;
     retry_backoff_time := retry_backoff_time g; retry_max_attempts := retry_max_attempts g;
     idle_timeout := cb_idle b |}.

(* ---- state.rs ------------------------------------------------------------------------------ *)
(* determine_partitions *)
Definition determine_partitions (s : cstate) (a : bytes * list Z) : res (list Z) :=
  match partitions_for s (fst a) with
  | None => Err (EKafka KC_UnknownTopicOrPartition)
  | Some avail =>
      match snd a with
      | [] => Ok (iota_z (length avail) 0)
      | req => if forallb (fun p => match partition_ref avail p with Some _ => true | None => false end) req
               then Ok req else Err (EKafka KC_UnknownTopicOrPartition)
      end
  end.

Fixpoint subscriptions_of (s : cstate) (asg : list (bytes * list Z)) : res (list (bytes * list Z)) :=
  match asg with
  | [] => Ok []
  | a :: r => let* ps := determine_partitions s a in
              let* rest := subscriptions_of s r in Ok ((fst a, ps) :: rest)
  end.

(* i64 arithmetic that panics on overflow in debug builds and wraps in release builds *)
Definition i64_op (dbg : bool) (z : Z) : res Z :=
  if (i64_min <=? z) && (z <=? i64_max) then Ok z
  else if dbg then Panic (tag "attempt to add/subtract with overflow") else Ok (wrap_s 64 z).
Definition i32_op (dbg : bool) (z : Z) : res Z :=
  if (i32_min <=? z) && (z <=? i32_max) then Ok z
  else if dbg then Panic (tag "attempt to add/subtract with overflow") else Ok (wrap_s 32 z).

(* load_consumed_offsets: insert every (topic, partition, offset <> -1) of the answer *)
Fixpoint consumed_parts (dbg : bool) (r : Z) (pos : list (Z * Z)) (m : list (tpkey * (Z * bool)))
  : res (list (tpkey * (Z * bool))) :=
  match pos with
  | [] => Ok m
  | (p, off) :: rest =>
      if off =? -1 then consumed_parts dbg r rest m
      else let* o := i64_op dbg (off - 1) in
           consumed_parts dbg r rest (tk_set (r, p) (o, false) m)
  end.
Fixpoint consumed_topics (dbg : bool) (asg : list (bytes * list Z)) (tpos : list (bytes * list (Z * Z)))
         (m : list (tpkey * (Z * bool))) : res (list (tpkey * (Z * bool))) :=
  match tpos with
  | [] => Ok m
  | (t, pos) :: rest =>
      match pos with
      | [] => consumed_topics dbg asg rest m
      | _ =>
        (* topic_ref is only evaluated when an offset is inserted *)
        if forallb (fun '(_, off) => off =? -1) pos then consumed_topics dbg asg rest m
        else match topic_ref asg t with
             | None => Panic (tag "non-assigned topic")
             | Some r => let* m' := consumed_parts dbg r pos m in consumed_topics dbg asg rest m'
             end
      end
  end.

Definition load_consumed_offsets (group : bytes) (asg subs : list (bytes * list Z))
  : M (list (tpkey * (Z * bool))) :=
  match group with
  | [] => ret []
  | _ =>
      let+ tpos := fetch_group_offsets group
                     (flat_map (fun '(t, ps) => map (fun p => (t, p)) ps) subs) in
      let+ e := get_env in
      lift (consumed_topics (debug_build e) asg tpos [])
  end.

(* load_partition_offsets: topic -> partition -> offset, later entries overwrite *)
Definition pidx (poffs : list (Z * Z)) : list (Z * Z) :=
  fold_left (fun m '(p, o) => idx_insert m p o) poffs [].
Definition load_partition_offsets (topics : list bytes) (time : Z) : M (list (bytes * list (Z * Z))) :=
  let+ m := fetch_offsets topics time in
  ret (map (fun '(t, ps) => (t, pidx ps)) m).

Definition lookup_off (m : list (bytes * list (Z * Z))) (t : bytes) (p : Z) : Z :=
  match assoc_bytes t m with
  | None => -1
  | Some ps => match assoc_z p ps with Some o => o | None => -1 end
  end.

Fixpoint fallback_states (asg : list (bytes * list Z)) (offsets : list (bytes * list (Z * Z))) (maxb : Z)
         (subs : list (bytes * list Z)) (acc : list (tpkey * (Z * Z))) : res (list (tpkey * (Z * Z))) :=
  match subs with
  | [] => Ok acc
  | (t, ps) :: rest =>
      match topic_ref asg t with
      | None => Panic (tag "unassigned subscription")
      | Some r =>
          match assoc_bytes t offsets with
          | None => Err (EKafka KC_UnknownTopicOrPartition)
          | Some offs =>
              fallback_states asg offsets maxb rest
                (fold_left (fun acc p => tk_set (r, p) (match assoc_z p offs with Some o => o | None => -1 end, maxb) acc)
                           ps acc)
          end
      end
  end.

Definition start_offset (dbg : bool) (fb : fallback) (co : option (Z * bool)) (e_off l_off : Z) : res Z :=
  let fbk := match fb with
             | FbLatest => Ok l_off
             | FbEarliest => Ok e_off
             | FbByTime _ => Err (EKafka KC_Unknown)
             end in
  match co with
  | Some (o, _) =>
      let* o1 := i64_op dbg (o + 1) in
      if (e_off <=? o1) && (o <? l_off) then Ok o1 else fbk
  | None => fbk
  end.

Fixpoint range_parts (dbg : bool) (fb : fallback) (consumed : list (tpkey * (Z * bool)))
         (latest earliest : list (bytes * list (Z * Z))) (maxb : Z) (t : bytes) (r : Z) (ps : list Z)
         (acc : list (tpkey * (Z * Z))) : res (list (tpkey * (Z * Z))) :=
  match ps with
  | [] => Ok acc
  | p :: rest =>
      let* off := start_offset dbg fb (tk_get (r, p) consumed) (lookup_off earliest t p) (lookup_off latest t p) in
      range_parts dbg fb consumed latest earliest maxb t r rest (tk_set (r, p) (off, maxb) acc)
  end.

Fixpoint range_states (dbg : bool) (fb : fallback) (asg : list (bytes * list Z))
         (consumed : list (tpkey * (Z * bool))) (latest earliest : list (bytes * list (Z * Z))) (maxb : Z)
         (subs : list (bytes * list Z)) (acc : list (tpkey * (Z * Z))) : res (list (tpkey * (Z * Z))) :=
  match subs with
  | [] => Ok acc
  | (t, ps) :: rest =>
      match topic_ref asg t with
      | None => Panic (tag "unassigned subscription")
      | Some r =>
          let* acc' := range_parts dbg fb consumed latest earliest maxb t r ps acc in
          range_states dbg fb asg consumed latest earliest maxb rest acc'
      end
  end.

Definition load_fetch_states (fb : fallback) (asg subs : list (bytes * list Z))
           (consumed : list (tpkey * (Z * bool))) : M (list (tpkey * (Z * Z))) :=
  let+ c := get_client in
  let+ e := get_env in
  let maxb := fetch_max_bytes_per_partition (cfg c) in
  let topics := map fst subs in
  match consumed with
  | [] =>
      let+ offsets := load_partition_offsets topics (fallback_time fb) in
      lift (fallback_states asg offsets maxb subs [])
  | _ =>
      let+ latest := load_partition_offsets topics FETCH_OFFSET_LATEST in
      let+ earliest := load_partition_offsets topics FETCH_OFFSET_EARLIEST in
      lift (range_states (debug_build e) fb asg consumed latest earliest maxb subs [])
  end.

(* Builder::create *)
Definition consumer_create (src : list bytes + client) (calls : list cbuilder_call) : M consumer :=
  let b := fold_left cbuilder_apply calls (cbuilder_new src) in
  match cb_assign b with
  | [] => fail ENoTopicsAssigned
  | _ =>
      let+ c := get_client in
      let+ wait := lift (to_millis_i32 (cb_max_wait b)) in
      let+ _ := set_client {| cfg := cfg_set_consumer (cfg c) b wait; cs := cs c; conns := conns c |} in
      let+ _ := (match src with inl _ => load_metadata_all | inr _ => ret tt end) in
      let asg := from_map (cb_assign b) in
      let+ c1 := get_client in
      let+ subs := lift (subscriptions_of (cs c1) asg) in
      let+ consumed := load_consumed_offsets (cb_group b) asg subs in
      let+ fetch := load_fetch_states (cb_fallback b) asg subs consumed in
      let+ c2 := get_client in
      ret {| k_client := c2; k_group := cb_group b; k_fallback := cb_fallback b;
             k_retry_limit := cb_retry_limit b; k_assign := asg; k_fetch := fetch; k_retry := [];
             k_consumed := consumed |}
  end.

(* ---- mod.rs ------------------------------------------------------------------------------------ *)
Record message_sets := { ms_responses : list fetch_resp; ms_empty : bool }.

(* MessageSetsIter: responses -> topics -> partitions, skipping failed and empty partitions *)
Definition iterate (ms : message_sets) : list (bytes * Z * list message) :=
  flat_map (fun r =>
    flat_map (fun t =>
      flat_map (fun p =>
        match fp_data p with
        | inl (_, (m :: _) as msgs) => [(ft_topic t, fp_partition p, msgs)]
        | _ => []
        end) (ft_partitions t)) (fr_topics r)) (ms_responses ms).

(* the consumer's own fetch_messages: the retry partition alone, else every assigned partition *)
Definition consumer_fetch (k : consumer) : M (Z * res (list fetch_resp) * consumer) :=
  match k_retry k with
  | tp :: rest =>
      let k' := consumer_with k (k_fetch k) rest (k_consumed k) in
      match tk_get tp (k_fetch k) with
      | None => ret (1, Err (EKafka KC_UnknownTopicOrPartition), k')
      | Some (off, maxb) =>
          let+ r := mtry (fetch_messages [{| fq_topic := topic_name k (fst tp); fq_partition := snd tp;
                                             fq_offset := off; fq_max_bytes := maxb |}]) in
          ret (1, r, k')
      end
  | [] =>
      let+ r := mtry (fetch_messages
                        (map (fun '((tr, p), (off, maxb)) =>
                                {| fq_topic := topic_name k tr; fq_partition := p; fq_offset := off;
                                   fq_max_bytes := maxb |}) (k_fetch k))) in
      ret (ulen (k_fetch k), r, k)
  end.

Definition last_msg (ms : list message) : option message :=
  match rev ms with m :: _ => Some m | [] => None end.

(* first pass: any partition error fails the poll before anything is updated *)
Fixpoint first_part_error (ps : list fetch_part) : option Z :=
  match ps with
  | [] => None
  | p :: r => match fp_data p with inr c => Some c | inl _ => first_part_error r end
  end.
Definition first_error (resps : list fetch_resp) : option Z :=
  first_part_error (flat_map ft_partitions (flat_map fr_topics resps)).

Record pstate := { ps_fetch : list (tpkey * (Z * Z)); ps_retry : list tpkey; ps_empty : bool }.

(* the fetch states are updated in place: an early return keeps what was done so far *)
Inductive pres := POk (s : pstate) | PErr (e : err) (s : pstate) | PPanic (w : bytes).

Definition process_partition (dbg : bool) (single : bool) (n : Z) (client_maxb limit : Z)
           (r : Z) (p : fetch_part) (s : pstate) : pres :=
  let tp := (r, fp_partition p) in
  match fp_data p with
  | inr c => PErr (EKafka c) s
  | inl (hw, msgs) =>
      match tk_get tp (ps_fetch s) with
      | None => PPanic (tag "non-requested partition")
      | Some (off, maxb) =>
          match last_msg msgs with
          | Some m =>
              match i64_op dbg (m_offset m + 1) with
              | Ok off' => POk {| ps_fetch := tk_set tp (off', client_maxb) (ps_fetch s);
                                  ps_retry := ps_retry s; ps_empty := false |}
              | Err e => PErr e s
              | Panic w => PPanic w
              end
          | None =>
              if off <? hw then
                if maxb <? limit then
                  (* saturating_add *)
                  let incr := Z.max i32_min (Z.min i32_max (maxb + maxb)) in
                  let maxb' := if limit <? incr then limit else incr in
                  POk {| ps_fetch := tk_set tp (off, maxb') (ps_fetch s);
                         ps_retry := if single then ps_retry s else ps_retry s ++ [tp];
                         ps_empty := ps_empty s |}
                else if n =? 1 then PErr (EKafka KC_MessageSizeTooLarge) s
                else POk {| ps_fetch := ps_fetch s;
                            ps_retry := if single then ps_retry s else ps_retry s ++ [tp];
                            ps_empty := ps_empty s |}
              else POk s
          end
      end
  end.

Fixpoint process_parts dbg single n cm limit (r : Z) (ps : list fetch_part) (s : pstate) : pres :=
  match ps with
  | [] => POk s
  | p :: rest => match process_partition dbg single n cm limit r p s with
                 | POk s' => process_parts dbg single n cm limit r rest s'
                 | x => x
                 end
  end.

Fixpoint process_topics dbg single n cm limit (asg : list (bytes * list Z)) (ts : list fetch_topic) (s : pstate)
  : pres :=
  match ts with
  | [] => POk s
  | t :: rest =>
      match topic_ref asg (ft_topic t) with
      | None => PPanic (tag "unknown topic in response")
      | Some r => match process_parts dbg single n cm limit r (ft_partitions t) s with
                  | POk s' => process_topics dbg single n cm limit asg rest s'
                  | x => x
                  end
      end
  end.

(* result of a poll: what is handed out (or the error) and the consumer afterwards *)
Definition process_fetch_responses (dbg : bool) (k : consumer) (n : Z) (resps : list fetch_resp)
  : res message_sets * consumer :=
  match first_error resps with
  | Some c => (Err (EKafka c), k)
  | None =>
      let single := ulen (k_fetch k) =? 1 in
      let cm := fetch_max_bytes_per_partition (cfg (k_client k)) in
      match process_topics dbg single n cm (k_retry_limit k) (k_assign k) (flat_map fr_topics resps)
                           {| ps_fetch := k_fetch k; ps_retry := k_retry k; ps_empty := true |} with
      | POk s => (Ok {| ms_responses := resps; ms_empty := ps_empty s |},
                  consumer_with k (ps_fetch s) (ps_retry s) (k_consumed k))
      | PErr e s => (Err e, consumer_with k (ps_fetch s) (ps_retry s) (k_consumed k))
      | PPanic w => (Panic w, k)
      end
  end.

(* poll never "fails" in the monad: the consumer afterwards is part of the value *)
Definition consumer_poll (k : consumer) : M (res message_sets * consumer) :=
  let+ '(n, r, k') := consumer_fetch k in
  let+ c := get_client in
  let+ e := get_env in
  let k1 := consumer_with_client k' c in
  match r with
  | Ok resps => ret (process_fetch_responses (debug_build e) k1 n resps)
  | Err er => ret (Err er, k1)
  | Panic w => mpanic w
  end.

Definition consumer_seek (k : consumer) (topic : bytes) (p off : Z) : res consumer :=
  match topic_ref (k_assign k) topic with
  | None => Err (EKafka KC_UnknownTopicOrPartition)
  | Some r =>
      match tk_get (r, p) (k_fetch k) with
      | None => Err (ETopicPartition topic p KC_UnknownTopicOrPartition)
      | Some (_, maxb) => Ok (consumer_with k (tk_set (r, p) (off, maxb) (k_fetch k)) (k_retry k) (k_consumed k))
      end
  end.

Definition consume_message (k : consumer) (topic : bytes) (p off : Z) : res consumer :=
  match topic_ref (k_assign k) topic with
  | None => Err (EKafka KC_UnknownTopicOrPartition)
  | Some r =>
      match tk_get (r, p) (k_fetch k) with
      | None => Err (EKafka KC_UnknownTopicOrPartition)
      | Some _ =>
          match tk_get (r, p) (k_consumed k) with
          | None => Ok (consumer_with k (k_fetch k) (k_retry k) (tk_set (r, p) (off, true) (k_consumed k)))
          | Some (o, _) =>
              if o <? off
              then Ok (consumer_with k (k_fetch k) (k_retry k) (tk_set (r, p) (off, true) (k_consumed k)))
              else Ok k
          end
      end
  end.

Definition last_consumed_message (k : consumer) (topic : bytes) (p : Z) : option Z :=
  match topic_ref (k_assign k) topic with
  | None => None
  | Some r => option_map fst (tk_get (r, p) (k_consumed k))
  end.

(* stable reordering of the dirty entries by the observed order of the commit request *)
Fixpoint take_entry (key : bytes * Z) (l : list (bytes * Z * Z))
  : option ((bytes * Z * Z) * list (bytes * Z * Z)) :=
  match l with
  | [] => None
  | ((t, p), o) :: r =>
      if bytes_eqb t (fst key) && (p =? snd key) then Some ((t, p, o), r)
      else match take_entry key r with Some (x, r') => Some (x, (t, p, o) :: r') | None => None end
  end.
Fixpoint reorder_entries (order : list (bytes * Z)) (l : list (bytes * Z * Z)) : list (bytes * Z * Z) :=
  match order with
  | [] => l
  | key :: ks => match take_entry key l with
                 | Some (x, r) => x :: reorder_entries ks r
                 | None => reorder_entries ks l
                 end
  end.

Definition dirty_entries (k : consumer) : list (bytes * Z * Z) :=
  flat_map (fun '((r, p), (o, dirty)) => if dirty : bool then [(topic_name k r, p, o)] else []) (k_consumed k).

Fixpoint commit_entries (dbg : bool) (es : list (bytes * Z * Z)) : res (list commit_offset) :=
  match es with
  | [] => Ok []
  | (t, p, o) :: r => let* o1 := i64_op dbg (o + 1) in
                      let* rest := commit_entries dbg r in
                      Ok ({| co_topic := t; co_partition := p; co_offset := o1 |} :: rest)
  end.

Definition commit_consumed (k : consumer) : M consumer :=
  match k_group k with
  | [] => fail EUnsetGroupId
  | g =>
      let+ e := get_env in
      let+ order := (match dirty_entries k with [] => ret [] | _ => pop_entries end) in
      let+ os := lift (commit_entries (debug_build e) (reorder_entries order (dirty_entries k))) in
      let+ _ := commit_offsets g os in
      let+ c := get_client in
      ret (consumer_with (consumer_with_client k c) (k_fetch k) (k_retry k)
                         (map (fun '(key, (o, _)) => (key, (o, false))) (k_consumed k)))
  end.

(* subscriptions(): topic -> partitions, from the fetch states *)
Definition subscriptions (k : consumer) : list (bytes * list Z) :=
  fold_left (fun acc '((r, p), _) => res_push acc (topic_name k r) [p]) (k_fetch k) [].
