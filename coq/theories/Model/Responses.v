(* Model of the response decoders (FromByte impls of protocol/*.rs), the
   zero-copy fetch response parser of protocol/fetch.rs, and the per-API
   interpretation of error codes (to_offset, get_offsets, to_error, get_response,
   into_result, KafkaCode::from_protocol). *)
From KV Require Import Base.Prelude Base.Crc32 Base.Snappy Gen.ErrorCodes Gen.Consts
                       Model.Codecs Model.Requests.

(* ---- KafkaCode::from_protocol (protocol/mod.rs) ----------------------------- *)
(* codes are carried by their discriminant; the transmute of `n as i8` yields the
   variant whose discriminant is n (C11_table proves one exists for the whole range) *)
Definition from_protocol (n : Z) : option Z :=
  if n =? 0 then None
  else if (from_protocol_lo <=? n) && (n <=? from_protocol_hi) then Some (wrap_s 8 n)
  else Some from_protocol_default.

Definition KC_UnknownTopicOrPartition : Z := kcode_disc KUnknownTopicOrPartition.
Definition KC_CorruptMessage : Z := kcode_disc KCorruptMessage.
Definition KC_GroupLoadInProgress : Z := kcode_disc KGroupLoadInProgress.
Definition KC_GroupCoordinatorNotAvailable : Z := kcode_disc KGroupCoordinatorNotAvailable.
Definition KC_NotCoordinatorForGroup : Z := kcode_disc KNotCoordinatorForGroup.
Definition KC_MessageSizeTooLarge : Z := kcode_disc KMessageSizeTooLarge.
Definition KC_Unknown : Z := kcode_disc KUnknown.

(* ---- header -------------------------------------------------------------------- *)
Definition dec_corr : dec Z := dec_i32.

(* ---- metadata ------------------------------------------------------------------- *)
Record broker_md := { bm_node : Z; bm_host : bytes; bm_port : Z }.
Record partition_md := { pm_error : Z; pm_id : Z; pm_leader : Z; pm_replicas : list Z; pm_isr : list Z }.
Record topic_md := { tm_error : Z; tm_topic : bytes; tm_partitions : list partition_md }.
Record metadata_resp := { md_corr : Z; md_brokers : list broker_md; md_topics : list topic_md }.

(* size_of on x86_64: BrokerMetadata {i32, String, i32} = 32; PartitionMetadata {i16,i32,i32,Vec,Vec} = 64;
   TopicMetadata {i16, String, Vec} = 56 *)
Definition dec_broker_md : dec broker_md := fun bs =>
  let* '(n, r) := dec_i32 bs in
  let* '(h, r) := dec_string r in
  let* '(p, r) := dec_i32 r in
  Ok ({| bm_node := n; bm_host := h; bm_port := p |}, r).

Definition dec_partition_md : dec partition_md := fun bs =>
  let* '(e, r) := dec_i16 bs in
  let* '(i, r) := dec_i32 r in
  let* '(l, r) := dec_i32 r in
  let* '(rs, r) := dec_vec sz_i32 dec_i32 r in
  let* '(isr, r) := dec_vec sz_i32 dec_i32 r in
  Ok ({| pm_error := e; pm_id := i; pm_leader := l; pm_replicas := rs; pm_isr := isr |}, r).

Definition dec_topic_md : dec topic_md := fun bs =>
  let* '(e, r) := dec_i16 bs in
  let* '(t, r) := dec_string r in
  let* '(ps, r) := dec_vec 64 dec_partition_md r in
  Ok ({| tm_error := e; tm_topic := t; tm_partitions := ps |}, r).

Definition dec_metadata_resp : dec metadata_resp := fun bs =>
  let* '(c, r) := dec_corr bs in
  let* '(bs', r) := dec_vec 32 dec_broker_md r in
  let* '(ts, r) := dec_vec 56 dec_topic_md r in
  Ok ({| md_corr := c; md_brokers := bs'; md_topics := ts |}, r).

(* ---- generic topic -> partitions response ------------------------------------------ *)
Definition dec_tps {P} (psize : Z) (dp : dec P) : dec (list (bytes * list P)) :=
  (* TopicPartition*Response {String, Vec} = 48 bytes *)
  dec_vec 48 (fun bs => let* '(t, r) := dec_string bs in
                        let* '(ps, r) := dec_vec psize dp r in Ok ((t, ps), r)).

(* ---- offsets v0 --------------------------------------------------------------------- *)
(* PartitionOffsetResponse {i32, i16, Vec<i64>} = 32 bytes *)
Record part_offset_resp := { por_partition : Z; por_error : Z; por_offsets : list Z }.
Definition dec_part_offset_resp : dec part_offset_resp := fun bs =>
  let* '(p, r) := dec_i32 bs in
  let* '(e, r) := dec_i16 r in
  let* '(os, r) := dec_vec sz_i64 dec_i64 r in
  Ok ({| por_partition := p; por_error := e; por_offsets := os |}, r).
Definition dec_offset_resp : dec (Z * list (bytes * list part_offset_resp)) := fun bs =>
  let* '(c, r) := dec_corr bs in
  let* '(tps, r) := dec_tps 32 dec_part_offset_resp r in Ok ((c, tps), r).

(* PartitionOffsetResponse::to_offset -> Result<(partition, offset), code> *)
Definition to_offset (p : part_offset_resp) : (Z * Z) + Z :=
  match from_protocol (por_error p) with
  | Some c => inr c
  | None => inl (por_partition p, match por_offsets p with o :: _ => o | [] => -1 end)
  end.

(* ---- list offsets v1 ------------------------------------------------------------------ *)
(* {i32, i16, i64, i64} = 24 bytes *)
Record list_offset_part := { lop_partition : Z; lop_error : Z; lop_timestamp : Z; lop_offset : Z }.
Definition dec_list_offset_part : dec list_offset_part := fun bs =>
  let* '(p, r) := dec_i32 bs in
  let* '(e, r) := dec_i16 r in
  let* '(ts, r) := dec_i64 r in
  let* '(o, r) := dec_i64 r in
  Ok ({| lop_partition := p; lop_error := e; lop_timestamp := ts; lop_offset := o |}, r).
Definition dec_list_offsets_resp : dec (Z * list (bytes * list list_offset_part)) := fun bs =>
  let* '(c, r) := dec_corr bs in
  let* '(tps, r) := dec_tps 24 dec_list_offset_part r in Ok ((c, tps), r).

(* to_offset -> Result<(partition, offset, time), code> *)
Definition lop_to_offset (p : list_offset_part) : (Z * Z * Z) + Z :=
  match from_protocol (lop_error p) with
  | Some c => inr c
  | None => inl (lop_partition p, lop_offset p, lop_timestamp p)
  end.

(* ---- produce ----------------------------------------------------------------------------- *)
(* PartitionProduceResponse {i32, i16, i64} = 16 *)
Record produce_part := { pp_partition : Z; pp_error : Z; pp_offset : Z }.
Definition dec_produce_part : dec produce_part := fun bs =>
  let* '(p, r) := dec_i32 bs in
  let* '(e, r) := dec_i16 r in
  let* '(o, r) := dec_i64 r in
  Ok ({| pp_partition := p; pp_error := e; pp_offset := o |}, r).
Definition dec_produce_resp : dec (Z * list (bytes * list produce_part)) := fun bs =>
  let* '(c, r) := dec_corr bs in
  let* '(tps, r) := dec_tps 16 dec_produce_part r in Ok ((c, tps), r).

(* ProducePartitionConfirm: (partition, Ok offset | Err code) *)
Definition produce_confirm (p : produce_part) : Z * (Z + Z) :=
  (pp_partition p, match from_protocol (pp_error p) with None => inl (pp_offset p) | Some c => inr c end).

(* ---- group coordinator ----------------------------------------------------------------------- *)
Record coordinator_resp := { gc_corr : Z; gc_error : Z; gc_broker : Z; gc_host : bytes; gc_port : Z }.
Definition dec_coordinator_resp : dec coordinator_resp := fun bs =>
  let* '(c, r) := dec_corr bs in
  let* '(e, r) := dec_i16 r in
  let* '(b, r) := dec_i32 r in
  let* '(h, r) := dec_string r in
  let* '(p, r) := dec_i32 r in
  Ok ({| gc_corr := c; gc_error := e; gc_broker := b; gc_host := h; gc_port := p |}, r).

(* ---- offset fetch -------------------------------------------------------------------------------- *)
(* PartitionOffsetFetchResponse {i32, i64, String, i16} = 48 *)
Record offset_fetch_part := { ofp_partition : Z; ofp_offset : Z; ofp_metadata : bytes; ofp_error : Z }.
Definition dec_offset_fetch_part : dec offset_fetch_part := fun bs =>
  let* '(p, r) := dec_i32 bs in
  let* '(o, r) := dec_i64 r in
  let* '(m, r) := dec_string r in
  let* '(e, r) := dec_i16 r in
  Ok ({| ofp_partition := p; ofp_offset := o; ofp_metadata := m; ofp_error := e |}, r).
Definition dec_offset_fetch_resp : dec (Z * list (bytes * list offset_fetch_part)) := fun bs =>
  let* '(c, r) := dec_corr bs in
  let* '(tps, r) := dec_tps 48 dec_offset_fetch_part r in Ok ((c, tps), r).

(* get_offsets -> Result<(partition, offset)>; code 3 means "nothing committed" *)
Definition get_offsets (p : offset_fetch_part) : (Z * Z) + Z :=
  match from_protocol (ofp_error p) with
  | Some c => if c =? KC_UnknownTopicOrPartition then inl (ofp_partition p, -1) else inr c
  | None => inl (ofp_partition p, ofp_offset p)
  end.

(* ---- offset commit ---------------------------------------------------------------------------------- *)
(* PartitionOffsetCommitResponse {i32, i16} = 8 *)
Definition dec_offset_commit_part : dec (Z * Z) := fun bs =>
  let* '(p, r) := dec_i32 bs in
  let* '(e, r) := dec_i16 r in Ok ((p, e), r).
Definition dec_offset_commit_resp : dec (Z * list (bytes * list (Z * Z))) := fun bs =>
  let* '(c, r) := dec_corr bs in
  let* '(tps, r) := dec_tps 8 dec_offset_commit_part r in Ok ((c, tps), r).

(* ================================================================================== *)
(* fetch response: protocol/fetch.rs over ZReader                                     *)
(* ================================================================================== *)

Record message := { m_offset : Z; m_key : bytes; m_value : bytes }.

(* ProtocolMessage::from_slice: crc (optionally checked against rest), magic, attr, key, value *)
Definition protocol_message (dbg validate : bool) (raw : bytes) : res (Z * bytes * bytes) :=
  let* '(crc, r) := zread_i32 raw in
  if validate && negb (wrap_s 32 (crc32 r) =? crc) then Err (EKafka KC_CorruptMessage)
  else
    let* '(magic, r) := zread_i8 r in
    if negb (magic =? 0) then Err EUnsupportedProtocol
    else
      let* '(attr, r) := zread_i8 r in
      let* '(k, r) := zread_bytes r in
      let* '(v, r) := zread_bytes r in
      match r with
      | _ :: _ => if dbg then Panic (tag "debug_assert r.is_empty") else Ok (attr, k, v)
      | [] => Ok (attr, k, v)
      end.

(* MessageSet::next_message *)
Definition next_message (dbg validate : bool) (bs : bytes) : res (Z * (Z * bytes * bytes) * bytes) :=
  let* '(off, r) := zread_i64 bs in
  let* '(msg, r) := zread_bytes r in
  let* pm := protocol_message dbg validate msg in
  Ok (off, pm, r).

(* MessageSet::from_slice: the entry loop.  `inner codec value` is what a compressed
   message turns into; note that the loop *returns* it, dropping what was collected
   so far and never looking at the entries behind the wrapper (fetch.rs:421-431).
   `fuel` bounds the loop (every entry consumes at least 12 bytes). *)
Fixpoint ms_loop (inner : Z -> bytes -> res (list message))
         (dbg validate : bool) (req : Z) (fuel : nat) (bs : bytes) (acc : list message)
  : res (list message) :=
  match bs with
  | [] => Ok (rev acc)
  | _ =>
    match fuel with
    | O => Err EOutOfFuel
    | S f =>
      match next_message dbg validate bs with
      | Err EUnexpectedEOF => Ok (rev acc)
      | Err e => Err e
      | Panic w => Panic w
      | Ok (off, (attr, k, v), r) =>
          let c := Z.land attr 7 in
          if c =? COMPRESSION_NONE then
            ms_loop inner dbg validate req f r
                    (if req <=? off then {| m_offset := off; m_key := k; m_value := v |} :: acc else acc)
          else if (c =? COMPRESSION_GZIP) || (c =? COMPRESSION_SNAPPY) then inner c v
          else Err EUnsupportedCompression
      end
    end
  end.

(* from_slice + from_vec with the decompressors plugged in; `depth` is the Rust argument of the same
   name: the number of message set levels still decoded (MAX_COMPRESSION_DEPTH at the top-level call,
   one less per nested compressed set, refused at 0). *)
Fixpoint from_slice (cz : codecs) (depth : nat) (validate : bool) (req : Z) (bs : bytes)
  : res (list message) :=
  match depth with
  | O => Err EUnsupportedCompression          (* fetch.rs: `if depth == 0 { return Err(UnsupportedCompression) }` *)
  | S d =>
      ms_loop (fun c v =>
                 if c =? COMPRESSION_GZIP then
                   match gz_decompress cz v with
                   | Some data => from_slice cz d validate req data
                   | None => Err (EIo IoOther)
                   end
                 else if alloc_limit <=? xerial_max_alloc v then alloc_panic   (* dst.resize(declared length) *)
                 else
                   let* data := xerial_read_to_end v in
                   from_slice cz d validate req data)
              (debug_build cz) validate req (S (length bs)) bs []
  end.

(* Partition::read / Topic::read / Response::from_vec.  `reqs` is the fetch request
   this response answers: topic -> partition -> (offset, max_bytes). *)
Record fetch_part := { fp_partition : Z; fp_data : (Z * list message) + Z  (* Ok (hw, msgs) | Err code *) }.
Record fetch_topic := { ft_topic : bytes; ft_partitions : list fetch_part }.
Record fetch_resp := { fr_corr : Z; fr_topics : list fetch_topic }.

Fixpoint assoc_bytes {V} (k : bytes) (l : list (bytes * V)) : option V :=
  match l with [] => None | (k', v) :: r => if bytes_eqb k' k then Some v else assoc_bytes k r end.
Fixpoint assoc_z {V} (k : Z) (l : list (Z * V)) : option V :=
  match l with [] => None | (k', v) :: r => if k' =? k then Some v else assoc_z k r end.

Definition zread_str (bs : bytes) : res (bytes * bytes) :=
  let* '(len, r) := zread_i16 bs in
  if len <=? 0 then Ok ([], r)
  else let* '(s, r) := zread (Z.to_nat len) r in
       if Utf8.utf8_valid s then Ok (s, r) else Err EStringDecode.

Definition read_partition (cz : codecs) (depth : nat) (validate : bool) (preqs : option fetch_parts)
  : bytes -> res (fetch_part * bytes) := fun bs =>
  let* '(p, r) := zread_i32 bs in
  let req := match preqs with
             | Some ps => match assoc_z p ps with Some (off, _) => off | None => 0 end
             | None => 0 end in
  let* '(e, r) := zread_i16 r in
  let* '(hw, r) := zread_i64 r in
  let* '(ms, r) := zread_bytes r in
  let* msgs := from_slice cz depth validate req ms in
  Ok ({| fp_partition := p;
         fp_data := match from_protocol e with Some c => inr c | None => inl (hw, msgs) end |}, r).

(* array_of!: Vec::with_capacity(n) then n element parses.  size_of Partition = 64, Topic = 40 *)
Fixpoint zread_many {A} (d : bytes -> res (A * bytes)) (fuel : nat) (count : Z) (bs : bytes)
  : res (list A * bytes) :=
  if count <=? 0 then Ok ([], bs)
  else match fuel with
       | O => Err EOutOfFuel
       | S f => let* '(x, r) := d bs in
                let* '(xs, r') := zread_many d f (count - 1) r in Ok (x :: xs, r')
       end.

Definition zread_array {A} (elem_size : Z) (d : bytes -> res (A * bytes)) (bs : bytes) : res (list A * bytes) :=
  let* '(n, r) := zread_array_len bs in
  zread_many d (S (length r)) n r.

Definition read_topic (cz : codecs) (depth : nat) (validate : bool) (reqs : fetch_tps)
  : bytes -> res (fetch_topic * bytes) := fun bs =>
  let* '(name, r) := zread_str bs in
  let* '(ps, r) := zread_array 64 (read_partition cz depth validate (assoc_bytes name reqs)) r in
  Ok ({| ft_topic := name; ft_partitions := ps |}, r).

Definition fetch_from_vec (cz : codecs) (depth : nat) (validate : bool) (reqs : fetch_tps) (bs : bytes)
  : res fetch_resp :=
  let* '(c, r) := zread_i32 bs in
  let* '(ts, r) := zread_array 40 (read_topic cz depth validate reqs) r in
  Ok {| fr_corr := c; fr_topics := ts |}.
