(* Model of src/client/network.rs and the framing helpers of client/mod.rs over a
   scripted byte stream: every Connect / Write / Read / Shutdown the client performs
   is an event answered by the next item of the script. *)
From KV Require Import Base.Prelude Gen.Consts Model.Codecs Model.Requests Model.Responses Model.ClientState.

Inductive ev_out :=
| OConn (ok : bool)
| OWrote (k : Z) | OWriteIntr | OWriteFail (e : ioerr)
| OData (bs : bytes)                 (* [] = end of stream *)
| OReadIntr | OReadFail (e : ioerr)
| OShut.

Inductive ev_op :=
| EConnect (h : bytes)
| EWrite (h : bytes) (bs : bytes)
| ERead (h : bytes) (n : Z)
| EShutdown (h : bytes).

Record config := {
  client_id : bytes;
  hosts : list bytes;
  compression : Z;
  fetch_max_wait_time : Z;
  fetch_min_bytes : Z;
  fetch_max_bytes_per_partition : Z;
  fetch_crc_validation : bool;
  offset_storage : Z;                 (* -1 none, 0 zookeeper, 1 kafka *)
  retry_backoff_time : Z * Z;
  retry_max_attempts : Z;
  idle_timeout : Z * Z;               (* secs, nanos *)
}.

Record client := {
  cfg : config;
  cs : cstate;
  conns : list bytes;                 (* hosts with a pooled connection, in insertion order *)
}.

(* the state every operation runs in *)
Record st := {
  script : list ev_out;
  trace : list ev_op;                 (* most recent first *)
  anyq : list bytes;                  (* successive choices of Connections::get_conn_any *)
  hostq : list (list bytes);          (* per multi-broker call: order in which the per-host requests go out *)
  fetchq : list (bytes * list (bytes * list Z));  (* per host: topic / partition order inside its FetchRequest *)
  entryq : list (list (bytes * Z));   (* per request built from a HashMap iteration: order of its entries *)
  cl : client;
  env : codecs;
}.

Definition M (A : Type) := st -> res A * st.
Definition ret {A} (a : A) : M A := fun s => (Ok a, s).
Definition fail {A} (e : err) : M A := fun s => (Err e, s).
Definition mpanic {A} (w : bytes) : M A := fun s => (Panic w, s).
Definition lift {A} (r : res A) : M A := fun s => (r, s).
Definition mbind {A B} (m : M A) (f : A -> M B) : M B := fun s =>
  match m s with
  | (Ok a, s') => f a s'
  | (Err e, s') => (Err e, s')
  | (Panic w, s') => (Panic w, s')
  end.
Notation "'let+' x ':=' m 'in' k" := (mbind m (fun x => k))
  (at level 200, x name, m at level 100, k at level 200, right associativity).
Notation "'let+' ' p ':=' m 'in' k" := (mbind m (fun x => match x with p => k end))
  (at level 200, p strict pattern, m at level 100, k at level 200, right associativity).

(* `match m { Ok(x) => .., Err(e) => .. }` without propagation *)
Definition mtry {A} (m : M A) : M (res A) := fun s => let '(r, s') := m s in
  match r with Panic w => (Panic w, s') | _ => (Ok r, s') end.

Definition st_with (s : st) (sc : list ev_out) (tr : list ev_op) : st :=
  {| script := sc; trace := tr; anyq := anyq s; hostq := hostq s; fetchq := fetchq s; entryq := entryq s;
     cl := cl s; env := env s |}.
Definition get_client : M client := fun s => (Ok (cl s), s).
Definition set_client (c : client) : M unit := fun s =>
  (Ok tt, {| script := script s; trace := trace s; anyq := anyq s; hostq := hostq s; fetchq := fetchq s;
             entryq := entryq s; cl := c; env := env s |}).
Definition get_env : M codecs := fun s => (Ok (env s), s).
Definition set_cs (x : cstate) : M unit :=
  let+ c := get_client in set_client {| cfg := cfg c; cs := x; conns := conns c |}.
Definition set_conns (x : list bytes) : M unit :=
  let+ c := get_client in set_client {| cfg := cfg c; cs := cs c; conns := x |}.

(* one I/O event: recorded in the trace, answered by the script *)
Definition io (op : ev_op) : M ev_out := fun s =>
  match script s with
  | [] => (Err EOutOfScript, st_with s [] (op :: trace s))
  | o :: r => (Ok o, st_with s r (op :: trace s))
  end.

(* loops consume at least one script item per iteration: this is always enough fuel *)
Definition with_fuel {A} (f : nat -> M A) : M A := fun s => f (S (length (script s))) s.

Definition pop_any : M (option bytes) := fun s =>
  match anyq s with
  | [] => (Ok None, s)
  | h :: r => (Ok (Some h), {| script := script s; trace := trace s; anyq := r; hostq := hostq s;
                               fetchq := fetchq s; entryq := entryq s; cl := cl s; env := env s |})
  end.

(* order hints are only consumed by calls that actually have requests to order *)
Definition pop_hosts : M (list bytes) := fun s =>
  match hostq s with
  | [] => (Ok [], s)
  | h :: r => (Ok h, {| script := script s; trace := trace s; anyq := anyq s; hostq := r;
                        fetchq := fetchq s; entryq := entryq s; cl := cl s; env := env s |})
  end.
Definition pop_entries : M (list (bytes * Z)) := fun s =>
  match entryq s with
  | [] => (Ok [], s)
  | h :: r => (Ok h, {| script := script s; trace := trace s; anyq := anyq s; hostq := hostq s;
                        fetchq := fetchq s; entryq := r; cl := cl s; env := env s |})
  end.
Definition get_fetch_order (h : bytes) : M (option (list (bytes * list Z))) := fun s =>
  (Ok (assoc_bytes h (fetchq s)), s).

(* ---- KafkaConnection ------------------------------------------------------ *)

(* send: Write::write_all over the stream *)
Fixpoint write_all (fuel : nat) (h : bytes) (buf : bytes) : M unit :=
  match buf with
  | [] => ret tt
  | _ =>
    match fuel with
    | O => fail EOutOfFuel
    | S f =>
      let+ o := io (EWrite h buf) in
      match o with
      | OWrote k => if k <=? 0 then fail (EIo IoWriteZero) else write_all f h (skipn (Z.to_nat k) buf)
      | OWriteIntr => write_all f h buf
      | OWriteFail e => fail (EIo e)
      | _ => fail EOutOfScript
      end
    end
  end.

Definition send (h : bytes) (msg : bytes) : M Z :=
  let+ _ := with_fuel (fun f => write_all f h msg) in ret (ulen msg).

(* Read::read_exact (std default implementation) *)
Fixpoint read_exact (fuel : nat) (h : bytes) (n : Z) (acc : bytes) : M bytes :=
  if n <=? 0 then ret acc
  else match fuel with
       | O => fail EOutOfFuel
       | S f =>
         let+ o := io (ERead h n) in
         match o with
         | OData [] => fail (EIo IoUnexpectedEof)
         | OData bs => read_exact f h (n - ulen bs) (acc ++ bs)
         | OReadIntr => read_exact f h n acc
         | OReadFail e => fail (EIo e)
         | _ => fail EOutOfScript
         end
       end.

(* read_exact_alloc: the buffer grows in 64 KiB steps, one read_exact per step *)
Definition read_chunk : Z := 65536.
Fixpoint read_chunks (fuel : nat) (h : bytes) (remaining : Z) (acc : bytes) : M bytes :=
  if remaining <=? 0 then ret acc
  else match fuel with
       | O => fail EOutOfFuel
       | S f =>
           let n := Z.min remaining read_chunk in
           let+ b := with_fuel (fun g => read_exact g h n []) in
           read_chunks f h (remaining - n) (acc ++ b)
       end.
Definition read_exact_alloc (h : bytes) (size : Z) : M bytes :=
  with_fuel (fun f => read_chunks f h size []).

(* __get_response_size: a negative size is a CodecError *)
Definition get_response_size (h : bytes) : M Z :=
  let+ b := with_fuel (fun f => read_exact f h 4 []) in
  let size := be_dec_s b in
  if size <? 0 then fail ECodec else ret size.

(* ---- Connections ---------------------------------------------------------------- *)
Definition idle_expired (c : config) : bool :=
  (fst (idle_timeout c) =? 0) && (snd (idle_timeout c) =? 0).

Definition in_pool (h : bytes) (l : list bytes) : bool := existsb (bytes_eqb h) l.

Definition new_conn (h : bytes) : M unit :=
  let+ o := io (EConnect h) in
  match o with
  | OConn true => ret tt
  | OConn false => fail (EIo IoConnRefused)
  | _ => fail EOutOfScript
  end.

Definition shutdown (h : bytes) : M unit :=
  let+ _ := io (EShutdown h) in ret tt.

Definition get_conn (h : bytes) : M unit :=
  let+ c := get_client in
  if in_pool h (conns c) then
    if idle_expired (cfg c) then
      let+ _ := new_conn h in shutdown h
    else ret tt
  else
    let+ _ := new_conn h in
    set_conns (conns c ++ [h]).

(* get_conn_any: some pooled connection, in HashMap iteration order (taken from anyq);
   None when the pool is empty *)
Definition get_conn_any : M (option bytes) :=
  let+ c := get_client in
  match conns c with
  | [] => ret None
  | first :: _ =>
      let+ pick := pop_any in
      let h := match pick with
               | Some h => if in_pool h (conns c) then h else first
               | None => first
               end in
      if idle_expired (cfg c) then
        let+ r := mtry (new_conn h) in
        match r with
        | Ok _ => let+ _ := shutdown h in ret (Some h)
        | _ => ret None    (* the real code goes on to the next pooled host; not modelled further *)
        end
      else ret (Some h)
  end.

(* ---- __send_request / __get_response -------------------------------------------------- *)
Definition send_request (h : bytes) (payload : res bytes) : M Z :=
  let+ p := lift payload in
  send h (frame p).

Definition get_response_bytes (h : bytes) : M bytes :=
  let+ size := get_response_size h in
  read_exact_alloc h size.

Definition get_response {A} (d : dec A) (h : bytes) : M A :=
  let+ b := get_response_bytes h in
  let+ '(a, _) := lift (d b) in
  ret a.

Definition send_receive {A} (d : dec A) (h : bytes) (payload : res bytes) : M A :=
  let+ _ := get_conn h in
  let+ _ := send_request h payload in
  get_response d h.
