(* The uniform value syntax shared with the harness and the python driver, and the
   rendering of model results / parsing of scripts in that syntax.  Glue: nothing here
   is the subject of a theorem; it is exercised by every correspondence run. *)
From KV Require Import Base.Prelude Model.Codecs Model.Requests Model.Responses Model.ClientState Model.Net.

Inductive val :=
| VI (z : Z)
| VB (b : bytes)
| VL (l : list val)
| VT (name : bytes) (args : list val).

Definition vint (v : val) : Z := match v with VI z => z | _ => 0 end.
Definition vbytes (v : val) : bytes := match v with VB b => b | _ => [] end.
Definition vlist (v : val) : list val := match v with VL l => l | _ => [] end.
Definition vname (v : val) : bytes := match v with VT n _ => n | _ => [] end.
Definition vargs (v : val) : list val := match v with VT _ a => a | _ => [] end.
Definition varg (v : val) (i : nat) : val := nth i (vargs v) (VI 0).
Definition is_tag (v : val) (s : String.string) : bool := bytes_eqb (vname v) (tag s).
Arguments is_tag v s%string_scope.
Definition vt (s : String.string) (args : list val) : val := VT (tag s) args.
Arguments vt s%string_scope args.
Definition vbool (b : bool) : val := VI (if b then 1 else 0).
Definition vunit : val := VL [].

Definition ioerr_val (k : ioerr) : val :=
  match k with
  | IoUnexpectedEof => vt "eof" []
  | IoWriteZero => vt "writezero" []
  | IoTimedOut => vt "timeout" []
  | IoConnRefused => vt "refused" []
  | IoOther => vt "other" []
  end.

Definition ioerr_of (v : val) : ioerr :=
  if is_tag v "eof" then IoUnexpectedEof
  else if is_tag v "writezero" then IoWriteZero
  else if is_tag v "timeout" then IoTimedOut
  else if is_tag v "refused" then IoConnRefused
  else IoOther.

Definition err_val (e : err) : val :=
  match e with
  | EIo k => vt "io" [ioerr_val k]
  | EInvalidSnappy => vt "invalid_snappy" []
  | EKafka c => vt "kafka" [VI c]
  | ETopicPartition t p c => vt "tperr" [VB t; VI p; VI c]
  | EUnsupportedProtocol => vt "unsupported_protocol" []
  | EUnsupportedCompression => vt "unsupported_compression" []
  | EUnexpectedEOF => vt "unexpected_eof" []
  | ECodec => vt "codec" []
  | EStringDecode => vt "string_decode" []
  | ENoHostReachable => vt "no_host_reachable" []
  | ENoTopicsAssigned => vt "no_topics_assigned" []
  | EInvalidDuration => vt "invalid_duration" []
  | EUnsetOffsetStorage => vt "unset_offset_storage" []
  | EUnsetGroupId => vt "unset_group_id" []
  | EOutOfScript => vt "model_out_of_script" []
  | EOutOfFuel => vt "model_out_of_fuel" []
  end.

Definition res_val {A} (f : A -> val) (r : res A) : val :=
  match r with
  | Ok a => vt "ok" [f a]
  | Err e => vt "err" [err_val e]
  | Panic w => vt "panic" [VB w]
  end.

(* ---- script / trace --------------------------------------------------------- *)
Definition ev_out_of (v : val) : ev_out :=
  if is_tag v "conn" then OConn (negb (vint (varg v 0) =? 0))
  else if is_tag v "wrote" then OWrote (vint (varg v 0))
  else if is_tag v "wintr" then OWriteIntr
  else if is_tag v "wfail" then OWriteFail (ioerr_of (varg v 0))
  else if is_tag v "data" then OData (vbytes (varg v 0))
  else if is_tag v "rintr" then OReadIntr
  else if is_tag v "rfail" then OReadFail (ioerr_of (varg v 0))
  else OShut.

Definition ev_op_val (o : ev_op) : val :=
  match o with
  | EConnect h => vt "connect" [VB h]
  | EWrite h bs => vt "write" [VB h; VB bs]
  | ERead h n => vt "read" [VB h; VI n]
  | EShutdown h => vt "shutdown" [VB h]
  end.

(* ---- codec tables -------------------------------------------------------------- *)
Fixpoint lookup_bytes (k : bytes) (l : list (bytes * bytes)) : option bytes :=
  match l with [] => None | (k', v) :: r => if bytes_eqb k' k then Some v else lookup_bytes k r end.

Definition pair_of (v : val) : bytes * bytes := (vbytes (varg v 0), vbytes (varg v 1)).

(* ( env [ (gz plain comp) ] [ (sn plain comp) ] [ (gunzip comp plain) ] [ comp-that-fails ] debug ) *)
Definition env_of (v : val) : codecs :=
  let gz := map pair_of (vlist (varg v 0)) in
  let sn := map pair_of (vlist (varg v 1)) in
  let gu := map pair_of (vlist (varg v 2)) in
  {| gz_compress := fun b => match lookup_bytes b gz with Some c => c | None => [] end;
     sn_compress := fun b => match lookup_bytes b sn with Some c => c | None => [] end;
     gz_decompress := fun c => lookup_bytes c gu;
     debug_build := negb (vint (varg v 4) =? 0) |}.
