(* Model of src/client/mod.rs: KafkaClient operations. *)
From KV Require Import Base.Prelude Gen.Consts Model.Codecs Model.Requests Model.Responses
                       Model.ClientState Model.Net.

(* protocol::to_millis_i32 over Duration = (secs : u64, nanos < 10^9) *)
Definition u64_max : Z := 18446744073709551615.
Definition to_millis_i32 (d : Z * Z) : res Z :=
  let m1 := Z.min (fst d * 1000) u64_max in
  let m := Z.min (m1 + snd d / 1000000) u64_max in
  if i32_max <? m then Err EInvalidDuration else Ok m.

Definition default_config (hs : list bytes) : config :=
  {| client_id := []; hosts := hs; compression := DEFAULT_COMPRESSION;
     fetch_max_wait_time := DEFAULT_FETCH_MAX_WAIT_TIME_MILLIS;
     fetch_min_bytes := DEFAULT_FETCH_MIN_BYTES;
     fetch_max_bytes_per_partition := DEFAULT_FETCH_MAX_BYTES_PER_PARTITION;
     fetch_crc_validation := DEFAULT_FETCH_CRC_VALIDATION;
     offset_storage := -1;
     retry_backoff_time := (DEFAULT_RETRY_BACKOFF_TIME_MILLIS / 1000,
                            (DEFAULT_RETRY_BACKOFF_TIME_MILLIS mod 1000) * 1000000);
     retry_max_attempts := DEFAULT_RETRY_MAX_ATTEMPTS;
     idle_timeout := (DEFAULT_CONNECTION_IDLE_TIMEOUT_MILLIS / 1000,
                      (DEFAULT_CONNECTION_IDLE_TIMEOUT_MILLIS mod 1000) * 1000000) |}.

Definition client_new (hs : list bytes) : client :=
  {| cfg := default_config hs; cs := cstate_new; conns := [] |}.

Definition next_corr : M Z :=
  let+ c := get_client in
  let '(n, s') := next_correlation_id (cs c) in
  let+ _ := set_cs s' in ret n.

(* ---- order hints: HashMap iteration orders observed on the wire -------------------- *)
(* stable reordering of an association list by a list of keys: entries whose key
   occurs in `order` come first, in that order; the others keep their relative order *)
Fixpoint take_key {V} (k : bytes) (l : list (bytes * V)) : option ((bytes * V) * list (bytes * V)) :=
  match l with
  | [] => None
  | (k', v) :: r =>
      if bytes_eqb k' k then Some ((k', v), r)
      else match take_key k r with Some (x, r') => Some (x, (k', v) :: r') | None => None end
  end.
Fixpoint reorder {V} (order : list bytes) (l : list (bytes * V)) : list (bytes * V) :=
  match order with
  | [] => l
  | k :: ks => match take_key k l with
               | Some (x, r) => x :: reorder ks r
               | None => reorder ks l
               end
  end.

Fixpoint take_zkey {V} (k : Z) (l : list (Z * V)) : option ((Z * V) * list (Z * V)) :=
  match l with
  | [] => None
  | (k', v) :: r =>
      if k' =? k then Some ((k', v), r)
      else match take_zkey k r with Some (x, r') => Some (x, (k', v) :: r') | None => None end
  end.
Fixpoint reorder_z {V} (order : list Z) (l : list (Z * V)) : list (Z * V) :=
  match order with
  | [] => l
  | k :: ks => match take_zkey k l with
               | Some (x, r) => x :: reorder_z ks r
               | None => reorder_z ks l
               end
  end.

(* ---- metadata ----------------------------------------------------------------------- *)
Fixpoint fetch_metadata_hosts (corr : Z) (topics : list bytes) (hs : list bytes) : M metadata_resp :=
  match hs with
  | [] => fail ENoHostReachable
  | h :: r =>
      let+ c := get_client in
      let+ rc := mtry (get_conn h) in
      match rc with
      | Ok _ =>
          let+ rs := mtry (send_request h (enc_metadata_req corr (client_id (cfg c)) topics)) in
          match rs with
          | Ok _ => get_response dec_metadata_resp h
          | _ => fetch_metadata_hosts corr topics r
          end
      | _ => fetch_metadata_hosts corr topics r
      end
  end.

Definition fetch_metadata (topics : list bytes) : M metadata_resp :=
  let+ corr := next_corr in
  let+ c := get_client in
  fetch_metadata_hosts corr topics (hosts (cfg c)).

Definition load_metadata (topics : list bytes) : M unit :=
  let+ md := fetch_metadata topics in
  let+ c := get_client in
  let+ s' := lift (update_metadata (cs c) md) in
  set_cs s'.

Definition reset_metadata : M unit :=
  let+ c := get_client in set_cs (clear_metadata (cs c)).

Definition load_metadata_all : M unit :=
  let+ _ := reset_metadata in load_metadata [].

(* ---- offsets ---------------------------------------------------------------------------- *)
(* group (topic, id, host) triples by host: HashMap<&str, Request>::entry(host).or_insert(..).add(..) *)
Fixpoint host_add {P} (reqs : list (bytes * list (bytes * list P))) (host topic : bytes) (p : P)
  : list (bytes * list (bytes * list P)) :=
  match reqs with
  | [] => [(host, tp_add [] topic p)]
  | (h, tps) :: r => if bytes_eqb h host then (h, tp_add tps topic p) :: r
                     else (h, tps) :: host_add r host topic p
  end.

(* the (id, host) pairs of the partitions of `topic` that have a leader *)
Fixpoint leaders_from (s : cstate) (ps : list Z) (id : Z) : list (Z * bytes) :=
  match ps with
  | [] => []
  | bref :: r => match broker_of s bref with
                 | Some b => (id, b_host b) :: leaders_from s r (id + 1)
                 | None => leaders_from s r (id + 1)
                 end
  end.

Definition offset_reqs (s : cstate) (topics : list bytes) (time : Z)
  : list (bytes * list (bytes * list (Z * Z))) :=
  fold_left (fun reqs topic =>
               match partitions_for s topic with
               | None => reqs
               | Some ps => fold_left (fun reqs '(id, host) => host_add reqs host topic (id, time))
                                      (leaders_from s ps 0) reqs
               end) topics [].

Definition fetch_offset_time (which : Z + Z) : Z :=
  match which with inl t => t | inr n => n end.   (* inl: Earliest/Latest constant, inr: ByTime n *)

(* result maps: HashMap<String, Vec<..>>; entry(topic) then push *)
Fixpoint res_push {V} (m : list (bytes * list V)) (t : bytes) (vs : list V) : list (bytes * list V) :=
  match m with
  | [] => [(t, vs)]
  | (t', vs') :: r => if bytes_eqb t' t then (t', vs' ++ vs) :: r else (t', vs') :: res_push r t vs
  end.

(* the partitions of one topic of a response: stop at the first error code *)
Fixpoint collect {P V} (conv : P -> V + Z) (pid : P -> Z) (ps : list P) (acc : list V)
  : list V + (Z * Z) :=
  match ps with
  | [] => inl acc
  | p :: r => match conv p with
              | inl v => collect conv pid r (acc ++ [v])
              | inr code => inr (pid p, code)
              end
  end.

Fixpoint merge_topics {P V} (conv : P -> V + Z) (pid : P -> Z) (tps : list (bytes * list P))
         (m : list (bytes * list V)) : res (list (bytes * list V)) :=
  match tps with
  | [] => Ok m
  | (t, ps) :: r =>
      match collect conv pid ps [] with
      | inl vs => merge_topics conv pid r (res_push m t vs)
      | inr (p, code) => Err (ETopicPartition t p code)
      end
  end.

Fixpoint offsets_exchange {P V} (enc : list (bytes * list (Z * Z)) -> res bytes)
         (d : dec (Z * list (bytes * list P))) (conv : P -> V + Z) (pid : P -> Z)
         (reqs : list (bytes * list (bytes * list (Z * Z)))) (m : list (bytes * list V))
  : M (list (bytes * list V)) :=
  match reqs with
  | [] => ret m
  | (h, tps) :: r =>
      let+ '(_, rtps) := send_receive d h (enc tps) in
      let+ m' := lift (merge_topics conv pid rtps m) in
      offsets_exchange enc d conv pid r m'
  end.

Definition ordered {V} (reqs : list (bytes * V)) : M (list (bytes * V)) :=
  match reqs with
  | [] => ret []
  | _ => let+ o := pop_hosts in ret (reorder o reqs)
  end.

Definition fetch_offsets (topics : list bytes) (time : Z) : M (list (bytes * list (Z * Z))) :=
  let+ corr := next_corr in
  let+ c := get_client in
  let+ reqs := ordered (offset_reqs (cs c) topics time) in
  offsets_exchange (enc_offset_req corr (client_id (cfg c))) dec_offset_resp to_offset por_partition reqs [].

Definition list_offsets (topics : list bytes) (time : Z)
  : M (list (bytes * list (Z * Z * Z))) :=
  let+ corr := next_corr in
  let+ c := get_client in
  let+ reqs := ordered (offset_reqs (cs c) topics time) in
  offsets_exchange (enc_list_offsets_req corr (client_id (cfg c))) dec_list_offsets_resp
                   lop_to_offset lop_partition reqs [].

Definition fetch_topic_offsets (topic : bytes) (time : Z) : M (list (Z * Z)) :=
  let+ m := fetch_offsets [topic] time in
  match assoc_bytes topic m with
  | Some (x :: xs) => ret (x :: xs)
  | _ => fail (EKafka KC_UnknownTopicOrPartition)
  end.

(* ---- fetch messages ----------------------------------------------------------------------- *)
Record fetch_partition := { fq_topic : bytes; fq_partition : Z; fq_offset : Z; fq_max_bytes : Z }.

Fixpoint fhost_add (reqs : list (bytes * fetch_tps)) (host topic : bytes) (p off maxb : Z)
  : list (bytes * fetch_tps) :=
  match reqs with
  | [] => [(host, fetch_add [] topic p off maxb)]
  | (h, tps) :: r => if bytes_eqb h host then (h, fetch_add tps topic p off maxb) :: r
                     else (h, tps) :: fhost_add r host topic p off maxb
  end.

Definition fetch_reqs (c : client) (input : list fetch_partition) : list (bytes * fetch_tps) :=
  fold_left (fun reqs q =>
               match find_broker (cs c) (fq_topic q) (fq_partition q) with
               | None => reqs
               | Some host =>
                   fhost_add reqs host (fq_topic q) (fq_partition q) (fq_offset q)
                             (if 0 <? fq_max_bytes q then fq_max_bytes q
                              else fetch_max_bytes_per_partition (cfg c))
               end) input [].

(* apply the observed iteration order of the two HashMaps inside a FetchRequest *)
Definition order_fetch (order : list (bytes * list Z)) (tps : fetch_tps) : fetch_tps :=
  map (fun '(t, ps) => (t, match assoc_bytes t order with
                           | Some po => reorder_z po ps
                           | None => ps end))
      (reorder (map fst order) tps).

(* message set levels decoded per partition (protocol/fetch.rs MAX_COMPRESSION_DEPTH, regenerated from the source);
   a set nested deeper is refused with UnsupportedCompression *)
Definition decode_depth : nat := MAX_COMPRESSION_DEPTH.

Fixpoint fetch_exchange (corr : Z) (reqs : list (bytes * fetch_tps)) (acc : list fetch_resp)
  : M (list fetch_resp) :=
  match reqs with
  | [] => ret acc
  | (h, tps) :: r =>
      let+ c := get_client in
      let+ e := get_env in
      let+ fo := get_fetch_order h in
      let tps' := match fo with Some o => order_fetch o tps | None => tps end in
      let+ _ := get_conn h in
      let+ _ := send_request h (enc_fetch_req corr (client_id (cfg c)) (fetch_max_wait_time (cfg c))
                                              (fetch_min_bytes (cfg c)) tps') in
      let+ b := get_response_bytes h in
      let+ resp := lift (fetch_from_vec e decode_depth (fetch_crc_validation (cfg c)) tps b) in
      fetch_exchange corr r (acc ++ [resp])
  end.

Definition fetch_messages (input : list fetch_partition) : M (list fetch_resp) :=
  let+ corr := next_corr in
  let+ c := get_client in
  let+ reqs := ordered (fetch_reqs c input) in
  fetch_exchange corr reqs [].

(* ---- produce ------------------------------------------------------------------------------------ *)
Record produce_message := { pq_topic : bytes; pq_partition : Z; pq_key : option bytes; pq_value : option bytes }.

Fixpoint phost_add (reqs : list (bytes * produce_tps)) (host topic : bytes) (p : Z) (m : pmsg)
  : list (bytes * produce_tps) :=
  match reqs with
  | [] => [(host, produce_add [] topic p m)]
  | (h, tps) :: r => if bytes_eqb h host then (h, produce_add tps topic p m) :: r
                     else (h, tps) :: phost_add r host topic p m
  end.

Fixpoint produce_reqs (s : cstate) (msgs : list produce_message) (reqs : list (bytes * produce_tps))
  : option (list (bytes * produce_tps)) :=
  match msgs with
  | [] => Some reqs
  | m :: r => match find_broker s (pq_topic m) (pq_partition m) with
              | None => None
              | Some host => produce_reqs s r (phost_add reqs host (pq_topic m) (pq_partition m)
                                                         (pq_key m, pq_value m))
              end
  end.

Definition confirm := (bytes * list (Z * (Z + Z)))%type.

Fixpoint produce_exchange (corr acks timeout : Z) (reqs : list (bytes * produce_tps)) (acc : list confirm)
  : M (list confirm) :=
  match reqs with
  | [] => ret (if acks =? 0 then [] else acc)
  | (h, tps) :: r =>
      let+ c := get_client in
      let+ e := get_env in
      let payload := enc_produce_req e corr (client_id (cfg c)) acks timeout (compression (cfg c)) tps in
      if acks =? 0 then
        let+ _ := get_conn h in
        let+ _ := send_request h payload in
        produce_exchange corr acks timeout r acc
      else
        let+ '(_, rtps) := send_receive dec_produce_resp h payload in
        produce_exchange corr acks timeout r
                         (acc ++ map (fun '(t, ps) => (t, map produce_confirm ps)) rtps)
  end.

Definition internal_produce_messages (acks timeout : Z) (msgs : list produce_message)
  : M (list confirm) :=
  let+ corr := next_corr in
  let+ c := get_client in
  match produce_reqs (cs c) msgs [] with
  | None => fail (EKafka KC_UnknownTopicOrPartition)
  | Some reqs => let+ reqs' := ordered reqs in produce_exchange corr acks timeout reqs' []
  end.

Definition produce_messages (acks : Z) (ack_timeout : Z * Z) (msgs : list produce_message)
  : M (list confirm) :=
  let+ t := lift (to_millis_i32 ack_timeout) in
  internal_produce_messages acks t msgs.

(* ---- group coordinator ------------------------------------------------------------------------------ *)
Definition group_lookup_attempt (req : res bytes) : M coordinator_resp :=
  let+ oh := get_conn_any in
  match oh with
  | None => mpanic (tag "available connection")
  | Some h =>
      let+ _ := send_request h req in
      get_response dec_coordinator_resp h
  end.

Fixpoint group_lookup_loop (fuel : nat) (group : bytes) (req : res bytes) (attempt : Z) : M bytes :=
  match fuel with
  | O => fail EOutOfFuel
  | S f =>
      let+ r := group_lookup_attempt req in
      match from_protocol (gc_error r) with
      | None =>
          let+ c := get_client in
          let '(h, s') := set_group_coordinator (cs c) group r in
          let+ _ := set_cs s' in ret h
      | Some code =>
          if code =? KC_GroupCoordinatorNotAvailable then
            let+ c := get_client in
            if attempt <? retry_max_attempts (cfg c) then group_lookup_loop f group req (attempt + 1)
            else fail (EKafka code)
          else fail (EKafka code)
      end
  end.

Definition get_group_coordinator (group : bytes) : M bytes :=
  let+ c := get_client in
  match group_coordinator (cs c) group with
  | Some h => ret h
  | None =>
      let+ corr := next_corr in
      with_fuel (fun f => group_lookup_loop f group
                            (enc_group_coordinator_req corr (client_id (cfg c)) group) 1)
  end.

(* ---- commit -------------------------------------------------------------------------------------------- *)
(* scan of an OffsetCommitResponse: first non-zero code decides *)
Inductive scan := ScanOk | ScanRetry (code : Z) (reset : bool) | ScanFatal (code : Z).

Fixpoint commit_scan_parts (ps : list (Z * Z)) : scan :=
  match ps with
  | [] => ScanOk
  | (_, e) :: r =>
      match from_protocol e with
      | None => commit_scan_parts r
      | Some c => if c =? KC_GroupLoadInProgress then ScanRetry c false
                  else if c =? KC_NotCoordinatorForGroup then ScanRetry c true
                  else ScanFatal c
      end
  end.
Fixpoint commit_scan (tps : list (bytes * list (Z * Z))) : scan :=
  match tps with
  | [] => ScanOk
  | (_, ps) :: r => match commit_scan_parts ps with ScanOk => commit_scan r | x => x end
  end.

Fixpoint commit_loop (fuel : nat) (group : bytes) (req : res bytes) (attempt : Z) : M unit :=
  match fuel with
  | O => fail EOutOfFuel
  | S f =>
      let+ h := get_group_coordinator group in
      let+ '(_, tps) := send_receive dec_offset_commit_resp h req in
      match commit_scan tps with
      | ScanOk => ret tt
      | ScanFatal c => fail (EKafka c)
      | ScanRetry code reset =>
          let+ c := get_client in
          let+ _ := (if reset then set_cs (remove_group_coordinator (cs c) group) else ret tt) in
          if attempt <? retry_max_attempts (cfg c) then commit_loop f group req (attempt + 1)
          else fail (EKafka code)
      end
  end.

Definition commit_version (storage : Z) : Z :=
  if storage =? 0 then STORAGE_ZK_COMMIT_VERSION else STORAGE_KAFKA_COMMIT_VERSION.
Definition fetch_version (storage : Z) : Z :=
  if storage =? 0 then STORAGE_ZK_FETCH_VERSION else STORAGE_KAFKA_FETCH_VERSION.

Record commit_offset := { co_topic : bytes; co_partition : Z; co_offset : Z }.

Fixpoint commit_tps (s : cstate) (os : list commit_offset) (acc : list (bytes * list (Z * Z)))
  : option (list (bytes * list (Z * Z))) :=
  match os with
  | [] => Some acc
  | o :: r => if contains_topic_partition s (co_topic o) (co_partition o)
              then commit_tps s r (tp_add acc (co_topic o) (co_partition o, co_offset o))
              else None
  end.

Definition commit_offsets (group : bytes) (os : list commit_offset) : M unit :=
  let+ c := get_client in
  if offset_storage (cfg c) <? 0 then fail EUnsetOffsetStorage
  else
    let+ corr := next_corr in
    match commit_tps (cs c) os [] with
    | None => fail (EKafka KC_UnknownTopicOrPartition)
    | Some [] => ret tt
    | Some tps =>
        with_fuel (fun f => commit_loop f group
                              (enc_offset_commit_req corr (client_id (cfg c)) group
                                                     (commit_version (offset_storage (cfg c))) tps) 1)
    end.

(* ---- group offset fetch ---------------------------------------------------------------------------------- *)
Inductive gscan := GOk (vs : list (Z * Z)) | GRetry (code : Z) (reset : bool) | GFatal (code : Z).

Fixpoint group_scan_parts (ps : list offset_fetch_part) (acc : list (Z * Z)) : gscan :=
  match ps with
  | [] => GOk acc
  | p :: r =>
      match get_offsets p with
      | inl v => group_scan_parts r (acc ++ [v])
      | inr c => if c =? KC_GroupLoadInProgress then GRetry c false
                 else if c =? KC_NotCoordinatorForGroup then GRetry c true
                 else GFatal c
      end
  end.

Fixpoint map_insert {V} (m : list (bytes * V)) (k : bytes) (v : V) : list (bytes * V) :=
  match m with
  | [] => [(k, v)]
  | (k', v') :: r => if bytes_eqb k' k then (k', v) :: r else (k', v') :: map_insert r k v
  end.

Fixpoint group_scan (tps : list (bytes * list offset_fetch_part)) (m : list (bytes * list (Z * Z)))
  : list (bytes * list (Z * Z)) + (Z * bool) + Z :=
  match tps with
  | [] => inl (inl m)
  | (t, ps) :: r =>
      match group_scan_parts ps [] with
      | GOk vs => group_scan r (map_insert m t vs)
      | GRetry c reset => inl (inr (c, reset))
      | GFatal c => inr c
      end
  end.

Fixpoint group_fetch_loop (fuel : nat) (group : bytes) (req : res bytes) (attempt : Z)
  : M (list (bytes * list (Z * Z))) :=
  match fuel with
  | O => fail EOutOfFuel
  | S f =>
      let+ h := get_group_coordinator group in
      let+ '(_, tps) := send_receive dec_offset_fetch_resp h req in
      match group_scan tps [] with
      | inl (inl m) => ret m
      | inr c => fail (EKafka c)
      | inl (inr (code, reset)) =>
          let+ c := get_client in
          let+ _ := (if reset then set_cs (remove_group_coordinator (cs c) group) else ret tt) in
          if attempt <? retry_max_attempts (cfg c) then group_fetch_loop f group req (attempt + 1)
          else fail (EKafka code)
      end
  end.

Fixpoint group_fetch_tps (s : cstate) (ps : list (bytes * Z)) (acc : list (bytes * list Z))
  : option (list (bytes * list Z)) :=
  match ps with
  | [] => Some acc
  | (t, p) :: r => if contains_topic_partition s t p then group_fetch_tps s r (tp_add acc t p) else None
  end.

Definition fetch_group_offsets (group : bytes) (ps : list (bytes * Z)) : M (list (bytes * list (Z * Z))) :=
  let+ c := get_client in
  if offset_storage (cfg c) <? 0 then fail EUnsetOffsetStorage
  else
    let+ corr := next_corr in
    match group_fetch_tps (cs c) ps [] with
    | None => fail (EKafka KC_UnknownTopicOrPartition)
    | Some tps =>
        with_fuel (fun f => group_fetch_loop f group
                              (enc_offset_fetch_req corr (client_id (cfg c)) group
                                                    (fetch_version (offset_storage (cfg c))) tps) 1)
    end.

Fixpoint iota_z (n : nat) (from : Z) : list Z :=
  match n with O => [] | S k => from :: iota_z k (from + 1) end.

Definition fetch_group_topic_offset (group topic : bytes) : M (list (Z * Z)) :=
  let+ c := get_client in
  if offset_storage (cfg c) <? 0 then fail EUnsetOffsetStorage
  else
    let+ corr := next_corr in
    match partitions_for (cs c) topic with
    | None => fail (EKafka KC_UnknownTopicOrPartition)
    | Some ps =>
        let tps := fold_left (fun acc id => tp_add acc topic id) (iota_z (length ps) 0) [] in
        let+ m := with_fuel (fun f => group_fetch_loop f group
                                        (enc_offset_fetch_req corr (client_id (cfg c)) group
                                                              (fetch_version (offset_storage (cfg c))) tps) 1) in
        ret (match assoc_bytes topic m with Some vs => vs | None => [] end)
    end.
