(* Glue: runs one scripted API call (a `val`) against the model and renders the
   result and the I/O trace as `val`s, mirroring harness/src/main.rs. *)
From KV Require Import Base.Prelude Gen.Consts Model.Codecs Model.Requests Model.Responses
                       Model.ClientState Model.Net Model.Client Model.Val
                       Model.Producer Model.Consumer.

Inductive obj :=
| ONone
| OClient (c : client)
| OProducer (p : producer)
| OConsumer (k : consumer).

Definition client_of (o : obj) : option client :=
  match o with
  | OClient c => Some c
  | OProducer p => Some (p_client p)
  | OConsumer k => Some (k_client k)
  | ONone => None
  end.

Definition with_client (o : obj) (c : client) : obj :=
  match o with
  | OClient _ => OClient c
  | OProducer p => OProducer (producer_with_client p c)
  | OConsumer k => OConsumer (consumer_with_client k c)
  | ONone => ONone
  end.

(* ---- argument parsing ---------------------------------------------------------- *)
Definition time_of (v : val) : Z :=
  if is_tag v "earliest" then FETCH_OFFSET_EARLIEST
  else if is_tag v "latest" then FETCH_OFFSET_LATEST
  else vint (varg v 0).

Definition opt_of (v : val) : option bytes :=
  if is_tag v "some" then Some (vbytes (varg v 0)) else None.

(* ---- views ------------------------------------------------------------------------- *)
Definition dur_val (d : Z * Z) : val := VL [VI (fst d); VI (snd d)].
Definition millis_dur (m : Z) : Z * Z := (m / 1000, (m mod 1000) * 1000000).

Definition config_view (c : config) : val :=
  VL [vt "client_id" [VB (client_id c)];
      vt "compression" [VI (compression c)];
      vt "fetch_max_wait_time" [dur_val (millis_dur (fetch_max_wait_time c))];
      vt "fetch_min_bytes" [VI (fetch_min_bytes c)];
      vt "fetch_max_bytes_per_partition" [VI (fetch_max_bytes_per_partition c)];
      vt "fetch_crc_validation" [vbool (fetch_crc_validation c)];
      vt "group_offset_storage" [VI (offset_storage c)];
      vt "retry_backoff_time" [dur_val (retry_backoff_time c)];
      vt "retry_max_attempts" [VI (retry_max_attempts c)];
      vt "connection_idle_timeout" [dur_val (idle_timeout c)]].

Fixpoint parts_view (s : cstate) (ps : list Z) (id : Z) : list val :=
  match ps with
  | [] => []
  | bref :: r =>
      vt "p" [VI id; match broker_of s bref with
                     | Some b => vt "leader" [VI (b_node b); VB (b_host b)]
                     | None => vt "noleader" []
                     end] :: parts_view s r (id + 1)
  end.

Definition topics_view (s : cstate) : val :=
  VL (map (fun '(t, ps) => vt "topic" [VB t; VL (parts_view s ps 0);
                                       VL (map (fun '(id, _) => VI id) (leaders_from s ps 0))])
          (topic_partitions s)).

Definition po_val (p : Z * Z) : val := vt "po" [VI (fst p); VI (snd p)].
Definition offsets_map_view (m : list (bytes * list (Z * Z))) : val :=
  VL (map (fun '(t, ps) => vt "topic" [VB t; VL (map po_val ps)]) m).

Definition msg_val (m : message) : val := vt "m" [VI (m_offset m); VB (m_key m); VB (m_value m)].

Definition responses_view (rs : list fetch_resp) : val :=
  VL (map (fun r =>
             vt "resp" [VI (fr_corr r);
                        VL (map (fun t =>
                                   vt "topic" [VB (ft_topic t);
                                               VL (map (fun p =>
                                                          vt "part" [VI (fp_partition p);
                                                                     match fp_data p with
                                                                     | inl (hw, ms) => vt "ok" [VI hw; VL (map msg_val ms)]
                                                                     | inr c => vt "err" [vt "kafka" [VI c]]
                                                                     end])
                                                       (ft_partitions t))])
                                (fr_topics r))]) rs).

Definition confirms_view (cs : list confirm) : val :=
  VL (map (fun '(t, ps) =>
             vt "confirm" [VB t; VL (map (fun '(p, o) =>
                                            vt "pc" [VI p; match o with
                                                           | inl off => vt "ok" [VI off]
                                                           | inr c => vt "err" [VI c]
                                                           end]) ps)]) cs).

Definition messagesets_view (ms : message_sets) : val :=
  vt "ms" [vbool (ms_empty ms);
           VL (map (fun '(t, p, msgs) => vt "set" [VB t; VI p; VL (map msg_val msgs)])
                   (iterate ms))].

(* ---- running an M computation -------------------------------------------------------- *)
Record outcome := { o_result : val; o_obj : obj; o_trace : list ev_op }.

Definition run {A} (o : obj) (c : client) (e : codecs) (sc : list ev_out) (hv : val)
           (m : M A) (view : A -> val) (upd : A -> client -> obj) (upd_err : client -> obj) : outcome :=
  let s0 := {| script := sc; trace := [];
               anyq := map vbytes (vlist (varg hv 2));
               hostq := map (fun l => map vbytes (vlist l)) (vlist (varg hv 0));
               fetchq := map (fun hf => (vbytes (varg hf 0),
                                         map (fun t => (vbytes (varg t 0), map vint (vlist (varg t 1))))
                                             (vlist (varg hf 1))))
                             (vlist (varg hv 1));
               entryq := map (fun l => map (fun x => (vbytes (varg x 0), vint (varg x 1))) (vlist l))
                             (vlist (varg hv 3));
               cl := c; env := e |} in
  let '(r, s1) := m s0 in
  {| o_result := match r with
                 | Ok a => view a
                 | Err er => vt "err" [err_val er]
                 | Panic w => vt "panic" [VB w]
                 end;
     o_obj := match r with
              | Ok a => upd a (cl s1)
              | Err _ => upd_err (cl s1)
              | Panic _ => ONone         (* the harness discards the object after a panic *)
              end;
     o_trace := rev (trace s1) |}.

Definition okv (v : val) : val := vt "ok" [v].

Definition pure (o : obj) (v : val) : outcome := {| o_result := v; o_obj := o; o_trace := [] |}.
Definition ok_unit : val := vt "ok" [vunit].

Definition set_cfg (o : obj) (f : config -> config) : outcome :=
  match client_of o with
  | Some c => pure (with_client o {| cfg := f (cfg c); cs := cs c; conns := conns c |}) ok_unit
  | None => pure o (vt "model_error" [])
  end.

Definition upd_cfg (c : config) cid comp wait minb maxb crc stor att idle : config :=
  {| client_id := cid; hosts := hosts c; compression := comp; fetch_max_wait_time := wait;
     fetch_min_bytes := minb; fetch_max_bytes_per_partition := maxb; fetch_crc_validation := crc;
     offset_storage := stor; retry_backoff_time := retry_backoff_time c; retry_max_attempts := att;
     idle_timeout := idle |}.

Definition fq_of (v : val) : fetch_partition :=
  {| fq_topic := vbytes (varg v 0); fq_partition := vint (varg v 1); fq_offset := vint (varg v 2);
     fq_max_bytes := vint (varg v 3) |}.
Definition pq_of (v : val) : produce_message :=
  {| pq_topic := vbytes (varg v 0); pq_partition := vint (varg v 1);
     pq_key := opt_of (varg v 2); pq_value := opt_of (varg v 3) |}.
Definition co_of (v : val) : commit_offset :=
  {| co_topic := vbytes (varg v 0); co_partition := vint (varg v 1); co_offset := vint (varg v 2) |}.
Definition rec_of (v : val) : record :=
  {| r_topic := vbytes (varg v 0); r_partition := vint (varg v 1);
     r_key := vbytes (varg v 2); r_value := vbytes (varg v 3) |}.

Definition builder_call_of (v : val) : cbuilder_call :=
  if is_tag v "with_group" then CWithGroup (vbytes (varg v 0))
  else if is_tag v "with_topic" then CWithTopic (vbytes (varg v 0))
  else if is_tag v "with_topic_partitions" then CWithTopicPartitions (vbytes (varg v 0)) (map vint (vlist (varg v 1)))
  else if is_tag v "with_fallback_offset" then
         (let a := varg v 0 in
          CWithFallback (if is_tag a "earliest" then FbEarliest else if is_tag a "latest" then FbLatest
                         else FbByTime (vint (varg a 0))))
  else if is_tag v "with_fetch_max_wait_time" then CWithMaxWait (vint (varg v 0), vint (varg v 1))
  else if is_tag v "with_fetch_min_bytes" then CWithMinBytes (vint (varg v 0))
  else if is_tag v "with_fetch_max_bytes_per_partition" then CWithMaxBytes (vint (varg v 0))
  else if is_tag v "with_fetch_crc_validation" then CWithCrc (negb (vint (varg v 0) =? 0))
  else if is_tag v "with_offset_storage" then CWithStorage (vint (varg v 0))
  else if is_tag v "with_retry_max_bytes_limit" then CWithRetryLimit (vint (varg v 0))
  else if is_tag v "with_connection_idle_timeout" then CWithIdle (vint (varg v 0), vint (varg v 1))
  else CWithClientId (vbytes (varg v 0)).

Definition pbuilder_call_of (v : val) : pbuilder_call :=
  if is_tag v "with_compression" then PWithCompression (vint (varg v 0))
  else if is_tag v "with_ack_timeout" then PWithAckTimeout (vint (varg v 0), vint (varg v 1))
  else if is_tag v "with_connection_idle_timeout" then PWithIdle (vint (varg v 0), vint (varg v 1))
  else if is_tag v "with_required_acks" then PWithAcks (vint (varg v 0))
  else if is_tag v "with_client_id" then PWithClientId (vbytes (varg v 0))
  else PWithPartitioner.

Definition keep_client (o : obj) {A} : A -> client -> obj := fun _ c => with_client o c.

(* ( op <op> <hints> <script> <env> ) *)
Definition dispatch (o : obj) (op hv scv ev : val) : outcome :=
  let sc := map ev_out_of (vlist scv) in
  let e := env_of ev in
  let a0 := varg op 0 in
  let a1 := varg op 1 in
  let a2 := varg op 2 in
  let a3 := varg op 3 in
  let cm {A} (m : M A) (view : A -> val) : outcome :=
      match client_of o with
      | Some c => run o c e sc hv m (fun a => okv (view a)) (keep_client o) (with_client o)
      | None => pure o (vt "model_error" [])
      end in
  if is_tag op "drop" then pure ONone ok_unit
  else if is_tag op "client_new" then
    let c := client_new (map vbytes (vlist a0)) in
    (* the harness sets the retry back-off to zero *)
    pure (OClient {| cfg := let g := cfg c in
                            {| client_id := client_id g; hosts := hosts g; compression := compression g;
                               fetch_max_wait_time := fetch_max_wait_time g; fetch_min_bytes := fetch_min_bytes g;
                               fetch_max_bytes_per_partition := fetch_max_bytes_per_partition g;
                               fetch_crc_validation := fetch_crc_validation g; offset_storage := offset_storage g;
                               retry_backoff_time := (0, 0); retry_max_attempts := retry_max_attempts g;
                               idle_timeout := idle_timeout g |};
                     cs := cs c; conns := conns c |}) ok_unit
  else if is_tag op "into_client" then
    pure (match client_of o with Some c => OClient c | None => ONone end) ok_unit
  else if is_tag op "set_client_id" then
    set_cfg o (fun c => upd_cfg c (vbytes a0) (compression c) (fetch_max_wait_time c) (fetch_min_bytes c)
                                (fetch_max_bytes_per_partition c) (fetch_crc_validation c) (offset_storage c)
                                (retry_max_attempts c) (idle_timeout c))
  else if is_tag op "set_compression" then
    set_cfg o (fun c => upd_cfg c (client_id c) (vint a0) (fetch_max_wait_time c) (fetch_min_bytes c)
                                (fetch_max_bytes_per_partition c) (fetch_crc_validation c) (offset_storage c)
                                (retry_max_attempts c) (idle_timeout c))
  else if is_tag op "set_fetch_max_wait_time" then
    match to_millis_i32 (vint a0, vint a1) with
    | Ok m => set_cfg o (fun c => upd_cfg c (client_id c) (compression c) m (fetch_min_bytes c)
                                          (fetch_max_bytes_per_partition c) (fetch_crc_validation c)
                                          (offset_storage c) (retry_max_attempts c) (idle_timeout c))
    | r => pure o (res_val (fun _ => vunit) r)
    end
  else if is_tag op "set_fetch_min_bytes" then
    set_cfg o (fun c => upd_cfg c (client_id c) (compression c) (fetch_max_wait_time c) (vint a0)
                                (fetch_max_bytes_per_partition c) (fetch_crc_validation c) (offset_storage c)
                                (retry_max_attempts c) (idle_timeout c))
  else if is_tag op "set_fetch_max_bytes_per_partition" then
    set_cfg o (fun c => upd_cfg c (client_id c) (compression c) (fetch_max_wait_time c) (fetch_min_bytes c)
                                (vint a0) (fetch_crc_validation c) (offset_storage c)
                                (retry_max_attempts c) (idle_timeout c))
  else if is_tag op "set_fetch_crc_validation" then
    set_cfg o (fun c => upd_cfg c (client_id c) (compression c) (fetch_max_wait_time c) (fetch_min_bytes c)
                                (fetch_max_bytes_per_partition c) (negb (vint a0 =? 0)) (offset_storage c)
                                (retry_max_attempts c) (idle_timeout c))
  else if is_tag op "set_group_offset_storage" then
    set_cfg o (fun c => upd_cfg c (client_id c) (compression c) (fetch_max_wait_time c) (fetch_min_bytes c)
                                (fetch_max_bytes_per_partition c) (fetch_crc_validation c)
                                (if (vint a0 =? 0) || (vint a0 =? 1) then vint a0 else -1)
                                (retry_max_attempts c) (idle_timeout c))
  else if is_tag op "set_retry_max_attempts" then
    set_cfg o (fun c => upd_cfg c (client_id c) (compression c) (fetch_max_wait_time c) (fetch_min_bytes c)
                                (fetch_max_bytes_per_partition c) (fetch_crc_validation c) (offset_storage c)
                                (vint a0) (idle_timeout c))
  else if is_tag op "set_connection_idle_timeout" then
    set_cfg o (fun c => upd_cfg c (client_id c) (compression c) (fetch_max_wait_time c) (fetch_min_bytes c)
                                (fetch_max_bytes_per_partition c) (fetch_crc_validation c) (offset_storage c)
                                (retry_max_attempts c) (vint a0, vint a1))
  else if is_tag op "set_correlation" then
    match client_of o with
    | Some c => pure (with_client o {| cfg := cfg c;
                                       cs := {| correlation := vint a0; brokers := brokers (cs c);
                                                topic_partitions := topic_partitions (cs c);
                                                group_coordinators := group_coordinators (cs c) |};
                                       conns := conns c |}) ok_unit
    | None => pure o (vt "model_error" [])
    end
  else if is_tag op "get_config" then
    match client_of o with Some c => pure o (vt "ok" [config_view (cfg c)]) | None => pure o (vt "model_error" []) end
  else if is_tag op "topics" then
    match client_of o with Some c => pure o (vt "ok" [topics_view (cs c)]) | None => pure o (vt "model_error" []) end
  else if is_tag op "load_metadata_all" then cm load_metadata_all (fun _ => vunit)
  else if is_tag op "load_metadata" then cm (load_metadata (map vbytes (vlist a0))) (fun _ => vunit)
  else if is_tag op "reset_metadata" then cm reset_metadata (fun _ => vunit)
  else if is_tag op "fetch_offsets" then
    cm (fetch_offsets (map vbytes (vlist a0)) (time_of a1)) offsets_map_view
  else if is_tag op "list_offsets" then
    cm (list_offsets (map vbytes (vlist a0)) (time_of a1))
       (fun m => VL (map (fun '(t, ps) =>
                            vt "topic" [VB t; VL (map (fun '(p, off, time) => vt "tpo" [VI p; VI off; VI time]) ps)]) m))
  else if is_tag op "fetch_topic_offsets" then
    cm (fetch_topic_offsets (vbytes a0) (time_of a1)) (fun ps => VL (map po_val ps))
  else if is_tag op "fetch_messages" then
    cm (fetch_messages (map fq_of (vlist a0))) responses_view
  else if is_tag op "produce_messages" then
    cm (produce_messages (vint a0) (vint a1, vint a2) (map pq_of (vlist a3))) confirms_view
  else if is_tag op "commit_offsets" then
    cm (commit_offsets (vbytes a0) (map co_of (vlist a1))) (fun _ => vunit)
  else if is_tag op "fetch_group_offsets" then
    cm (fetch_group_offsets (vbytes a0) (map (fun v => (vbytes (varg v 0), vint (varg v 1))) (vlist a1)))
       offsets_map_view
  else if is_tag op "fetch_group_topic_offset" then
    cm (fetch_group_topic_offset (vbytes a0) (vbytes a1)) (fun ps => VL (map po_val ps))
  (* ---- producer *)
  else if is_tag op "producer_build" then
    let src := if is_tag a0 "from_hosts" then inl (map vbytes (vlist (varg a0 0)))
               else inr (match client_of o with Some c => c | None => client_new [] end) in
    let c0 := match src with inl hs => client_new hs | inr c => c end in
    run ONone c0 e sc hv (producer_create src (map pbuilder_call_of (vlist a1)))
        (fun _ => ok_unit) (fun p _ => OProducer p) (fun _ => ONone)
  else if is_tag op "send_all" then
    match o with
    | OProducer p =>
        let recs := map rec_of (vlist a0) in
        run o (p_client p) e sc hv (producer_send_all p recs)
            (fun '(cs, _) => okv (confirms_view cs)) (fun '(_, p') c => OProducer (producer_with_client p' c))
            (fun c => OProducer (producer_with_client (producer_set_cntr p (cntr_after p (p_client p) recs)) c))
    | _ => pure o (vt "model_error" [])
    end
  else if is_tag op "send" then
    match o with
    | OProducer p =>
        let recs := firstn 1 (map rec_of (vlist a0)) in
        run o (p_client p) e sc hv (producer_send p (nth 0 recs (rec_of (VI 0))))
            (fun _ => ok_unit) (fun p' c => OProducer (producer_with_client p' c))
            (fun c => OProducer (producer_with_client (producer_set_cntr p (cntr_after p (p_client p) recs)) c))
    | _ => pure o (vt "model_error" [])
    end
  else if is_tag op "set_cntr" then
    match o with
    | OProducer p => pure (OProducer (producer_set_cntr p (vint a0))) ok_unit
    | _ => pure o (vt "model_error" [])
    end
  (* ---- consumer *)
  else if is_tag op "consumer_build" then
    let src := if is_tag a0 "from_hosts" then inl (map vbytes (vlist (varg a0 0)))
               else inr (match client_of o with Some c => c | None => client_new [] end) in
    let c0 := match src with inl hs => client_new hs | inr c => c end in
    run ONone c0 e sc hv (consumer_create src (map builder_call_of (vlist a1)))
        (fun _ => ok_unit) (fun k _ => OConsumer k) (fun _ => ONone)
  else if is_tag op "poll" then
    match o with
    | OConsumer k =>
        run o (k_client k) e sc hv (consumer_poll k)
            (fun '(r, _) => res_val messagesets_view r)
            (fun '(r, k') c => match r with Panic _ => ONone | _ => OConsumer (consumer_with_client k' c) end)
            (with_client o)
    | _ => pure o (vt "model_error" [])
    end
  else if is_tag op "consumer_op" then
    match o with
    | OConsumer k =>
        if is_tag a0 "seek" then
          let r := consumer_seek k (vbytes (varg a0 0)) (vint (varg a0 1)) (vint (varg a0 2)) in
          pure (match r with Ok k' => OConsumer k' | _ => o end) (res_val (fun _ => vunit) r)
        else if is_tag a0 "consume_message" then
          let r := consume_message k (vbytes (varg a0 0)) (vint (varg a0 1)) (vint (varg a0 2)) in
          pure (match r with Ok k' => OConsumer k' | _ => o end) (res_val (fun _ => vunit) r)
        else if is_tag a0 "commit_consumed" then
          run o (k_client k) e sc hv (commit_consumed k) (fun _ => ok_unit)
              (fun k' c => OConsumer (consumer_with_client k' c)) (with_client o)
        else if is_tag a0 "last_consumed_message" then
          pure o (vt "ok" [match last_consumed_message k (vbytes (varg a0 0)) (vint (varg a0 1)) with
                           | Some off => vt "some" [VI off] | None => vt "none" [] end])
        else if is_tag a0 "subscriptions" then
          pure o (vt "ok" [VL (map (fun '(t, ps) => vt "topic" [VB t; VL (map VI ps)]) (subscriptions k))])
        else if is_tag a0 "group" then pure o (vt "ok" [VB (k_group k)])
        else pure o (vt "model_error" [])
    | _ => pure o (vt "model_error" [])
    end
  else pure o (vt "model_error" []).
