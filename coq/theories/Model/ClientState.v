(* Model of src/client/state.rs: the broker vector with index references, topic ->
   partition leader references, coordinator cache and correlation counter. *)
From KV Require Import Base.Prelude Gen.Consts Model.Codecs Model.Requests Model.Responses.

Definition UNKNOWN_BROKER_INDEX : Z := 4294967295.

Record broker := { b_node : Z; b_host : bytes }.

Record cstate := {
  correlation : Z;
  brokers : list broker;
  topic_partitions : list (bytes * list Z);      (* topic -> broker index per partition id *)
  group_coordinators : list (bytes * Z);         (* group -> broker index *)
}.

Definition cstate_new : cstate :=
  {| correlation := 0; brokers := []; topic_partitions := []; group_coordinators := [] |}.

(* Vec::get with a usize index that may be huge *)
Definition nth_z {A} (l : list A) (i : Z) : option A :=
  if (i <? 0) || (ulen l <=? i) then None else nth_error l (Z.to_nat i).

(* decimal rendering of an i32/i64 for format!("{}:{}", host, port) *)
Fixpoint dec_digits (fuel : nat) (n : Z) (acc : bytes) : bytes :=
  match fuel with
  | O => acc
  | S f => let acc' := bZ (48 + n mod 10) :: acc in
           if n / 10 =? 0 then acc' else dec_digits f (n / 10) acc'
  end.
Definition dec_of_Z (n : Z) : bytes :=
  if n <? 0 then x2d :: dec_digits 20 (- n) [] else dec_digits 20 n [].

Definition host_port (host : bytes) (port : Z) : bytes := host ++ [x3a] ++ dec_of_Z port.

(* ---- lookups ------------------------------------------------------------ *)
Definition partitions_for (s : cstate) (topic : bytes) : option (list Z) :=
  assoc_bytes topic (topic_partitions s).

Definition broker_of (s : cstate) (bref : Z) : option broker := nth_z (brokers s) bref.

(* TopicPartitions::partition(id): Vec::get(id as usize) *)
Definition partition_ref (ps : list Z) (id : Z) : option Z := nth_z ps id.

Definition find_broker (s : cstate) (topic : bytes) (partition : Z) : option bytes :=
  match partitions_for s topic with
  | None => None
  | Some ps => match partition_ref ps partition with
               | None => None
               | Some bref => option_map b_host (broker_of s bref)
               end
  end.

Definition contains_topic_partition (s : cstate) (topic : bytes) (partition : Z) : bool :=
  match partitions_for s topic with
  | None => false
  | Some ps => match partition_ref ps partition with Some _ => true | None => false end
  end.

Definition next_correlation_id (s : cstate) : Z * cstate :=
  let c := Z.rem (correlation s + 1) CORRELATION_MODULUS in
  (c, {| correlation := c; brokers := brokers s; topic_partitions := topic_partitions s;
         group_coordinators := group_coordinators s |}).

Definition clear_metadata (s : cstate) : cstate :=
  {| correlation := correlation s; brokers := []; topic_partitions := [];
     group_coordinators := group_coordinators s |}.

(* ---- update_brokers ------------------------------------------------------- *)
Fixpoint idx_insert (idx : list (Z * Z)) (k v : Z) : list (Z * Z) :=
  match idx with
  | [] => [(k, v)]
  | (k', v') :: r => if k' =? k then (k', v) :: r else (k', v') :: idx_insert r k v
  end.

Fixpoint index_brokers (bs : list broker) (i : Z) (idx : list (Z * Z)) : list (Z * Z) :=
  match bs with
  | [] => idx
  | b :: r => index_brokers r (i + 1) (idx_insert idx (b_node b) i)
  end.

Fixpoint set_host (bs : list broker) (i : nat) (h : bytes) : list broker :=
  match bs, i with
  | [], _ => []
  | b :: r, O => {| b_node := b_node b; b_host := h |} :: r
  | b :: r, S k => b :: set_host r k h
  end.

Fixpoint update_brokers_go (mds : list broker_md) (bs : list broker) (idx : list (Z * Z))
  : list broker * list (Z * Z) :=
  match mds with
  | [] => (bs, idx)
  | m :: r =>
      let h := host_port (bm_host m) (bm_port m) in
      match assoc_z (bm_node m) idx with
      | Some i => update_brokers_go r (set_host bs (Z.to_nat i) h) idx
      | None => update_brokers_go r (bs ++ [{| b_node := bm_node m; b_host := h |}])
                                  (idx ++ [(bm_node m, ulen bs)])
      end
  end.

Definition update_brokers (s : cstate) (md : metadata_resp) : list broker * list (Z * Z) :=
  update_brokers_go (md_brokers md) (brokers s) (index_brokers (brokers s) 0 []).

(* ---- update_metadata ----------------------------------------------------- *)
Fixpoint resize_refs (ps : list Z) (m : nat) : list Z :=
  match m with
  | O => []
  | S k => match ps with
           | [] => UNKNOWN_BROKER_INDEX :: resize_refs [] k
           | p :: r => p :: resize_refs r k
           end
  end.

Fixpoint set_ref (ps : list Z) (i : nat) (v : Z) : list Z :=
  match ps, i with
  | [], _ => []
  | _ :: r, O => v :: r
  | p :: r, S k => p :: set_ref r k v
  end.

(* `tps.get_mut(partition.id as usize)`: ids outside 0..N are skipped *)
Fixpoint sync_partitions (idx : list (Z * Z)) (pms : list partition_md) (ps : list Z) : res (list Z) :=
  match pms with
  | [] => Ok ps
  | pm :: r =>
      if (pm_id pm <? 0) || (ulen ps <=? pm_id pm) then sync_partitions idx r ps
      else
        let v := match assoc_z (pm_leader pm) idx with Some i => i | None => UNKNOWN_BROKER_INDEX end in
        sync_partitions idx r (set_ref ps (Z.to_nat (pm_id pm)) v)
  end.

Fixpoint tp_set (tps : list (bytes * list Z)) (t : bytes) (ps : list Z) : list (bytes * list Z) :=
  match tps with
  | [] => [(t, ps)]
  | (t', ps') :: r => if bytes_eqb t' t then (t', ps) :: r else (t', ps') :: tp_set r t ps
  end.

Fixpoint update_topics (idx : list (Z * Z)) (tms : list topic_md) (tps : list (bytes * list Z))
  : res (list (bytes * list Z)) :=
  match tms with
  | [] => Ok tps
  | tm :: r =>
      let m := length (tm_partitions tm) in
      let ps0 := match assoc_bytes (tm_topic tm) tps with
                 | Some ps => resize_refs ps m
                 | None => resize_refs [] m
                 end in
      (* the (re-sized) vector is in the map before the partitions are synced *)
      let tps0 := tp_set tps (tm_topic tm) ps0 in
      match sync_partitions idx (tm_partitions tm) ps0 with
      | Ok ps1 => update_topics idx r (tp_set tps0 (tm_topic tm) ps1)
      | Err e => Err e
      | Panic w => Panic w
      end
  end.

Definition update_metadata (s : cstate) (md : metadata_resp) : res cstate :=
  let '(bs, idx) := update_brokers s md in
  let* tps := update_topics idx (md_topics md) (topic_partitions s) in
  Ok {| correlation := correlation s; brokers := bs; topic_partitions := tps;
        group_coordinators := group_coordinators s |}.

(* ---- group coordinators ------------------------------------------------------ *)
Definition group_coordinator (s : cstate) (group : bytes) : option bytes :=
  match assoc_bytes group (group_coordinators s) with
  | None => None
  | Some i => option_map b_host (nth_z (brokers s) i)
  end.

Fixpoint gc_remove (l : list (bytes * Z)) (g : bytes) : list (bytes * Z) :=
  match l with
  | [] => []
  | (g', i) :: r => if bytes_eqb g' g then r else (g', i) :: gc_remove r g
  end.

Definition remove_group_coordinator (s : cstate) (group : bytes) : cstate :=
  {| correlation := correlation s; brokers := brokers s; topic_partitions := topic_partitions s;
     group_coordinators := gc_remove (group_coordinators s) group |}.

Fixpoint find_node (bs : list broker) (node : Z) (i : Z) : option Z :=
  match bs with
  | [] => None
  | b :: r => if b_node b =? node then Some i else find_node r node (i + 1)
  end.

Fixpoint gc_set (l : list (bytes * Z)) (g : bytes) (i : Z) : list (bytes * Z) :=
  match l with
  | [] => [(g, i)]
  | (g', i') :: r => if bytes_eqb g' g then (g', i) :: r else (g', i') :: gc_set r g i
  end.

(* returns the host the coordinator is reached at: that of the broker entry *)
Definition set_group_coordinator (s : cstate) (group : bytes) (gc : coordinator_resp) : bytes * cstate :=
  let gh := host_port (gc_host gc) (gc_port gc) in
  let '(i, bs) := match find_node (brokers s) (gc_broker gc) 0 with
                  | Some i => (i, brokers s)
                  | None => (ulen (brokers s), brokers s ++ [{| b_node := gc_broker gc; b_host := gh |}])
                  end in
  (match nth_z bs i with Some b => b_host b | None => gh end,
   {| correlation := correlation s; brokers := bs; topic_partitions := topic_partitions s;
      group_coordinators := gc_set (group_coordinators s) group i |}).
