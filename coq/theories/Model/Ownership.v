(* C18: which buffer the views (key / value slices) of a decoded message set point into,
   and which buffers the result keeps alive.  Mirrors the moves and drops of
   protocol/fetch.rs:
     - Response::from_vec keeps the response bytes (`raw_data`, level 0) for its whole life;
     - MessageSet::from_slice(raw) builds views into `raw` until it meets a compressed
       message; then it RETURNS MessageSet::from_vec(decompressed), whose views point into
       the decompressed vector (one level deeper);
     - MessageSet::from_vec(data) calls from_slice(&data), then builds
       MessageSet { raw_data: Owned(data), messages: ms.messages } and DROPS ms.raw_data.
   So a result keeps alive: level 0 (the response) and, per partition, the vector of level 1
   (owned by the partition's MessageSet); the vector of every deeper level is owned only by
   the intermediate MessageSet that from_vec discards. *)
From KV Require Import Base.Prelude Base.Snappy Gen.Consts Model.Codecs Model.Requests Model.Responses.

(* the level of the buffer the exposed messages point into: the number of compressed
   wrappers the decoder follows (same control flow as Responses.ms_loop / from_slice) *)
Fixpoint level_loop (inner : Z -> bytes -> res nat) (dbg validate : bool) (fuel : nat) (bs : bytes) : res nat :=
  match bs with
  | [] => Ok O
  | _ =>
    match fuel with
    | O => Err EOutOfFuel
    | S f =>
      match next_message dbg validate bs with
      | Err EUnexpectedEOF => Ok O
      | Err e => Err e
      | Panic w => Panic w
      | Ok (off, (attr, k, v), r) =>
          let c := Z.land attr 7 in
          if c =? COMPRESSION_NONE then level_loop inner dbg validate f r
          else if (c =? COMPRESSION_GZIP) || (c =? COMPRESSION_SNAPPY) then inner c v
          else Err EUnsupportedCompression
      end
    end
  end.

Fixpoint view_level (cz : codecs) (depth : nat) (validate : bool) (bs : bytes) : res nat :=
  match depth with
  | O => Err EUnsupportedCompression
  | S d =>
      level_loop (fun c v =>
                    if c =? COMPRESSION_GZIP then
                      match gz_decompress cz v with
                      | Some data => let* l := view_level cz d validate data in Ok (S l)
                      | None => Err (EIo IoOther)
                      end
                    else if alloc_limit <=? xerial_max_alloc v then alloc_panic
                    else
                      let* data := xerial_read_to_end v in
                      let* l := view_level cz d validate data in Ok (S l))
                 (debug_build cz) validate (S (length bs)) bs
  end.

(* Which buffer the returned MessageSet owns.  from_slice returns a Borrowed set (views into
   its input; `None` here) unless it meets a compressed message, in which case it returns what
   from_vec returns for the decompressed vector.  from_vec(data):
       let ms = from_slice(&data);
       raw_data = match ms.raw_data { Owned(inner) => Owned(inner), Borrowed(_) => Owned(data) }
   i.e. it owns `data` when the views point into `data`, and otherwise hands on the buffer the
   inner set owns (the repaired code; before the repair it always kept `data`, so for two levels
   of nesting the views pointed into a vector that had been dropped). *)
Fixpoint owner_loop (inner : Z -> bytes -> res (option nat)) (dbg validate : bool) (fuel : nat) (bs : bytes)
  : res (option nat) :=
  match bs with
  | [] => Ok None
  | _ =>
    match fuel with
    | O => Err EOutOfFuel
    | S f =>
      match next_message dbg validate bs with
      | Err EUnexpectedEOF => Ok None
      | Err e => Err e
      | Panic w => Panic w
      | Ok (off, (attr, k, v), r) =>
          let c := Z.land attr 7 in
          if c =? COMPRESSION_NONE then owner_loop inner dbg validate f r
          else if (c =? COMPRESSION_GZIP) || (c =? COMPRESSION_SNAPPY) then inner c v
          else Err EUnsupportedCompression
      end
    end
  end.

(* level of the buffer owned by the set returned for `bs` (None: nothing owned, the views point
   into `bs` itself, which the caller owns - for the top level that is Response.raw_data) *)
Fixpoint owner_level (cz : codecs) (depth : nat) (validate : bool) (bs : bytes) : res (option nat) :=
  match depth with
  | O => Err EUnsupportedCompression
  | S d =>
      owner_loop (fun c v =>
                    let from_vec data :=
                        let* o := owner_level cz d validate data in
                        Ok (Some (match o with None => 1%nat | Some l => S l end)) in
                    if c =? COMPRESSION_GZIP then
                      match gz_decompress cz v with
                      | Some data => from_vec data
                      | None => Err (EIo IoOther)
                      end
                    else if alloc_limit <=? xerial_max_alloc v then alloc_panic
                    else let* data := xerial_read_to_end v in from_vec data)
                 (debug_build cz) validate (S (length bs)) bs
  end.

(* before the repair: from_vec always kept the vector it was given *)
Definition kept_alive_before_fix (level : nat) : bool := Nat.leb level 1.
