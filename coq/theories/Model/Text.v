(* Glue: text form of `val` (see harness/src/val.rs) and the line-level step function
   the extracted model driver calls. *)
From KV Require Import Base.Prelude Model.ClientState Model.Net Model.Val Model.Dispatch.

Definition sp : byte := x20.

(* ---- printing ------------------------------------------------------------------ *)
Fixpoint pos_digits (fuel : nat) (n : Z) (acc : bytes) : bytes :=
  match fuel with
  | O => acc
  | S f => let acc' := bZ (48 + n mod 10) :: acc in
           if n / 10 =? 0 then acc' else pos_digits f (n / 10) acc'
  end.
Definition z_text (n : Z) : bytes :=
  if n <? 0 then x2d :: pos_digits 80 (- n) [] else pos_digits 80 n [].

Definition hexdigit (n : Z) : byte := bZ (if n <? 10 then 48 + n else 87 + n).
Fixpoint hex_text (bs : bytes) (acc : bytes) : bytes :=
  match bs with
  | [] => acc
  | b :: r => hexdigit (Zb b / 16) :: hexdigit (Zb b mod 16) :: hex_text r acc
  end.

Fixpoint val_text (v : val) (acc : bytes) : bytes :=
  match v with
  | VI z => z_text z ++ acc
  | VB b => x78 :: hex_text b acc
  | VL l => x5b :: (fix go (l : list val) : bytes :=
                      match l with
                      | [] => sp :: x5d :: acc
                      | x :: r => sp :: val_text x (go r)
                      end) l
  | VT n l => x28 :: sp :: n ++ (fix go (l : list val) : bytes :=
                                   match l with
                                   | [] => sp :: x29 :: acc
                                   | x :: r => sp :: val_text x (go r)
                                   end) l
  end.

(* ---- parsing -------------------------------------------------------------------- *)
(* List.rev is quadratic; tokens can be tens of thousands of characters long *)
Definition frev {A} (l : list A) : list A := rev_append l [].
Fixpoint tokens (bs : bytes) (cur : bytes) (acc : list bytes) : list bytes :=
  match bs with
  | [] => frev (match cur with [] => acc | _ => frev cur :: acc end)
  | b :: r =>
      if (Zb b =? 32) || (Zb b =? 10) || (Zb b =? 13) || (Zb b =? 9)
      then tokens r [] (match cur with [] => acc | _ => frev cur :: acc end)
      else tokens r (b :: cur) acc
  end.

Definition hexval (b : byte) : Z :=
  let x := Zb b in if x <? 58 then x - 48 else if x <? 71 then x - 55 else x - 87.
Fixpoint unhex (bs : bytes) : bytes :=
  match bs with
  | a :: b :: r => bZ (16 * hexval a + hexval b) :: unhex r
  | _ => []
  end.
Fixpoint undec (bs : bytes) (acc : Z) : Z :=
  match bs with [] => acc | b :: r => undec r (acc * 10 + (Zb b - 48)) end.
Definition z_of_text (bs : bytes) : Z :=
  match bs with
  | b :: r => if Zb b =? 45 then - undec r 0 else undec bs 0
  | [] => 0
  end.

Definition is1 (t : bytes) (c : Z) : bool := match t with [b] => Zb b =? c | _ => false end.

Fixpoint parse_val (fuel : nat) (toks : list bytes) : option (val * list bytes) :=
  match fuel with
  | O => None
  | S f =>
    match toks with
    | [] => None
    | t :: r =>
        if is1 t 91 then
          match parse_seq f r [] 93 with Some (xs, r') => Some (VL xs, r') | None => None end
        else if is1 t 40 then
          match r with
          | name :: r1 => match parse_seq f r1 [] 41 with Some (xs, r') => Some (VT name xs, r') | None => None end
          | [] => None
          end
        else match t with
             | b :: hex => if Zb b =? 120 then Some (VB (unhex hex), r) else Some (VI (z_of_text t), r)
             | [] => None
             end
    end
  end
with parse_seq (fuel : nat) (toks : list bytes) (acc : list val) (close : Z) : option (list val * list bytes) :=
  match fuel with
  | O => None
  | S f =>
    match toks with
    | [] => None
    | t :: r =>
        if is1 t close then Some (frev acc, r)
        else match parse_val f toks with
             | Some (v, r') => parse_seq f r' (v :: acc) close
             | None => None
             end
    end
  end.

Definition val_of_text (bs : bytes) : option val :=
  let toks := tokens bs [] [] in
  match parse_val (S (S (length toks))) toks with
  | Some (v, []) => Some v
  | _ => None
  end.

(* ---- one line in, one line out ----------------------------------------------------- *)
(* ( op <op> <hints> <script> <env> )  ->  ( out <result> <trace> )
   ( reset )                           ->  ( out ( ok [ ] ) [ ] )                     *)
Definition step (o : obj) (line : bytes) : obj * bytes :=
  match val_of_text line with
  | None => (o, val_text (vt "parse_error" []) [])
  | Some v =>
      if is_tag v "reset" then (ONone, val_text (vt "out" [ok_unit; VL []]) [])
      else
        let r := dispatch o (varg v 0) (varg v 1) (varg v 2) (varg v 3) in
        (o_obj r, val_text (vt "out" [o_result r; VL (map ev_op_val (o_trace r))]) [])
  end.

Example text_roundtrip :
  val_of_text (val_text (vt "a" [VI (-12); VB [x00; xff; x7a]; VL [VI 0; vt "b" []]]) [])
  = Some (vt "a" [VI (-12); VB [x00; xff; x7a]; VL [VI 0; vt "b" []]]).
Proof. vm_compute. reflexivity. Qed.
