(* Model of the request encoders: protocol/{mod,metadata,offset,list_offset,fetch,
   produce,consumer}.rs (ToByte impls, `add` merging) and the framing of
   client/mod.rs:__send_request. *)
From KV Require Import Base.Prelude Base.Crc32 Gen.Consts Model.Codecs.

(* compression is external code (flate2, snap): an explicit oracle *)
Record codecs := {
  gz_compress : bytes -> bytes;
  sn_compress : bytes -> bytes;
  gz_decompress : bytes -> option bytes;
  debug_build : bool;   (* debug_assert! and overflow checks are active *)
}.

(* ---- header and frame ------------------------------------------------- *)

Definition enc_header (key ver corr : Z) (client_id : bytes) : res bytes :=
  let* c := enc_str client_id in
  Ok (enc_i16 key ++ enc_i16 ver ++ enc_i32 corr ++ c).

(* __send_request: 4 reserved bytes, the encoded request, then the size patched in *)
Definition frame (payload : bytes) : bytes := enc_i32 (ulen payload) ++ payload.

(* ---- metadata ----------------------------------------------------------- *)

Definition enc_metadata_req (corr : Z) (client_id : bytes) (topics : list bytes) : res bytes :=
  let* h := enc_header API_KEY_METADATA API_VERSION corr client_id in
  let* ts := enc_array enc_str topics in
  Ok (h ++ ts).

(* ---- generic "topic -> partition entries" request bodies ---------------- *)
(* OffsetRequest::add / ListOffsetsRequest::add / OffsetFetchRequest::add /
   OffsetCommitRequest::add / ProduceRequest::add all share the shape: find
   the topic entry (first match) and push, else push a new topic entry. *)
Fixpoint tp_add {P} (tps : list (bytes * list P)) (topic : bytes) (p : P) : list (bytes * list P) :=
  match tps with
  | [] => [(topic, [p])]
  | (t, ps) :: r => if bytes_eqb t topic then (t, ps ++ [p]) :: r else (t, ps) :: tp_add r topic p
  end.

Definition enc_tps {P} (encp : P -> res bytes) (tps : list (bytes * list P)) : res bytes :=
  enc_array (fun '(t, ps) => let* n := enc_str t in let* b := enc_array encp ps in Ok (n ++ b)) tps.

(* ---- offsets (v0) -------------------------------------------------------- *)
(* partition entry: (partition, time); max_offsets is the constant 1 *)
Definition enc_offset_req (corr : Z) (client_id : bytes) (tps : list (bytes * list (Z * Z))) : res bytes :=
  let* h := enc_header API_KEY_OFFSET API_VERSION corr client_id in
  let* b := enc_tps (fun '(p, time) => Ok (enc_i32 p ++ enc_i64 time ++ enc_i32 1)) tps in
  Ok (h ++ enc_i32 (-1) ++ b).

(* ---- list offsets (v1) --------------------------------------------------- *)
Definition enc_list_offsets_req (corr : Z) (client_id : bytes) (tps : list (bytes * list (Z * Z))) : res bytes :=
  let* h := enc_header API_KEY_OFFSET LIST_OFFSET_V1 corr client_id in
  let* b := enc_tps (fun '(p, time) => Ok (enc_i32 p ++ enc_i64 time)) tps in
  Ok (h ++ enc_i32 (-1) ++ b).

(* ---- fetch ------------------------------------------------------------------ *)
(* topic_partitions: HashMap<&str, HashMap<i32, (offset, max_bytes)>>; a later
   add for the same topic/partition overwrites.  The association lists keep
   first-insertion order; the wire order is the HashMap's iteration order and
   comes in as `order` at encode time. *)
Definition fetch_parts := list (Z * (Z * Z)).
Definition fetch_tps := list (bytes * fetch_parts).

Fixpoint fp_insert (ps : fetch_parts) (p : Z) (v : Z * Z) : fetch_parts :=
  match ps with
  | [] => [(p, v)]
  | (q, w) :: r => if q =? p then (q, v) :: r else (q, w) :: fp_insert r p v
  end.

Fixpoint fetch_add (tps : fetch_tps) (topic : bytes) (p off maxb : Z) : fetch_tps :=
  match tps with
  | [] => [(topic, [(p, (off, maxb))])]
  | (t, ps) :: r =>
      if bytes_eqb t topic then (t, fp_insert ps p (off, maxb)) :: r
      else (t, ps) :: fetch_add r topic p off maxb
  end.

Definition enc_fetch_req (corr : Z) (client_id : bytes) (max_wait min_bytes : Z) (tps : fetch_tps) : res bytes :=
  let* h := enc_header API_KEY_FETCH API_VERSION corr client_id in
  let* b := enc_array_unchecked
              (fun '(t, ps) =>
                 let* n := enc_str t in
                 let* pb := enc_array_unchecked
                              (fun '(p, (off, maxb)) => Ok (enc_i32 p ++ enc_i64 off ++ enc_i32 maxb)) ps in
                 Ok (n ++ pb)) tps in
  Ok (h ++ enc_i32 (-1) ++ enc_i32 max_wait ++ enc_i32 min_bytes ++ b).

(* ---- produce ------------------------------------------------------------------ *)
Definition pmsg := (option bytes * option bytes)%type.     (* key, value *)

(* MessageProduceRequest::_encode_to_buf: appends Offset MessageSize Crc Magic Attr Key Value *)
Definition enc_message (magic attr : Z) (m : pmsg) : res bytes :=
  let* k := enc_opt_bytes (fst m) in
  let* v := enc_opt_bytes (snd m) in
  let covered := enc_i8 magic ++ enc_i8 attr ++ k ++ v in
  Ok (enc_i64 0 ++ enc_i32 (4 + ulen covered) ++ enc_i32 (crc32 covered) ++ covered).

Definition enc_messages (ms : list pmsg) : res bytes :=
  enc_all (enc_message MESSAGE_MAGIC_BYTE 0) ms.

(* PartitionProduceRequest::_encode *)
Definition enc_partition_produce (cz : codecs) (compression : Z) (p : Z) (ms : list pmsg) : res bytes :=
  let* buf := enc_messages ms in
  let* buf' :=
     if compression =? COMPRESSION_NONE then Ok buf
     else if compression =? COMPRESSION_GZIP
     then enc_message MESSAGE_MAGIC_BYTE COMPRESSION_GZIP (None, Some (gz_compress cz buf))
     else enc_message MESSAGE_MAGIC_BYTE COMPRESSION_SNAPPY (None, Some (sn_compress cz buf)) in
  let* b := enc_bytes buf' in
  Ok (enc_i32 p ++ b).

(* ProduceRequest: Vec<topic, Vec<partition, Vec<msg>>>; add merges by topic then partition *)
Definition produce_parts := list (Z * list pmsg).
Definition produce_tps := list (bytes * produce_parts).

Fixpoint pp_add (ps : produce_parts) (p : Z) (m : pmsg) : produce_parts :=
  match ps with
  | [] => [(p, [m])]
  | (q, ms) :: r => if q =? p then (q, ms ++ [m]) :: r else (q, ms) :: pp_add r p m
  end.

Fixpoint produce_add (tps : produce_tps) (topic : bytes) (p : Z) (m : pmsg) : produce_tps :=
  match tps with
  | [] => [(topic, [(p, [m])])]
  | (t, ps) :: r =>
      if bytes_eqb t topic then (t, pp_add ps p m) :: r else (t, ps) :: produce_add r topic p m
  end.

Definition enc_produce_req (cz : codecs) (corr : Z) (client_id : bytes) (acks timeout compression : Z)
           (tps : produce_tps) : res bytes :=
  let* h := enc_header API_KEY_PRODUCE API_VERSION corr client_id in
  let* b := enc_array
              (fun '(t, ps) =>
                 let* n := enc_str t in
                 let* pb := enc_array_unchecked
                              (fun '(p, ms) => enc_partition_produce cz compression p ms) ps in
                 Ok (n ++ pb)) tps in
  Ok (h ++ enc_i16 acks ++ enc_i32 timeout ++ b).

(* ---- group coordinator ------------------------------------------------------- *)
Definition enc_group_coordinator_req (corr : Z) (client_id group : bytes) : res bytes :=
  let* h := enc_header API_KEY_GROUP_COORDINATOR API_VERSION corr client_id in
  let* g := enc_str group in
  Ok (h ++ g).

(* ---- offset fetch ---------------------------------------------------------------- *)
Definition enc_offset_fetch_req (corr : Z) (client_id group : bytes) (version : Z)
           (tps : list (bytes * list Z)) : res bytes :=
  let* h := enc_header API_KEY_OFFSET_FETCH version corr client_id in
  let* g := enc_str group in
  let* b := enc_tps (fun p => Ok (enc_i32 p)) tps in
  Ok (h ++ g ++ b).

(* ---- offset commit ---------------------------------------------------------------- *)
(* partition entry: (partition, offset); metadata is always "" *)
Definition enc_offset_commit_req (corr : Z) (client_id group : bytes) (version : Z)
           (tps : list (bytes * list (Z * Z))) : res bytes :=
  if negb ((version =? OFFSET_COMMIT_V0) || (version =? OFFSET_COMMIT_V1) || (version =? OFFSET_COMMIT_V2))
  then Panic (tag "Unknown offset commit version code")
  else
  let* h := enc_header API_KEY_OFFSET_COMMIT version corr client_id in
  let* g := enc_str group in
  let* empty := enc_str [] in
  let pre :=
      if version =? OFFSET_COMMIT_V1 then enc_i32 (-1) ++ empty
      else if version =? OFFSET_COMMIT_V2 then enc_i32 (-1) ++ empty ++ enc_i64 (-1)
      else [] in
  let* b := enc_tps (fun '(p, off) =>
                       Ok (enc_i32 p ++ enc_i64 off
                           ++ (if version =? OFFSET_COMMIT_V1 then enc_i64 (-1) else [])
                           ++ empty)) tps in
  Ok (h ++ g ++ pre ++ b).
