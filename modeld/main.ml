(* Thin driver around the extracted model: one line in, one line out.
   The only conversion it performs is OCaml string <-> list of the extracted `byte`
   inductive (256 constant constructors in order x00..xff, hence immediate 0..255). *)
let byte_of_char (c : char) : Model.byte = Obj.magic (Char.code c)
let char_of_byte (b : Model.byte) : char = Char.chr (Obj.magic b : int)

let bytes_of_string (s : string) : Model.byte list =
  let r = ref [] in
  for i = String.length s - 1 downto 0 do
    r := byte_of_char s.[i] :: !r
  done;
  !r

let string_of_bytes (l : Model.byte list) : string =
  let b = Buffer.create 256 in
  List.iter (fun x -> Buffer.add_char b (char_of_byte x)) l;
  Buffer.contents b

let () =
  assert (byte_of_char 'A' = Model.X41);
  assert (byte_of_char '\255' = Model.Xff);
  assert (char_of_byte Model.X00 = '\000');
  let o = ref Model.ONone in
  try
    while true do
      let line = input_line stdin in
      let (o', out) = Model.step !o (bytes_of_string line) in
      o := o';
      print_string (string_of_bytes out);
      print_newline ()
    done
  with End_of_file -> ()
