"""The uniform value syntax shared by harness, model driver and python driver.
   val ::= INT | x<hex> | [ val* ] | ( NAME val* )
Python representation: int | bytes | list | T(name, args) (a tuple subclass)."""


class T(tuple):
    """tagged value: T('name', [args])"""
    __slots__ = ()

    def __new__(cls, name, args=()):
        return tuple.__new__(cls, (name, list(args)))

    @property
    def name(self):
        return self[0]

    @property
    def args(self):
        return self[1]

    def __repr__(self):
        return "T(%r, %r)" % (self[0], self[1])

    def __reduce__(self):
        return (T, (self[0], self[1]))


def dumps(v):
    out = []
    _dump(v, out)
    return " ".join(out)


def _dump(v, out):
    if isinstance(v, T):
        out.append("(")
        out.append(v.name)
        for a in v.args:
            _dump(a, out)
        out.append(")")
    elif isinstance(v, bool):
        out.append("1" if v else "0")
    elif isinstance(v, int):
        out.append(str(v))
    elif isinstance(v, (bytes, bytearray)):
        out.append("x" + bytes(v).hex())
    elif isinstance(v, (list, tuple)):
        out.append("[")
        for a in v:
            _dump(a, out)
        out.append("]")
    elif isinstance(v, str):
        out.append("x" + v.encode().hex())
    else:
        raise TypeError("cannot dump %r" % (v,))


def loads(text):
    toks = text.split()
    v, pos = _parse(toks, 0)
    if pos != len(toks):
        raise ValueError("trailing tokens in %r" % text[:200])
    return v


def _parse(toks, pos):
    tok = toks[pos]
    pos += 1
    if tok == "[":
        xs = []
        while toks[pos] != "]":
            x, pos = _parse(toks, pos)
            xs.append(x)
        return xs, pos + 1
    if tok == "(":
        name = toks[pos]
        pos += 1
        xs = []
        while toks[pos] != ")":
            x, pos = _parse(toks, pos)
            xs.append(x)
        return T(name, xs), pos + 1
    if tok.startswith("x"):
        return bytes.fromhex(tok[1:]), pos
    return int(tok), pos


def some(b):
    return T("none") if b is None else T("some", [b])


def canon(v):
    """deep sort of every list (for multiset comparison)"""
    if isinstance(v, T):
        return T(v.name, [canon(a) for a in v.args])
    if isinstance(v, list):
        return sorted((canon(a) for a in v), key=dumps)
    return v
