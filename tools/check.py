#!/usr/bin/env python3
"""./check Cxx [--tier quick|thorough] [--replay file]

Decides one property: (1) regenerates the generated Coq files from /repo's sources and
rebuilds the Coq theorems of the property (full .vo, Print Assumptions audited);
(2) rebuilds the harness from /repo's working tree and the extracted model;
(3) replays the known findings of the property; (4) runs the correspondence check
(model vs implementation on generated cases) together with the property oracle on the
implementation's observable behaviour; (5) on a broken proof or correspondence searches
for a concrete failing input; (6) writes evidence/Cxx.json."""
import hashlib
import importlib
import json
import multiprocessing
import os
import random
import re
import subprocess
import sys
import time
import traceback

ROOT = os.path.dirname(os.path.dirname(os.path.abspath(__file__)))
sys.path.insert(0, os.path.join(ROOT, "tools"))

from caselib import load_case, run_case, save_case, to_json  # noqa: E402
from val import dumps  # noqa: E402

COQ = os.path.join(ROOT, "coq")
BUILD = os.path.join(ROOT, ".build")
LOGS = os.path.join(BUILD, "logs")

TRUSTED_BASE = [
    "Coq 8.16.1 kernel (vm_compute used inside proofs; native_compute not used); coqchk in the thorough tier",
    "axioms: none declared; every property theorem reports 'Closed under the global context' (checked on every run)",
    "translator tools/gen_model.py (regex extraction of the KafkaCode enum, from_protocol bounds, API keys/versions, defaults from /repo/src)",
    "extraction with ExtrOcamlBasic only (bool, option, unit, list, prod, sumbool, sumor to OCaml types; andb/orb inlined); positive/N/Z/nat/byte stay extracted inductives; OCaml 4.13 compiler; modeld/main.ml (string <-> byte list via Obj.magic on the 256 constant constructors)",
    "correspondence check: harness/src (Rust), the verif_hooks code in /repo (in-memory transport, counter setters), tools/*.py (reference cluster tools/cluster.py and codec tools/kproto.py, canonicalisation in tools/corr.py, generators in tools/props/)",
    "modelled, not verified: std (Vec, HashMap iteration order taken from the observed wire order, String, Cursor, read_exact/write_all contracts), byteorder, crc (CRC-32/ISO-HDLC, cross-checked against zlib), flate2 (gzip: oracle table per case), snap (raw snappy decoder modelled in Base/Snappy.v and cross-validated), twox-hash (XXH32 modelled, published vectors), TLS/TCP (replaced by the scripted stream), Rust move/drop/cast semantics, allocator",
]


def sh(cmd, log, timeout=3000, cwd=ROOT):
    with open(os.path.join(LOGS, log), "w") as f:
        try:
            p = subprocess.run(cmd, shell=True, cwd=cwd, stdout=f, stderr=subprocess.STDOUT, timeout=timeout)
            return p.returncode
        except subprocess.TimeoutExpired:
            f.write("\nTIMEOUT\n")
            return 124


def tail(log, n=25):
    try:
        with open(os.path.join(LOGS, log)) as f:
            lines = [l for l in f.read().splitlines() if not l.startswith(("COQC", "COQDEP", "make", "CARGO"))]
        return "\n".join(lines[-n:])
    except OSError:
        return ""


# ---- build + proof audit ------------------------------------------------------------------------------

def strip_comments(src):
    out, depth, i = [], 0, 0
    while i < len(src):
        if src.startswith("(*", i):
            depth += 1
            i += 2
        elif src.startswith("*)", i) and depth > 0:
            depth -= 1
            i += 2
        else:
            if depth == 0:
                out.append(src[i])
            i += 1
    return "".join(out)


def audit_sources():
    """forbidden constructs anywhere in the development"""
    problems = []
    for dp, _, fns in os.walk(os.path.join(COQ, "theories")):
        for fn in fns:
            if not fn.endswith(".v"):
                continue
            path = os.path.join(dp, fn)
            src = strip_comments(open(path).read())
            for m in re.finditer(r"\b(Admitted|admit|Axiom|Axioms|Conjecture|Admit Obligations|bypass_check|native_compute)\b|Unset\s+Guard|Unset\s+Positivity|Unset\s+Universe|type-in-type|impredicative-set", src):
                problems.append("%s: %s" % (os.path.relpath(path, ROOT), m.group(0)))
            depth = 0
            for line in src.splitlines():
                s = line.strip()
                if re.match(r"(Section|Module Type)\b", s):
                    depth += 1
                elif re.match(r"End\b", s) and depth > 0:
                    depth -= 1
                elif depth == 0 and re.match(r"(Parameter|Parameters|Variable|Variables|Hypothesis|Hypotheses)\b", s):
                    problems.append("%s: %s outside a section" % (os.path.relpath(path, ROOT), s.split()[0]))
    return problems


def build_all(prop, tier):
    """serialised across concurrent checks: they share coq/ and .build/"""
    import fcntl
    global LOGS
    LOGS = os.path.join(BUILD, "logs", prop)
    os.makedirs(LOGS, exist_ok=True)
    with open(os.path.join(BUILD, "lock"), "w") as lk:
        fcntl.flock(lk, fcntl.LOCK_EX)
        try:
            return _build_all(prop, tier)
        finally:
            fcntl.flock(lk, fcntl.LOCK_UN)


def _build_all(prop, tier):
    """-> dict(model_ok, harness_ok, proof_ok, obligations, discharged, details)"""
    os.makedirs(LOGS, exist_ok=True)
    os.makedirs(os.path.join(BUILD, "modeld"), exist_ok=True)
    res = {"model_ok": False, "harness_ok": False, "proof_ok": False, "obligations": 0, "discharged": 0,
           "details": [], "theorems": []}
    rc = sh("python3 tools/gen_model.py", "gen.log")
    if rc != 0:
        res["details"].append("translator failed: " + tail("gen.log", 5))
        gen_ok = False
    else:
        gen_ok = True
    if not os.path.exists(os.path.join(COQ, "Makefile")) or \
            os.path.getmtime(os.path.join(COQ, "_CoqProject")) > os.path.getmtime(os.path.join(COQ, "Makefile")):
        sh("coq_makefile -f _CoqProject -o Makefile", "coqmk.log", cwd=COQ)
    if tier == "thorough" and os.environ.get("VERIF_NO_CLEAN") != "1":
        sh("make clean", "coqclean.log", cwd=COQ)
    # model
    rc = sh("timeout 2400 make -j16 theories/Model/Text.vo", "coq-model.log", cwd=COQ)
    if rc == 0 and gen_ok:
        modeld = os.path.join(BUILD, "modeld", "modeld")
        if (not os.path.exists(modeld) or os.path.getmtime(os.path.join(COQ, "theories/Model/Text.vo")) > os.path.getmtime(modeld)
                or os.path.getmtime(os.path.join(ROOT, "modeld/main.ml")) > os.path.getmtime(modeld)):
            sh("timeout 600 coqc -Q theories KV extraction/Extract.v; test -f extraction/model.ml && "
               "mv extraction/model.ml extraction/model.mli %s/modeld/ && cp %s/modeld/main.ml %s/modeld/ && "
               "rm -f extraction/Extract.vo extraction/Extract.glob extraction/.Extract.aux && cd %s/modeld && "
               "ocamlfind ocamlopt -O2 -w -a model.mli model.ml main.ml -o modeld" % (BUILD, ROOT, BUILD, BUILD),
               "extract.log", cwd=COQ)
        res["model_ok"] = os.path.exists(modeld)
        if not res["model_ok"]:
            res["details"].append("extraction/ocaml build failed: " + tail("extract.log", 10))
    else:
        res["details"].append("model does not build: " + tail("coq-model.log", 15))
    # harness, from /repo's working tree, both profiles
    if not os.path.exists(os.path.join(ROOT, "harness", "Cargo.lock")) and os.path.exists("/repo/Cargo.lock"):
        sh("cp /repo/Cargo.lock harness/Cargo.lock", "cp.log")
    rc1 = sh("CARGO_NET_OFFLINE=true cargo build --offline", "cargo-debug.log", cwd=os.path.join(ROOT, "harness"))
    rc2 = sh("CARGO_NET_OFFLINE=true cargo build --offline --release", "cargo-release.log", cwd=os.path.join(ROOT, "harness"))
    res["harness_ok"] = rc1 == 0 and rc2 == 0
    if not res["harness_ok"]:
        res["details"].append("harness does not build against /repo: " + tail("cargo-debug.log", 15))
    # theorems of the property: always recompile Props/Cxx.v itself to capture Print Assumptions
    pv = os.path.join(COQ, "theories", "Props", prop + ".v")
    if not os.path.exists(pv):
        res["details"].append("no Props/%s.v" % prop)
        return res
    for ext in (".vo", ".vos", ".vok", ".glob"):
        try:
            os.remove(pv[:-2] + ext)
        except OSError:
            pass
    rc = sh("timeout 2400 make -j16 theories/Props/%s.vo" % prop, "coq-props.log", cwd=COQ)
    if rc == 0:
        # compile the statements file once more on its own: its output alone is audited
        rc = sh("timeout 1200 coqc -Q theories KV theories/Props/%s.v" % prop, "coq-props-only.log", cwd=COQ)
        out = open(os.path.join(LOGS, "coq-props-only.log")).read()
    else:
        out = open(os.path.join(LOGS, "coq-props.log")).read()
    src = strip_comments(open(pv).read())
    theorems = re.findall(r"^\s*(?:Theorem|Lemma)\s+(\w+)", src, re.M)
    printed = re.findall(r"Print Assumptions\s+(\w+)\s*\.", src)
    closed = out.count("Closed under the global context")
    res["obligations"] = len(theorems)
    res["theorems"] = theorems
    problems = audit_sources()
    if rc != 0:
        res["details"].append("theorems do not check: " + tail("coq-props.log", 20))
    if "Axioms:" in out:
        res["details"].append("a theorem depends on axioms: " + out[out.index("Axioms:"):][:400])
    missing = [t for t in theorems if t not in printed]
    if missing:
        res["details"].append("theorems without Print Assumptions: " + ", ".join(missing))
    if closed != len(printed):
        res["details"].append("%d Print Assumptions, %d closed" % (len(printed), closed))
    if problems:
        res["details"].append("forbidden constructs: " + "; ".join(problems[:10]))
    # each theorem must be closed by `exact <lemma>` (statements live in Props, proofs elsewhere)
    ok = rc == 0 and "Axioms:" not in out and not missing and closed == len(printed) and not problems and len(theorems) > 0
    res["proof_ok"] = ok
    res["discharged"] = len(theorems) if ok else 0
    if ok and tier == "thorough" and os.environ.get("VERIF_NO_COQCHK") != "1":
        rc = sh("timeout 2400 coqchk -silent -o -Q theories KV KV.Props.%s" % prop, "coqchk.log", cwd=COQ)
        chk = open(os.path.join(LOGS, "coqchk.log")).read()
        res["coqchk"] = chk[-600:]
        if rc != 0 or "Axioms: <none>" not in chk.replace("\n", " ").replace("  ", " "):
            m = re.search(r"Axioms:(.*?)(\*|$)", chk, re.S)
            ax = m.group(1).strip() if m else "?"
            if rc != 0 or (ax and ax != "<none>"):
                res["details"].append("coqchk: rc=%d axioms=%s" % (rc, ax[:300]))
                res["proof_ok"] = False
                res["discharged"] = 0
    return res


# ---- workers ------------------------------------------------------------------------------------------

def _worker(args):
    prop, shard = args
    sys.path.insert(0, os.path.join(ROOT, "tools"))
    from corr import Runner, describe
    mod = importlib.import_module("props." + prop.lower())
    runners = {}
    out = []
    try:
        for case in shard:
            prof = case.get("profile", "debug")
            if prof not in runners:
                runners[prof] = Runner(prof)
            r = runners[prof]
            try:
                recs, cl, net = run_case(r, case)
                dis = [describe(x) for x in recs if not x["agree"]]
                fails = mod.oracle(case, recs, cl)
                nt = mod.nontrivial(case, recs)
                digest = hashlib.sha1(json.dumps(to_json({"c": case["cluster"], "o": case["ops"],
                                                          "p": case.get("plan")}), sort_keys=True).encode()).hexdigest()
                out.append({"id": case["id"], "disagree": dis, "fails": fails, "nontrivial": nt, "digest": digest,
                            "nops": len(recs), "stats": mod.stats(case, recs) if hasattr(mod, "stats") else {}})
            except Exception:
                out.append({"id": case["id"], "disagree": [], "fails": [], "nontrivial": False, "digest": case["id"],
                            "nops": 0, "stats": {}, "error": traceback.format_exc()[-1500:]})
                for rr in runners.values():
                    rr.close()
                runners = {}
    finally:
        for rr in runners.values():
            rr.close()
    return out


def run_cases(prop, cases, nproc=16):
    if not cases:
        return []
    nproc = max(1, min(nproc, len(cases)))
    shards = [cases[i::nproc] for i in range(nproc)]
    with multiprocessing.Pool(nproc) as pool:
        parts = pool.map(_worker, [(prop, s) for s in shards])
    res = [x for p in parts for x in p]
    byid = {x["id"]: x for x in res}
    return [byid[c["id"]] for c in cases if c["id"] in byid]


# ---- main ------------------------------------------------------------------------------------------------

def main():
    args = sys.argv[1:]
    if not args:
        print(__doc__)
        return 2
    prop = args[0].upper()
    tier = os.environ.get("VERIF_TIER", "quick")
    replay = None
    i = 1
    while i < len(args):
        if args[i] == "--tier":
            tier = args[i + 1]
            i += 2
        elif args[i] == "--replay":
            replay = args[i + 1]
            i += 2
        else:
            i += 1
    seed = int(os.environ.get("VERIF_SEED", "0"))
    t0 = time.time()
    mod = importlib.import_module("props." + prop.lower())
    os.makedirs(os.path.join(ROOT, "evidence"), exist_ok=True)
    os.makedirs(os.path.join(ROOT, "replays"), exist_ok=True)

    b = build_all(prop, tier)
    if os.environ.get("VERIF_SKIP_PROOFS") == "1":      # development aid for writing generators; never used by registered commands
        b["proof_ok"] = True
        b["details"] = [d for d in b["details"] if "Props" not in d and "theorems" not in d]
    for d in b["details"]:
        print("check: " + d.replace("\n", "\n       "))
    violations = []     # (description, replay path or None)
    notes = []

    def write_replay(kind, payload):
        n = len(os.listdir(os.path.join(ROOT, "replays")))
        path = os.path.join(ROOT, "replays", "%s-%d-%d.json" % (prop, seed, n))
        save_case(path, dict(payload, property=prop, kind=kind, seed=seed, tier=tier))
        return path

    if not b["harness_ok"]:
        path = write_replay("build", {"what": "the harness does not build against /repo's working tree",
                                      "log": tail("cargo-debug.log", 40)})
        print("VIOLATION property=%s replay=%s no-failing-input-found" % (prop, path))
        write_evidence(prop, tier, seed, b, [], [], [], t0, 1, mod, ["harness build failed"])
        return 1

    # known findings
    kf_path = os.path.join(ROOT, "known_findings.json")
    known = [k for k in json.load(open(kf_path)) if k["property"] == prop] if os.path.exists(kf_path) else []
    known_active = [k for k in known if k["status"] == "known"]
    known_cases, fixed_cases = [], []
    for k in known:
        wp = os.path.join(ROOT, k["witness"])
        if not os.path.exists(wp):
            continue
        c = load_case(wp)
        c["id"] = "kf-" + k["id"]
        c["_kf"] = k
        (known_cases if k["status"] == "known" else fixed_cases).append(c)

    if replay:
        c = load_case(replay)
        c.setdefault("id", "replay")
        if "cluster" not in c:
            print("check: replay file names a proof obligation / correspondence, not an input: %s" % c.get("what", ""))
            return 1 if not b["proof_ok"] else 0
        cases = [c]
    else:
        rng = random.Random(seed * 1000003 + 17)
        corpus = []
        cdir = os.path.join(ROOT, "corpus", prop)
        if os.path.isdir(cdir):
            for fn in sorted(os.listdir(cdir)):
                if fn.endswith(".json"):
                    c = load_case(os.path.join(cdir, fn))
                    c["id"] = "corpus-" + fn[:-5]
                    corpus.append(c)
        cases = corpus + list(mod.gen(rng, tier))
        for n, c in enumerate(cases):
            c.setdefault("id", "%s-%d-%d" % (prop, seed, n))

    all_cases = fixed_cases + known_cases + cases
    results = run_cases(prop, all_cases) if b["model_ok"] else run_cases(prop, all_cases)
    byid = {r["id"]: r for r in results}
    case_by_id = {c["id"]: c for c in all_cases}

    def matches_known(failure):
        for k in known_active:
            if k["class"] in failure:
                return k
        return None

    # 1. fixed findings must stay fixed; known findings are announced
    for c in fixed_cases:
        r = byid.get(c["id"])
        if r and (r["fails"] or r.get("error")):
            path = write_replay("input", dict(c, _kf=None, why="a fixed finding is back: %s" % c["_kf"]["text"],
                                              failures=r["fails"]))
            violations.append(("fixed finding %s returned" % c["_kf"]["id"], path, False))
    for c in known_cases:
        r = byid.get(c["id"])
        k = c["_kf"]
        if r and any(k["class"] in f for f in r["fails"]):
            print("KNOWN-FINDING: property=%s %s" % (prop, k["text"]))
        else:
            notes.append("known finding %s: witness no longer fails (stale entry, suppresses nothing)" % k["id"])

    # 2. oracle failures on the implementation
    disagreeing = []
    for c in cases:
        r = byid.get(c["id"])
        if r is None:
            continue
        if r.get("error"):
            notes.append("case %s crashed the checker: %s" % (c["id"], r["error"][-300:]))
            continue
        new = [f for f in r["fails"] if not matches_known(f)]
        if new:
            path = write_replay("input", dict({k: v for k, v in c.items() if not k.startswith("_")},
                                              failures=new, disagreements=r["disagree"][:3]))
            violations.append(("property oracle failed: %s" % new[0][:200], path, False))
        # a disagreement on a case whose property failure is a listed known finding is explained by that finding
        if r["disagree"] and not (r["fails"] and not new):
            disagreeing.append((c, r))
    crashed = [r for r in results if r.get("error")]

    # 3. broken proof or broken correspondence without a failing input found
    found_input = any(not nf for (_, _, nf) in violations)
    if not b["proof_ok"] and not found_input:
        path = write_replay("proof-obligation", {"what": "theorems of Props/%s.v no longer check" % prop,
                                                 "details": b["details"], "log": tail("coq-props.log", 40)})
        violations.append(("proof obligations of %s no longer check" % prop, path, True))
    if disagreeing and not found_input:
        c, r = disagreeing[0]
        path = write_replay("correspondence", dict({k: v for k, v in c.items() if not k.startswith("_")},
                                                   what="model and implementation disagree (slice %s); the property oracle holds on every case explored"
                                                   % getattr(mod, "SLICE", prop),
                                                   disagreements=r["disagree"][:5],
                                                   n_disagreeing_cases=len(disagreeing)))
        violations.append(("correspondence %s broken on %d cases" % (getattr(mod, "SLICE", prop), len(disagreeing)), path, True))
    if crashed and not found_input and len(crashed) > len(cases) // 2:
        path = write_replay("checker", {"what": "the checker crashed on most cases", "error": crashed[0]["error"]})
        violations.append(("checker crashed", path, True))
    if not b["model_ok"] and not found_input and not violations:
        path = write_replay("proof-obligation", {"what": "the model does not build", "details": b["details"]})
        violations.append(("model does not build", path, True))

    for desc, path, nf in violations[:5]:
        print("VIOLATION property=%s replay=%s%s" % (prop, path, " no-failing-input-found" if nf else ""))
        print("  (%s)" % desc)
    for n in notes[:10]:
        print("note: " + n)
    write_evidence(prop, tier, seed, b, cases, results, all_cases, t0, len(violations), mod, notes)
    n_dis = sum(1 for r in results if r["disagree"])
    print("check %s: tier=%s seed=%d theorems=%d/%d cases=%d disagreements=%d violations=%d wall=%.1fs" %
          (prop, tier, seed, b["discharged"], b["obligations"], len(results), n_dis, len(violations), time.time() - t0))
    return 1 if violations else 0


def write_evidence(prop, tier, seed, b, cases, results, all_cases, t0, nviol, mod, notes):
    nt = {}
    for r in results:
        if r.get("nontrivial"):
            nt[r["digest"]] = 1
    stats = {}
    for r in results:
        for k, v in (r.get("stats") or {}).items():
            stats[k] = stats.get(k, 0) + v
    samples = []
    for c in cases[:3]:
        samples.append({"id": c["id"], "ops": [dumps(o["op"] if isinstance(o, dict) else o)[:300] for o in c["ops"][:8]],
                        "cluster": json.loads(json.dumps(to_json(c["cluster"])))})
    for t in b.get("theorems", [])[:40]:
        samples.append({"theorem": t})
    ev = {
        "property_id": prop, "tier": tier, "seed": seed, "level": "proof",
        "coverage": {
            "obligations": max(1, b["obligations"]), "discharged": b["discharged"],
            "checker_cmd": "make -C coq theories/Props/%s.vo (coqc 8.16.1, full .vo build; Print Assumptions audited%s)"
                           % (prop, "; coqchk -o" if tier == "thorough" else ""),
            "trusted_base": TRUSTED_BASE,
            "theorems": b.get("theorems", []),
            "evaluations": max(1, len(results)),
            "distinct_nontrivial": len(nt),
            "rule": getattr(mod, "RULE", ""),
            "traces_validated_against_impl": sum(1 for r in results if not r["disagree"] and not r.get("error")),
            "operations_compared": sum(r.get("nops", 0) for r in results),
            "disagreeing_cases": sum(1 for r in results if r["disagree"]),
            "input_distribution": stats,
            "samples": samples or [{"note": "no cases"}],
            "exhaustive": bool(getattr(mod, "EXHAUSTIVE", False)),
            "notes": notes[:10],
        },
        "assumptions": getattr(mod, "ASSUMPTIONS", []),
        "wall_s": round(time.time() - t0, 2),
        "violations": nviol,
    }
    with open(os.path.join(ROOT, "evidence", prop + ".json"), "w") as f:
        json.dump(ev, f, indent=1)


if __name__ == "__main__":
    sys.exit(main())
