#!/bin/bash
# seed_recheck.sh <SID> <PROPERTY> [more...]: re-runs the checks against an already stored seeded change /verif/seeded/<SID>/patch.diff
# (after the checks were strengthened, or - REBASED=1 - after the patch had to be carried over to a newer revision of /repo); same procedure and records as seed_run.sh.
SID=$1; shift
S=/verif/seeded/$SID
cd /verif
git -C /repo diff --quiet || { echo "/repo is not clean"; exit 2; }
git -C /repo apply $S/patch.diff || { echo "patch does not apply to /repo"; exit 2; }
RES=""
for P in "$@"; do
  rm -f replays/$P-*
  ./check $P --tier quick > $S/check-$P.log 2>&1
  RC=$?
  V=$(grep -c "^VIOLATION" $S/check-$P.log)
  NF=$(grep "^VIOLATION" $S/check-$P.log | grep -c "no-failing-input-found")
  FIRST=$(grep -A1 "^VIOLATION" $S/check-$P.log | sed -n 2p | cut -c1-220)
  echo "$SID on $P: exit=$RC violations=$V (without input: $NF) $FIRST"
  RES="$RES{\"property\":\"$P\",\"exit\":$RC,\"violation_lines\":$V,\"no_failing_input\":$NF},"
  R=$(grep "^VIOLATION" $S/check-$P.log | head -1 | sed 's/.*replay=\([^ ]*\).*/\1/')
  [ -n "$R" ] && [ -f "$R" ] && cp "$R" $S/replay-$P.json
done
git -C /repo checkout -- .
python3 - "$S" "[${RES%,}]" "$(git -C /repo rev-parse --short HEAD)" "${REBASED:-0}" <<'PY'
import json,sys
S,res,head=sys.argv[1],json.loads(sys.argv[2]),sys.argv[3]
m=json.load(open(S+'/meta.json'))
m["checks"]=res
if sys.argv[4] == "1":
    m["rebased"]="patch.diff carried over to /repo revision %s (the revision it was written against no longer matches src/protocol/fetch.rs); demonstration re-confirmed on that revision" % head
json.dump(m,open(S+'/meta.json','w'),indent=1)
PY
