#!/usr/bin/env python3
"""kproto -- independent reference implementation of the old ("v0" era, Kafka 0.8/0.9)
Apache Kafka wire protocol: request/response framing, the request and response bodies an
old client uses, message sets with magic 0, gzip and snappy (raw + xerial framing).

Written from the public protocol guide only; standard library only; deterministic.

Conventions: all integers big-endian two's complement.  string = int16 length + bytes
(-1 = null), bytes = int32 length + bytes (-1 = null), array = int32 count + elements
(-1 = null array).  In Python: strings/bytes fields are `bytes` or None, arrays are lists
or None, integers are ints.
"""
import struct
import zlib
import gzip  # only used by the self-test as a cross-check
import io    # noqa: F401  (kept available for callers; not needed internally)


class ProtoError(Exception):
    """Any malformed / non-conforming input (or un-encodable value)."""


# --------------------------------------------------------------------------- framing

def frame(payload: bytes) -> bytes:
    payload = bytes(payload)
    if len(payload) > 0x7FFFFFFF:
        raise ProtoError("frame: payload too large")
    return struct.pack(">i", len(payload)) + payload


def unframe(buf: bytes):
    """-> (payload, rest).  ProtoError if the size prefix or the payload is incomplete."""
    buf = bytes(buf)
    if len(buf) < 4:
        raise ProtoError("unframe: incomplete size prefix")
    (n,) = struct.unpack_from(">i", buf, 0)
    if n < 0:
        raise ProtoError("unframe: negative size %d" % n)
    if len(buf) < 4 + n:
        raise ProtoError("unframe: incomplete payload (%d of %d bytes)" % (len(buf) - 4, n))
    return buf[4:4 + n], buf[4 + n:]


# --------------------------------------------------------------------------- schema engine
# A type is one of: "i8" "i16" "i32" "i64" "str" "bytes", ("array", T), ("struct", [(name, T)...])

_INT = {"i8": (">b", 1), "i16": (">h", 2), "i32": (">i", 4), "i64": (">q", 8)}


def _S(*fields):
    return ("struct", list(fields))


def _A(t):
    return ("array", t)


def _TP(*pfields):
    """[TopicName [Partition <pfields>]]"""
    return _A(_S(("topic", "str"), ("partitions", _A(_S(("partition", "i32"), *pfields)))))


class _Reader:
    def __init__(self, buf):
        self.buf = bytes(buf)
        self.pos = 0

    def remaining(self):
        return len(self.buf) - self.pos

    def take(self, n, what="field"):
        if n < 0 or self.pos + n > len(self.buf):
            raise ProtoError("truncated %s: need %d bytes, have %d" % (what, n, self.remaining()))
        b = self.buf[self.pos:self.pos + n]
        self.pos += n
        return b

    def int(self, t, what="int"):
        fmt, n = _INT[t]
        return struct.unpack(fmt, self.take(n, what))[0]


def _dec(t, r, path):
    if isinstance(t, str):
        if t in _INT:
            return r.int(t, path)
        if t in ("str", "bytes"):
            n = r.int("i16" if t == "str" else "i32", path + ".len")
            if n == -1:
                return None
            if n < -1:
                raise ProtoError("%s: negative length %d" % (path, n))
            return r.take(n, path)
        raise AssertionError(t)
    if t[0] == "array":
        n = r.int("i32", path + ".count")
        if n == -1:
            return None
        if n < -1:
            raise ProtoError("%s: negative array count %d" % (path, n))
        if n > r.remaining():  # every element occupies at least one byte
            raise ProtoError("%s: array count %d exceeds remaining bytes" % (path, n))
        return [_dec(t[1], r, "%s[%d]" % (path, i)) for i in range(n)]
    if t[0] == "struct":
        return {name: _dec(ft, r, path + "." + name) for name, ft in t[1]}
    raise AssertionError(t)


def _enc(t, v, out, path):
    if isinstance(t, str):
        if t in _INT:
            if not isinstance(v, int) or isinstance(v, bool):
                raise ProtoError("%s: expected int, got %r" % (path, v))
            try:
                out.append(struct.pack(_INT[t][0], v))
            except struct.error:
                raise ProtoError("%s: %d out of range for %s" % (path, v, t))
            return
        if t in ("str", "bytes"):
            lt, mx = ("i16", 0x7FFF) if t == "str" else ("i32", 0x7FFFFFFF)
            if v is None:
                out.append(struct.pack(_INT[lt][0], -1))
                return
            if not isinstance(v, (bytes, bytearray)):
                raise ProtoError("%s: expected bytes or None, got %r" % (path, type(v)))
            if len(v) > mx:
                raise ProtoError("%s: too long for %s (%d)" % (path, t, len(v)))
            out.append(struct.pack(_INT[lt][0], len(v)))
            out.append(bytes(v))
            return
        raise AssertionError(t)
    if t[0] == "array":
        if v is None:
            out.append(struct.pack(">i", -1))
            return
        if not isinstance(v, (list, tuple)):
            raise ProtoError("%s: expected list or None, got %r" % (path, type(v)))
        out.append(struct.pack(">i", len(v)))
        for i, e in enumerate(v):
            _enc(t[1], e, out, "%s[%d]" % (path, i))
        return
    if t[0] == "struct":
        if not isinstance(v, dict):
            raise ProtoError("%s: expected dict, got %r" % (path, type(v)))
        for name, ft in t[1]:
            if name not in v:
                raise ProtoError("%s: missing field %r" % (path, name))
            _enc(ft, v[name], out, path + "." + name)
        return
    raise AssertionError(t)


# --------------------------------------------------------------------------- API tables

API_KEYS = {"produce": 0, "fetch": 1, "offsets": 2, "list_offsets": 2, "metadata": 3,
            "offset_commit": 8, "offset_fetch": 9, "group_coordinator": 10}

_OFFSET_FETCH_REQ = _S(("group", "str"),
                       ("topics", _A(_S(("topic", "str"), ("partitions", _A("i32"))))))

REQUEST_SCHEMAS = {
    ("produce", 0): _S(("acks", "i16"), ("timeout", "i32"),
                       ("topics", _TP(("message_set", "bytes")))),
    ("fetch", 0): _S(("replica_id", "i32"), ("max_wait", "i32"), ("min_bytes", "i32"),
                     ("topics", _TP(("offset", "i64"), ("max_bytes", "i32")))),
    ("offsets", 0): _S(("replica_id", "i32"),
                       ("topics", _TP(("time", "i64"), ("max_offsets", "i32")))),
    ("list_offsets", 1): _S(("replica_id", "i32"), ("topics", _TP(("time", "i64")))),
    ("metadata", 0): _S(("topics", _A("str"))),
    ("offset_commit", 0): _S(("group", "str"),
                             ("topics", _TP(("offset", "i64"), ("metadata", "str")))),
    ("offset_commit", 1): _S(("group", "str"), ("generation_id", "i32"), ("member_id", "str"),
                             ("topics", _TP(("offset", "i64"), ("timestamp", "i64"),
                                            ("metadata", "str")))),
    ("offset_commit", 2): _S(("group", "str"), ("generation_id", "i32"), ("member_id", "str"),
                             ("retention_time", "i64"),
                             ("topics", _TP(("offset", "i64"), ("metadata", "str")))),
    ("offset_fetch", 0): _OFFSET_FETCH_REQ,
    ("offset_fetch", 1): _OFFSET_FETCH_REQ,
    ("group_coordinator", 0): _S(("group", "str")),
}

_OFFSET_COMMIT_RESP = _S(("topics", _TP(("error", "i16"))))
_OFFSET_FETCH_RESP = _S(("topics", _TP(("offset", "i64"), ("metadata", "str"), ("error", "i16"))))

RESPONSE_SCHEMAS = {
    ("produce", 0): _S(("topics", _TP(("error", "i16"), ("offset", "i64")))),
    ("fetch", 0): _S(("topics", _TP(("error", "i16"), ("highwatermark", "i64"),
                                    ("message_set", "bytes")))),
    ("offsets", 0): _S(("topics", _TP(("error", "i16"), ("offsets", _A("i64"))))),
    ("list_offsets", 1): _S(("topics", _TP(("error", "i16"), ("timestamp", "i64"),
                                           ("offset", "i64")))),
    ("metadata", 0): _S(
        ("brokers", _A(_S(("node_id", "i32"), ("host", "str"), ("port", "i32")))),
        ("topics", _A(_S(("error", "i16"), ("topic", "str"),
                         ("partitions", _A(_S(("error", "i16"), ("id", "i32"), ("leader", "i32"),
                                              ("replicas", _A("i32")), ("isr", _A("i32")))))))),
    ),
    ("offset_commit", 0): _OFFSET_COMMIT_RESP,
    ("offset_commit", 1): _OFFSET_COMMIT_RESP,
    ("offset_commit", 2): _OFFSET_COMMIT_RESP,
    ("offset_fetch", 0): _OFFSET_FETCH_RESP,
    ("offset_fetch", 1): _OFFSET_FETCH_RESP,
    ("group_coordinator", 0): _S(("error", "i16"), ("coordinator_id", "i32"),
                                 ("host", "str"), ("port", "i32")),
}

_API_BY_KEY = {(API_KEYS[api], ver): api for (api, ver) in REQUEST_SCHEMAS}
assert len(_API_BY_KEY) == len(REQUEST_SCHEMAS)


def _schema(table, api, version, what):
    try:
        return table[(api, version)]
    except (KeyError, TypeError):
        raise ProtoError("unknown %s api/version: %r v%r" % (what, api, version))


# --------------------------------------------------------------------------- requests

def parse_request(payload: bytes) -> dict:
    r = _Reader(payload)
    api_key = r.int("i16", "api_key")
    api_version = r.int("i16", "api_version")
    correlation_id = r.int("i32", "correlation_id")
    client_raw = _dec("str", r, "client_id")
    api = _API_BY_KEY.get((api_key, api_version))
    if api is None:
        raise ProtoError("unknown api key/version: key=%d version=%d" % (api_key, api_version))
    body = _dec(REQUEST_SCHEMAS[(api, api_version)], r, api)
    if r.remaining():
        raise ProtoError("%s request: %d leftover bytes after body" % (api, r.remaining()))
    return {"api_key": api_key, "api_version": api_version, "correlation_id": correlation_id,
            "client_id": None if client_raw is None else client_raw.decode("latin-1"),
            "client_id_raw": client_raw, "api": api, "body": body}


def encode_request(api, version, correlation_id, client_id, body) -> bytes:
    sch = _schema(REQUEST_SCHEMAS, api, version, "request")
    out = []
    _enc("i16", API_KEYS[api], out, "api_key")
    _enc("i16", version, out, "api_version")
    _enc("i32", correlation_id, out, "correlation_id")
    _enc("str", client_id, out, "client_id")
    _enc(sch, body, out, api)
    return b"".join(out)


# --------------------------------------------------------------------------- responses

def encode_response(api: str, version: int, correlation_id: int, body: dict) -> bytes:
    sch = _schema(RESPONSE_SCHEMAS, api, version, "response")
    out = []
    _enc("i32", correlation_id, out, "correlation_id")
    _enc(sch, body, out, api)
    return b"".join(out)


def parse_response(api, version, payload):
    """-> (correlation_id, body); strict."""
    sch = _schema(RESPONSE_SCHEMAS, api, version, "response")
    r = _Reader(payload)
    correlation_id = r.int("i32", "correlation_id")
    body = _dec(sch, r, api)
    if r.remaining():
        raise ProtoError("%s response: %d leftover bytes after body" % (api, r.remaining()))
    return correlation_id, body


# --------------------------------------------------------------------------- message sets (magic 0)

CODECS = {"gzip": 1, "snappy": 2}
_CODEC_MASK = 0x07
_MSG_OVERHEAD = 4 + 1 + 1 + 4 + 4  # crc magic attr keylen valuelen


def crc32(data: bytes) -> int:
    return zlib.crc32(bytes(data)) & 0xFFFFFFFF


def _i8byte(v, what):
    if not isinstance(v, int) or isinstance(v, bool) or not -128 <= v <= 255:
        raise ProtoError("%s: %r does not fit in one byte" % (what, v))
    return v & 0xFF


def encode_message(offset, key, value, attr=0, magic=0, crc=None) -> bytes:
    out = [bytes([_i8byte(magic, "magic"), _i8byte(attr, "attr")])]
    _enc("bytes", key, out, "key")
    _enc("bytes", value, out, "value")
    body = b"".join(out)
    if crc is None:
        crc = crc32(body)
    try:
        return struct.pack(">qiI", offset, 4 + len(body), crc) + body
    except struct.error:
        raise ProtoError("encode_message: offset/crc out of range")


def encode_entries(entries, snappy_chunk=None, snappy_copies=False) -> bytes:
    out = []
    for e in entries:
        if e[0] == "plain":
            _, offset, key, value = e
            out.append(encode_message(offset, key, value))
        elif e[0] == "wrap":
            _, codec, offset, inner = e
            raw = encode_entries(inner, snappy_chunk, snappy_copies)
            if codec == "gzip":
                val = gzip_compress(raw)
            elif codec == "snappy":
                val = snappy_xerial_compress(raw, snappy_chunk, snappy_copies)
            else:
                raise ProtoError("unknown codec %r" % (codec,))
            out.append(encode_message(offset, None, val, attr=CODECS[codec]))
        else:
            raise ProtoError("unknown entry kind %r" % (e[0],))
    return b"".join(out)


def flatten_entries(entries):
    res = []
    for e in entries:
        if e[0] == "plain":
            res.append((e[1], e[2], e[3]))
        elif e[0] == "wrap":
            res.extend(flatten_entries(e[3]))
        else:
            raise ProtoError("unknown entry kind %r" % (e[0],))
    return res


def _parse_ms(data, strict):
    data = bytes(data)
    n, pos, res = len(data), 0, []
    while pos < n:
        if n - pos < 12:
            if strict:
                raise ProtoError("message set: partial entry header at %d" % pos)
            break
        offset, size = struct.unpack_from(">qi", data, pos)
        if size < _MSG_OVERHEAD:
            raise ProtoError("message set: bad message size %d at %d" % (size, pos))
        end = pos + 12 + size
        if end > n:
            if strict:
                raise ProtoError("message set: partial entry at %d (size %d, have %d)"
                                 % (pos, size, n - pos - 12))
            break
        r = _Reader(data[pos + 12:end])
        crc = struct.unpack(">I", r.take(4))[0]
        magic = r.int("i8")
        attr = r.int("i8")
        try:
            key = _dec("bytes", r, "key")
            value = _dec("bytes", r, "value")
        except ProtoError as ex:
            raise ProtoError("message set: entry at %d: %s" % (pos, ex))
        if r.remaining():
            raise ProtoError("message set: entry at %d: size %d but fields use %d"
                             % (pos, size, size - r.remaining()))
        res.append({"offset": offset, "size": size, "crc": crc,
                    "crc_ok": crc == crc32(data[pos + 16:end]), "magic": magic, "attr": attr,
                    "key": key, "value": value, "raw": data[pos:end]})
        pos = end
    return res, pos


def parse_message_set(data: bytes, strict: bool = True):
    return _parse_ms(data, strict)[0]


def parse_message_set_prefix(data: bytes):
    """Non-strict: -> (entries, consumed_bytes); stops at a partial trailing entry."""
    return _parse_ms(data, False)


_MAX_DEPTH = 16


def decode_message_set_deep(data: bytes, _depth=0):
    if _depth > _MAX_DEPTH:
        raise ProtoError("message set: wrappers nested too deep")
    res = []
    for m in parse_message_set(data, True):
        if m["magic"] != 0:
            raise ProtoError("message at offset %d: magic %d != 0" % (m["offset"], m["magic"]))
        if not m["crc_ok"]:
            raise ProtoError("message at offset %d: bad crc" % m["offset"])
        codec = m["attr"] & _CODEC_MASK
        if m["attr"] & ~_CODEC_MASK:
            raise ProtoError("message at offset %d: reserved attribute bits set" % m["offset"])
        if codec == 0:
            res.append((m["offset"], m["key"], m["value"]))
            continue
        if m["value"] is None:
            raise ProtoError("compressed wrapper at offset %d has null value" % m["offset"])
        if codec == 1:
            inner = gzip_decompress(m["value"])
        elif codec == 2:
            inner = snappy_xerial_decompress(m["value"])
        else:
            raise ProtoError("unsupported codec %d" % codec)
        res.extend(decode_message_set_deep(inner, _depth + 1))
    return res


# --------------------------------------------------------------------------- gzip

def gzip_compress(data: bytes) -> bytes:
    """Single-member RFC 1952 stream, hand-built header (mtime=0, xfl=0, os=255) so the
    output does not depend on the Python version's gzip module."""
    data = bytes(data)
    c = zlib.compressobj(6, zlib.DEFLATED, -15)
    deflated = c.compress(data) + c.flush()
    return (b"\x1f\x8b\x08\x00" + b"\x00\x00\x00\x00" + b"\x00\xff" + deflated
            + struct.pack("<II", crc32(data), len(data) & 0xFFFFFFFF))


def gzip_decompress(data: bytes) -> bytes:
    """Exactly one gzip member, no trailing bytes; header/crc/isize checked by zlib."""
    d = zlib.decompressobj(31)
    try:
        out = d.decompress(bytes(data)) + d.flush()
    except zlib.error as ex:
        raise ProtoError("gzip: %s" % ex)
    if not d.eof:
        raise ProtoError("gzip: truncated stream")
    if d.unused_data:
        raise ProtoError("gzip: %d trailing bytes after member" % len(d.unused_data))
    return out


# --------------------------------------------------------------------------- snappy (raw block)

def _varint(n):
    out = bytearray()
    while True:
        b = n & 0x7F
        n >>= 7
        if n:
            out.append(b | 0x80)
        else:
            out.append(b)
            return bytes(out)


def _emit_literal(out, data, start, end):
    while start < end:
        ln = min(end - start, 65536)
        if ln <= 60:
            out.append((ln - 1) << 2)
        elif ln <= 256:
            out.append(60 << 2)
            out.append(ln - 1)
        else:
            out.append(61 << 2)
            out += (ln - 1).to_bytes(2, "little")
        out += data[start:start + ln]
        start += ln


def _emit_copy(out, off, ln):
    while ln > 0:
        if off < 2048 and 4 <= ln <= 11:
            out.append(((off >> 8) << 5) | ((ln - 4) << 2) | 1)
            out.append(off & 0xFF)
            return
        t = min(ln, 64)
        out.append(((t - 1) << 2) | 2)
        out += off.to_bytes(2, "little")
        ln -= t


def snappy_compress(data: bytes, copies: bool = False) -> bytes:
    data = bytes(data)
    n = len(data)
    if n > 0xFFFFFFFF:
        raise ProtoError("snappy: input too large")
    out = bytearray(_varint(n))
    if not copies:
        _emit_literal(out, data, 0, n)
        return bytes(out)
    table = {}
    i = lit = 0
    while i + 4 <= n:
        k = data[i:i + 4]
        c = table.get(k)
        table[k] = i
        if c is not None and i - c <= 0xFFFF:
            m = 4
            while i + m < n and data[c + m] == data[i + m]:
                m += 1
            _emit_literal(out, data, lit, i)
            _emit_copy(out, i - c, m)
            i += m
            lit = i
        else:
            i += 1
    _emit_literal(out, data, lit, n)
    return bytes(out)


def snappy_decompress(data: bytes) -> bytes:
    data = bytes(data)
    n, pos, ulen, shift = len(data), 0, 0, 0
    while True:
        if pos >= n:
            raise ProtoError("snappy: truncated length preamble")
        b = data[pos]
        pos += 1
        ulen |= (b & 0x7F) << shift
        if not b & 0x80:
            break
        shift += 7
        if shift >= 35:
            raise ProtoError("snappy: length preamble longer than 5 bytes")
    if ulen > 0xFFFFFFFF:
        raise ProtoError("snappy: length preamble exceeds 32 bits")
    out = bytearray()
    while pos < n:
        tag = data[pos]
        pos += 1
        kind = tag & 3
        if kind == 0:
            ln = tag >> 2
            if ln >= 60:
                nb = ln - 59
                if pos + nb > n:
                    raise ProtoError("snappy: truncated literal length")
                ln = int.from_bytes(data[pos:pos + nb], "little")
                pos += nb
            ln += 1
            if pos + ln > n:
                raise ProtoError("snappy: truncated literal")
            out += data[pos:pos + ln]
            pos += ln
        else:
            nb = (1, 2, 4)[kind - 1]
            if pos + nb > n:
                raise ProtoError("snappy: truncated copy offset")
            if kind == 1:
                ln = 4 + ((tag >> 2) & 7)
                off = ((tag >> 5) << 8) | data[pos]
            else:
                ln = (tag >> 2) + 1
                off = int.from_bytes(data[pos:pos + nb], "little")
            pos += nb
            if off == 0 or off > len(out):
                raise ProtoError("snappy: copy offset %d invalid at output size %d" % (off, len(out)))
            start = len(out) - off
            if off >= ln:
                out += out[start:start + ln]
            else:  # overlapping copy: byte by byte semantics
                for j in range(ln):
                    out.append(out[start + j])
        if len(out) > ulen:
            raise ProtoError("snappy: output exceeds declared length %d" % ulen)
    if len(out) != ulen:
        raise ProtoError("snappy: output %d bytes, declared %d" % (len(out), ulen))
    return bytes(out)


# --------------------------------------------------------------------------- snappy (xerial framing)

XERIAL_MAGIC = b"\x82SNAPPY\x00"
XERIAL_VERSION = 1
XERIAL_COMPAT = 1


def xerial_frame(chunks) -> bytes:
    out = [XERIAL_MAGIC, struct.pack(">ii", XERIAL_VERSION, XERIAL_COMPAT)]
    for c in chunks:
        c = bytes(c)
        out.append(struct.pack(">i", len(c)))
        out.append(c)
    return b"".join(out)


def xerial_unframe(data: bytes):
    """-> list of raw-snappy chunks (still compressed)."""
    data = bytes(data)
    if data[:8] != XERIAL_MAGIC:
        raise ProtoError("xerial: bad magic")
    if len(data) < 16:
        raise ProtoError("xerial: truncated header")
    version, compat = struct.unpack_from(">ii", data, 8)
    if version != XERIAL_VERSION or compat != XERIAL_COMPAT:
        raise ProtoError("xerial: unsupported version=%d compat=%d" % (version, compat))
    pos, chunks = 16, []
    while pos < len(data):
        if pos + 4 > len(data):
            raise ProtoError("xerial: truncated chunk length")
        (ln,) = struct.unpack_from(">i", data, pos)
        pos += 4
        if ln < 0 or pos + ln > len(data):
            raise ProtoError("xerial: bad chunk length %d" % ln)
        chunks.append(data[pos:pos + ln])
        pos += ln
    return chunks


def snappy_xerial_compress(data: bytes, chunk=None, copies=False) -> bytes:
    data = bytes(data)
    if chunk is not None and chunk <= 0:
        raise ProtoError("snappy_xerial_compress: chunk must be positive")
    step = chunk if chunk is not None else max(len(data), 1)
    return xerial_frame([snappy_compress(data[i:i + step], copies)
                         for i in range(0, len(data), step)])


def snappy_xerial_decompress(data: bytes) -> bytes:
    data = bytes(data)
    if data[:8] == XERIAL_MAGIC:
        return b"".join(snappy_decompress(c) for c in xerial_unframe(data))
    return snappy_decompress(data)


# --------------------------------------------------------------------------- self-test

def _selftest():
    import random
    rng = random.Random(0x6B70726F)

    def must_fail(fn, *a, **kw):
        try:
            fn(*a, **kw)
        except ProtoError:
            return
        raise AssertionError("expected ProtoError from %s%r" % (fn.__name__, a))

    def rbytes(maxlen):
        return bytes(rng.randrange(256) for _ in range(rng.randrange(maxlen + 1)))

    def rnd(t):
        if isinstance(t, str):
            if t in _INT:
                bits = 8 * _INT[t][1]
                lo, hi = -(1 << (bits - 1)), (1 << (bits - 1)) - 1
                return rng.choice([lo, hi, 0, -1, 1, rng.randint(lo, hi), rng.randint(-300, 300) % (hi + 1)])
            k = rng.randrange(10)
            if k == 0:
                return None
            if k == 1:
                return b""
            if k == 2:
                return "töpic-中".encode("utf-8") + b"\xff\x00\x80"
            return rbytes(20 if t == "str" else 60)
        if t[0] == "array":
            k = rng.randrange(8)
            if k == 0:
                return None
            if k == 1:
                return []
            return [rnd(t[1]) for _ in range(rng.randrange(1, 4))]
        return {name: rnd(ft) for name, ft in t[1]}

    # -- framing
    assert frame(b"") == b"\0\0\0\0" and frame(b"abc") == b"\0\0\0\3abc"
    assert unframe(frame(b"abc") + b"xy") == (b"abc", b"xy")
    assert unframe(frame(b"")) == (b"", b"")
    for bad in (b"", b"\0\0", b"\0\0\0\3ab", b"\xff\xff\xff\xffabc"):
        must_fail(unframe, bad)

    # -- golden byte layouts (guard against a self-consistent but wrong field order)
    assert encode_request("metadata", 0, 1, b"c", {"topics": [b"t"]}) == bytes.fromhex(
        "0003 0000 00000001 0001 63 00000001 0001 74")
    assert encode_request("produce", 0, 2, None, {"acks": 1, "timeout": 1000, "topics": [
        {"topic": b"t", "partitions": [{"partition": 3, "message_set": b"MS"}]}]}) == bytes.fromhex(
        "0000 0000 00000002 ffff 0001 000003e8 00000001 0001 74 00000001 00000003 00000002 4d53")
    assert encode_request("fetch", 0, 3, b"", {"replica_id": -1, "max_wait": 100, "min_bytes": 1,
        "topics": [{"topic": b"t", "partitions": [{"partition": 0, "offset": 5, "max_bytes": 1024}]}]}) \
        == bytes.fromhex("0001 0000 00000003 0000 ffffffff 00000064 00000001 00000001 0001 74 "
                         "00000001 00000000 0000000000000005 00000400")
    assert encode_request("offset_commit", 1, 4, b"c", {"group": b"g", "generation_id": 7,
        "member_id": b"m", "topics": [{"topic": b"t", "partitions": [
            {"partition": 1, "offset": 2, "timestamp": -1, "metadata": None}]}]}) == bytes.fromhex(
        "0008 0001 00000004 0001 63 0001 67 00000007 0001 6d 00000001 0001 74 00000001 "
        "00000001 0000000000000002 ffffffffffffffff ffff")
    assert encode_request("offset_commit", 2, 4, b"c", {"group": b"g", "generation_id": 7,
        "member_id": b"m", "retention_time": -1, "topics": []}) == bytes.fromhex(
        "0008 0002 00000004 0001 63 0001 67 00000007 0001 6d ffffffffffffffff 00000000")
    assert encode_request("offsets", 0, 5, b"c", {"replica_id": -1, "topics": [{"topic": b"t",
        "partitions": [{"partition": 0, "time": -2, "max_offsets": 1}]}]}) == bytes.fromhex(
        "0002 0000 00000005 0001 63 ffffffff 00000001 0001 74 00000001 00000000 "
        "fffffffffffffffe 00000001")
    assert encode_request("group_coordinator", 0, 6, b"c", {"group": b"g"}) == bytes.fromhex(
        "000a 0000 00000006 0001 63 0001 67")
    assert encode_request("offset_fetch", 1, 6, b"c", {"group": b"g", "topics": [
        {"topic": b"t", "partitions": [9]}]}) == bytes.fromhex(
        "0009 0001 00000006 0001 63 0001 67 00000001 0001 74 00000001 00000009")
    assert encode_response("metadata", 0, 9, {"brokers": [{"node_id": 1, "host": b"h", "port": 9092}],
        "topics": [{"error": 0, "topic": b"t", "partitions": [
            {"error": 5, "id": 0, "leader": 1, "replicas": [1, 2], "isr": None}]}]}) == bytes.fromhex(
        "00000009 00000001 00000001 0001 68 00002384 00000001 0000 0001 74 00000001 "
        "0005 00000000 00000001 00000002 00000001 00000002 ffffffff")
    assert encode_response("fetch", 0, 1, {"topics": [{"topic": b"t", "partitions": [
        {"partition": 0, "error": 0, "highwatermark": 10, "message_set": b"X"}]}]}) == bytes.fromhex(
        "00000001 00000001 0001 74 00000001 00000000 0000 000000000000000a 00000001 58")
    assert encode_response("offset_fetch", 0, 1, {"topics": [{"topic": b"t", "partitions": [
        {"partition": 0, "offset": 3, "metadata": b"", "error": 3}]}]}) == bytes.fromhex(
        "00000001 00000001 0001 74 00000001 00000000 0000000000000003 0000 0003")
    assert encode_response("group_coordinator", 0, 1, {"error": 15, "coordinator_id": -1,
        "host": b"", "port": -1}) == bytes.fromhex("00000001 000f ffffffff 0000 ffffffff")
    assert encode_response("offsets", 0, 1, {"topics": [{"topic": b"t", "partitions": [
        {"partition": 0, "error": 0, "offsets": [7, 0]}]}]}) == bytes.fromhex(
        "00000001 00000001 0001 74 00000001 00000000 0000 00000002 0000000000000007 0000000000000000")
    assert encode_response("list_offsets", 1, 1, {"topics": [{"topic": b"t", "partitions": [
        {"partition": 0, "error": 0, "timestamp": -1, "offset": 7}]}]}) == bytes.fromhex(
        "00000001 00000001 0001 74 00000001 00000000 0000 ffffffffffffffff 0000000000000007")
    assert encode_response("produce", 0, 1, {"topics": [{"topic": b"t", "partitions": [
        {"partition": 0, "error": 6, "offset": -1}]}]}) == bytes.fromhex(
        "00000001 00000001 0001 74 00000001 00000000 0006 ffffffffffffffff")

    # -- random round trips of every request / response type
    for (api, ver), sch in sorted(REQUEST_SCHEMAS.items()):
        for it in range(60):
            body = rnd(sch)
            corr = rnd("i32")
            cid = rng.choice([None, b"", b"client", b"\xff\xfe\x00id", rbytes(30)])
            p = encode_request(api, ver, corr, cid, body)
            q = parse_request(p)
            assert q["api"] == api and q["api_key"] == API_KEYS[api] and q["api_version"] == ver
            assert q["correlation_id"] == corr and q["client_id_raw"] == cid and q["body"] == body
            assert q["client_id"] == (None if cid is None else cid.decode("latin-1"))
            assert encode_request(api, ver, corr, cid, q["body"]) == p
            assert unframe(frame(p)) == (p, b"")
            must_fail(parse_request, p + b"\0")
            must_fail(parse_request, p[:-1])
            if it < 5:
                for cut in range(len(p)):
                    must_fail(parse_request, p[:cut])
    for (api, ver), sch in sorted(RESPONSE_SCHEMAS.items()):
        for it in range(60):
            body = rnd(sch)
            corr = rnd("i32")
            p = encode_response(api, ver, corr, body)
            assert parse_response(api, ver, p) == (corr, body)
            must_fail(parse_response, api, ver, p + b"\0")
            must_fail(parse_response, api, ver, p[:-1])
    hdr = struct.pack(">hhih", 3, 0, 1, -1)
    assert parse_request(hdr + struct.pack(">i", 0))["body"] == {"topics": []}
    assert parse_request(hdr + struct.pack(">i", -1))["body"] == {"topics": None}
    must_fail(parse_request, hdr + struct.pack(">i", -2))               # bad array count
    must_fail(parse_request, hdr + struct.pack(">ih", 1, -2))           # bad string length
    must_fail(parse_request, hdr + struct.pack(">i", 1000))             # count > remaining
    must_fail(parse_request, struct.pack(">hhih", 3, 1, 1, -1) + struct.pack(">i", 0))  # version
    must_fail(parse_request, struct.pack(">hhih", 4, 0, 1, -1))         # unknown key
    must_fail(parse_request, struct.pack(">hhih", 2, 2, 1, -1))
    must_fail(encode_request, "offsets", 1, 0, None, {})
    must_fail(encode_request, "metadata", 0, 1 << 31, None, {"topics": []})
    must_fail(encode_request, "metadata", 0, 0, None, {"topics": ["str-not-bytes"]})
    must_fail(encode_request, "metadata", 0, 0, None, {})
    must_fail(encode_response, "produce", 1, 0, {"topics": []})

    # -- crc, messages
    assert crc32(b"123456789") == 0xCBF43926
    m = encode_message(5, None, b"hi")
    assert m[:12] == struct.pack(">qi", 5, 4 + 1 + 1 + 4 + 4 + 2)
    assert m[16:] == b"\x00\x00\xff\xff\xff\xff\x00\x00\x00\x02hi"
    assert m[12:16] == struct.pack(">I", crc32(m[16:]))
    assert encode_message(0, b"k", None, attr=2, crc=0xDEADBEEF)[12:] == \
        b"\xde\xad\xbe\xef\x00\x02\x00\x00\x00\x01k\xff\xff\xff\xff"
    pm = parse_message_set(m)[0]
    assert (pm["offset"], pm["size"], pm["magic"], pm["attr"], pm["key"], pm["value"], pm["crc_ok"],
            pm["raw"]) == (5, 16, 0, 0, None, b"hi", True, m)
    assert parse_message_set(b"") == [] and decode_message_set_deep(b"") == []

    def rentries(depth, base=0):
        es = []
        for _ in range(rng.randrange(0 if depth else 1, 5)):
            off = rng.choice([0, 1, (1 << 63) - 1, rng.randrange(1 << 40)])
            if depth < 3 and rng.randrange(3) == 0:
                es.append(("wrap", rng.choice(["gzip", "snappy"]), off, rentries(depth + 1)))
            else:
                key = rng.choice([None, b"", b"key", rbytes(10)])
                val = rng.choice([None, b"", b"abcd" * rng.randrange(40), rbytes(300)])
                es.append(("plain", off, key, val))
        return es

    fixed = [("plain", 0, None, b"a"),
             ("wrap", "gzip", 3, [("plain", 1, b"k", None),
                                  ("wrap", "snappy", 3, [("plain", 2, b"", b""),
                                                         ("wrap", "gzip", 3, [("plain", 3, b"x", b"y" * 500)])])]),
             ("wrap", "snappy", 9, []),
             ("wrap", "snappy", 5, [("plain", 4, None, None), ("plain", 5, b"kk", b"vv" * 100)])]
    assert flatten_entries(fixed) == [(0, None, b"a"), (1, b"k", None), (2, b"", b""),
                                      (3, b"x", b"y" * 500), (4, None, None), (5, b"kk", b"vv" * 100)]
    for es in [fixed] + [rentries(0) for _ in range(40)]:
        for chunk, copies in ((None, False), (None, True), (7, False), (50, True)):
            data = encode_entries(es, snappy_chunk=chunk, snappy_copies=copies)
            assert decode_message_set_deep(data) == flatten_entries(es)
            top = parse_message_set(data)
            assert len(top) == len(es) and all(t["crc_ok"] and t["magic"] == 0 for t in top)
            assert b"".join(t["raw"] for t in top) == data
            for t, e in zip(top, es):
                assert t["offset"] == e[1 if e[0] == "plain" else 2]
                assert t["attr"] == (0 if e[0] == "plain" else CODECS[e[1]])
                assert e[0] == "plain" or t["key"] is None
            assert parse_message_set_prefix(data) == (top, len(data))
            if data:
                cut = rng.randrange(len(data) - len(top[-1]["raw"]) + 1, len(data))
                must_fail(parse_message_set, data[:cut])
                must_fail(decode_message_set_deep, data[:cut])
                assert parse_message_set(data[:cut], strict=False) == top[:-1]
                assert parse_message_set_prefix(data[:cut]) == (top[:-1], len(data) - len(top[-1]["raw"]))
    two = encode_entries([("plain", 0, b"k", b"v"), ("plain", 1, None, b"w")])
    bad = bytearray(two)
    bad[-1] ^= 1
    assert [t["crc_ok"] for t in parse_message_set(bytes(bad))] == [True, False]
    must_fail(decode_message_set_deep, bytes(bad))
    bad = bytearray(two)
    bad[11] += 1  # first message claims one more byte than its fields use
    must_fail(parse_message_set, bytes(bad))
    must_fail(parse_message_set, bytes(bad), False)
    must_fail(parse_message_set, struct.pack(">qi", 0, 13) + b"\0" * 13)       # size < 14
    must_fail(parse_message_set, struct.pack(">qi", 0, -1) + b"\0" * 20, False)
    must_fail(decode_message_set_deep, encode_message(0, None, b"v", magic=1))
    must_fail(decode_message_set_deep, encode_message(0, None, b"v", attr=3))   # lz4 unsupported
    must_fail(decode_message_set_deep, encode_message(0, None, None, attr=1))   # null wrapper value
    must_fail(decode_message_set_deep, encode_message(0, None, b"junk", attr=1))
    must_fail(decode_message_set_deep, encode_message(0, None, b"\x05ab", attr=2))
    raw_snappy_wrapper = encode_message(1, None, snappy_compress(two), attr=2)  # unframed snappy
    assert decode_message_set_deep(raw_snappy_wrapper) == [(0, b"k", b"v"), (1, None, b"w")]

    # -- gzip
    for d in (b"", b"a", b"hello" * 1000, rbytes(500)):
        z = gzip_compress(d)
        assert z == gzip_compress(d) and z[:10] == b"\x1f\x8b\x08\x00\x00\x00\x00\x00\x00\xff"
        assert gzip_decompress(z) == d and gzip.decompress(z) == d
        assert gzip_decompress(gzip.compress(d)) == d
        for b in (z[:-1], z + b"\0", z + z, b"junk", b"", z[:-8] + b"\0" * 8 if d else b"x"):
            must_fail(gzip_decompress, b)

    # -- snappy raw
    assert snappy_compress(b"") == b"\x00" and snappy_decompress(b"\x00") == b""
    assert snappy_compress(b"abc") == b"\x03\x08abc"
    assert snappy_compress(b"x" * 61)[:3] == b"\x3d\xf0\x3c"
    assert snappy_compress(b"x" * 257)[:5] == b"\x81\x02\xf4\x00\x01"
    assert snappy_decompress(b"\x0a\x04ab\x1e\x02\x00") == b"ab" * 5          # copy, 2-byte offset
    assert snappy_decompress(b"\x0a\x04ab\x11\x02") == b"ab" * 5              # copy, 1-byte offset
    assert snappy_decompress(b"\x0a\x04ab\x1f\x02\x00\x00\x00") == b"ab" * 5  # copy, 4-byte offset
    assert snappy_decompress(b"\x05\xf8\x04\x00\x00hello") == b"hello"        # 3-byte literal length
    assert snappy_decompress(b"\x05\xfc\x04\x00\x00\x00hello") == b"hello"    # 4-byte literal length
    assert snappy_decompress(b"\x0c\x00a\x1d\x01") == b"a" * 12               # max copy1 len, overlap
    for bad in (b"", b"\x80", b"\x01", b"\x02\x00a", b"\x01\x04ab", b"\x05\x04ab\x1e\x00\x00",
                b"\x05\x04ab\x1e\x03\x00", b"\x04\x04ab\x1e\x02\x00", b"\x02\x04a", b"\x03\xf0",
                b"\x0a\x04ab\x1e\x02", b"\x80\x80\x80\x80\x80\x00", b"\xff\xff\xff\xff\x7f\x00a",
                b"\x04\x11\x02"):
        must_fail(snappy_decompress, bad)
    rep = (b"the quick brown fox " * 50 + bytes(range(256)) * 3) * 100
    for size in (0, 1, 2, 3, 4, 5, 59, 60, 61, 255, 256, 257, 2047, 2048, 2049, 65535, 65536, 65537, 70000):
        for d in (rep[:size], bytes(rng.randrange(256) for _ in range(size)), b"\0" * size):
            lit, cop = snappy_compress(d), snappy_compress(d, copies=True)
            assert snappy_decompress(lit) == d and snappy_decompress(cop) == d
            assert len(lit) == len(_varint(size)) + size + sum(
                1 if n <= 60 else 2 if n <= 256 else 3
                for n in [65536] * (size // 65536) + ([size % 65536] if size % 65536 else []))
    long_rep = rep[:70000]
    cop = snappy_compress(long_rep, copies=True)
    assert len(cop) < len(long_rep) // 4 and snappy_decompress(cop) == long_rep
    assert snappy_compress(b"abcdefgh" * 2, copies=True) == b"\x10\x1cabcdefgh\x11\x08"  # copy1
    assert snappy_compress(b"abcd" * 20, copies=True) == b"\x50\x0cabcd\xfe\x04\x00\x2e\x04\x00"  # copy2
    d = bytes(range(256)) * 20  # offset 256 (<2048) with long matches and a copy1-sized tail
    assert snappy_decompress(snappy_compress(d + d[:2100] + b"Z" + d[5:14], copies=True)) == \
        d + d[:2100] + b"Z" + d[5:14]

    # -- xerial
    hdr = b"\x82SNAPPY\x00\x00\x00\x00\x01\x00\x00\x00\x01"
    assert xerial_frame([]) == hdr and xerial_unframe(hdr) == []
    assert snappy_xerial_compress(b"") == hdr and snappy_xerial_decompress(hdr) == b""
    assert snappy_xerial_compress(b"abc") == hdr + b"\x00\x00\x00\x05\x03\x08abc"
    assert snappy_xerial_compress(b"abc", chunk=2) == hdr + b"\x00\x00\x00\x04\x02\x04ab" + b"\x00\x00\x00\x03\x01\x00c"
    assert xerial_unframe(xerial_frame([b"a", b"", b"bc"])) == [b"a", b"", b"bc"]
    for d in (b"", b"a", rep[:5000], rbytes(1000)):
        for chunk in (None, 1, 7, 1000, 5000, 9999):
            if chunk == 1 and len(d) > 1000:
                continue
            for copies in (False, True):
                x = snappy_xerial_compress(d, chunk, copies)
                assert snappy_xerial_decompress(x) == d
                want = 0 if not d else 1 if chunk is None else -(-len(d) // chunk)
                assert len(xerial_unframe(x)) == want
        assert snappy_xerial_decompress(snappy_compress(d)) == d  # raw fallback
    for bad in (hdr[:12], hdr + b"\0\0", hdr + b"\x00\x00\x00\x05\x03\x08ab", hdr + b"\xff\xff\xff\xff",
                hdr[:11] + b"\x02" + hdr[12:], hdr + b"\x00\x00\x00\x00", b"\x82SNAPPY\x01" + hdr[8:]):
        must_fail(snappy_xerial_decompress, bad)
    must_fail(xerial_unframe, b"\x03\x08abc")
    print("kproto selftest ok")


if __name__ == "__main__":
    _selftest()
