"""Cases: serialisable descriptions of a cluster, an operation script and a fault plan,
and their execution against harness + model."""
import json
import random
import struct

import kproto
from cluster import Cluster
from hrun import SimNet
from val import T, dumps, loads


# ---- JSON with bytes ---------------------------------------------------------------------
def to_json(x):
    if isinstance(x, T):
        return {"$v": dumps(x)}
    if isinstance(x, (bytes, bytearray)):
        return {"$b": bytes(x).hex()}
    if isinstance(x, dict):
        return {"$d": [[to_json(k), to_json(v)] for k, v in x.items()]}
    if isinstance(x, tuple):
        return {"$t": [to_json(v) for v in x]}
    if isinstance(x, list):
        return [to_json(v) for v in x]
    return x


def from_json(x):
    if isinstance(x, dict):
        if "$v" in x:
            return loads(x["$v"])
        if "$b" in x:
            return bytes.fromhex(x["$b"])
        if "$d" in x:
            return {_hashable(from_json(k)): from_json(v) for k, v in x["$d"]}
        if "$t" in x:
            return tuple(from_json(v) for v in x["$t"])
        return {k: from_json(v) for k, v in x.items()}
    if isinstance(x, list):
        return [from_json(v) for v in x]
    return x


def _hashable(k):
    return tuple(k) if isinstance(k, list) else k


def save_case(path, obj):
    with open(path, "w") as f:
        json.dump(to_json(obj), f, indent=1)


def load_case(path):
    with open(path) as f:
        return from_json(json.load(f))


# ---- building the cluster of a case ------------------------------------------------------------
def build_cluster(spec):
    cl = Cluster(spec["brokers"], spec["topics"], spec.get("logs"), spec.get("log_start"))
    for g, m in spec.get("committed", {}).items():
        cl.committed[g] = dict(m)
    cl.coordinator = dict(spec.get("coordinator", {}))
    for g, s in spec.get("coordinator_script", {}).items():
        cl.coordinator_script[g] = list(s)
    cl.commit_script = list(spec.get("commit_script", []))
    cl.group_fetch_script = list(spec.get("group_fetch_script", []))
    for inj in spec.get("inject", []):
        api, topic, part, code, uses = inj
        cl.inject.append((lambda a, t, p, api=api, topic=topic, part=part:
                          (api is None or a == api) and (topic is None or t == topic) and (part is None or p == part),
                          code, uses))
    order = spec.get("order")
    if order == "reversed":
        cl.topic_order = lambda xs: list(reversed(xs))
    elif isinstance(order, int):
        r = random.Random(order)
        cl.topic_order = lambda xs: r.sample(xs, len(xs))
    bt = spec.get("by_time")
    if bt is not None:
        cl.by_time = lambda topic, p, t: bt.get((topic, p), 0)
    return cl


HARNESS_ONLY = {"churn", "move_results", "drop_results", "reread_fetch", "reread_poll", "sleep_ms", "live_bytes"}


class Plan:
    """fault plan from data: {"write": {io_idx: k | ["fail", kind] | "intr"}, "read": {io_idx: n | "eof" | ["fail", kind] | "intr"},
    "write_chunk": n (accept at most n bytes per write), "read_chunk": n, "connect_fail": [hosts]}"""

    def __init__(self, spec):
        self.spec = spec or {}

    def on_connect(self, host):
        return host not in self.spec.get("connect_fail", [])

    def on_write(self, conn, data, idx):
        w = self.spec.get("write", {})
        if idx in w:
            a = w[idx]
            if a == "intr":
                return "intr"
            if isinstance(a, (list, tuple)):
                return ("fail", a[1])
            return min(a, len(data))
        c = self.spec.get("write_chunk")
        if c:
            return min(c, len(data))
        return len(data)

    def on_read(self, conn, n, idx):
        r = self.spec.get("read", {})
        if idx in r:
            a = r[idx]
            if a == "intr":
                return "intr"
            if a == "eof":
                return b""
            if isinstance(a, (list, tuple)):
                return ("fail", a[1])
            return conn.outq[:min(a, n)] if conn.outq else ("fail", "timeout")
        if not conn.outq:
            return ("fail", "timeout")
        c = self.spec.get("read_chunk")
        if c:
            return conn.outq[:min(c, n)]
        return conn.outq[:n]


def apply_mutation(mut, host, rq, reply):
    """reply mutations as data, applied to replies of the op they are attached to.
    mut: {"api": name|None, "host": host|None (only replies of that broker), "kind": "replace", "payload": bytes} | {"kind": "set_i32", "at": pos, "value": v} |
         {"kind": "truncate", "at": n} | {"kind": "flip", "bit": i} | {"kind": "body", "body": dict} (re-encode)"""
    if mut.get("api") is not None and rq["api"] != mut["api"]:
        return reply
    if mut.get("host") is not None and host != mut["host"]:
        return reply
    k = mut["kind"]
    if k == "replace":
        return mut["payload"]
    if k == "replace_keep_corr":
        return reply[:4] + mut["payload"]
    if k == "set_i32":
        at = mut["at"]
        return reply[:at] + struct.pack(">i", mut["value"]) + reply[at + 4:]
    if k == "set_i16":
        at = mut["at"]
        return reply[:at] + struct.pack(">h", mut["value"]) + reply[at + 2:]
    if k == "truncate":
        return reply[:mut["at"]]
    if k == "flip":
        i = mut["bit"]
        if i // 8 >= len(reply):
            return reply
        b = bytearray(reply)
        b[i // 8] ^= 1 << (i % 8)
        return bytes(b)
    if k == "body":
        return kproto.encode_response(rq["api"], rq["api_version"], rq["correlation_id"], mut["body"])
    raise ValueError(k)


def run_case(runner, case, stop_on_disagree=False):
    """-> (records, cluster, net). case: {"cluster": spec, "ops": [op | {"op": op, "mutate": mut, "raw_size": n, "plan": spec, "model_op": op}], "plan": spec, "unreachable": [...]}"""
    cl = build_cluster(case["cluster"])
    plan = Plan(case.get("plan")) if case.get("plan") else None
    net = SimNet(cl.handle, unreachable=case.get("unreachable", ()), plan=plan)
    net.replies = cl.replies
    runner.reset()
    recs = []
    for item in case["ops"]:
        if isinstance(item, dict):
            op = item["op"]
            mut = item.get("mutate")
            cl.mutate = (lambda h, rq, rep, mut=mut: apply_mutation(mut, h, rq, rep)) if mut else None
            rs = item.get("raw_size")
            net.raw_reply = (lambda h, p, rep, rs=rs: struct.pack(">i", rs) + (rep or b"")) if rs is not None else None
            if "plan" in item:
                net.plan = Plan(item["plan"]) if item["plan"] else plan
                net.io_idx = 0
            if "unreachable" in item:
                net.unreachable = set(item["unreachable"])
            if "inject" in item:
                for inj in item["inject"]:
                    api, topic, part, code, uses = inj
                    cl.inject.append((lambda a, t, p, api=api, topic=topic, part=part:
                                      (api is None or a == api) and (topic is None or t == topic) and (part is None or p == part),
                                      code, uses))
            model_op = item.get("model_op")
        else:
            op, model_op = item, None
            cl.mutate = None
            net.raw_reply = None
        if op.name in HARNESS_ONLY or (isinstance(item, dict) and item.get("impl_only")):
            # ops that only concern the harness's handling of results (C18): the model is not involved.
            # "impl_only": a call of the client whose data are too large for the extracted model to evaluate in reasonable time (a message
            # set of several MiB): it is run on the implementation and judged by the property oracle alone; it must be the last client
            # call of its case (the model does not follow it), and the evidence counts it separately
            nreq0, nrep0 = len(net.requests), len(getattr(net, "replies", []))
            res, maxalloc = runner.h.call(op, net)
            rec = {"op": op, "impl": res, "model": res, "impl_canon": res, "model_canon": res, "impl_trace": [], "model_trace": [],
                   "maxalloc": maxalloc, "requests": net.requests[nreq0:], "replies": getattr(net, "replies", [])[nrep0:],
                   "raw_events": net.take_events(), "leftover": {}, "unread": {},
                   "result_agree": True, "trace_agree": True, "agree": True, "impl_only": op.name not in HARNESS_ONLY}
        elif op.name == "consume_messageset":
            # the model has no MessageSets object: translate to the equivalent consume_message
            k = op.args[0]
            model_op = T("drop_nothing")
            last = None
            for r in reversed(recs):
                if r["op"].name == "poll":
                    last = r
                    break
            model_op = T("consumer_op", [T("group")])
            if last is not None and last["impl"].name == "ok":
                sets = last["impl"].args[0].args[1]
                if k < len(sets) and sets[k].args[2]:
                    s = sets[k]
                    model_op = T("consumer_op", [T("consume_message", [s.args[0], s.args[1], s.args[2][-1].args[0]])])
            rec = runner.run_op(op, net, model_op)
            # results differ in shape for the fallback op: compare only ok/err kind
            if model_op.args[0].name == "group":
                rec["agree"] = rec["impl"].name == "ok"
        else:
            rec = runner.run_op(op, net, model_op)
        recs.append(rec)
        if rec["impl"].name in ("panic", "hang", "abort", "harness_error"):
            break
        if stop_on_disagree and not rec["agree"]:
            break
    return recs, cl, net
