"""Runs the Rust harness (kvh) as a subprocess and plays the network for it."""
import os
import select
import time
import subprocess
import struct

from val import T, dumps, loads

BUILD = "/verif/.build"


def harness_bin(profile="debug"):
    return os.path.join(BUILD, "harness-target", profile, "kvh")


class Hang(Exception):
    pass


MAX_EVENTS = 20000


class Harness:
    def __init__(self, profile="debug", timeout=20.0):
        self.profile = profile
        self.timeout = timeout
        self.p = None
        self.deadline = None
        self.start()

    def start(self):
        self.p = subprocess.Popen([harness_bin(self.profile)], stdin=subprocess.PIPE,
                                  stdout=subprocess.PIPE, stderr=subprocess.DEVNULL, bufsize=0)
        self.buf = b""

    def close(self):
        if self.p is not None:
            try:
                self.p.stdin.close()
            except Exception:
                pass
            try:
                self.p.kill()
            except Exception:
                pass
            self.p.wait()
            self.p = None

    def _readline(self):
        while b"\n" not in self.buf:
            left = self.timeout if self.deadline is None else min(self.timeout, self.deadline - time.time())
            if left <= 0:
                raise Hang()
            r, _, _ = select.select([self.p.stdout], [], [], left)
            if not r:
                raise Hang()
            chunk = os.read(self.p.stdout.fileno(), 1 << 16)
            if not chunk:
                raise EOFError("harness died")
            self.buf += chunk
        line, self.buf = self.buf.split(b"\n", 1)
        return line.decode()

    def _send(self, v):
        self.p.stdin.write((dumps(v) + "\n").encode())

    def call(self, op, net):
        """-> (result val, max single allocation in bytes). Transport events are answered by `net`.
        A harness that hangs or dies is restarted; the result is then T('hang') / T('abort')."""
        try:
            # a call may not take longer than `timeout` in total nor perform more than MAX_EVENTS I/O events
            # (a retry loop without back-off that never gives up keeps the pipe busy for ever)
            self.deadline = time.time() + self.timeout
            self._send(op)
            n = 0
            while True:
                ev = loads(self._readline())
                if ev.name == "result":
                    self.deadline = None
                    return ev.args[0], ev.args[1]
                n += 1
                if n > MAX_EVENTS:
                    raise Hang()
                self._send(net.event(ev))
        except Hang:
            self.close()
            self.start()
            return T("hang"), 0
        except (EOFError, BrokenPipeError):
            code = self.p.poll()
            self.close()
            self.start()
            return T("abort", [code if code is not None else 0]), 0


class Conn:
    def __init__(self, host):
        self.host = host
        self.inbuf = b""   # request bytes accepted so far and not yet framed
        self.outq = b""    # reply bytes waiting to be read
        self.closed = False
        self.eof = False   # end of stream has been reported to a read: it stays (a real stream never resumes after it)


class SimNet:
    """Per-case network: hosts, connections, the broker callback and an optional fault plan.
    broker(host, payload) -> reply payload bytes | None   (None: nothing is sent back)
    plan: object with optional methods
        on_connect(host) -> bool
        on_write(conn, data, idx) -> int accepted | ('fail', kind) | 'intr'
        on_read(conn, n, idx) -> bytes | 'intr' | ('fail', kind)       (b'' = end of stream)
    Every raw event is recorded in self.events as a tagged val for the model replay."""

    def __init__(self, broker, unreachable=(), plan=None):
        self.broker = broker
        self.unreachable = set(unreachable)
        self.plan = plan
        self.conns = {}
        self.events = []
        self.io_idx = 0
        self.requests = []  # (host, payload) of every completely received frame
        self.raw_reply = None  # optional hook: (host, payload, reply) -> raw bytes to queue instead of frame(reply)

    def event(self, ev):
        n, a = ev.name, ev.args
        if n == "connect":
            cid, host = a
            ok = host not in self.unreachable
            if self.plan is not None and hasattr(self.plan, "on_connect"):
                ok = self.plan.on_connect(host) and ok
            if ok:
                self.conns[cid] = Conn(host)
            self.events.append(T("connect", [host, 1 if ok else 0]))
            return T("ok") if ok else T("fail")
        if n == "shutdown":
            c = self.conns[a[0]]
            c.closed = True
            self.events.append(T("shutdown", [c.host]))
            return T("ok")
        if n == "write":
            c = self.conns[a[0]]
            data = a[1]
            idx = self.io_idx
            self.io_idx += 1
            k = len(data)
            if self.plan is not None and hasattr(self.plan, "on_write"):
                k = self.plan.on_write(c, data, idx)
            if k == "intr":
                self.events.append(T("write", [c.host, data, T("intr")]))
                return T("intr")
            if isinstance(k, tuple):
                self.events.append(T("write", [c.host, data, T("fail", [T(k[1])])]))
                return T("fail", [T(k[1])])
            self.events.append(T("write", [c.host, data, T("wrote", [k])]))
            c.inbuf += data[:k]
            self._serve(c)
            return T("wrote", [k])
        if n == "read":
            c = self.conns[a[0]]
            want = a[1]
            idx = self.io_idx
            self.io_idx += 1
            if c.eof:
                r = b""
            elif self.plan is not None and hasattr(self.plan, "on_read"):
                r = self.plan.on_read(c, want, idx)
            elif c.outq:
                r = c.outq[:want]
            else:
                r = ("fail", "timeout")
            if r == "intr":
                self.events.append(T("read", [c.host, want, T("intr")]))
                return T("intr")
            if isinstance(r, tuple):
                self.events.append(T("read", [c.host, want, T("fail", [T(r[1])])]))
                return T("fail", [T(r[1])])
            r = bytes(r[:want])
            if want > 0 and not r:
                c.eof = True
            c.outq = c.outq[len(r):] if c.outq.startswith(r) else c.outq
            self.events.append(T("read", [c.host, want, T("data", [r])]))
            return T("data", [r])
        raise ValueError("unknown event %r" % (ev,))

    def _serve(self, c):
        while len(c.inbuf) >= 4:
            (size,) = struct.unpack(">i", c.inbuf[:4])
            if size < 0 or len(c.inbuf) < 4 + size:
                return
            payload = c.inbuf[4:4 + size]
            c.inbuf = c.inbuf[4 + size:]
            self.requests.append((c.host, payload))
            reply = self.broker(c.host, payload)
            if self.raw_reply is not None:
                c.outq += self.raw_reply(c.host, payload, reply)
            elif reply is not None:
                c.outq += struct.pack(">i", len(reply)) + reply

    def take_events(self):
        ev, self.events = self.events, []
        return ev
