#!/usr/bin/env python3
"""Writes MANIFEST.json from the table below (kept in one place so it stays valid)."""
import json
import os
import subprocess

ROOT = os.path.dirname(os.path.dirname(os.path.abspath(__file__)))

NOTE = ("Trusted base: Coq 8.16.1 kernel (vm_compute inside proofs, no native_compute); no axioms (Print Assumptions audited on every run, "
        "coqchk -o in the thorough tier); translator tools/gen_model.py; extraction with ExtrOcamlBasic only; the correspondence check "
        "(Rust harness, verif_hooks code, python reference cluster/codec, canonicalisation); std/byteorder/crc/flate2/snap/twox-hash "
        "modelled, not verified. Theorems are about the Gallina model (coq/theories/Model), which is tied to /repo's current source by "
        "running the extracted model and the real crate on the same generated cases on every run.")

CLAIMS = {
    # id: (text, technique, design_ref, extra note)
    "C11": ("The error-code table is proved for every integer against the enum regenerated from src/error.rs; each API's consultation "
            "point is proved to turn a non-zero code into the matching error with no data, at any position among healthy partitions; "
            "the model is run against the real crate for every code x API x position.",
            "Coq proof (table + per-API lemmas) over a model validated by differential execution",
            "DESIGN.md section 5 / C11", ""),
    "C12": ("explicit / keyed (= XXH32(key,0) mod N, a pure function of key and count) / keyless (an available partition; a window of "
            "|available| consecutive keyless records of one topic visits each once) / unknown (unassigned, rejected) are theorems about the "
            "partitioner model for all inputs; the per-topic rotation the wording asks for is refuted by a proved witness (shared counter, "
            "known finding F19) and at the 2^32 wrap; the model is run against real Producers, partitions read off the wire and compared "
            "with an independent XXH32.",
            "Coq proof over a model validated by differential execution; refutation witnesses for the part that does not hold",
            "DESIGN.md section 5 / C12", "C12_rotation holds for uninterrupted single-topic windows below the counter wrap (hypotheses in the statement)."),
}

NOT_YET = {}


def hook_commits():
    out = subprocess.run(["git", "-C", "/repo", "log", "--format=%H %s"], capture_output=True, text=True).stdout
    return [l.split()[0] for l in out.splitlines() if "verif_hooks" in l]


def main():
    props = [json.loads(l) for l in open(os.path.join(ROOT, "properties.jsonl"))]
    checks, na = [], []
    for p in props:
        pid = p["id"]
        if pid in CLAIMS:
            text, tech, ref, extra = CLAIMS[pid]
            checks.append({
                "property_id": pid,
                "quick_cmd": "./check %s --tier quick" % pid,
                "thorough_cmd": "./check %s --tier thorough" % pid,
                "evidence_file": "/verif/evidence/%s.json" % pid,
                "replay_cmd_template": "./check %s --replay {path}" % pid,
                "engine": "coq-model+differential-harness",
                "level_claimed": {"category": "proof", "text": text, "design_ref": ref},
                "level_note": (extra + " " if extra else "") + NOTE,
                "technique": tech,
            })
        else:
            na.append({"property_id": pid, "reason": NOT_YET.get(pid, "check not built yet in this session (model exists; theorems and generators in progress)")})
    m = {
        "version": 1,
        "setup_cmd": "tools/build.sh",
        "hooks": {
            "guard": "verif_hooks",
            "enable": "cargo feature: the harness crate depends on kafka = { path = \"/repo\", features = [\"verif_hooks\"] }",
            "baseline_off_cmd": "cd /repo && CARGO_NET_OFFLINE=true cargo test --workspace --lib --no-fail-fast --offline",
            "source_commits": hook_commits(),
            "add_only": True,
        },
        "engines": [{"name": "coq-model+differential-harness", "path": "/verif/check",
                     "serves_properties": sorted(CLAIMS), "kind_free_text":
                     "Coq 8.16 theorems about a Gallina model of the client; the extracted model and the real crate run on the same generated cases"}],
        "checks": checks,
        "not_applicable": na,
        "notes": "See DESIGN.md. Fix commits in /repo are listed in known_findings.json as fixed entries.",
    }
    with open(os.path.join(ROOT, "MANIFEST.json"), "w") as f:
        json.dump(m, f, indent=1)
    print("MANIFEST: %d checks, %d not applicable" % (len(checks), len(na)))


if __name__ == "__main__":
    main()
