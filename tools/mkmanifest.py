#!/usr/bin/env python3
"""Writes MANIFEST.json from the table below (kept in one place so it stays valid)."""
import json
import os
import subprocess

ROOT = os.path.dirname(os.path.dirname(os.path.abspath(__file__)))

NOTE = ("Trusted base: Coq 8.16.1 kernel (vm_compute inside proofs, no native_compute); no axioms (Print Assumptions audited on every run, "
        "coqchk -o in the thorough tier); translator tools/gen_model.py; extraction with ExtrOcamlBasic only; the correspondence check "
        "(Rust harness, verif_hooks code, python reference cluster/codec, canonicalisation); std/byteorder/crc/flate2/snap/twox-hash "
        "modelled, not verified. Theorems are about the Gallina model (coq/theories/Model), which is tied to /repo's current source by "
        "running the extracted model and the real crate on the same generated cases on every run.")

TECH = "Coq proof over a Gallina model of the code; model validated against the real crate by differential execution (extracted model vs harness) and an independent property oracle"

CLAIMS = {
    "C01": ("Poll bookkeeping is proved for every decoded reply: what is handed out (C01_iterate_complete/_order), where the next fetch starts "
            "(C01_offsets_advance: last delivered + 1, others unmoved), that a failed poll changes nothing (C01_failed_poll_keeps_offsets, "
            "C01_fetch_failure), emptiness flag = iteration (C01_empty_flag). The end-to-end statement 'delivered = log segment' over histories "
            "composes these with C02 and the broker; it is checked on the implementation by the oracle over generated histories.",
            TECH, "C01", "Hypothesis `sane` (reply lists only assigned topics / fetched partitions, no duplicates, offsets within i64). Known finding C01-late-reply (F17)."),
    "C02": ("C02_plain_prefix (uncompressed set, every cut: all complete messages >= offset), C02_wrapper_first/_cut, C02_chain (any nesting), "
            "C02_outside_known (gap-free prefix when no wrapper sits at an index > 0), C02_safe_always/_in_order_and_bounds for every well-formed set "
            "(never an error, never partial, in-order byte-identical sublist); C02_full_refuted / C02_nonempty_refuted document known finding F13.",
            TECH, "C02", "codec_ok: the decompressors invert the broker's compressor (snappy: for inputs below 1 GiB). Known finding C02-wrapper-not-first (F13)."),
    "C03": ("C03_plain / C03_wrapped / C03_none_in_request: the independent strict parser (exact sizes, magic 0, CRC recomputed) returns exactly the "
            "records, null stays null; one wrapper with null key, attribute = codec, value = compressor output of exactly the plain set; C03_reject, C03_no_panic.",
            TECH, "C03", "Hypothesis `fits` (key, value and rendered message below 2^31 bytes) is necessary: C03_size_cast_wraps."),
    "C04": ("From a complete theory of the CRC register (affine syndrome, T linear and invertible, order exactly 2^32-1): every burst <= 32 bits inside the "
            "covered bytes, every corruption of the field alone, every single- and double-bit flip is rejected, for any message length (double: < 2^32-32 bits), "
            "also inside sets and inside wrappers with intact outer CRC; validation off ignores the field. The straddling burst is refuted with a proved, delivered witness (F18).",
            TECH, "C04", "Known finding C04-straddling-burst (F18, wire format)."),
    "C05": ("C05_exactly_once, C05_single_set, C05_leader_only, C05_all_records_once, C05_noack_no_read, C05_confirms, C05_producer_same over all batches, layouts and host orders.",
            TECH, "C05", ""),
    "C06": ("Refinement of the index-based client state to an abstract view: C06_refines (= merge of the responses), C06_history over any load/reset history, "
            "C06_routing, addressing theorems, bootstrap theorems; invariants for every response.",
            TECH, "C06", "wf_md (partition ids a permutation of 0..n-1) for C06_refines; C06_refines_code for all responses; fewer than 2^32-1 brokers."),
    "C07": ("C07_start_valid/_invalid/_none and their lift to every assigned partition (C07_range_states*, C07_fallback_states).",
            TECH, "C07", "Known finding C07-leaderless-start (F22): C07_fallback_unreported_is_minus1."),
    "C08": ("C08_monotone, C08_dirty_set, C08_commit_content, C08_commit_clears_only_on_success, C08_dirty_persists, C08_load_roundtrip, C08_version.",
            TECH, "C08", "Relies on C07 (start offset), C19 (assignment), C14 (commit terminates)."),
    "C09": ("Per API: the independent request grammar parses the frame to exactly the arguments with nothing left over (_frame), encoders fail only with "
            "CodecError and only for over-long strings/arrays (_reject, _ok_iff); correlation ids strictly increase until the 2^30 wrap (C09_corr_sequence).",
            TECH, "C09", "Integers within wire width, unchecked `as i32` counts and the payload below 2^31 (C09_frame_oversize). Known finding C09-correlation-wrap (F20)."),
    "C10": ("Per response type: decoder o printer = view with the rest untouched, null = empty (_decode); merges accumulate everything (C10_merge_all, "
            "_merge_brokers, _offsets_exchange_all); fetch pass-through.",
            TECH, "C10", "C10_group_scan_all needs distinct topic names within one reply (C10_group_scan_all_refuted)."),
    "C11": ("The error-code table is proved for every integer against the enum regenerated from src/error.rs; each API's consultation point turns a non-zero "
            "code into the matching error with no data, at any position among healthy partitions.",
            TECH, "C11", ""),
    "C12": ("explicit / keyed (= XXH32(key,0) mod N, pure in key and count) / keyless (an available partition; a window of |available| consecutive keyless "
            "records of one topic visits each once) / unknown (unassigned, rejected); the per-topic rotation of the wording is refuted (shared counter, F19) and at the 2^32 wrap.",
            TECH, "C12", "C12_rotation: uninterrupted single-topic window below the counter wrap. Known finding C12-shared-counter (F19)."),
    "C13": ("All seven flat response decoders, the frame-size handling and update_metadata are total on every input; message-set / fetch decoding ends in "
            "Ok, Err or one of two characterised escapes; the consumer / producer layers panic only inside named known classes (_outside_known).",
            TECH, "C13", "Partial: stack exhaustion, allocator aborts and third-party crates are observed by the harness, not modelled. Known findings C13-expect-response-shape (F16), C13-snappy-declared-length, C13-offset-overflow-debug."),
    "C14": ("Attempt bounds (max(1,n), exact without interrupted writes), result characterisation, re-lookup after code 16 and termination of the three "
            "retry loops over all answer streams and all limits.",
            TECH, "C14", "Known findings C14-code15-not-retried, C14-lookup-14-16-not-retried (F21)."),
    "C15": ("C15_write_all_complete, C15_read_exact_complete/_eof, C15_exchange_complete (success only after the whole request was accepted and exactly "
            "4+size reply bytes were read), C15_total, C15_negative_size for every stream behaviour.",
            TECH, "C15", "Partial: real sockets/TLS are replaced by the scripted stream. Known finding C15-late-reply (F17): C15_attribution_refuted."),
    "C16": ("C16_*_last_wins, _independent, _applied, _create_uses for both builders in any call order incl. with_partitioner; C16_duration* (rejected, never wrapped).",
            TECH, "C16", ""),
    "C17": ("C17_double, _never_above_limit, _too_large, _requeue, _reset, _sequence, _sequence_bound (explicit bound log2_up(L/f)+2), _retry_alone, _disabled.",
            TECH, "C17", "0 < fetch size (C17_nonpositive_stalls shows it is necessary)."),
    "C18": ("Value/ownership part: the buffer the exposed views point into is kept alive by the result for sets of nesting depth <= 1 (C18_views_owned*, "
            "C18_level_le_depth), views are in-bounds sub-slices (C18_views_layout, C18_zread_exact); the check re-reads live results after moves, further calls "
            "and allocator churn. C18_nested_dangling_refuted documents the dangling views of nested batches (F13).",
            "Coq proof over an ownership model of the decoder + re-reading of live results in the harness", "C18",
            "Partial: address-level memory safety (moved Vec keeps its heap block, Drop frees once) is Rust semantics outside the model. Known finding C18-nested-dangling (F13)."),
    "C19": ("C19_from_map_sorted, C19_lookup (binary search = linear search on the sorted table, for every set of names), C19_determine, C19_builder_override, "
            "C19_foreign_seek/_consume, C19_*_assigned (only that key changes), C19_subscriptions.",
            TECH, "C19", ""),
    "C20": ("C20_*_known (every request entry is in the loaded metadata), C20_*_local_fail / _call_local_fail (error with an unchanged I/O trace), "
            "C20_fetch_silent, C20_topic_offsets_unknown, C20_after_reset*.",
            TECH, "C20", ""),
}

ENABLED = set(l.strip() for l in open(os.path.join(ROOT, "tools", "enabled.txt")) if l.strip()) \
    if os.path.exists(os.path.join(ROOT, "tools", "enabled.txt")) else set(CLAIMS)

NOT_YET = {}


def hook_commits():
    out = subprocess.run(["git", "-C", "/repo", "log", "--format=%H %s"], capture_output=True, text=True).stdout
    return [l.split()[0] for l in out.splitlines() if "verif_hooks" in l]


def main():
    props = [json.loads(l) for l in open(os.path.join(ROOT, "properties.jsonl"))]
    checks, na = [], []
    for p in props:
        pid = p["id"]
        if pid in CLAIMS and pid in ENABLED:
            text, tech, ref, extra = CLAIMS[pid]
            ref = "DESIGN.md section 5 / " + ref
            checks.append({
                "property_id": pid,
                "quick_cmd": "./check %s --tier quick" % pid,
                "thorough_cmd": "./check %s --tier thorough" % pid,
                "evidence_file": "/verif/evidence/%s.json" % pid,
                "replay_cmd_template": "./check %s --replay {path}" % pid,
                "engine": "coq-model+differential-harness",
                "level_claimed": {"category": "proof", "text": text, "design_ref": ref},
                "level_note": (extra + " " if extra else "") + NOTE,
                "technique": tech,
            })
        else:
            na.append({"property_id": pid, "reason": NOT_YET.get(pid, "check not built yet in this session (model exists; theorems and generators in progress)")})
    m = {
        "version": 1,
        "setup_cmd": "tools/build.sh",
        "hooks": {
            "guard": "verif_hooks",
            "enable": "cargo feature: the harness crate depends on kafka = { path = \"/repo\", features = [\"verif_hooks\"] }",
            "baseline_off_cmd": "cd /repo && CARGO_NET_OFFLINE=true cargo test --workspace --lib --no-fail-fast --offline",
            "source_commits": hook_commits(),
            "add_only": True,
        },
        "engines": [{"name": "coq-model+differential-harness", "path": "/verif/check",
                     "serves_properties": sorted(p for p in CLAIMS if p in ENABLED), "kind_free_text":
                     "Coq 8.16 theorems about a Gallina model of the client; the extracted model and the real crate run on the same generated cases"}],
        "checks": checks,
        "not_applicable": na,
        "notes": "See DESIGN.md. Fix commits in /repo are listed in known_findings.json as fixed entries.",
    }
    with open(os.path.join(ROOT, "MANIFEST.json"), "w") as f:
        json.dump(m, f, indent=1)
    print("MANIFEST: %d checks, %d not applicable" % (len(checks), len(na)))


if __name__ == "__main__":
    main()
