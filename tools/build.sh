#!/bin/bash
# Builds everything the checks need from files on disk: generated Coq files from /repo's
# current sources, the Coq development (full .vo), the extracted model driver, the harness.
# usage: build.sh [coq-target ...]   (default: the whole development)
set -e
cd "$(dirname "$0")/.."
ROOT=$PWD
mkdir -p .build/modeld .build/logs
python3 tools/gen_model.py
cd coq
if [ ! -f Makefile ] || [ _CoqProject -nt Makefile ]; then
  coq_makefile -f _CoqProject -o Makefile > /dev/null
fi
if [ $# -gt 0 ]; then
  timeout 3000 make -j16 "$@" > $ROOT/.build/logs/coq.log 2>&1 || { grep -v "^COQ\|^make" $ROOT/.build/logs/coq.log | tail -30; echo "build.sh: coq build failed"; exit 3; }
else
  timeout 3000 make -j16 > $ROOT/.build/logs/coq.log 2>&1 || { grep -v "^COQ\|^make" $ROOT/.build/logs/coq.log | tail -30; echo "build.sh: coq build failed"; exit 3; }
fi
# re-extract when the model changed
if [ ! -f $ROOT/.build/modeld/modeld ] || [ theories/Model/Text.vo -nt $ROOT/.build/modeld/modeld ] || [ $ROOT/modeld/main.ml -nt $ROOT/.build/modeld/modeld ]; then
  ( timeout 600 coqc -Q theories KV extraction/Extract.v > $ROOT/.build/logs/extract.log 2>&1 || true )
  test -f extraction/model.ml || { cat $ROOT/.build/logs/extract.log; echo "build.sh: extraction failed"; exit 3; }
  mv extraction/model.ml extraction/model.mli $ROOT/.build/modeld/
  rm -f extraction/Extract.vo extraction/Extract.glob extraction/.Extract.aux
  cp $ROOT/modeld/main.ml $ROOT/.build/modeld/
  ( cd $ROOT/.build/modeld && ocamlfind ocamlopt -O2 -w -a model.mli model.ml main.ml -o modeld > $ROOT/.build/logs/ocaml.log 2>&1 ) || { tail -20 $ROOT/.build/logs/ocaml.log; echo "build.sh: ocaml build failed"; exit 3; }
fi
cd $ROOT/harness
cp -n /repo/Cargo.lock Cargo.lock 2>/dev/null || true
CARGO_NET_OFFLINE=true cargo build --offline > $ROOT/.build/logs/cargo-debug.log 2>&1 || { grep -E "^error|-->" $ROOT/.build/logs/cargo-debug.log | head -20; echo "build.sh: harness (debug) build failed"; exit 4; }
CARGO_NET_OFFLINE=true cargo build --offline --release > $ROOT/.build/logs/cargo-release.log 2>&1 || { grep -E "^error|-->" $ROOT/.build/logs/cargo-release.log | head -20; echo "build.sh: harness (release) build failed"; exit 4; }
echo "build.sh: ok"
