#!/bin/bash
# seed_run.sh <ID> <PROPERTY> [more properties...]: copies the confirmed seeded change /tmp/mut/<ID>/out into /verif/seeded/<ID>/,
# applies its patch to /repo, runs the property checks (quick tier), undoes the patch straight afterwards, and records what happened.
ID=$1; shift
OUT=${SEED_OUT:-out}
SID=$ID; [ "$OUT" = out2 ] && SID=$ID-2; [ "$OUT" = out3 ] && SID=$ID-3; [ "$OUT" = out4 ] && SID=$ID-4; [ "$OUT" = out5 ] && SID=$ID-5; [ "$OUT" = out6 ] && SID=$ID-6; [ "$OUT" = out7 ] && SID=$ID-7; [ "$OUT" = out8 ] && SID=$ID-8
S=/verif/seeded/$SID
mkdir -p $S
cp /tmp/mut/$ID/$OUT/patch.diff /tmp/mut/$ID/$OUT/README.md $S/ 2>/dev/null
cp /tmp/mut/$ID/$OUT/demo.diff $S/ 2>/dev/null
cp /tmp/mut/$ID/$OUT/*.rs $S/ 2>/dev/null
cd /verif
git -C /repo diff --quiet || { echo "/repo is not clean"; exit 2; }
git -C /repo apply $S/patch.diff || { echo "patch does not apply to /repo"; exit 2; }
RES=""
for P in "$@"; do
  rm -f replays/$P-*
  ./check $P --tier quick > $S/check-$P.log 2>&1
  RC=$?
  V=$(grep -c "^VIOLATION" $S/check-$P.log)
  NF=$(grep "^VIOLATION" $S/check-$P.log | grep -c "no-failing-input-found")
  FIRST=$(grep -A1 "^VIOLATION" $S/check-$P.log | sed -n 2p | cut -c1-220)
  echo "$SID on $P: exit=$RC violations=$V (without input: $NF) $FIRST"
  RES="$RES{\"property\":\"$P\",\"exit\":$RC,\"violation_lines\":$V,\"no_failing_input\":$NF},"
  R=$(grep "^VIOLATION" $S/check-$P.log | head -1 | sed 's/.*replay=\([^ ]*\).*/\1/')
  [ -n "$R" ] && [ -f "$R" ] && cp "$R" $S/replay-$P.json
done
git -C /repo checkout -- .
python3 - "$SID" "$S" "[${RES%,}]" "/tmp/mut/$ID/$OUT/meta.json" <<'PY'
import json,sys,os
ID,S,res=sys.argv[1],sys.argv[2],json.loads(sys.argv[3])
mp=sys.argv[4]
m=json.load(open(mp)) if os.path.exists(mp) else {}
m.update({"id":ID,"breaks":m.get("property",ID),"confirmed":"patch keeps the 33 lib tests green (default and verif_hooks features); the demonstration fails with the patch and passes without it (tools/seed_verify.sh in a scratch worktree)",
          "ran":"git -C /repo apply patch.diff; ./check <property> --tier quick; git -C /repo checkout -- .","checks":res})
json.dump(m,open(S+'/meta.json','w'),indent=1)
PY
