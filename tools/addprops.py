#!/usr/bin/env python3
"""Appends theorems to an existing coq/theories/Props/Cxx.v, in the same form mkprops.py writes them:
statement as Coq's `Check` prints it for the lemma proved in a Proofs module, closed by `exact`, followed by Print Assumptions.

usage: addprops.py Cxx <Proofs module, e.g. Proofs.C14Extra> name1 [new=old ...]"""
import os
import re
import sys

sys.path.insert(0, os.path.dirname(os.path.abspath(__file__)))
from mkprops import COQ, coq_check  # noqa: E402


def main():
    prop, module = sys.argv[1], sys.argv[2]
    names = sys.argv[3:]
    path = os.path.join(COQ, "theories", "Props", prop + ".v")
    src = open(path).read()
    stmts_ = list(re.finditer(r"^From KV Require Import\s+((?:\w+(?:\.\w+)*\s+)*\w+(?:\.\w+)*)\.[ \t]*\n", src, re.M))
    imports = [m for st in stmts_ for m in st.group(1).split()]
    pairs = [(n.split("=")[0], n.split("=")[-1]) for n in names]
    mod = module.split(".")[-1]
    stmts = coq_check([m for m in imports if m != module] + [module], ["%s.%s" % (mod, old) for _, old in pairs])
    add = []
    if module not in imports:
        # the import goes after the last existing import line
        last = stmts_[-1]
        src = src[:last.end()] + "From KV Require Import %s.\n" % module + src[last.end():]
    for new, old in pairs:
        if re.search(r"^Theorem %s\b" % re.escape(new), src, re.M):
            sys.exit("addprops: %s already has a theorem %s" % (prop, new))
        if old not in stmts:
            sys.exit("addprops: no statement found for %s (have %s)" % (old, sorted(stmts)))
        add.append("Theorem %s :\n  %s." % (new, stmts[old]))
        add.append("Proof. exact (@%s.%s). Qed.\n" % (mod, old))
    for new, _ in pairs:
        add.append("Print Assumptions %s." % new)
    open(path, "w").write(src.rstrip("\n") + "\n\n" + "\n".join(add) + "\n")
    print("addprops: %s += %d theorems from %s" % (path, len(pairs), module))


if __name__ == "__main__":
    main()
