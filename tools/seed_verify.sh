#!/bin/bash
# seed_verify.sh <ID> [out|out2]: confirms in the scratch worktree /tmp/mut/<ID> that $OUT/patch.diff keeps the 33 tests green
# and that the demonstration fails with the change and passes without it. Leaves src/ unmodified.
ID=$1
OUT=${2:-out}
W=/tmp/mut/$ID
export CARGO_NET_OFFLINE=true CARGO_TARGET_DIR=/tmp/mut/target-shared
cd $W || exit 2
git checkout -q -- . ; git clean -qfd src tests examples 2>/dev/null
DEMO=$(python3 -c "
import json,re
c=json.load(open('$W/$OUT/meta.json'))['demo_cmd']
m=re.search(r'cargo test.*', c)
print(m.group(0) if m else c)")
echo "== $ID demo_cmd: $DEMO"
git apply $OUT/patch.diff || { echo "patch does not apply"; exit 1; }
T=$(cargo test --lib --offline 2>&1 | grep "test result" | head -1); echo "with patch, suite: $T"
cargo build --offline --features verif_hooks 2>&1 | tail -1
[ -f $OUT/demo.diff ] && git apply $OUT/demo.diff
( eval "$DEMO" ) > /tmp/mut/$ID.with.log 2>&1; RC1=$?
echo "demo with patch: rc=$RC1 $(grep 'test result' /tmp/mut/$ID.with.log | head -1)"
git checkout -q -- . ; git clean -qfd src tests examples 2>/dev/null
[ -f $OUT/demo.diff ] && git apply $OUT/demo.diff
( eval "$DEMO" ) > /tmp/mut/$ID.without.log 2>&1; RC2=$?
echo "demo without patch: rc=$RC2 $(grep 'test result' /tmp/mut/$ID.without.log | head -1)"
git checkout -q -- . ; git clean -qfd src tests examples 2>/dev/null
if [ $RC1 -ne 0 ] && [ $RC2 -eq 0 ] && echo "$T" | grep -q "33 passed; 0 failed"; then echo "CONFIRMED $ID"; else echo "NOT CONFIRMED $ID"; fi
