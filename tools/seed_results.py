#!/usr/bin/env python3
"""Writes seeded/RESULTS.md from seeded/*/meta.json and the check logs kept beside them."""
import glob
import json
import os
import re

ROOT = os.path.dirname(os.path.dirname(os.path.abspath(__file__)))
S = os.path.join(ROOT, "seeded")


def esc(s, n):
    s = " ".join(str(s).split()).replace("|", "\\|")
    return s if len(s) <= n else s[:n - 1] + "…"


rows = []
for d in sorted(glob.glob(os.path.join(S, "C*"))):
    if not os.path.isdir(d):
        continue
    sid = os.path.basename(d)
    m = json.load(open(os.path.join(d, "meta.json")))
    for log in sorted(glob.glob(os.path.join(d, "check-*.log"))):
        prop = re.search(r"check-(C\d+)\.log", log).group(1)
        text = open(log, errors="replace").read().splitlines()
        viol = [i for i, l in enumerate(text) if l.startswith("VIOLATION")]
        nofail = [i for i in viol if text[i].rstrip().endswith("no-failing-input-found")]
        if not viol:
            res, first = "missed", ""
        else:
            res = "caught with input" if len(nofail) < len(viol) else "caught, no failing input"
            j = [i for i in viol if i not in nofail][:1] or viol[:1]
            first = text[j[0] + 1].strip() if j[0] + 1 < len(text) else ""
        rows.append((sid, m.get("summary", ""), m.get("needs", ""), prop, res, first))

out = ["# Seeded changes: which check catches which", "",
       "Each change was written by an independent sub-agent that saw only the text of one property and a scratch worktree of /repo;",
       "it compiles, passes the 33 unit tests, and its own demonstration fails with the change and passes without (confirmed with",
       "`tools/seed_verify.sh`). `tools/seed_run.sh` applies it to /repo, runs the quick check(s), and undoes it. `Cxx` = round one,",
       "`Cxx-2` = round two (a different clause or mechanism of the same property). The table is written by `tools/seed_results.py`",
       "from the logs kept in each directory (`check-<property>.log`, `replay-<property>.json`).", "",
       "| seed | what it changes | needs | check | result | first line of the report |", "|---|---|---|---|---|---|"]
for r in rows:
    out.append("| %s | %s | %s | %s | %s | %s |" % (r[0], esc(r[1], 260), esc(r[2], 200), r[3], r[4], esc(r[5], 200)))
own = {}
for r in rows:
    if r[0].split("-")[0] == r[3]:
        own[r[0]] = r[4]
out += ["", "Own-property verdicts: %d seeds, %d caught with a concrete input, %d caught without input, %d missed." % (
    len(own), sum(1 for v in own.values() if v == "caught with input"),
    sum(1 for v in own.values() if v == "caught, no failing input"), sum(1 for v in own.values() if v == "missed")), ""]
hist = os.path.join(S, "HISTORY.md")
if os.path.exists(hist):
    out += open(hist).read().splitlines()
open(os.path.join(S, "RESULTS.md"), "w").write("\n".join(out) + "\n")
print("\n".join(out[-12:])[:3000])
