"""C13: no broker reply can crash the client: every call returns Ok or Err."""
import struct

import kproto
from val import T, dumps
from props.common import boot_ops, brokers, fp, pm

SLICE = "all decoders (Codecs/Responses/Snappy), Net framing, ClientState.update_metadata, Consumer/Producer layers under hostile replies"
RULE = ("one hostile reply per case, for every public operation (client calls, consumer creation/poll/commit, producer send), in debug and "
        "release builds: a 16/32-bit field at a byte position replaced by one of {-1,0,1,len-1,len,len+1,2^15-1,2^31-1,-2^31}; a bit flip; "
        "truncation at a byte; random bytes; frame size negative / huge / off by one; hostile snappy and gzip payloads, compressed sets nested "
        "2..9 and 1000 / 2000 levels deep (operations run on a 2 MiB thread stack); a rejected reply followed by group calls on a client with "
        "a single pooled connection; well-formed replies "
        "inconsistent with the request (unrequested topics/partitions, non-contiguous ids, empty answers). quick: positions sampled; thorough: "
        "every position of the first 160 reply bytes. non-trivial = the mutated reply differs from the honest one and was consumed by the call")
ASSUMPTIONS = ["stack exhaustion and allocator aborts show as process abort / watchdog in the harness; the model covers allocation REQUESTS and panic sites of kafka-rust's own code"]

T1 = b"t1"
VALUES = [-1, 0, 1, 2, 127, 128, 255, 32767, 65535, 2147483647, -2147483648]


def cluster_spec():
    return {"brokers": brokers(2), "topics": {T1: [1, 1], b"t2": [2]},
            "logs": {(T1, 0): [("plain", 0, b"k", b"v0"), ("wrap", "gzip", 2, [("plain", 1, None, b"g1"), ("plain", 2, b"x", b"g2")])],
                     (T1, 1): [("wrap", "snappy", 1, [("plain", 0, None, b"s0"), ("plain", 1, b"y", b"s1")])],
                     (b"t2", 0): [("plain", 0, None, b"w")]},
            "committed": {b"g": {(T1, 0): 1, (T1, 1): 0}}}


# (name, api whose reply is mutated, setup ops, the op under attack)
def targets():
    cons = [T("set_group_offset_storage", [1]),
            T("consumer_build", [T("from_client"), [T("with_group", [b"g"]), T("with_topic", [T1]), T("with_fallback_offset", [T("earliest")])]])]
    return [
        ("load_metadata", "metadata", [], T("load_metadata", [[T1]])),
        ("load_metadata_all", "metadata", [], T("load_metadata_all")),
        ("fetch_offsets", "offsets", [], T("fetch_offsets", [[T1, b"t2"], T("latest")])),
        ("list_offsets", "list_offsets", [], T("list_offsets", [[T1], T("earliest")])),
        ("fetch_messages", "fetch", [], T("fetch_messages", [[fp(T1, 0, 0), fp(T1, 1, 0), fp(b"t2", 0, 0)]])),
        ("produce", "produce", [], T("produce_messages", [1, 1, 0, [pm(T1, 0, b"a", b"b"), pm(T1, 1, None, b"c")]])),
        ("commit", "offset_commit", [T("set_group_offset_storage", [1])], T("commit_offsets", [b"g", [T("co", [T1, 0, 1])]])),
        ("commit_lookup", "group_coordinator", [T("set_group_offset_storage", [1])], T("commit_offsets", [b"g", [T("co", [T1, 0, 1])]])),
        ("group_fetch", "offset_fetch", [T("set_group_offset_storage", [0])], T("fetch_group_offsets", [b"g", [T("fgo", [T1, 0]), T("fgo", [T1, 1])]])),
        ("consumer_build_group", "offset_fetch", [T("set_group_offset_storage", [1])],
         T("consumer_build", [T("from_client"), [T("with_group", [b"g"]), T("with_topic", [T1])]])),
        ("consumer_build_offsets", "offsets", [T("set_group_offset_storage", [1])],
         T("consumer_build", [T("from_client"), [T("with_group", [b"g"]), T("with_topic", [T1])]])),
        ("poll", "fetch", cons, T("poll")),
        ("commit_consumed", "offset_commit", cons + [T("poll"), T("consumer_op", [T("consume_message", [T1, 0, 2])])],
         T("consumer_op", [T("commit_consumed")])),
        ("send", "produce", [T("producer_build", [T("from_client"), [T("with_required_acks", [1])]])], T("send", [[T("r", [T1, 0, b"k", b"v"])]])),
        ("send_all", "produce", [T("producer_build", [T("from_client"), [T("with_required_acks", [-1])]])],
         T("send_all", [[T("r", [T1, -1, b"k", b"v"]), T("r", [b"t2", 0, b"", b"v"])]])),
    ]


def hostile_fetch_bodies():
    """well-formed fetch replies with hostile / inconsistent content"""
    def fetch(parts):
        return {"topics": [{"topic": t, "partitions": ps} for t, ps in parts]}

    def part(p, ms, hw=10, err=0):
        return {"partition": p, "error": err, "highwatermark": hw, "message_set": ms}
    hdr = kproto.XERIAL_MAGIC + struct.pack(">ii", 1, 1)
    out = []
    # snappy declared length 4 GiB / 1 GiB / just below
    # declared lengths of exactly 1 GiB and just below (a declared 4 GiB behaves the same but costs 4 GiB of RAM per worker)
    for varint in (b"\x80\x80\x80\x80\x04",):
        v = hdr + struct.pack(">i", len(varint)) + varint
        out.append(("snappy-declared-length", fetch([(T1, [part(0, kproto.encode_message(0, None, v, attr=2))])])))
    # snappy chunk sizes
    for cs in (-1, 0, 1, 5, 2 ** 31 - 1):
        v = hdr + struct.pack(">i", cs) + b"\x01\x00a"
        out.append(("snappy-chunk-size", fetch([(T1, [part(0, kproto.encode_message(0, None, v, attr=2))])])))
    out.append(("snappy-bad-magic", fetch([(T1, [part(0, kproto.encode_message(0, None, b"notsnappy", attr=2))])])))
    out.append(("gzip-garbage", fetch([(T1, [part(0, kproto.encode_message(0, None, b"\x1f\x8b\x08garbage", attr=1))])])))
    out.append(("gzip-empty", fetch([(T1, [part(0, kproto.encode_message(0, None, b"", attr=1))])])))
    out.append(("codec-3", fetch([(T1, [part(0, kproto.encode_message(0, None, b"x", attr=3))])])))
    # message with trailing bytes inside its declared size (debug_assert)
    m = kproto.encode_message(0, b"k", b"v")
    m2 = m[:8] + struct.pack(">i", struct.unpack(">i", m[8:12])[0] + 3) + m[12:] + b"zzz"
    out.append(("trailing-bytes-in-message", fetch([(T1, [part(0, m2)])])))
    out.append(("magic-1", fetch([(T1, [part(0, kproto.encode_message(0, b"k", b"v", magic=1))])])))
    # extreme high-watermarks on a partition that delivers nothing (the consumer stands at offset >= 1 there): any arithmetic on the
    # field has to survive them
    for hw in (-2 ** 63, -2 ** 63 + 1, 2 ** 63 - 1, -1):
        out.append(("highwatermark-extreme", fetch([(T1, [part(0, b"", hw=hw), part(1, b"", hw=hw)])])))
    out.append(("offset-max", fetch([(T1, [part(0, kproto.encode_message(2 ** 63 - 1, b"k", b"v"))])])))
    out.append(("offset-min", fetch([(T1, [part(0, kproto.encode_message(-2 ** 63, b"k", b"v"))])])))
    # nesting
    # nesting: a few levels (what the decoder accepts), around its depth limit, and as deep as 64 KiB allow: the decoder recurses
    # once per level, so the depth a hostile broker can reach is what "overflows the stack" is about
    for levels in (2, 6, 7, 8, 9):
        inner = kproto.encode_message(0, None, b"deep")
        for k in range(levels):
            inner = kproto.encode_message(0, None, kproto.gzip_compress(inner) if k % 2 else kproto.snappy_xerial_compress(inner),
                                          attr=1 if k % 2 else 2)
        out.append(("nested-%d" % levels, fetch([(T1, [part(0, inner)])])))
    for levels in (1000, 2000):
        out.append(("nested-%d" % levels, fetch([(T1, [part(0, deep_gzip(levels))])])))
    # inconsistent with the request
    out.append(("unrequested-topic", fetch([(b"zzz", [part(0, b"")])])))
    out.append(("unrequested-partition", fetch([(T1, [part(7, kproto.encode_message(0, None, b"v"))])])))
    out.append(("duplicate-partition", fetch([(T1, [part(0, kproto.encode_message(0, None, b"a")), part(0, kproto.encode_message(1, None, b"b"))])])))
    out.append(("empty-reply", fetch([])))
    out.append(("null-topics", {"topics": None}))
    out.append(("negative-partition", fetch([(T1, [part(-1, b"")])])))
    return out


def deep_gzip(levels):
    """`levels` gzip wrappers inside one another; the inner ones use stored deflate blocks (49 bytes a level), the outermost one
    compresses them, so that 2000 levels still fit a 64 KiB reply"""
    import zlib

    def gz(data, level):
        c = zlib.compressobj(level, zlib.DEFLATED, 31)
        return c.compress(data) + c.flush()
    inner = kproto.encode_message(0, None, b"deep")
    for _ in range(levels - 1):
        inner = kproto.encode_message(0, None, gz(inner, 0), attr=1)
    return kproto.encode_message(0, None, gz(inner, 9), attr=1)


def hostile_other_bodies():
    out = []
    md = lambda brokers_, topics: {"brokers": brokers_, "topics": topics}
    b1 = [{"node_id": 1, "host": b"b1", "port": 9092}]
    ptn = lambda i, l: {"error": 0, "id": i, "leader": l, "replicas": [], "isr": []}
    out.append(("metadata", "md-noncontiguous", md(b1, [{"error": 0, "topic": T1, "partitions": [ptn(5, 1), ptn(-1, 1), ptn(2 ** 31 - 1, 1)]}])))
    out.append(("metadata", "md-dup-brokers", md(b1 + b1 + [{"node_id": 1, "host": None, "port": -1}], [{"error": 0, "topic": T1, "partitions": [ptn(0, 1), ptn(0, 9)]}])))
    out.append(("metadata", "md-null", {"brokers": None, "topics": None}))
    out.append(("metadata", "md-dup-topics", md(b1, [{"error": 0, "topic": T1, "partitions": [ptn(0, 1)]}, {"error": 0, "topic": T1, "partitions": []}])))
    out.append(("produce", "produce-empty", {"topics": []}))
    out.append(("produce", "produce-two-topics", {"topics": [{"topic": T1, "partitions": [{"partition": 0, "error": 0, "offset": 1}]},
                                                             {"topic": b"zz", "partitions": [{"partition": 0, "error": 0, "offset": 1}]}]}))
    out.append(("produce", "produce-no-partitions", {"topics": [{"topic": T1, "partitions": []}]}))
    out.append(("produce", "produce-two-partitions", {"topics": [{"topic": T1, "partitions": [{"partition": 0, "error": 0, "offset": 1}, {"partition": 1, "error": 0, "offset": 1}]}]}))
    out.append(("offset_fetch", "group-unrequested-topic", {"topics": [{"topic": b"zz", "partitions": [{"partition": 0, "offset": 5, "metadata": b"", "error": 0}]}]}))
    out.append(("offset_fetch", "group-offset-min", {"topics": [{"topic": T1, "partitions": [{"partition": 0, "offset": -2 ** 63, "metadata": None, "error": 0}]}]}))
    out.append(("offset_fetch", "group-unrequested-partition", {"topics": [{"topic": T1, "partitions": [{"partition": 9, "offset": 5, "metadata": b"", "error": 0}]}]}))
    out.append(("offsets", "offsets-empty", {"topics": []}))
    out.append(("offsets", "offsets-unrequested", {"topics": [{"topic": b"zz", "partitions": [{"partition": 3, "error": 0, "offsets": [1, 2, 3]}]}]}))
    out.append(("offsets", "offsets-null-array", {"topics": [{"topic": T1, "partitions": [{"partition": 0, "error": 0, "offsets": None}]}]}))
    out.append(("group_coordinator", "coord-null-host", {"error": 0, "coordinator_id": 7, "host": None, "port": -5}))
    out.append(("group_coordinator", "coord-unknown-broker", {"error": 0, "coordinator_id": 99, "host": b"b2", "port": 9093}))
    out.append(("offset_commit", "commit-empty", {"topics": []}))
    return out


def odd_metadata_bodies():
    """well-formed metadata replies that leave the client with an unusual view of the cluster; the calls made AFTERWARDS are under test"""
    md = lambda brokers_, topics: {"brokers": brokers_, "topics": topics}
    bs = [{"node_id": 1, "host": b"b1", "port": 9092}, {"node_id": 2, "host": b"b2", "port": 9093}]
    ptn = lambda i, l: {"error": 0 if l >= 0 else 5, "id": i, "leader": l, "replicas": [], "isr": []}
    tp = lambda t, ls: {"error": 0, "topic": t, "partitions": [ptn(i, l) for i, l in enumerate(ls)]}
    return [
        ("md-all-leaderless", md(bs, [tp(T1, [-1, -1]), tp(b"t2", [-1])])),
        ("md-one-leaderless", md(bs, [tp(T1, [-1, 1]), tp(b"t2", [2])])),
        ("md-leader-not-listed", md(bs, [tp(T1, [7, 7]), tp(b"t2", [9])])),
        ("md-no-brokers", md([], [tp(T1, [1, 1]), tp(b"t2", [2])])),
        ("md-no-partitions", md(bs, [tp(T1, []), tp(b"t2", [])])),
        ("md-no-topics", md(bs, [])),
        ("md-reversed-ids", md(bs, [{"error": 0, "topic": T1, "partitions": [ptn(1, 2), ptn(0, 1)]}, tp(b"t2", [2])])),
        ("md-many-partitions", md(bs, [tp(T1, [1, 2] * 40), tp(b"t2", [2])])),
    ]


def followups():
    """(name, ops) run after the odd metadata has been loaded"""
    prod = T("producer_build", [T("from_client"), [T("with_required_acks", [1])]])
    cons = T("consumer_build", [T("from_client"), [T("with_topic", [T1]), T("with_fallback_offset", [T("earliest")])]])
    return [
        ("send-keyless", [prod, T("send", [[T("r", [T1, -1, b"", b"v"])]]), T("send", [[T("r", [T1, -1, b"", b"w"])]])]),
        ("send-keyed", [prod, T("send", [[T("r", [T1, -1, b"key", b"v"])]])]),
        ("send-explicit", [prod, T("send_all", [[T("r", [T1, 0, b"", b"v"]), T("r", [T1, 1, b"k", b"v"]), T("r", [b"t2", 0, b"", b"v"])]])]),
        ("produce", [T("produce_messages", [1, 1, 0, [pm(T1, 0, b"a", b"b"), pm(T1, 1, None, b"c")]])]),
        ("fetch_messages", [T("fetch_messages", [[fp(T1, 0, 0), fp(T1, 1, 0), fp(b"t2", 0, 0)]])]),
        ("fetch_offsets", [T("fetch_offsets", [[T1, b"t2"], T("latest")]), T("fetch_topic_offsets", [T1, T("earliest")])]),
        ("consumer", [cons, T("poll"), T("poll")]),
        ("commit", [T("set_group_offset_storage", [1]), T("commit_offsets", [b"g", [T("co", [T1, 0, 1]), T("co", [T1, 1, 1])]]),
                    T("fetch_group_offsets", [b"g", [T("fgo", [T1, 0]), T("fgo", [T1, 1])]])]),
    ]


def make_followup_case(label, body, fname, fops, profile):
    spec = cluster_spec()
    item = {"op": T("load_metadata_all"), "mutate": {"kind": "body", "body": body, "api": "metadata"}}
    return {"cluster": spec, "ops": boot_ops(spec) + [item] + list(fops), "profile": profile,
            "meta": {"target": "after:" + fname, "api": "metadata", "label": label}}


def make_case(name, api, setup, op, mut, profile, label, raw_size=None):
    spec = cluster_spec()
    item = {"op": op}
    if mut is not None:
        item["mutate"] = dict(mut, api=api)
    if raw_size is not None:
        item["raw_size"] = raw_size
    return {"cluster": spec, "ops": boot_ops(spec) + list(setup) + [item], "profile": profile,
            "meta": {"target": name, "api": api, "label": label}}


def gen(rng, tier):
    cases = []
    tg = targets()
    profiles = ["debug", "release"]
    for (name, api, setup, op) in tg:
        plist = []
        positions = list(range(0, 160)) if tier == "thorough" else sorted(rng.sample(range(0, 120), 14))
        for pos in positions:
            vals = VALUES if tier == "thorough" else rng.sample(VALUES, 3)
            for v in vals:
                plist.append(({"kind": "set_i32", "at": pos, "value": max(-2 ** 31, min(2 ** 31 - 1, v))}, "set_i32"))
            for v in ([-1, 0, 1, 32767, -32768] if tier == "thorough" else rng.sample([-1, 0, 1, 32767, -32768], 1)):
                plist.append(({"kind": "set_i16", "at": pos, "value": v}, "set_i16"))
        for pos in (range(0, 200) if tier == "thorough" else sorted(rng.sample(range(0, 160), 10))):
            plist.append(({"kind": "truncate", "at": pos}, "truncate"))
        for _ in range(200 if tier == "thorough" else 10):
            plist.append(({"kind": "flip", "bit": rng.randrange(0, 1200)}, "flip"))
        for _ in range(40 if tier == "thorough" else 4):
            n = rng.choice([0, 1, 3, 4, 7, 8, 20, 100, 1000])
            plist.append(({"kind": "replace", "payload": bytes(rng.getrandbits(8) for _ in range(n))}, "random"))
        for (mut, label) in plist:
            cases.append(make_case(name, api, setup, op, mut, rng.choice(profiles), label))
        for rs in [-1, -2 ** 31, 2 ** 31 - 1, 2 ** 30, 0, 1, 3, 70000]:
            cases.append(make_case(name, api, setup, op, None, rng.choice(profiles), "frame-size", raw_size=rs))
    for prof in profiles:
        for (label, body) in hostile_fetch_bodies():
            if label == "snappy-declared-length" and prof == "debug":
                continue      # zero-filling 1 GiB in an unoptimised build outlasts the watchdog; the release build shows the request
            for (name, api, setup, op) in tg:
                if api == "fetch":
                    if label == "snappy-declared-length" and name != "fetch_messages":
                        continue      # one 1 GiB request per run is enough (memory)
                    cases.append(make_case(name, api, setup, op, {"kind": "body", "body": body}, prof, label))
        for (api_, label, body) in hostile_other_bodies():
            for (name, api, setup, op) in tg:
                if api == api_:
                    cases.append(make_case(name, api, setup, op, {"kind": "body", "body": body}, prof, label))
    for i, (label, body) in enumerate(odd_metadata_bodies()):
        for j, (fname, fops) in enumerate(followups()):
            for prof in (profiles if tier == "thorough" else [profiles[(i + j) % 2]]):
                cases.append(make_followup_case(label, body, fname, fops, prof))
    # a broker that answers a retryable group code for ever, for every retry limit incl. 0 and 1: the call must come back
    for limit in (0, 1, 3):
        for (what, code) in (("lookup", 15), ("commit", 14), ("commit", 16), ("group_fetch", 14), ("group_fetch", 16)):
            spec = cluster_spec()
            spec["coordinator"] = {b"g": 1}
            if what == "lookup":
                spec["coordinator_script"] = {b"g": [code] * 60}
            else:
                spec["inject"] = [("offset_commit" if what == "commit" else "offset_fetch", None, None, code, -1)]
            call = (T("commit_offsets", [b"g", [T("co", [T1, 0, 1])]]) if what == "commit"
                    else T("fetch_group_offsets", [b"g", [T("fgo", [T1, 0]), T("fgo", [T1, 1])]]))
            cons = T("consumer_build", [T("from_client"), [T("with_group", [b"g"]), T("with_topic", [T1])]])
            for op in (call, cons):
                cases.append({"cluster": spec, "ops": boot_ops(spec) + [T("set_group_offset_storage", [1]), T("set_retry_max_attempts", [limit]), op],
                              "profile": profiles[(limit + code) % 2],
                              "meta": {"target": "%s-answers-%d-forever/limit-%d/%s" % (what, code, limit, op.name), "api": "group", "label": "persistent-retryable"}})
    # state left by an earlier reply of another API: a group's coordinator is cached, then a full reload answers with fewer (or other,
    # or reordered) brokers, then the group is used again
    b1 = {"node_id": 1, "host": b"b1", "port": 9092}
    b2 = {"node_id": 2, "host": b"b2", "port": 9093}
    tp1 = lambda ls: {"error": 0, "topic": T1, "partitions": [{"error": 0 if l >= 0 else 5, "id": i, "leader": l, "replicas": [], "isr": []} for i, l in enumerate(ls)]}
    reloads = [("fewer-brokers", {"brokers": [b1], "topics": [tp1([1, 1])]}),
               ("no-brokers", {"brokers": [], "topics": [tp1([-1, -1])]}),
               ("other-broker", {"brokers": [{"node_id": 9, "host": b"b1", "port": 9092}], "topics": [tp1([9, 9])]}),
               ("reordered", {"brokers": [b2, b1], "topics": [tp1([1, 1])]})]
    for coord in (1, 2):
        for (label, body) in reloads:
            for k, after in enumerate(([T("commit_offsets", [b"g", [T("co", [T1, 0, 2])]])],
                                       [T("fetch_group_offsets", [b"g", [T("fgo", [T1, 0])]]), T("fetch_group_topic_offset", [b"g", T1])])):
                spec = cluster_spec()
                spec["coordinator"] = {b"g": coord}
                ops = boot_ops(spec) + [T("set_group_offset_storage", [1]), T("commit_offsets", [b"g", [T("co", [T1, 0, 1])]]),
                                        {"op": T("load_metadata_all"), "mutate": {"kind": "body", "body": body, "api": "metadata"}}] + after
                cases.append({"cluster": spec, "ops": ops, "profile": profiles[(coord + k) % 2],
                              "meta": {"target": "group-call-after-reload/coordinator-%d" % coord, "api": "metadata", "label": "reload-" + label}})
    # state that must survive a call which FAILED as it should: one broker (so one pooled connection), a reply the client rejects,
    # then - with nothing in between that could open another connection - calls whose own replies are flawless
    def one_broker_spec():
        return {"brokers": brokers(1), "topics": {T1: [1, 1], b"t2": [1]},
                "logs": {(T1, 0): [("plain", 0, b"k", b"v0")], (T1, 1): [("plain", 0, None, b"s0")], (b"t2", 0): [("plain", 0, None, b"w")]},
                "committed": {b"g": {(T1, 0): 1, (T1, 1): 0}}, "coordinator": {b"g": 1}}
    rejected = [("offsets", T("fetch_offsets", [[T1, b"t2"], T("latest")]), {"kind": "set_i32", "at": 4, "value": 2147483647}, "count-max"),
                ("offsets", T("fetch_offsets", [[T1, b"t2"], T("latest")]), {"kind": "replace", "payload": b"\x00\x00\x00\x07\xff\xff"}, "garbage"),
                ("metadata", T("load_metadata", [[T1]]), {"kind": "set_i16", "at": 12, "value": 32767}, "string-length"),
                ("fetch", T("fetch_messages", [[fp(T1, 0, 0), fp(T1, 1, 0)]]), {"kind": "flip", "bit": 8 * 60 + 3}, "bit-flip"),
                ("produce", T("produce_messages", [1, 1, 0, [pm(T1, 0, b"a", b"b")]]), {"kind": "set_i32", "at": 4, "value": -2147483648}, "count-min")]
    afters = [("commit", [T("commit_offsets", [b"g", [T("co", [T1, 0, 2])]])]),
              ("group-fetch", [T("fetch_group_offsets", [b"g", [T("fgo", [T1, 0])]]), T("fetch_group_topic_offset", [b"g", T1])]),
              ("consumer", [T("consumer_build", [T("from_client"), [T("with_group", [b"g"]), T("with_topic", [T1])]]), T("poll"),
                            T("consumer_op", [T("commit_consumed")])])]
    for i, (api, op, mut, label) in enumerate(rejected):
        for j, (aname, after) in enumerate(afters):
            spec = one_broker_spec()
            ops = boot_ops(spec) + [T("set_group_offset_storage", [1]), {"op": op, "mutate": dict(mut, api=api)}] + after
            cases.append({"cluster": spec, "ops": ops, "profile": profiles[(i + j) % 2],
                          "meta": {"target": "%s-after-rejected-%s" % (aname, api), "api": api, "label": "rejected-" + label}})
    for n, c in enumerate(cases):
        c["id"] = "C13-%d-%s-%s" % (n, c["meta"]["target"], c["meta"]["label"])
    return cases


KNOWN = [
    ("C13-expect-response-shape:", [b"unknown topic in response", b"non-requested partition", b"non-assigned topic",
                                    b"assertion `left == right` failed", b"assertion failed", b"available connection"]),
    ("C13-debug-assert-trailing:", [b"r.is_empty()"]),
    ("C13-offset-overflow-debug:", [b"attempt to add with overflow", b"attempt to subtract with overflow"]),
]


def oracle(case, recs, cl):
    last = recs[-1]
    res = last["impl"]
    m = case["meta"]
    what = "%s/%s(%s)" % (m["target"], m["label"], case.get("profile", "debug"))
    fails = []
    if last["maxalloc"] >= (1 << 30) or res.name == "abort":
        if m["label"] == "snappy-declared-length":
            fails.append("C13-snappy-declared-length: %s asked for a single allocation of %d bytes" % (what, last["maxalloc"]))
        else:
            fails.append("C13: %s asked for a single allocation of %d bytes (or aborted: %s)" % (what, last["maxalloc"], dumps(res)[:60]))
    if res.name == "hang":
        if m["label"] == "snappy-declared-length":
            fails.append("C13-snappy-declared-length: %s was still filling the declared 1 GiB when the watchdog fired" % what)
        else:
            fails.append("C13: %s did not return (watchdog)" % what)
    if res.name == "panic":
        msg = res.args[0]
        # F16's `get_conn_any().expect("available connection")` is the known finding only where the unchanged code can get there: no
        # connection was ever opened by this client, or the one picked had idled out and its reconnect was refused during this call. A
        # pool that lost a connection it once had is a different defect.
        connected_before = any(ev.name == "connect" and ev.args[1] != 0 for r in recs for ev in r.get("raw_events", []))
        refused_now = any(ev.name == "connect" and ev.args[1] == 0 for ev in last.get("raw_events", []))
        # F24 (debug builds) is the addition `last.offset + 1` in a poll and the subtraction `offset - 1` at consumer creation; an
        # overflow panic anywhere else is not that finding
        f24_site = (b"attempt to add with overflow" in msg and last["op"].name == "poll") or \
                   (b"attempt to subtract with overflow" in msg and last["op"].name == "consumer_build")
        for cls, pats in KNOWN:
            if b"available connection" in msg and connected_before and not refused_now:
                continue
            if cls.startswith("C13-offset-overflow-debug") and not f24_site:
                continue
            if any(p in msg for p in pats):
                fails.append("%s %s panicked: %s" % (cls, what, msg[:80].decode("latin-1")))
                break
        else:
            fails.append("C13: %s panicked: %s" % (what, msg[:100].decode("latin-1")))
    no_object = (res.name == "harness_error" and len(recs) >= 2 and recs[-2]["op"].name in ("consumer_build", "producer_build")
                 and recs[-2]["impl"].name == "err")      # the builder returned an error: there is nothing to call afterwards
    if len(recs) < len(case["ops"]) and res.name not in ("panic", "hang", "abort") and not no_object:
        fails.append("C13: %s case aborted early" % what)
    return fails


def nontrivial(case, recs):
    return len(recs) == len(case["ops"]) or recs[-1]["impl"].name in ("panic", "hang", "abort", "harness_error")


def stats(case, recs):
    m = case["meta"]
    r = recs[-1]["impl"].name if len(recs) == len(case["ops"]) or recs[-1]["impl"].name in ("panic", "hang", "abort") else "setup-failed"
    return {"target:" + m["target"]: 1, "mutation:" + m["label"]: 1, "outcome:" + r: 1, "profile:" + case.get("profile", "debug"): 1}
