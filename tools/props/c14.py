"""C14: retryable group errors are retried at most the configured number of times."""
import itertools

import kproto
from val import T, dumps
from props.common import boot_ops, brokers

SLICE = "group_coordinator lookup / offset commit / group offset fetch retry loops (Client.get_group_coordinator, commit_offsets, fetch_group_offsets)"
RULE = ("answer scripts for each of the three group operations (coordinator lookup via coordinator_script, offset commit via commit_script, "
        "group offset fetch via group_fetch_script): every sequence over {ok, 14, 16, 15, fatal} up to length 6 (quick: 4), taken modulo the part "
        "after the first ok/fatal answer (a call ends there; a client that goes on is caught by the request count) and with script end = ok, "
        "i.e. retryable^j.(ok|fatal) for j+1 <= N plus all retryable^N; x retry limits 0..5 (thorough: all six per script, quick: two seeded "
        "limits per script, one above and one not above the number of retryable answers) x coordinator placement over 2-3 brokers (thorough: two placements per script and limit) x offset storage v0/v1; 'moved' cases: a first group call caches a stale "
        "coordinator A (lookup answer rewritten by a body mutation), the call under test then meets 16 at A and must look the coordinator up "
        "again; 'endless' cases: an unlimited stream of one retryable code (injection without use count / 50-entry lookup script). "
        "non-trivial = the call under test received at least one retryable answer")
ASSUMPTIONS = ["the reference coordinator answers the scripted code in every partition of the commit / offset-fetch reply; "
               "a script entry 0 is answered by a broker that is not the coordinator with 16, as a real broker does",
               "retry budget: each coordinator lookup (a maximal run of lookup requests) and each commit / offset-fetch call has its own budget of max(1, limit) requests"]
EXHAUSTIVE = False

G = b"g"
T1 = b"t1"
RETRY = (14, 15, 16)
FATAL = (12, 25, 22, 1)
OPS = ("lookup", "commit", "fetch")


def sequences(n):
    """the quotient of all answer sequences of length <= n described in RULE; 'F' = fatal placeholder"""
    out = []
    for j in range(0, n):
        for pre in itertools.product(RETRY, repeat=j):
            out.append(list(pre) + [0])
            out.append(list(pre) + ["F"])
    for pre in itertools.product(RETRY, repeat=n):
        out.append(list(pre))
    return out


def group_op(kind, variant):
    if kind == "commit":
        return T("commit_offsets", [G, [T("co", [T1, 0, 5]), T("co", [T1, 1, 6])]])
    if variant == 0:
        return T("fetch_group_topic_offset", [G, T1])
    return T("fetch_group_offsets", [G, [T("fgo", [T1, 0]), T("fgo", [T1, 1])]])


def make_case(rng, kind, seq, limit, moved=False, endless=None, place=None, sequel=False, unlisted=False, lookups=0):
    nb, coord = place if place else (0, 0)
    nb = nb or rng.choice([2, 3])
    coord = coord or rng.randint(1, nb)
    fatal = rng.choice(FATAL)
    seq = [fatal if a == "F" else a for a in seq]
    storage = rng.choice([0, 1])
    spec = {"brokers": brokers(nb), "topics": {T1: [rng.randint(1, nb), rng.randint(1, nb)]}, "logs": {},
            "coordinator": {G: coord}, "committed": {G: {(T1, 0): 3, (T1, 1): 4}}}
    ops = boot_ops(spec) + [T("set_group_offset_storage", [storage]), T("set_retry_max_attempts", [limit])]
    if unlisted:
        # the coordinator is a live broker that the client's metadata does not list (it was down, or joined later, when the metadata
        # was loaded): the lookup's answer is then the only source of its address
        hidden = coord
        spec["topics"] = {T1: [rng.choice([n for n in range(1, nb + 1) if n != hidden]) for _ in range(2)]}
        body = {"brokers": [{"node_id": n, "host": h, "port": p} for n, (h, p) in sorted(spec["brokers"].items()) if n != hidden],
                "topics": [{"error": 0, "topic": T1, "partitions": [{"error": 0, "id": i, "leader": l, "replicas": [], "isr": []}
                                                                     for i, l in enumerate(spec["topics"][T1])]}]}
        ops[0] = T("client_new", [[h + b":" + str(p).encode() for n, (h, p) in sorted(spec["brokers"].items()) if n != hidden]])
        ops[1] = {"op": ops[1], "mutate": {"kind": "body", "api": "metadata", "body": body}}
    variant = rng.randint(0, 1)
    first = len(ops)
    if moved:
        stale = rng.choice([n for n in range(1, nb + 1) if n != coord])
        h, p = spec["brokers"][stale]
        pre_kind = rng.choice(["commit", "fetch"])
        # the first call caches the stale coordinator: its lookup is answered "stale", the stale broker answers a fatal code
        mut = {"api": "group_coordinator", "kind": "body", "body": {"error": 0, "coordinator_id": stale, "host": h, "port": p}}
        ops.append({"op": group_op(pre_kind, variant), "mutate": mut})
        spec["commit_script" if pre_kind == "commit" else "group_fetch_script"] = [fatal]
    if endless is not None:
        if kind == "lookup":
            spec["coordinator_script"] = {G: [endless] * 50}
        else:
            spec["inject"] = [("offset_commit" if kind == "commit" else "offset_fetch", None, None, endless, -1)]
        seq = [endless] * 50
    elif kind == "lookup":
        spec["coordinator_script"] = {G: list(seq)}
    else:
        key = "commit_script" if kind == "commit" else "group_fetch_script"
        spec[key] = spec.get(key, []) + list(seq)
    if lookups and kind != "lookup" and not moved and endless is None:
        # the lookup that precedes the first attempt is itself answered 'coordinator not available' a few times: the lookup and the
        # commit / offset fetch each have the full number of attempts
        spec["coordinator_script"] = {G: [15] * lookups}
    ops.append(group_op("fetch" if kind == "lookup" else kind, variant))
    under = len(ops) - 1
    if sequel and endless is None:
        # a further group call on the same client: what the call under test left in the coordinator cache is used here
        # (all scripts are used up by now: the brokers answer from their real state)
        ops.append(group_op(rng.choice(["commit", "fetch"]), rng.randint(0, 1)))
    return {"cluster": spec, "ops": ops,
            "meta": {"kind": kind, "seq": list(seq)[:8], "limit": limit, "moved": bool(moved), "endless": endless is not None,
                     "first": first, "storage": storage, "coord": coord, "under": under, "sequel": len(ops) - 1 > under, "unlisted": unlisted, "lookups": lookups}}


def pick_limits(rng, tier, seq):
    """thorough: all of 0..5; quick: one limit that lets the script reach its last answer and one that is used up before"""
    if tier != "quick":
        return list(range(6))
    j = sum(1 for a in seq if a in RETRY)
    hi = [l for l in range(6) if max(1, l) > j]
    lo = [l for l in range(6) if max(1, l) <= j]
    if hi and lo:
        return sorted([rng.choice(hi), rng.choice(lo)])
    return sorted(rng.sample(hi or lo, 2))


def gen(rng, tier):
    cases = []
    n = 4 if tier == "quick" else 6
    for kind in OPS:
        for seq in sequences(n):
            for limit in pick_limits(rng, tier, seq):
                # thorough: two placements per (script, limit): a random one and one with the coordinator on the last of 3 brokers
                for place in ([None] if tier == "quick" else [None, (3, 3)]):
                    cases.append(make_case(rng, kind, seq, limit, place=place, sequel=rng.random() < 0.5))
    for kind in ("commit", "fetch"):
        for seq in sequences(3 if tier == "quick" else 4):
            for limit in pick_limits(rng, tier, seq):
                cases.append(make_case(rng, kind, seq, limit, moved=True, sequel=rng.random() < 0.5))
    for kind in OPS:
        for code in RETRY:
            for limit in range(6):
                cases.append(make_case(rng, kind, [], limit, endless=code))
    # retryable answers to BOTH request kinds within one call
    for kind in ("commit", "fetch"):
        for seq in sequences(2 if tier == "quick" else 3):
            j = sum(1 for a in seq if a in RETRY)
            for limit in range(2, 6):
                for lk in range(1, limit):
                    if tier == "quick" and rng.random() < 0.5:
                        continue
                    cases.append(make_case(rng, kind, seq, limit, lookups=lk))
    # the coordinator is a broker the loaded metadata does not list
    for kind in OPS:
        for seq in sequences(2 if tier == "quick" else 3):
            for limit in pick_limits(rng, tier, seq):
                cases.append(make_case(rng, kind, seq, limit, place=(3, rng.randint(1, 3)), sequel=rng.random() < 0.5, unlisted=True))
    return cases


# ---- oracle ---------------------------------------------------------------------------------------

def group_events(rec):
    """[(api, host, code, named_host|None)] for the group requests of one op, read off what the brokers received and answered"""
    out = []
    for (h, payload), reply in zip(rec["requests"], rec["replies"]):
        try:
            rq = kproto.parse_request(payload)
        except kproto.ProtoError:
            continue
        api = rq["api"]
        if api not in ("group_coordinator", "offset_commit", "offset_fetch") or reply is None:
            continue
        _, body = kproto.parse_response(api, rq["api_version"], reply)
        if api == "group_coordinator":
            named = body["host"] + b":" + str(body["port"]).encode() if body["error"] == 0 else None
            out.append((api, h, body["error"], named))
        else:
            codes = [p["error"] for t in body["topics"] for p in t["partitions"]]
            if api == "offset_fetch":
                # protocol v0: 3 = nothing committed, not an error of the call
                codes = [0 if (c == 3 and rq["api_version"] == 0) else c for c in codes]
            bad = [c for c in codes if c != 0]
            out.append((api, h, bad[0] if bad else 0, None))
    return out


def check_op(op, rec, limit, cache, tag):
    """walks the requests of one group call; -> (failures, coordinator cached afterwards)"""
    L = max(1, limit)
    res = rec["impl"]
    main_api = "offset_commit" if op.name == "commit_offsets" else "offset_fetch"
    ev = group_events(rec)
    fails = []
    if res.name in ("hang", "panic", "abort"):
        return ["C14: %s: call ended in %s after %d group requests (limit %d)" % (tag, res.name, len(ev), limit)], cache
    attempts = 0          # main requests so far
    phase = 0             # lookups in the current run
    must = None           # what the client has to do next: None = free, "lookup", "main", ("stop", expected result)
    last = None
    for i, (api, h, code, named) in enumerate(ev):
        if isinstance(must, tuple):
            fails.append("C14: %s: request %d (%s) sent after the call had to end with %s (limit %d, %d attempts)" %
                         (tag, i, api, dumps(must[1]) if must[1] is not None else "success", limit, attempts))
            return fails, cache
        if api == "group_coordinator":
            if must == "main":
                pass      # an extra lookup is not forbidden
            phase += 1
            if phase > L:
                fails.append("C14: %s: %d coordinator lookups in a row, limit %d" % (tag, phase, limit))
                return fails, cache
            if code == 0:
                cache = named
                phase = 0
                must = "main"
            elif code in RETRY:
                must = "lookup" if phase < L else ("stop", T("err", [T("kafka", [code])]))
            else:
                must = ("stop", T("err", [T("kafka", [code])]))
        else:
            if api != main_api:
                fails.append("C14: %s: unexpected %s request" % (tag, api))
                return fails, cache
            if must == "lookup":
                fails.append("C14: %s: %s request %d sent without looking the coordinator up again after %s" %
                             (tag, api, i, "16" if last and last[2] == 16 else "a failed lookup"))
            if cache is None:
                fails.append("C14: %s: %s sent to %r although no coordinator is known" % (tag, api, h))
            elif h != cache:
                fails.append("C14: %s: %s sent to %r, the last lookup named %r" % (tag, api, h, cache))
            attempts += 1
            phase = 0
            if attempts > L:
                fails.append("C14: %s: %d %s requests, limit %d" % (tag, attempts, api, limit))
                return fails, cache
            if code == 0:
                must = ("stop", None)
            elif code in RETRY:
                if code == 16:
                    cache = None
                if attempts < L:
                    must = "lookup" if code == 16 else "main"
                else:
                    must = ("stop", T("err", [T("kafka", [code])]))
            else:
                must = ("stop", T("err", [T("kafka", [code])]))
        last = (api, h, code)
        if fails:
            return fails, cache
    if not ev:
        return ["C14: %s: no group request was sent; result %s" % (tag, dumps(res)[:80])], cache
    if not isinstance(must, tuple):
        api, h, code = last
        what = "%s answered %d on attempt %d of %d" % (api, code, attempts if api != "group_coordinator" else phase, L)
        if code == 0:
            fails.append("C14: %s: call ended after a successful lookup without sending the %s; result %s" % (tag, main_api, dumps(res)[:80]))
        elif api != "group_coordinator" and code == 15:
            fails.append("C14-code15-not-retried: %s: %s, the call ended with %s instead of trying again" % (tag, what, dumps(res)[:60]))
        elif api == "group_coordinator" and code in (14, 16):
            fails.append("C14-lookup-14-16-not-retried: %s: %s, the call ended with %s instead of trying again" % (tag, what, dumps(res)[:60]))
        else:
            fails.append("C14: %s: %s, the call ended with %s instead of trying again" % (tag, what, dumps(res)[:60]))
        return fails, cache
    exp = must[1]
    if exp is not None:
        if res != exp:
            fails.append("C14: %s: expected %s after %d attempts (limit %d), got %s" % (tag, dumps(exp), attempts, limit, dumps(res)[:80]))
    elif res.name != "ok":
        fails.append("C14: %s: attempt %d was answered ok (limit %d) but the call returned %s" % (tag, attempts, limit, dumps(res)[:80]))
    return fails, cache


def check_value(case, op, rec, cl):
    res = rec["impl"]
    if res.name != "ok":
        return []
    committed = case["cluster"].get("committed", {}).get(G, {})
    if op.name == "commit_offsets":
        want = {(c.args[0], c.args[1]): c.args[2] for c in op.args[1]}
        got = {k: v for k, v in cl.committed.get(G, {}).items() if k in want}
        if got != want:
            return ["C14: commit reported success but the coordinator holds %r, expected %r" % (got, want)]
        return []
    v = res.args[0]
    if op.name == "fetch_group_topic_offset":
        got = sorted((po.args[0], po.args[1]) for po in v)
    else:
        got = sorted((po.args[0], po.args[1]) for t in v if t.args[0] == T1 for po in t.args[1])
    want = sorted((p, committed.get((T1, p), -1)) for p in (0, 1))
    if got != want:
        return ["C14: group offset fetch returned %r, committed are %r" % (got, want)]
    return []


def oracle(case, recs, cl):
    m = case["meta"]
    fails = []
    cache = None
    for i in range(m["first"], len(case["ops"])):
        if i >= len(recs):
            if recs[-1]["impl"].name not in ("hang", "panic", "abort"):
                fails.append("C14: case aborted early")
            break
        item = case["ops"][i]
        op = item["op"] if isinstance(item, dict) else item
        under = m.get("under", len(case["ops"]) - 1)
        under_test = i == under
        tag = ("%s%s limit=%d seq=%s" % (m["kind"], " moved" if m["moved"] else "", m["limit"], m["seq"]) if under_test
               else "preparing call" if i < under else "sequel call after %s limit=%d seq=%s" % (m["kind"], m["limit"], m["seq"]))
        f, cache = check_op(op, recs[i], m["limit"], cache, tag)
        fails += f
        if not f and under_test:
            fails += check_value(case, op, recs[i], cl)
    for i in range(min(m["first"], len(recs))):
        if recs[i]["impl"].name != "ok":
            fails.append("C14: set-up op %d failed: %s" % (i, dumps(recs[i]["impl"])[:80]))
    return fails[:4]


def nontrivial(case, recs):
    if len(recs) < len(case["ops"]):
        return False
    return any(code in RETRY for (_, _, code, _) in group_events(recs[case["meta"].get("under", -1)]))


def stats(case, recs):
    m = case["meta"]
    s = {"op:" + m["kind"]: 1, "limit:%d" % m["limit"]: 1, "storage:v%d" % m["storage"]: 1,
         "brokers:%d" % len(case["cluster"]["brokers"]): 1}
    if m["moved"]:
        s["moved"] = 1
    if m.get("unlisted"):
        s["coordinator_not_in_metadata"] = 1
    if m.get("lookups"):
        s["lookup_retried_in_same_call"] = 1
    if m["endless"]:
        s["endless"] = 1
    else:
        s["script_len:%d" % len(m["seq"])] = 1
    if len(recs) == len(case["ops"]):
        ev = group_events(recs[m.get("under", -1)])
        s["retryable_answers_faced"] = sum(1 for e in ev if e[2] in RETRY)
        s["relookups_after_16"] = sum(1 for a, b in zip(ev, ev[1:]) if a[0] != "group_coordinator" and a[2] == 16 and b[0] == "group_coordinator")
        r = recs[m.get("under", -1)]["impl"]
        L = max(1, m["limit"])
        if m.get("sequel"):
            s["with_sequel_call"] = 1
        if r.name != "err":
            end = "success" if r.name == "ok" else r.name
        elif ev and ev[-1][2] in RETRY:
            if ev[-1][0] == "group_coordinator":
                n = 0
                for e in reversed(ev):
                    if e[0] != "group_coordinator":
                        break
                    n += 1
            else:
                n = sum(1 for e in ev if e[0] != "group_coordinator")
            end = "budget_exhausted" if n >= L else "gave_up_early"
        else:
            end = "fatal_code"
        s["end:" + end] = 1
    return s
