"""C01: the consumer delivers every log message exactly once, in order, per partition."""
import kproto
from val import T, dumps
from props.common import boot_ops, brokers, rand_bytes, rand_topic

SLICE = "Consumer::poll / seek (fetch_messages, process_fetch_responses, MessageSets iteration, fetch-offset bookkeeping)"
RULE = ("random clusters of 1-3 brokers x 1-3 topics x 1-4 partitions with random leaders (some partitions leaderless), per-partition logs "
        "of 0-8 entries that are all-plain or made of gzip/snappy wrapper batches only (codec drawn per batch), offset gaps, null/empty "
        "keys and values, values carrying the partition label; fetch size f drawn relative to the largest log entry M "
        "(M, M+1, M+1..40, 2M, 3M+5, 1 MiB) so that replies are cut by max_bytes inside entries; reply listing order as requested / "
        "reversed / seeded shuffle; consumers from earliest over all or some topics (or explicit partition subsets); histories of 1-12 ops "
        "over poll, seek to an offset inside the log (existing offsets, gap offsets, inside a wrapper, log end), poll with an injected "
        "partition error code, poll with an I/O failure (reply not delivered / connect refused with idle-timeout 0, write of the last "
        "request refused), followed by as many clean polls as the largest partition needs; two focused families: 'fill' (>= 2 partitions of one "
        "topic on one broker with different fill levels, so that an empty partition is listed before a non-empty one) and 'errlast' (error "
        "injected into one of several non-empty partitions of one broker); non-trivial = messages were delivered by at least two "
        "successful polls or by a successful poll after a failed one")
ASSUMPTIONS = ["the reference broker (tools/cluster.py) serves the raw log bytes from the batch containing the requested offset, cut at max_bytes",
               "I/O failures are generated in the forms whose wire effect the case determines: a reply that is not delivered (timeout / end of "
               "stream) to consumers that reconnect for every call (idle timeout 0), a refused connect, a refused write of the last request; "
               "a read failure on a connection the client keeps using leaves the reply unread and is generated as the separate family "
               "'latereply' whose failures carry the class C01-late-reply"]
EXHAUSTIVE = False

CODES = [1, 2, 3, 5, 6, 7, 9, 10, 14, 16, 29, 35, -1, 36, 127]


# ---- helpers shared with c17 ----------------------------------------------------------------------------

def view(entries):
    """what the consumer must show for a log: (offset, key, value) with null shown as empty"""
    return [(o, k or b"", v or b"") for (o, k, v) in kproto.flatten_entries(entries)]


def entry_size(e):
    return len(kproto.encode_entries([e]))


def gen_log(rng, tag, nentries, style, start=0, maxval=24, gaps=True):
    """style 'plain': nentries plain messages; 'wrap': nentries wrapper batches (codec per batch) of 1-3 messages"""
    off, entries = start, []
    for _ in range(nentries):
        n = 1 if style == "plain" else rng.randint(1, 3)
        msgs = []
        for _ in range(n):
            if gaps and rng.random() < 0.2:
                off += rng.randint(1, 3)
            k = None if rng.random() < 0.4 else rand_bytes(rng, 0, 4)
            r = rng.random()
            v = None if r < 0.06 else b"" if r < 0.1 else tag + b"#%d." % off + rand_bytes(rng, 0, maxval)
            msgs.append(("plain", off, k, v))
            off += 1
        if style == "plain":
            entries.extend(msgs)
        else:
            entries.append(("wrap", rng.choice(["gzip", "snappy"]), msgs[-1][1], msgs))
    return entries


def poll_sets(res):
    """impl result of a successful poll -> (flag, [(topic, partition, [(offset, key, value)])])"""
    ms = res.args[0]
    flag, sets = ms.args[0], ms.args[1]
    return flag, [(s.args[0], s.args[1], [(m.args[0], m.args[1], m.args[2]) for m in s.args[2]]) for s in sets]


def fetch_requests(rec):
    """[(host, topic, partition, offset, max_bytes)] of the fetch requests the brokers received during the op"""
    out = []
    for h, payload in rec["requests"]:
        try:
            rq = kproto.parse_request(payload)
        except kproto.ProtoError:
            continue
        if rq["api"] != "fetch":
            continue
        for t in rq["body"]["topics"] or []:
            for p in t["partitions"] or []:
                out.append((h, t["topic"], p["partition"], p["offset"], p["max_bytes"]))
    return out


def fetch_replies(rec):
    """[[(topic, [(partition, error, highwatermark, message_set bytes)])]] per fetch reply sent during the op"""
    out = []
    for rep in rec["replies"]:
        if rep is None:
            continue
        try:
            _, body = kproto.parse_response("fetch", 0, rep)
        except Exception:
            continue
        out.append([(t["topic"], [(p["partition"], p["error"], p["highwatermark"], p["message_set"] or b"")
                                  for p in t["partitions"] or []]) for t in body["topics"] or []])
    return out


def io_fault(rec):
    """was an I/O operation of this op refused / failed / ended the stream?"""
    kinds = set()
    for ev in rec["raw_events"]:
        if ev.name == "connect" and ev.args[1] == 0:
            kinds.add("connect")
        elif ev.name in ("write", "read"):
            o = ev.args[2]
            if o.name == "fail":
                kinds.add(ev.name)
            elif ev.name == "read" and o.name == "data" and len(o.args[0]) == 0 and ev.args[1] > 0:
                kinds.add("read")
    return kinds


class Tracker:
    """per-partition expectation: the log from the start / last seek offset onward, consumed by successful polls"""

    def __init__(self, spec, assigned, pid="C01"):
        self.pid = pid
        self.leader = {(t, p): l for t, ls in spec["topics"].items() for p, l in enumerate(ls)}
        self.assigned = [tuple(a) for a in assigned]
        self.logs = {tp: view(spec.get("logs", {}).get(tp, [])) for tp in self.assigned}
        self.pos = {}
        for tp in self.assigned:
            start = (spec.get("log_start") or {}).get(tp)
            self.pos[tp] = start if start is not None else (self.logs[tp][0][0] if self.logs[tp] else 0)
        self.delivered = {tp: 0 for tp in self.assigned}
        self.polls_with_data = {tp: 0 for tp in self.assigned}

    def remaining(self, tp):
        return [m for m in self.logs[tp] if m[0] >= self.pos[tp]]

    def seek(self, tp, off):
        self.pos[tp] = off

    def deliver(self, sets, where):
        """checks one successful poll's message sets and advances the expectation"""
        fails, seen = [], set()
        for topic, part, msgs in sets:
            tp = (topic, part)
            if tp not in self.logs:
                fails.append("%s: %s delivered a set labelled %r:%d which the consumer does not consume" % (self.pid, where, topic, part))
                continue
            if tp in seen:
                fails.append("%s: %s delivered partition %r:%d twice in one poll" % (self.pid, where, topic, part))
            seen.add(tp)
            if not msgs:
                continue
            rem = self.remaining(tp)
            exp = rem[:len(msgs)]
            if msgs != exp:
                offs = [m[0] for m in msgs]
                eoffs = [m[0] for m in exp]
                if any(b <= a for a, b in zip(offs, offs[1:])):
                    what = "offsets not increasing %s" % offs[:8]
                elif offs[0] < self.pos[tp]:
                    what = "duplicate: offset %d delivered again (next expected %d)" % (offs[0], self.pos[tp])
                elif offs != eoffs:
                    what = "skipped/misplaced: delivered offsets %s, log continues with %s" % (offs[:8], eoffs[:8])
                else:
                    j = next(i for i, (a, b) in enumerate(zip(msgs, exp)) if a != b)
                    what = "offset %d key/value differ: got (%s, %s) log has (%s, %s)" % (
                        msgs[j][0], msgs[j][1].hex()[:24], msgs[j][2].hex()[:40], exp[j][1].hex()[:24], exp[j][2].hex()[:40])
                fails.append("%s: %s partition %r:%d %s" % (self.pid, where, topic, part, what))
            self.pos[tp] = msgs[-1][0] + 1
            self.delivered[tp] += len(msgs)
            self.polls_with_data[tp] += 1
        return fails


def polls_needed(entries, f):
    """number of fetches the reference broker needs to hand out a log when every reply is cut at f bytes and only
    complete top-level entries count (wrapper logs: one batch per fetch is enough for the bound)"""
    if any(e[0] == "wrap" for e in entries):
        return len(entries)
    n, i = 0, 0
    sizes = [entry_size(e) for e in entries]
    while i < len(sizes):
        room, j = f, i
        while j < len(sizes) and sizes[j] <= room:
            room -= sizes[j]
            j += 1
        if j == i:
            return 10 ** 6      # an entry larger than f: C17's subject
        n, i = n + 1, j
    return n


# ---- generator --------------------------------------------------------------------------------------------

def topic_names(rng, n):
    names = []
    while len(names) < n:
        t = rand_topic(rng) if rng.random() < 0.25 else b"t%d" % len(names)
        if t not in names:
            names.append(t)
    return names


def make_case(rng, focus="random", profile="debug"):
    late = focus == "latereply"
    nb = rng.randint(1, 3)
    names = topic_names(rng, rng.randint(1, 3))
    topics, logs = {}, {}
    for ti, t in enumerate(names):
        np_ = rng.randint(1, 4)
        if focus in ("fill", "errlast") and ti == 0:
            np_ = rng.randint(2, 4)
            l = rng.randint(1, nb)
            leaders = [l] * np_
            if np_ > 2 and rng.random() < 0.3:
                leaders[rng.randrange(np_)] = rng.choice([-1] + list(range(1, nb + 1)))
        else:
            leaders = [(-1 if rng.random() < 0.12 else rng.randint(1, nb)) for _ in range(np_)]
            if all(l < 0 for l in leaders):
                leaders[rng.randrange(np_)] = rng.randint(1, nb)
        topics[t] = leaders
        style_t = "plain" if late else rng.choice(["plain", "wrap", "mixed"])
        if focus == "fill" and ti == 0:
            fills = [rng.choice([0, 0, 1]), rng.randint(3, 8)] + [rng.choice([0, 1, 2, 5]) for _ in range(np_ - 2)]
            rng.shuffle(fills)
        elif focus == "errlast" and ti == 0:
            fills = [rng.randint(2, 6) for _ in range(np_)]
        elif late:
            fills = [rng.randint(3, 8) for _ in range(np_)]
        else:
            fills = [rng.choice([0, 0, 1, 2, 3, 5, 8]) for _ in range(np_)]
        for p in range(np_):
            style = style_t if style_t != "mixed" else rng.choice(["plain", "wrap"])
            if fills[p]:
                logs[(t, p)] = gen_log(rng, t + b"/%d" % p, fills[p], style, start=rng.choice([0, 0, 1, 5, 1000]),
                                       maxval=rng.choice([4, 24, 60]))
            elif rng.random() < 0.5:
                logs[(t, p)] = []
    spec = {"brokers": brokers(nb), "topics": topics, "logs": logs}
    r = rng.random()
    if r < 0.35:
        spec["order"] = "reversed"
    elif r < 0.7:
        spec["order"] = rng.randint(0, 10 ** 6)
    # subscription
    sub_topics = list(names)
    if len(names) > 1 and rng.random() < 0.25 and focus == "random":
        sub_topics = rng.sample(names, rng.randint(1, len(names) - 1))
    calls, assigned = [], []
    for t in sub_topics:
        n = len(topics[t])
        if rng.random() < 0.15 and focus == "random":
            ps = sorted(rng.sample(range(n), rng.randint(1, n)))
            if all(topics[t][p] < 0 for p in ps):
                ps = list(range(n))
            calls.append(T("with_topic_partitions", [t, ps]))
        else:
            ps = list(range(n))
            calls.append(T("with_topic", [t]))
        assigned += [(t, p) for p in ps]
    rng.shuffle(calls)
    live = [tp for tp in assigned if topics[tp[0]][tp[1]] >= 1]
    sizes = [entry_size(e) for tp in live for e in logs.get(tp, [])]
    M = max(sizes) if sizes else rng.randint(40, 200)
    f = rng.choice([M, M, M + 1, M + rng.randint(1, 40), M + rng.randint(1, 40), 2 * M, 3 * M + 5, 1 << 20])
    stuck = None
    if focus == "oversize" and len(live) >= 2:
        # one partition holds an entry larger than the fetch size (retrying disabled: the default limit 0): polls that fetch it
        # alone fail with MessageSizeTooLarge; the other partitions must lose nothing meanwhile
        f = rng.choice([M, M + 1, M + rng.randint(1, 40)])
        tp = rng.choice(live)
        lg = list(logs.get(tp, []))
        lg = [e for e in lg if e[0] == "plain"] if any(e[0] == "wrap" for e in lg) and rng.random() < 0.5 else lg
        pos = rng.randint(0, len(lg))
        prev_last = view(lg[:pos])[-1][0] if view(lg[:pos]) else (rng.choice([0, 3]) - 1)
        nxt_first = view(lg[pos:])[0][0] if view(lg[pos:]) else None
        big_off = prev_last + 1
        if nxt_first is None or big_off < nxt_first:
            big = ("plain", big_off, None, bytes(rng.getrandbits(8) for _ in range(f + rng.randint(1, 60))))
            logs[tp] = lg[:pos] + [big] + lg[pos:]
            stuck = [tp[0], tp[1], big_off]
    idle0 = (not late) and rng.random() < 0.4
    calls += [T("with_fallback_offset", [T("earliest")]), T("with_fetch_max_bytes_per_partition", [f])]
    if idle0:
        calls.append(T("with_connection_idle_timeout", [0, 0]))
    ops = boot_ops(spec)
    nboot = len(ops)
    ops.append(T("consumer_build", [T("from_client"), calls]))
    # hosts a full poll talks to, with the number of partitions each is asked for
    hostparts = {}
    for (t, p) in live:
        h, port = spec["brokers"][topics[t][p]]
        hn = h + b":" + str(port).encode()
        hostparts[hn] = hostparts.get(hn, 0) + 1
    hostnames = sorted(hostparts)
    nhosts = len(hostnames)
    # I/O failures whose effect on the wire is determined by the case (see the report: the order of partitions in a request
    # that never reaches a broker cannot be told to the model):
    #  read   - the k-th reply is not delivered (timeout / end of stream); clean only when every call reconnects (idle timeout 0)
    #  unreach- connect refused (idle timeout 0, a single broker involved)
    #  write  - the last request is refused (every broker is asked for exactly one partition)
    io_opts = []
    if idle0 and nhosts:
        io_opts += ["read", "read", "read"]
        if nhosts == 1:
            io_opts += ["unreach", "unreach"]
    if nhosts and all(n == 1 for n in hostparts.values()):
        io_opts += ["write", "write"]
    hist = []
    nh = rng.randint(1, 12)
    ninject = 0
    pending_unreach = False
    late_at = rng.randrange(nh) if late else -1
    for hi_ in range(nh):
        r = rng.random()
        item = {"op": T("poll")}
        kind = "poll"
        if focus == "fill":
            r = r * 0.75 if r > 0.1 else 0.95        # mostly polls, a few errors
        if focus == "errlast" and rng.random() < 0.45:
            r = 0.8
        if late:
            r = 2.0 if hi_ == late_at else r * 0.75
        if r < 0.55:
            pass
        elif r < 0.75:
            tp = rng.choice(assigned)
            lg = view(logs.get(tp, []))
            if lg:
                lo, hi = lg[0][0], lg[-1][0] + 1
                off = rng.choice([lo, hi, rng.choice(lg)[0], rng.randint(lo, hi), rng.randint(lo, hi)])
            else:
                off = 0
            item = {"op": T("consumer_op", [T("seek", [tp[0], tp[1], off])])}
            kind = "seek"
        elif r > 1.0:
            # a reply that stays unread on a connection the client keeps using (known finding class C01-late-reply)
            idx = 3 * rng.randrange(max(1, nhosts)) + rng.choice([1, 2])
            item["plan"] = {"read": {idx: rng.choice([["fail", "timeout"], "eof"])}}
            kind = "readfail-keepconn"
        elif r < 0.88 or not io_opts:
            tp = rng.choice(live if (live and rng.random() < 0.9) else assigned)
            item["inject"] = [("fetch", tp[0], tp[1], rng.choice(CODES), 1)]
            ninject += 1
            kind = "inject"
        else:
            q = rng.choice(io_opts)
            if q == "unreach":
                item["unreachable"] = [hostnames[0]]
                pending_unreach = True
                kind = "unreachable"
            elif q == "write":
                item["plan"] = {"write": {3 * (nhosts - 1): ["fail", rng.choice(["timeout", "other"])]}}
                kind = "writefail"
            else:
                idx = 3 * rng.randrange(nhosts) + rng.choice([1, 2])
                item["plan"] = {"read": {idx: rng.choice([["fail", "timeout"], "eof"])}}
                kind = "readfail"
        if pending_unreach and kind != "unreachable":
            item["unreachable"] = []
            pending_unreach = False
        hist.append(kind)
        ops.append(item if len(item) > 1 else item["op"])
    # clean tail: as many polls as the slowest partition can need, +1 to see the final empty poll, + one per possibly pending injection
    def before_big(tp):
        es = logs.get(tp, [])
        if stuck and (tp[0], tp[1]) == (stuck[0], stuck[1]):
            return [e for e in es if view([e])[-1][0] < stuck[2]]
        return es
    need = max([polls_needed(before_big(tp), f) for tp in live] + [0])
    ntail = need + 1 + ninject
    if stuck:
        ntail = 2 * ntail + 3      # every other poll fetches the stuck partition alone and fails
    for i in range(ntail):
        ops.append({"op": T("poll"), "unreachable": []} if i == 0 else T("poll"))
    return {"cluster": spec, "ops": ops, "profile": profile,
            "meta": {"nboot": nboot, "assigned": assigned, "f": f, "hist": hist, "ntail": ntail, "focus": focus, "idle0": idle0,
                     "maxentry": M, "stuck": stuck}}


LATE_REPLY_CASES = 12     # per quick tier; these exercise the known finding class C01-late-reply


def gen(rng, tier):
    n = 1 if tier == "quick" else 8
    cases = []
    for _ in range(220 * n):
        cases.append(make_case(rng, "random"))
    for _ in range(130 * n):
        cases.append(make_case(rng, "fill"))
    for _ in range(90 * n):
        cases.append(make_case(rng, "errlast"))
    for _ in range(30 * n):
        cases.append(make_case(rng, rng.choice(["random", "fill", "errlast"]), profile="release"))
    for _ in range(LATE_REPLY_CASES * n):
        cases.append(make_case(rng, "latereply"))
    for _ in range(70 * n):
        cases.append(make_case(rng, "oversize", profile=rng.choice(["debug", "release"])))
    return cases


# ---- oracle -----------------------------------------------------------------------------------------------------

def walk(case, recs, pid="C01"):
    """-> (failures, tracker, info) ; info: counters used by nontrivial/stats"""
    m = case["meta"]
    spec = case["cluster"]
    info = {"ok_polls": 0, "failed_polls": 0, "data_polls": 0, "data_after_failure": 0, "empty_before_nonempty": 0,
            "err_after_data": 0, "cut": 0, "late": 0, "multi_part_reply": 0, "seeks": 0, "fail_kinds": {}, "late_any": False}
    fails = []
    nboot = m["nboot"]
    last = recs[-1]["impl"]
    if last.name in ("panic", "hang", "abort", "harness_error"):
        fails.append("%s: op %d (%s) crashed: %s" % (pid, len(recs) - 1, recs[-1]["op"].name, dumps(last)[:120]))
    if len(recs) <= nboot:
        return fails or ["%s: boot failed" % pid], None, info
    b = recs[nboot]["impl"]
    if b.name != "ok":
        return fails + ["%s: consumer_build failed: %s" % (pid, dumps(b)[:100])], None, info
    tr = Tracker(spec, m["assigned"], pid)
    f = m["f"]
    tag = pid               # becomes "<pid>-late-reply" once reply bytes were left unread on a connection that stays in use
    failed_before = False
    for i in range(nboot + 1, len(recs)):
        rec = recs[i]
        op, res = rec["op"], rec["impl"]
        where = "op %d" % i
        if op.name == "consumer_op" and op.args[0].name == "seek":
            t, p, off = op.args[0].args
            info["seeks"] += 1
            if res != T("ok", [[]]):
                fails.append("%s: %s seek on a consumed partition failed: %s" % (tag, where, dumps(res)[:80]))
            else:
                tr.seek((t, p), off)
            continue
        if op.name != "poll" or res.name not in ("ok", "err"):
            continue
        faults = io_fault(rec)
        replies = fetch_replies(rec)
        served_err = [(t, p, e) for rep in replies for (t, ps) in rep for (p, e, hw, msb) in ps if e != 0]
        # what this poll asked for: every request continues exactly where the deliveries stand
        reqs = fetch_requests(rec)
        seen = set()
        for (h, t, p, off, mb) in reqs:
            tp = (t, p)
            if tp not in tr.logs:
                fails.append("%s: %s fetch request for %r:%d which is not consumed" % (tag, where, t, p))
                continue
            if tp in seen:
                fails.append("%s: %s partition %r:%d requested twice in one poll" % (tag, where, t, p))
            seen.add(tp)
            if off != tr.pos[tp]:
                fails.append("%s: %s fetch request for %r:%d asks offset %d, next undelivered offset is %d" % (tag, where, t, p, off, tr.pos[tp]))
            if pid == "C01" and mb != f:
                fails.append("%s: %s fetch request for %r:%d uses max_bytes %d, configured %d" % (tag, where, t, p, mb, f))
        # input-distribution facts read off the replies
        for rep in replies:
            if sum(len(ps) for _, ps in rep) > 1:
                info["multi_part_reply"] += 1
            for (t, ps) in rep:
                hollow = False
                for (p, e, hw, msb) in ps:
                    ents, used = ([], 0) if e else kproto.parse_message_set_prefix(msb)
                    if msb and used < len(msb):
                        info["cut"] += 1
                    if ents and hollow:
                        info["empty_before_nonempty"] += 1
                    if not ents:
                        hollow = True
            flat = [(e, msb) for (t, ps) in rep for (p, e, hw, msb) in ps]
            if flat and flat[-1][0] != 0 and any(e == 0 and msb for e, msb in flat[:-1]):
                info["err_after_data"] += 1
        if res.name == "err":
            info["failed_polls"] += 1
            k = "io:" + "+".join(sorted(faults)) if faults else "code" if served_err else "none"
            info["fail_kinds"][k] = info["fail_kinds"].get(k, 0) + 1
            stuck = m.get("stuck")
            too_large_ok = (res == T("err", [T("kafka", [10])]) and stuck is not None and len(reqs) == 1
                            and (reqs[0][1], reqs[0][2]) == (stuck[0], stuck[1]) and tr.pos[(stuck[0], stuck[1])] == stuck[2])
            if too_large_ok:
                info["fail_kinds"]["toolarge"] = info["fail_kinds"].get("toolarge", 0) + 1
            elif not faults and not served_err:
                fails.append("%s: %s poll failed (%s) although no partition reported an error and no I/O failed" % (tag, where, dumps(res)[:60]))
            if "read" in faults and not m.get("idle0"):
                tag = pid + "-late-reply"
                tr.pid = tag
                info["late"] += 1
                info["late_any"] = True
            failed_before = True
            continue
        # successful poll
        info["ok_polls"] += 1
        if served_err:
            fails.append("%s: %s poll succeeded although partition %r:%d answered error code %d" % ((tag, where) + served_err[0]))
        flag, sets = poll_sets(res)
        nmsgs = sum(len(ms) for _, _, ms in sets)
        if (flag == 1) != (nmsgs == 0):
            fails.append("%s: %s is_empty()=%d but iterating yields %d message sets with %d messages" % (tag, where, flag, len(sets), nmsgs))
        asked = set((t, p) for (_, t, p, _, _) in reqs)
        for (t, p, ms) in sets:
            if (t, p) in tr.logs and (t, p) not in asked:
                fails.append("%s: %s delivered data for %r:%d which was not requested in this poll" % (tag, where, t, p))
        fails += tr.deliver(sets, where)
        if nmsgs:
            info["data_polls"] += 1
            if failed_before:
                info["data_after_failure"] += 1
    return fails, tr, info


def oracle(case, recs, cl):
    fails, tr, info = walk(case, recs)
    if tr is None:
        return fails[:6]
    # liveness: after the clean tail every partition with a leader is drained
    if len(recs) == len(case["ops"]):
        for tp in tr.assigned:
            if tr.leader.get(tp, -1) < 1:
                if tr.delivered[tp]:
                    fails.append("%s: leaderless partition %r:%d delivered data" % ((tr.pid,) + tp))
                continue
            rem = tr.remaining(tp)
            st = case["meta"].get("stuck")
            if st and (tp[0], tp[1]) == (st[0], st[1]):
                rem = [x for x in rem if x[0] < st[2]]      # nothing behind the oversized entry can be delivered
            if rem:
                fails.append("%s: after %d clean polls %d messages of %r:%d are still undelivered (next expected offset %d)"
                             % (tr.pid, case["meta"]["ntail"], len(rem), tp[0], tp[1], rem[0][0]))
    return fails[:6]


def nontrivial(case, recs):
    if len(recs) != len(case["ops"]):
        return False
    _, tr, info = walk(case, recs)
    if tr is None:
        return False
    return info["data_after_failure"] > 0 or any(n >= 2 for n in tr.polls_with_data.values())


def stats(case, recs):
    m = case["meta"]
    spec = case["cluster"]
    s = {"focus:" + m["focus"]: 1, "brokers:%d" % len(spec["brokers"]): 1, "topics:%d" % len(spec["topics"]): 1,
         "order:%s" % ("shuffled" if isinstance(spec.get("order"), int) else spec.get("order", "as-requested")): 1,
         "profile:" + case.get("profile", "debug"): 1, "idle_timeout_0": 1 if m.get("idle0") else 0}
    for t, ls in spec["topics"].items():
        s["partitions_per_topic:%d" % len(ls)] = s.get("partitions_per_topic:%d" % len(ls), 0) + 1
        s["leaderless_partitions"] = s.get("leaderless_partitions", 0) + sum(1 for l in ls if l < 0)
    for tp, lg in spec["logs"].items():
        kinds = set(e[0] if e[0] == "plain" else e[1] for e in lg) or {"empty"}
        for k in kinds:
            s["log_with:" + k] = s.get("log_with:" + k, 0) + 1
        offs = [o for (o, _, _) in kproto.flatten_entries(lg)]
        if any(b - a > 1 for a, b in zip(offs, offs[1:])):
            s["log_with:gaps"] = s.get("log_with:gaps", 0) + 1
    s["fetch_size:%s" % ("=maxentry" if m["f"] == m["maxentry"] else "maxentry+1" if m["f"] == m["maxentry"] + 1 else
                         "<2*maxentry" if m["f"] < 2 * m["maxentry"] else "large" if m["f"] >= 1 << 20 else ">=2*maxentry")] = 1
    for k in m["hist"]:
        s["hist_op:" + k] = s.get("hist_op:" + k, 0) + 1
    s["hist_len:%s" % ("1-3" if len(m["hist"]) <= 3 else "4-8" if len(m["hist"]) <= 8 else "9-12")] = 1
    _, tr, info = walk(case, recs)
    for k in ("ok_polls", "failed_polls", "data_polls", "data_after_failure", "empty_before_nonempty", "err_after_data", "cut",
              "multi_part_reply", "late"):
        s["seen:" + k] = info[k]
    for k, v in info["fail_kinds"].items():
        s["failed_poll:" + k] = v
    s["cases_with:empty_before_nonempty"] = 1 if info["empty_before_nonempty"] else 0
    s["cases_with:error_listed_last_after_data"] = 1 if info["err_after_data"] else 0
    s["cases_with:reply_cut_by_max_bytes"] = 1 if info["cut"] else 0
    return s
